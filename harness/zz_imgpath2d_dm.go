package main

// Work package imgpath2d, Data Matrix (wrapped into suite C02): the PURE-BARCODE image path as a whole.
//
//   real:   DataMatrixWriter.Encode(text, w, h, hints)  ->  *BitMatrix handed over as image.Image
//           -> NewBinaryBitmapFromImage (NewLuminanceSourceFromImage + HybridBinarizer) -> GetBlackMatrix
//           -> DataMatrixReader.Decode(bitmap, {PURE_BARCODE}) (extractPureBits -> Decoder.Decode)
//   model:  Gzx.ImagePath.dmImagePath (Render.renderDM -> lumOfImage -> Binarizer.hybridSets -> blackImg ->
//           Det.Pure.DM.extractPureBits -> DMDec.decodeMatrix), driver prefix `img2d`
//
// Every layer is compared: rendered image (dims + pixel hash), black matrix (dims + pixel hash or error kind), the
// matrix read off by extractPureBits (hook VerifExtractPureBits), the final text / error kind.
// ORACLE of C02 on the real code (clause "… or the rendered image read in pure-barcode mode, returns exactly that
// text"): for every symbol the writer returns, at every requested size, the reader must return exactly the text as
// DATA_MATRIX.  Sizes are the boundaries the theorems name: the 40-pixel threshold of the local binariser on either
// axis (39/40/41), the fit / no-fit boundary of convertByteMatrixToBitMatrix (symbol-1, symbol, symbol+1 on either
// axis), exact multiples of the symbol and their neighbours, strongly anisotropic requests, zero and negative.
// A second stream hands ARBITRARY bit pictures (posed symbols with any quiet zone, specks, crops, fractional pitch,
// degenerate pictures) to the same bitmap/reader path and compares it with the model (`img2d dmpic`).

import (
	"fmt"
	"image"
	"strings"

	"github.com/makiuchi-d/gozxing"
	"github.com/makiuchi-d/gozxing/datamatrix"
)

func init() {
	prev := suites["C02"]
	suites["C02"] = func(c *Ctx) {
		if prev != nil {
			prev(c)
		}
		imgpath2dDMSuite(c)
	}
	prevDev := suites["imgpath2d"]
	suites["imgpath2d"] = func(c *Ctx) {
		if prevDev != nil {
			prevDev(c)
		}
		imgpath2dDMSuite(c)
	}
}

var imgpath2dPure = map[gozxing.DecodeHintType]interface{}{gozxing.DecodeHintType_PURE_BARCODE: true}

func imgpath2dShowPic(bm *gozxing.BitMatrix) string {
	return fmt.Sprintf("%dx%d:%d", bm.GetWidth(), bm.GetHeight(), c14Hash(c14Rows(bm)))
}

// failure class of a final outcome: the error kind, PANIC, or "text"
func imgpath2dHead(out string) string {
	if strings.HasPrefix(out, "ERR:") || out == "PANIC" || out == "BOTH" || out == "NILNIL" {
		return out
	}
	return "text"
}

func imgpath2dErr(e error) string { return "ERR:" + errKind(e) }

// black matrix and read-off layers of a picture handed to NewBinaryBitmapFromImage
func imgpath2dBlackAndBits(img image.Image, extract func(*gozxing.BitMatrix) (*gozxing.BitMatrix, error)) (blackS, bitsS string) {
	var black *gozxing.BitMatrix
	blackS = Safe(func() string {
		bmp, e := gozxing.NewBinaryBitmapFromImage(img)
		if e != nil {
			return imgpath2dErr(e)
		}
		b, e := bmp.GetBlackMatrix()
		if e != nil {
			return imgpath2dErr(e)
		}
		black = b
		return imgpath2dShowPic(b)
	})
	bitsS = "-"
	if black != nil {
		bitsS = Safe(func() string {
			b, e := extract(cqrClone(black))
			if e != nil {
				return imgpath2dErr(e)
			}
			if b == nil {
				return "NILNIL"
			}
			return fmt.Sprintf("%dx%d:%s", b.GetWidth(), b.GetHeight(), c06detBits(b))
		})
	}
	return
}

// DataMatrixReader.Decode(bitmap, PURE_BARCODE) on a fresh bitmap: Latin-1 hex of the text | ERR:kind | PANIC
func imgpath2dDMRead(img image.Image) (out string, format gozxing.BarcodeFormat) {
	format = -1
	out = Safe(func() string {
		bmp, e := gozxing.NewBinaryBitmapFromImage(img)
		if e != nil {
			return imgpath2dErr(e)
		}
		res, e := datamatrix.NewDataMatrixReader().Decode(bmp, imgpath2dPure)
		if e != nil {
			if res != nil {
				return "BOTH"
			}
			return imgpath2dErr(e)
		}
		if res == nil {
			return "NILNIL"
		}
		format = res.GetBarcodeFormat()
		h, _ := c02Latin1(res.GetText())
		sm := "?"
		if v, ok := res.GetResultMetadata()[gozxing.ResultMetadataType_SYMBOLOGY_IDENTIFIER].(string); ok && strings.HasPrefix(v, "]d") {
			sm = v[2:]
		}
		return h + "|m=" + sm
	})
	return
}

func imgpath2dDMLayers(img image.Image) (line, out string, format gozxing.BarcodeFormat) {
	blackS, bitsS := imgpath2dBlackAndBits(img, datamatrix.VerifExtractPureBits)
	out, format = imgpath2dDMRead(img)
	return fmt.Sprintf("black=%s bits=%s out=%s", blackS, bitsS, out), out, format
}

// requested sizes at the boundaries the theorems name, for a symbol of mw x mh modules
func imgpath2dDMSizes(r *Rng, mw, mh int) [][2]int {
	ax := func(n int) []int {
		v := []int{0, 1, n - 1, n, n + 1, 2*n - 1, 2 * n, 2*n + 1, 39, 40, 41, 3 * n, 5*n + 2}
		if n < 40 { // the largest scale that stays below 40 pixels and the first one above
			k := 39 / n
			v = append(v, k*n, (k+1)*n)
		}
		return v
	}
	xs, ys := ax(mw), ax(mh)
	var out [][2]int
	// the diagonal, then mixed pairs (fit on one axis only, threshold on one axis only, anisotropic)
	for i := range xs {
		out = append(out, [2]int{xs[i], ys[i%len(ys)]})
	}
	for i := 0; i < 10; i++ {
		out = append(out, [2]int{xs[r.Intn(len(xs))], ys[r.Intn(len(ys))]})
	}
	out = append(out, [2]int{mw * r.Range(1, 4), 40 + r.Intn(200)}, [2]int{40 + r.Intn(200), mh}, [2]int{r.Range(1, 300), r.Range(1, 300)})
	return out
}

func imgpath2dDMCase(c *Ctx, r *Rng, text []byte, hints c02Hints, nSizes int, fixed ...[2]int) {
	w := datamatrix.NewDataMatrixWriter()
	var bare *gozxing.BitMatrix
	o := SafeT(20e9, func() string {
		m, e := w.Encode(c02ToString(text), gozxing.BarcodeFormat_DATA_MATRIX, 0, 0, hints.hintMap())
		if e != nil {
			return imgpath2dErr(e)
		}
		bare = m
		return "ok"
	})
	if bare == nil {
		c.Note("img2d dm encode " + o)
		return
	}
	mw, mh := bare.GetWidth(), bare.GetHeight()
	bits := c06detBits(bare)
	c.Note(fmt.Sprintf("img2d dm symbol %dx%d", mw, mh))
	sizes := imgpath2dDMSizes(r, mw, mh)
	if len(fixed) > 0 {
		sizes, nSizes = fixed, len(fixed)
	}
	if nSizes < len(sizes) { // keep the diagonal prefix deterministic, sample the rest
		keep := sizes[:0:0]
		for i, s := range sizes {
			if i < nSizes/2 || r.Intn(len(sizes)) < nSizes/2 {
				keep = append(keep, s)
			}
		}
		sizes = keep
	}
	wantHex := hexs(text)
	for _, sz := range sizes {
		reqW, reqH := sz[0], sz[1]
		var img *gozxing.BitMatrix
		ro := SafeT(20e9, func() string {
			m, e := w.Encode(c02ToString(text), gozxing.BarcodeFormat_DATA_MATRIX, reqW, reqH, hints.hintMap())
			if e != nil {
				return imgpath2dErr(e)
			}
			img = m
			return "ok"
		})
		in := fmt.Sprintf("text=%s hints=%s req=%dx%d", hexs(text), hints, reqW, reqH)
		if img == nil {
			c.Oracle("img2d-dm-image", false, "img2d-dm-render-refused", in, "the writer returned a symbol at 0x0 but not at the requested size: "+ro)
			continue
		}
		layers, out, format := imgpath2dDMLayers(img)
		goLine := "img=" + imgpath2dShowPic(img) + " " + layers
		c.Cmp("img2d-dm", fmt.Sprintf("img2d dm %d %d %s %d %d", mw, mh, bits, reqW, reqH), goLine)
		W, H := img.GetWidth(), img.GetHeight()
		class := "local"
		if W < 40 || H < 40 {
			class = "global"
		}
		ok := strings.HasPrefix(out, wantHex+"|m=") && format == gozxing.BarcodeFormat_DATA_MATRIX
		c.Oracle("img2d-dm-image", ok, "img2d-dm-image-roundtrip:"+class+":"+imgpath2dHead(out), in,
			fmt.Sprintf("symbol %dx%d rendered %dx%d, Reader.Decode(PURE_BARCODE) gave %s (format %v), want %s", mw, mh, W, H, c02Trunc(out), format, c02Trunc(wantHex)))
		c.Note("img2d dm binariser " + class + " " + imgpath2dHead(out))
		if reqW < mw || reqH < mh {
			c.Note("img2d dm branch bare")
		} else {
			c.Note("img2d dm branch scaled")
		}
	}
}

func imgpath2dDMPic(c *Ctx, m *gozxing.BitMatrix, class string) {
	layers, out, _ := imgpath2dDMLayers(m)
	c.Cmp("img2d-dm-pic", fmt.Sprintf("img2d dmpic %d %d %s", m.GetWidth(), m.GetHeight(), c06detBits(m)), layers)
	c.Note("img2d dmpic " + class + " " + imgpath2dHead(out))
}

func imgpath2dDMSuite(c *Ctx) {
	c.res.Rule += " || image path (imgpath2d, Data Matrix): every symbol size x requested image sizes at the 40-pixel binariser threshold, the fit/no-fit boundary of the renderer, exact multiples and anisotropic requests: " +
		"writer -> BitMatrix as image -> HybridBinarizer -> Reader.Decode(PURE_BARCODE) compared layer by layer (image, black matrix, matrix read off, text) with the composed Lean model; oracle: exactly the text as DATA_MATRIX; " +
		"plus arbitrary bit pictures (posed symbols, specks, crops, fractional pitch, degenerate) through the same path against the model"
	r := c.Rng.Fork()
	// (W) witnesses (corpus/C02/imgpath2d-global-notfound.txt): 10x10 symbols whose 24 modules under the pixels the global
	// histogram method samples are all dark — the only two among the 2^24 data-codeword triples; bare, pitch 2 and pitch 3
	// renderings are refused by the binariser (known finding), 40 pixels and above read (theorems dm_image_small_counterexample,
	// dm_image_witness_40)
	for _, w := range [][]byte{{0x7a, 0x1a, 0x78}, {0x60, 0x3b, 0x35, 0x37}} {
		imgpath2dDMCase(c, r, w, c02Hints{0, -1, -1, -1, -1}, 0, [2]int{0, 0}, [2]int{20, 20}, [2]int{30, 30}, [2]int{39, 39}, [2]int{40, 40}, [2]int{45, 45}, [2]int{10, 200})
	}
	// (A) every symbol size once (quick: the 16 sizes up to 64x64 and every rectangle; thorough: all 30), then random texts / hints
	for i, s := range c02Sizes {
		if c.Tier == "quick" && s.W > 64 {
			continue
		}
		text := c02GenText(r, s)
		h := c02Hints{0, -1, -1, -1, -1}
		if s.Rect {
			h.Shape = 2
		}
		n := c.Pick(8, 40)
		if i < 6 || s.Rect {
			n = c.Pick(16, 40)
		}
		imgpath2dDMCase(c, r, text, h, n)
	}
	for i, n := 0, c.Pick(12, 400); i < n; i++ {
		s := c02Sizes[r.Intn(len(c02Sizes))]
		if c.Tier == "quick" && s.W > 52 {
			s = c02Sizes[r.Intn(12)]
		}
		imgpath2dDMCase(c, r, c02GenText(r, s), c02GenHints(r), c.Pick(6, 16))
	}
	// (B) arbitrary pictures
	for i, n := 0, c.Pick(250, 6000); i < n; i++ {
		g := detrestGen(r, c.Pick(100, 200))
		imgpath2dDMPic(c, g.m, g.class)
	}
	// the global fallback's condition (theorem global_bilevel_exact_of_white_sample): pictures below 40 pixels that are
	// black over the whole sampled area but for ONE white pixel on / next to a sampled position (row h*k/5, columns w/5 .. 4w/5-1)
	for i, n := 0, c.Pick(60, 1500); i < n; i++ {
		w, h := r.Range(2, 39), r.Range(1, 39)
		if r.Chance(0.2) {
			w = r.Range(40, 60) // one axis above the threshold: still the global method
		}
		m := c06detNew(w, h)
		c06detRect(m, 0, 0, w-1, h-1, true)
		k := r.Range(1, 4)
		x := r.Pick([]int{w / 5, w*4/5 - 1, w/5 - 1, w * 4 / 5, r.Intn(w)})
		y := h*k/5 + r.Pick([]int{0, 0, 0, 1, -1})
		if x >= 0 && x < w && y >= 0 && y < h {
			c06detSet(m, x, y, false)
		}
		imgpath2dDMPic(c, m, "sample-area")
	}
	// posed Data Matrix symbols with integer pitch and independent quiet zones on the four sides (incl. 0), sized around 40
	for i, n := 0, c.Pick(60, 1500); i < n; i++ {
		sz := c06DMSizes[r.Intn(12)]
		si := c06DMSymbolInfo(sz[0], sz[1])
		if si == nil {
			continue
		}
		data, _ := c06GenDMStream(r, si.GetDataCapacity())
		s := c06DMSymbol(si, data)
		if s == nil {
			continue
		}
		class := "dm-posed"
		if r.Chance(0.35) { // damaged data modules (theorem dm_image_tolerates_block_errors: the image path is the matrix path)
			for j, nf := 0, r.Range(1, 6); j < nf; j++ {
				s.Flip(r.Range(1, s.GetWidth()-2), r.Range(1, s.GetHeight()-2))
			}
			class = "dm-posed-damaged"
		}
		k := r.Range(1, 4)
		q := func() int { return r.Pick([]int{0, 0, 1, 2, 3, 5, 9, 17}) }
		m := detrestRender(s, float64(k), float64(k), q(), q(), q(), q())
		imgpath2dDMPic(c, m, class)
	}
}
