package main

// Work package imgpath2d, QR (wrapped into suite C01): the PURE-BARCODE image path as a whole.
//
//   real:   QRCodeWriter.Encode(text, w, h, {EC, MARGIN, …})  ->  *BitMatrix handed over as image.Image
//           -> NewBinaryBitmapFromImage (NewLuminanceSourceFromImage + HybridBinarizer) -> GetBlackMatrix
//           -> QRCodeReader.Decode(bitmap, {PURE_BARCODE}) (extractPureBits with the float64 moduleSize -> Decoder.Decode)
//   model:  Gzx.ImagePath.qrImagePath (Render.renderQR -> lumOfImage -> Binarizer.hybridSets -> blackImg ->
//           Det.Pure.QR.extractPureBits FOps.float -> QRDec.decode), driver prefix `img2d`
//
// Layers compared: rendered image, black matrix, matrix read off (hook VerifExtractPureBits), decoded level / data
// bytes / text / byte segments / structured append / symbology modifier, or the error kind.
// ORACLE of C01 on the real code (clause "… or the rendered image read in pure-barcode mode"): exactly the text, the
// level, QR_CODE — at the boundary sizes of the theorems: image = symbol + quiet zone exactly (pitch 1), the
// 40-pixel threshold of the local binariser (39/40/41 on either axis), exact multiples of (n + 2·margin) and their
// neighbours (pitch changes, leftover padding 0/1/odd/even), strongly anisotropic requests, margins 0, 1, 4, 10.
// `img2d qrfloat`: the float64 accuracy hypothesis `QRFloatExact` of the theorem, evaluated in Go and in Lean `Float`,
// for every pitch 1..64 x every dimension 21..177 (and sampled pitches up to 4000).

import (
	"fmt"
	"image"
	"math"
	"strings"

	"github.com/makiuchi-d/gozxing"
	"github.com/makiuchi-d/gozxing/common/util"
	"github.com/makiuchi-d/gozxing/qrcode"
	"github.com/makiuchi-d/gozxing/qrcode/decoder"
	"github.com/makiuchi-d/gozxing/qrcode/encoder"
)

func init() {
	prev := suites["C01"]
	suites["C01"] = func(c *Ctx) {
		if prev != nil {
			prev(c)
		}
		imgpath2dQRSuite(c)
	}
	prevDev := suites["imgpath2d"]
	suites["imgpath2d"] = func(c *Ctx) {
		if prevDev != nil {
			prevDev(c)
		}
		imgpath2dQRSuite(c)
	}
}

// canonical outcome of QRCodeReader.Decode(bitmap, PURE_BARCODE): the fields of the Result in the format of the
// decoder correspondence (cqrParsedOut), without the mirrored flag (not part of a Result)
func imgpath2dQRRead(img image.Image) (out string, res *gozxing.Result) {
	out = Safe(func() string {
		bmp, e := gozxing.NewBinaryBitmapFromImage(img)
		if e != nil {
			return imgpath2dErr(e)
		}
		r, e := qrcode.NewQRCodeReader().Decode(bmp, imgpath2dPure)
		if e != nil {
			if r != nil {
				return "BOTH"
			}
			return imgpath2dErr(e)
		}
		if r == nil {
			return "NILNIL"
		}
		res = r
		md := r.GetResultMetadata()
		ec, _ := md[gozxing.ResultMetadataType_ERROR_CORRECTION_LEVEL].(string)
		var bs [][]byte
		if v, ok := md[gozxing.ResultMetadataType_BYTE_SEGMENTS].([][]byte); ok {
			bs = v
		}
		saSeq, saPar := -1, -1
		if v, ok := md[gozxing.ResultMetadataType_STRUCTURED_APPEND_SEQUENCE].(int); ok {
			saSeq = v
		}
		if v, ok := md[gozxing.ResultMetadataType_STRUCTURED_APPEND_PARITY].(int); ok {
			saPar = v
		}
		sm := "?"
		if v, ok := md[gozxing.ResultMetadataType_SYMBOLOGY_IDENTIFIER].(string); ok && strings.HasPrefix(v, "]Q") {
			sm = v[2:]
		}
		return fmt.Sprintf("ok ec=%s data=%s text=%s bs=%s sa=%d,%d sm=%s", ec, hexs(r.GetRawBytes()), hexs([]byte(r.GetText())),
			cqrSegList(bs), saSeq, saPar, sm)
	})
	return
}

func imgpath2dQRLayers(img image.Image) (line, out string, res *gozxing.Result) {
	blackS, bitsS := imgpath2dBlackAndBits(img, qrcode.VerifExtractPureBits)
	out, res = imgpath2dQRRead(img)
	return fmt.Sprintf("black=%s bits=%s out=%s", blackS, bitsS, out), out, res
}

func imgpath2dQRHead(out string) string {
	if strings.HasPrefix(out, "ok ") {
		return "ok"
	}
	return out
}

// requested sizes at the boundaries the theorems name, for n modules and margin q
func imgpath2dQRSizes(r *Rng, n, q int) [][2]int {
	t := n + 2*q
	v := []int{0, t - 1, t, t + 1, 2*t - 1, 2 * t, 2*t + 1, 3 * t, 3*t + 2, 39, 40, 41, 5*t + 3}
	if t < 40 {
		k := 39 / t
		v = append(v, k*t, (k+1)*t)
	}
	var out [][2]int
	for i := range v {
		out = append(out, [2]int{v[i], v[(i*7+3)%len(v)]})
		out = append(out, [2]int{v[i], v[i]})
	}
	out = append(out, [2]int{t * r.Range(1, 4), 40 + r.Intn(300)}, [2]int{40 + r.Intn(300), t}, [2]int{r.Range(1, 400), r.Range(1, 400)})
	return out
}

type imgpath2dQRCase struct {
	text    string
	ec      decoder.ErrorCorrectionLevel
	version int
	mask    int
	charset string
	margin  int
}

func (k imgpath2dQRCase) hints(withMargin bool) map[gozxing.EncodeHintType]interface{} {
	h := map[gozxing.EncodeHintType]interface{}{gozxing.EncodeHintType_ERROR_CORRECTION: k.ec}
	if k.version > 0 {
		h[gozxing.EncodeHintType_QR_VERSION] = k.version
	}
	if k.mask >= 0 {
		h[gozxing.EncodeHintType_QR_MASK_PATTERN] = k.mask
	}
	if k.charset != "" {
		h[gozxing.EncodeHintType_CHARACTER_SET] = k.charset
	}
	if withMargin {
		h[gozxing.EncodeHintType_MARGIN] = k.margin
	}
	return h
}

func imgpath2dQRCaseRun(c *Ctx, r *Rng, k imgpath2dQRCase, nSizes int) {
	var qr *encoder.QRCode
	o := Safe(func() string {
		q, e := encoder.Encoder_encode(k.text, k.ec, k.hints(false))
		if e != nil {
			return imgpath2dErr(e)
		}
		qr = q
		return "ok"
	})
	if qr == nil {
		c.Note("img2d qr encode " + o)
		return
	}
	mod := cqrBitMatrixOf(qr.GetMatrix())
	n := mod.GetWidth()
	bits := c06detBits(mod)
	c.Note(fmt.Sprintf("img2d qr version %d", qr.GetVersion().GetVersionNumber()))
	c.Note(fmt.Sprintf("img2d qr margin %d", k.margin))
	sizes := imgpath2dQRSizes(r, n, k.margin)
	if nSizes < len(sizes) {
		keep := sizes[:0:0]
		for _, s := range sizes {
			if r.Intn(len(sizes)) < nSizes {
				keep = append(keep, s)
			}
		}
		sizes = keep
	}
	for _, sz := range sizes {
		reqW, reqH := sz[0], sz[1]
		in := fmt.Sprintf("text=%s ec=%s version=%d mask=%d charset=%q margin=%d req=%dx%d", hexs([]byte(k.text)), k.ec.String(), k.version, k.mask, k.charset, k.margin, reqW, reqH)
		var img *gozxing.BitMatrix
		ro := Safe(func() string {
			m, e := qrcode.NewQRCodeWriter().Encode(k.text, gozxing.BarcodeFormat_QR_CODE, reqW, reqH, k.hints(true))
			if e != nil {
				return imgpath2dErr(e)
			}
			img = m
			return "ok"
		})
		if img == nil {
			c.Oracle("img2d-qr-image", false, "img2d-qr-render-refused", in, "Encoder_encode returned a symbol but QRCodeWriter.Encode did not: "+ro)
			continue
		}
		layers, out, res := imgpath2dQRLayers(img)
		goLine := "img=" + imgpath2dShowPic(img) + " " + layers
		c.CmpF("img2d-qr", fmt.Sprintf("img2d qr %d %d %s %d %d %d hint=-", n, n, bits, k.margin, reqW, reqH), goLine, imgpath2dQRCmp)
		W, H := img.GetWidth(), img.GetHeight()
		class := "local"
		if W < 40 || H < 40 {
			class = "global"
		}
		ok := false
		if res != nil {
			lv, _ := res.GetResultMetadata()[gozxing.ResultMetadataType_ERROR_CORRECTION_LEVEL].(string)
			ok = res.GetText() == k.text && lv == k.ec.String() && res.GetBarcodeFormat() == gozxing.BarcodeFormat_QR_CODE
		}
		c.Oracle("img2d-qr-image", ok, "img2d-qr-image-roundtrip:"+class+":"+imgpath2dQRHead(out), in,
			fmt.Sprintf("symbol %dx%d margin %d rendered %dx%d, Reader.Decode(PURE_BARCODE) gave %s", n, n, k.margin, W, H, c02Trunc(out)))
		c.Note("img2d qr binariser " + class + " " + imgpath2dQRHead(out))
		// a second presentation of the same pixels (*image.Gray: the fast path of NewLuminanceSourceFromImage) must read the same
		if r.Chance(0.25) {
			_, out2, _ := imgpath2dQRLayers(cqrImageOf(img))
			c.Oracle("img2d-qr-image", out2 == out, "img2d-qr-presentation", in, "the same pixels as *image.Gray gave "+c02Trunc(out2)+", as BitMatrix "+c02Trunc(out))
		}
	}
}

// the model prints `ok ec=… data=… segs=… bs=… sa=… sm=…` inside the line; Go prints text=…
func imgpath2dQRCmp(goOut, model string) (ok, skip bool) { return cqrCmpParsed(goOut, model) }

func imgpath2dQRPic(c *Ctx, m *gozxing.BitMatrix, class string) {
	layers, out, _ := imgpath2dQRLayers(m)
	c.CmpF("img2d-qr-pic", fmt.Sprintf("img2d qrpic %d %d %s hint=-", m.GetWidth(), m.GetHeight(), c06detBits(m)), layers, imgpath2dQRCmp)
	c.Note("img2d qrpic " + class + " " + imgpath2dQRHead(out))
}

// the three quantities of QRFloatExact in float64, as the Go code computes them
func imgpath2dQRFloat(s, n int) string {
	ms := float64(7*s) / 7.0
	bad := 0
	for a := 0; a < n; a++ {
		if int(float64(a)*ms) != a*s {
			bad++
		}
	}
	return fmt.Sprintf("%d %d %d", util.MathUtils_Round(float64(n*s)/ms), int(ms/2.0), bad)
}

func imgpath2dQRSuite(c *Ctx) {
	c.res.Rule += " || image path (imgpath2d, QR): versions 1..40 x levels x margins {0,1,4,10} x requested image sizes at the pitch-1 minimum, the 40-pixel binariser threshold, exact multiples of (n+2q) and neighbours, anisotropic requests: " +
		"writer -> BitMatrix as image -> HybridBinarizer -> Reader.Decode(PURE_BARCODE) compared layer by layer with the composed Lean model (float64 module size = Lean Float); oracle: exactly the text, level, QR_CODE; " +
		"arbitrary bit pictures through the same path against the model; the float accuracy hypothesis QRFloatExact evaluated for every pitch 1..64 x dimension 21..177"
	r := c.Rng.Fork()
	// (0) the float hypothesis of the theorem, exhaustively over the range rendered symbols use
	for s := 1; s <= c.Pick(64, 256); s++ {
		for v := 1; v <= 40; v++ {
			if c.Tier == "quick" && s > 8 && (s+v)%5 != 0 {
				continue
			}
			n := 17 + 4*v
			g := imgpath2dQRFloat(s, n)
			c.Cmp("img2d-qrfloat", fmt.Sprintf("img2d qrfloat %d %d", s, n), g)
			c.Oracle("img2d-qrfloat", g == fmt.Sprintf("%d %d 0", n, s/2), "img2d-qrfloat-inexact", fmt.Sprintf("s=%d n=%d", s, n),
				"float64 is not exact at this pitch and dimension: "+g)
		}
	}
	for i := 0; i < c.Pick(40, 2000); i++ {
		s, n := r.Range(65, 4000), 17+4*r.Range(1, 40)
		g := imgpath2dQRFloat(s, n)
		c.Cmp("img2d-qrfloat", fmt.Sprintf("img2d qrfloat %d %d", s, n), g)
		c.Oracle("img2d-qrfloat", g == fmt.Sprintf("%d %d 0", n, s/2), "img2d-qrfloat-inexact", fmt.Sprintf("s=%d n=%d", s, n), "float64 is not exact: "+g)
	}
	_ = math.Abs
	// (A) rendered symbols
	margins := []int{0, 1, 4, 10}
	modes := []string{"N", "A", "B", "K"}
	nv := 0
	for v := 1; v <= 40; v++ {
		if c.Tier == "quick" && v > 10 && v%6 != 0 {
			continue
		}
		nv++
		ec := cqrLevels[r.Intn(4)]
		mode := modes[r.Intn(4)]
		capN := c01Capacity(v, ec, mode, 0)
		if capN < 1 {
			continue
		}
		k := imgpath2dQRCase{text: c01Gen(r, mode, r.Range((capN+1)/2, capN)), ec: ec, version: v, mask: r.Range(-1, 7), margin: margins[r.Intn(4)]}
		if mode == "K" {
			k.charset = "Shift_JIS"
		}
		if v > 20 { // big symbols: few sizes (each image is ≥ 100x100)
			imgpath2dQRCaseRun(c, r, k, c.Pick(2, 8))
		} else {
			imgpath2dQRCaseRun(c, r, k, c.Pick(5, 14))
		}
	}
	for i, n := 0, c.Pick(10, 300); i < n; i++ {
		v := r.Range(1, c.Pick(8, 40))
		ec := cqrLevels[r.Intn(4)]
		mode := modes[r.Intn(4)]
		capN := c01Capacity(v, ec, mode, 0)
		if capN < 1 {
			continue
		}
		k := imgpath2dQRCase{text: c01Gen(r, mode, r.Range(1, capN)), ec: ec, version: 0, mask: r.Range(-1, 7), margin: margins[r.Intn(4)]}
		if r.Chance(0.2) {
			k.margin = r.Range(0, 12)
		}
		if mode == "K" {
			k.charset = "Shift_JIS"
		}
		imgpath2dQRCaseRun(c, r, k, c.Pick(5, 14))
	}
	// (B) arbitrary pictures
	for i, n := 0, c.Pick(200, 5000); i < n; i++ {
		g := detrestGen(r, c.Pick(100, 200))
		imgpath2dQRPic(c, g.m, g.class)
	}
	// posed QR symbols: integer pitch, independent quiet zones on the four sides (incl. 0), around the 40-pixel threshold
	for i, n := 0, c.Pick(50, 1500); i < n; i++ {
		s := c06QRSymbol(r, c06Text(r))
		if s == nil {
			continue
		}
		class := "qr-posed"
		if r.Chance(0.35) { // damaged data modules away from the top-left finder (theorem qr_image_tolerates_block_errors)
			n := s.GetWidth()
			for j, nf := 0, r.Range(1, 8); j < nf; j++ {
				s.Flip(r.Range(9, n-1), r.Range(9, n-10))
			}
			class = "qr-posed-damaged"
		}
		k := r.Range(1, 4)
		q := func() int { return r.Pick([]int{0, 0, 1, 2, 3, 5, 9, 17}) }
		m := detrestRender(s, float64(k), float64(k), q(), q(), q(), q())
		if m.GetWidth() > 220 {
			continue
		}
		imgpath2dQRPic(c, m, class)
	}
}
