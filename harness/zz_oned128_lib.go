package main

// wp oned128 — helpers: canonical output of the REAL Code 128 / ITF row readers (and of their unexported steps through the
// verif hooks), row builders, content / symbol-character generators.  The comparison side is the Lean driver suite
// `row128` (lean/Gzx/Driver/C06Row128.lean): every answer is the exact-arithmetic model's; when the IEEE-binary64
// interpretation of the same model decides differently the driver answers `<exact> ~ <ieee>` and the Go code is judged by
// the IEEE answer (counted as float-borderline in the evidence).

import (
	"fmt"
	"strconv"
	"strings"
	"sync/atomic"

	"github.com/makiuchi-d/gozxing"
	"github.com/makiuchi-d/gozxing/oned"
)

var oned128Borderline int64
var oned128Queued int64

// oned128Kick hands the queued cases to a free driver without waiting (the framework only dispatches full batches of
// 4000 cases, which would leave all but one driver idle for these suites).
func oned128Kick(c *Ctx) {
	c.mu.Lock()
	b := c.queue
	c.queue = nil
	c.queueBytes = 0
	c.mu.Unlock()
	if len(b) > 0 {
		c.dispatch(b)
	}
}

func oned128Cmp(c *Ctx, suite, op, goOut string) {
	if atomic.AddInt64(&oned128Queued, 1)%300 == 0 && !c.noDriver {
		oned128Kick(c)
	}
	c.CmpF(suite, op, goOut, func(g, m string) (bool, bool) {
		if i := strings.Index(m, " ~ "); i >= 0 {
			atomic.AddInt64(&oned128Borderline, 1)
			return g == m[i+3:], false
		}
		return g == m, false
	})
}

func oned128Row(bits []bool) *gozxing.BitArray {
	row := gozxing.NewBitArray(len(bits))
	for i, b := range bits {
		if b {
			row.Set(i)
		}
	}
	return row
}

func oned128Bits(row *gozxing.BitArray) []bool {
	out := make([]bool, row.GetSize())
	for i := range out {
		out[i] = row.Get(i)
	}
	return out
}

const oned128RowNumber = 7

// "ok <hex text> raw=<hex> pts=<2*x0>,<2*x1> mod=<symbology modifier>" | "ERR:<kind>" | "PANIC" | a protocol breach
func oned128Go128(rd oned.RowDecoder, row *gozxing.BitArray, gs1 bool) string {
	var hints map[gozxing.DecodeHintType]interface{}
	if gs1 {
		hints = map[gozxing.DecodeHintType]interface{}{gozxing.DecodeHintType_ASSUME_GS1: true}
	}
	return Safe(func() string {
		r, e := rd.DecodeRow(oned128RowNumber, row, hints)
		if e != nil && r != nil {
			return "BOTH"
		}
		if e == nil && r == nil {
			return "NEITHER"
		}
		if e != nil {
			return "ERR:" + errKind(e)
		}
		if r.GetBarcodeFormat() != gozxing.BarcodeFormat_CODE_128 {
			return "BADFORMAT:" + r.GetBarcodeFormat().String()
		}
		pts := r.GetResultPoints()
		if len(pts) != 2 || pts[0].GetY() != oned128RowNumber || pts[1].GetY() != oned128RowNumber {
			return "BADPOINTS"
		}
		mod := "?"
		if s, ok := r.GetResultMetadata()[gozxing.ResultMetadataType_SYMBOLOGY_IDENTIFIER].(string); ok && strings.HasPrefix(s, "]C") {
			mod = s[2:]
		}
		return fmt.Sprintf("ok %s raw=%s pts=%s,%s mod=%s", hexs([]byte(r.GetText())), hexs(r.GetRawBytes()),
			oned128Twice(pts[0].GetX()), oned128Twice(pts[1].GetX()), mod)
	})
}

// 2*x of a half-integer coordinate, "f<x>" otherwise
func oned128Twice(x float64) string {
	t := 2 * x
	if t == float64(int64(t)) {
		return strconv.FormatInt(int64(t), 10)
	}
	return "f" + strconv.FormatFloat(x, 'g', -1, 64)
}

// allowed-lengths hint in the driver's syntax: "none" | "empty" | "6,8,-3"
func oned128AllowedHint(s string) map[gozxing.DecodeHintType]interface{} {
	switch s {
	case "none":
		return nil
	case "empty":
		return map[gozxing.DecodeHintType]interface{}{gozxing.DecodeHintType_ALLOWED_LENGTHS: []int{}}
	}
	var xs []int
	for _, p := range strings.Split(s, ",") {
		v, _ := strconv.Atoi(p)
		xs = append(xs, v)
	}
	return map[gozxing.DecodeHintType]interface{}{gozxing.DecodeHintType_ALLOWED_LENGTHS: xs}
}

// "ok <hex text> pts=<x0>,<x1>" | "ERR:<kind>" | "PANIC"
func oned128GoITF(rd oned.RowDecoder, row *gozxing.BitArray, allowed string) string {
	hints := oned128AllowedHint(allowed)
	before := bitsStr(oned128Bits(row))
	out := Safe(func() string {
		r, e := rd.DecodeRow(oned128RowNumber, row, hints)
		if e != nil && r != nil {
			return "BOTH"
		}
		if e == nil && r == nil {
			return "NEITHER"
		}
		if e != nil {
			return "ERR:" + errKind(e)
		}
		if r.GetBarcodeFormat() != gozxing.BarcodeFormat_ITF {
			return "BADFORMAT:" + r.GetBarcodeFormat().String()
		}
		pts := r.GetResultPoints()
		if len(pts) != 2 || pts[0].GetY() != oned128RowNumber || pts[1].GetY() != oned128RowNumber {
			return "BADPOINTS"
		}
		if s, ok := r.GetResultMetadata()[gozxing.ResultMetadataType_SYMBOLOGY_IDENTIFIER].(string); !ok || s != "]I0" {
			return "BADMETA"
		}
		if r.GetRawBytes() != nil {
			return "BADRAW"
		}
		return fmt.Sprintf("ok %s pts=%s,%s", hexs([]byte(r.GetText())), oned128Whole(pts[0].GetX()), oned128Whole(pts[1].GetX()))
	})
	if out != "PANIC" && bitsStr(oned128Bits(row)) != before {
		return "ROW-NOT-RESTORED " + out // decodeEnd reverses the caller's row and must put it back
	}
	return out
}

func oned128Whole(x float64) string {
	if x == float64(int64(x)) {
		return strconv.FormatInt(int64(x), 10)
	}
	return "f" + strconv.FormatFloat(x, 'g', -1, 64)
}

func oned128ErrOr(e error, f func() string) string {
	if e != nil {
		return "ERR:" + errKind(e)
	}
	return f()
}

func oned128GoStart128(row *gozxing.BitArray) string {
	return Safe(func() string {
		r, e := oned.VerifCode128FindStartPattern(row)
		return oned128ErrOr(e, func() string { return "ok " + ints(r) })
	})
}

func oned128GoCode128(row *gozxing.BitArray, off int) string {
	return Safe(func() string {
		code, counters, e := oned.VerifCode128DecodeCode(row, off)
		return oned128ErrOr(e, func() string { return fmt.Sprintf("ok %d;%s", code, ints(counters)) })
	})
}

// decodeStart: "ok <s0>,<s1> nlw=<n>", and the narrow line width for the decodeEnd call
func oned128GoStartITF(row *gozxing.BitArray) (string, int) {
	nlw := -1
	out := Safe(func() string {
		sp, n, e := oned.VerifITFDecodeStart(row)
		return oned128ErrOr(e, func() string { nlw = n; return fmt.Sprintf("ok %s nlw=%d", ints(sp), n) })
	})
	return out, nlw
}

func oned128GoEndITF(row *gozxing.BitArray, nlw int) string {
	before := bitsStr(oned128Bits(row))
	out := Safe(func() string {
		ep, e := oned.VerifITFDecodeEnd(row, nlw)
		return oned128ErrOr(e, func() string { return "ok " + ints(ep) })
	})
	if out != "PANIC" && bitsStr(oned128Bits(row)) != before {
		return "ROW-NOT-RESTORED " + out
	}
	return out
}

func oned128GoGuardITF(row *gozxing.BitArray, off int, pat []int) string {
	return Safe(func() string {
		r, e := oned.VerifITFFindGuardPattern(row, off, pat)
		return oned128ErrOr(e, func() string { return "ok " + ints(r) })
	})
}

func oned128GoDigitITF(counters []int) string {
	return Safe(func() string {
		d, e := oned.VerifITFDecodeDigit(append([]int{}, counters...))
		return oned128ErrOr(e, func() string { return fmt.Sprintf("ok %d", d) })
	})
}

// ---------- tables (from the model driver: the tables the theorems are about; Obligations tie them to /repo) ----------

var oned128P128 [][]int // 107 patterns
var oned128PITF [][]int // 20 reader patterns

func oned128ParsePatterns(s string) [][]int {
	var out [][]int
	for _, p := range strings.Split(s, ";") {
		var row []int
		for _, w := range strings.Split(p, ",") {
			v, err := strconv.Atoi(w)
			if err != nil {
				return nil
			}
			row = append(row, v)
		}
		out = append(out, row)
	}
	return out
}

func oned128Tables(c *Ctx) bool {
	if oned128P128 != nil && oned128PITF != nil {
		return true
	}
	outs := c.Model([]string{"c03 tbl code128", "row128 tbl itf"})
	a, b := oned128ParsePatterns(outs[0]), oned128ParsePatterns(outs[1])
	if len(a) != 107 || len(b) != 20 {
		return false
	}
	oned128P128, oned128PITF = a, b
	return true
}

// ---------- row builders ----------

// runs of the given widths, alternating colours starting with `first`
func oned128Runs(widths []int, first bool) []bool {
	var out []bool
	col := first
	for _, w := range widths {
		for i := 0; i < w; i++ {
			out = append(out, col)
		}
		col = !col
	}
	return out
}

// run widths of a sequence of Code 128 symbol characters (bars first)
func oned128Widths128(codes []int) []int {
	var ws []int
	for _, cd := range codes {
		ws = append(ws, oned128P128[cd%107]...)
	}
	return ws
}

// run widths of an ITF symbol for digit values ds (even count), wide elements `wide` modules
func oned128WidthsITF(ds []int, wide int) []int {
	ws := []int{1, 1, 1, 1}
	for i := 0; i+1 < len(ds); i += 2 {
		a, b := oned128PITF[10+ds[i]%10], oned128PITF[10+ds[i+1]%10]
		for k := 0; k < 5; k++ {
			wa, wb := a[k], b[k]
			if wa > 1 {
				wa = wide
			}
			if wb > 1 {
				wb = wide
			}
			ws = append(ws, wa, wb)
		}
	}
	return append(ws, wide, 1, 1)
}

func oned128Scale(ws []int, s int) []int {
	out := make([]int, len(ws))
	for i, w := range ws {
		out[i] = w * s
	}
	return out
}

// lq white ++ runs (bars first) ++ rq white
func oned128Padded(ws []int, lq, rq int) []bool {
	out := make([]bool, lq)
	out = append(out, oned128Runs(ws, true)...)
	return append(out, make([]bool, rq)...)
}

// Code 128 symbol characters for start code + data with the correct (or a shifted) check character, STOP appended
func oned128WithCheck(codes []int, delta int) []int {
	sum := codes[0]
	for i, v := range codes[1:] {
		sum += (i + 1) * v
	}
	out := append([]int{}, codes...)
	out = append(out, (sum+delta)%103)
	return append(out, 106)
}

// ---------- mutations of a pixel row ----------

func oned128Mutate(r *Rng, bits []bool) []bool {
	out := append([]bool{}, bits...)
	if len(out) == 0 {
		return out
	}
	switch r.Intn(8) {
	case 0: // flip a few pixels
		for k := r.Range(1, 4); k > 0; k-- {
			i := r.Intn(len(out))
			out[i] = !out[i]
		}
	case 1: // delete a pixel
		i := r.Intn(len(out))
		out = append(out[:i], out[i+1:]...)
	case 2: // duplicate a pixel (widen a run)
		i := r.Intn(len(out))
		out = append(out[:i+1], out[i:]...)
	case 3: // truncate on the right
		out = out[:r.Intn(len(out)+1)]
	case 4: // truncate on the left
		out = out[r.Intn(len(out)+1):]
	case 5: // paint a segment
		i := r.Intn(len(out))
		n := r.Range(1, 12)
		v := r.Bool()
		for k := i; k < i+n && k < len(out); k++ {
			out[k] = v
		}
	case 6: // reverse
		for i, j := 0, len(out)-1; i < j; i, j = i+1, j-1 {
			out[i], out[j] = out[j], out[i]
		}
	case 7: // widen / narrow one run by one pixel at a run boundary
		var bounds []int
		for i := 1; i < len(out); i++ {
			if out[i] != out[i-1] {
				bounds = append(bounds, i)
			}
		}
		if len(bounds) > 0 {
			i := bounds[r.Intn(len(bounds))]
			out[i] = out[i-1]
		}
	}
	return out
}

// run widths jittered by at most `j` pixels each (never below 1)
func oned128Jitter(r *Rng, ws []int, j int) []int {
	out := make([]int, len(ws))
	for i, w := range ws {
		w += r.Range(-j, j)
		if w < 1 {
			w = 1
		}
		out[i] = w
	}
	return out
}

// ---------- contents ----------

const oned128SetB = " !\"#$%&'()*+,-./0123456789:;<=>?@ABCDEFGHIJKLMNOPQRSTUVWXYZ[\\]^_`abcdefghijklmnopqrstuvwxyz{|}~\x7f"

// a content the Code 128 writer accepts without hints: ASCII 0..127, 1..80 characters, mixes of the classes the
// code-set automaton distinguishes
func oned128Content128(r *Rng) string {
	n := r.Range(1, 5)
	var sb strings.Builder
	for k := 0; k < n && sb.Len() < 70; k++ {
		switch r.Intn(6) {
		case 0:
			for i := 2 * r.Range(1, 6); i > 0; i-- {
				sb.WriteByte(byte('0' + r.Intn(10)))
			}
		case 1:
			sb.WriteByte(byte('0' + r.Intn(10)))
		case 2:
			for i := r.Range(1, 5); i > 0; i-- {
				sb.WriteByte(byte('A' + r.Intn(26)))
			}
		case 3:
			for i := r.Range(1, 5); i > 0; i-- {
				sb.WriteByte(byte('a' + r.Intn(26)))
			}
		case 4:
			for i := r.Range(1, 3); i > 0; i-- {
				sb.WriteByte(byte(r.Intn(32)))
			}
		case 5:
			for i := r.Range(1, 4); i > 0; i-- {
				sb.WriteByte(oned128SetB[r.Intn(len(oned128SetB))])
			}
		}
	}
	s := sb.String()
	if len(s) > 80 {
		s = s[:80]
	}
	return s
}

func oned128DigitsEven(r *Rng, lens []int) string {
	n := lens[r.Intn(len(lens))]
	b := make([]byte, n)
	for i := range b {
		b[i] = byte('0' + r.Intn(10))
	}
	return string(b)
}

var oned128Writer128 = oned.NewCode128Writer()
var oned128WriterITF = oned.NewITFWriter()

// the writer's module pattern (margin 0, 1 px/module), nil when refused
func oned128Modules(w gozxing.Writer, f gozxing.BarcodeFormat, content string, hints map[gozxing.EncodeHintType]interface{}) []bool {
	h := map[gozxing.EncodeHintType]interface{}{gozxing.EncodeHintType_MARGIN: 0}
	for k, v := range hints {
		h[k] = v
	}
	var out []bool
	Safe(func() string {
		m, err := w.Encode(content, f, 0, 1, h)
		if err != nil || m == nil {
			return ""
		}
		out = make([]bool, m.GetWidth())
		for x := range out {
			out[x] = m.Get(x, 0)
		}
		return ""
	})
	return out
}

// modules rendered at `s` pixels per module with quiet zones
func oned128Render(mods []bool, s, lq, rq int) []bool {
	out := make([]bool, lq, lq+len(mods)*s+rq)
	for _, m := range mods {
		for k := 0; k < s; k++ {
			out = append(out, m)
		}
	}
	return append(out, make([]bool, rq)...)
}
