package main

// wp oned128 — Code 128 and ITF ROW DECODERS: real DecodeRow (and its unexported steps) vs the Lean row models, plus the
// oracles of the properties on the real code:
//   C06  every row (len 0..400: random, run-structured, rendered-and-mutated, crafted symbol-character sequences,
//        jittered run widths) and every hint value gives a result xor a NotFound / Checksum / Format error, never a panic;
//   C03  what the writers draw is read back as the content at every scale 1..4 and every quiet zone >= 0 pixels
//        (the hypotheses of Properties/C03Row128.lean: the readers' quiet-zone tests are clipped to the row);
//   C10  a Code 128 symbol with a wrong check character / one substituted symbol character is never read as text.
// Layers compared with the model: findStartPattern, decodeCode at several offsets, DecodeRow with and without ASSUME_GS1
// (text, rawBytes, both result points, symbology modifier, error kind); ITF decodeStart (+ narrowLineWidth), decodeEnd,
// findGuardPattern, decodeDigit, DecodeRow with ALLOWED_LENGTHS hints (text, points, error kind).

import (
	"fmt"
	"strings"
	"sync/atomic"
	"time"

	"github.com/makiuchi-d/gozxing"
	"github.com/makiuchi-d/gozxing/oned"
)

func init() {
	wrap := func(prop string, f func(c *Ctx)) {
		prev := suites[prop]
		if prev == nil {
			return
		}
		suites[prop] = func(c *Ctx) {
			prev(c)
			if !oned128Tables(c) {
				c.Remark("oned128: pattern tables not available from the model driver; row-decoder suites not run")
				return
			}
			before := atomic.LoadInt64(&oned128Borderline)
			t0 := time.Now()
			f(c)
			c.Flush()
			c.Remark(fmt.Sprintf("oned128: row-decoder suites of %s took %.1fs", prop, time.Since(t0).Seconds()))
			if n := atomic.LoadInt64(&oned128Borderline) - before; n > 0 {
				c.NoteN("oned128:float-borderline-judged-by-ieee-model", int(n))
			}
		}
	}
	wrap("C06", oned128SuiteC06)
	wrap("C03", oned128SuiteC03)
	wrap("C10", oned128SuiteC10)
}

func oned128Kind(o string) string {
	switch {
	case strings.HasPrefix(o, "ok "):
		return "ok"
	case strings.HasPrefix(o, "ERR:"):
		return o[4:]
	}
	return o
}

func oned128TotalOK(o string) bool {
	return strings.HasPrefix(o, "ok ") || o == "ERR:notfound" || o == "ERR:checksum" || o == "ERR:format"
}

var oned128AllowedChoices = []string{"none", "none", "none", "empty", "2", "2,4", "4,6,8", "44", "-3,6", "6,-1,100", "10,10", "0"}

// oned128Layers compares every layer of both readers on one row and returns the two DecodeRow outputs (default hints).
func oned128Layers(c *Ctx, suite string, bits []bool, r *Rng, deep bool) (string, string) {
	bs := bitsStr(bits)
	row := oned128Row(bits)
	rd128 := oned.NewCode128Reader().(oned.RowDecoder)
	o128 := oned128Go128(rd128, row, false)
	oned128Cmp(c, suite, "row128 dec128 0 "+bs, o128)
	oGS1 := oned128Go128(rd128, row, true)
	oned128Cmp(c, suite, "row128 dec128 1 "+bs, oGS1)
	allowed := "none"
	if deep {
		allowed = oned128AllowedChoices[r.Intn(len(oned128AllowedChoices))]
	}
	rdITF := oned.NewITFReader().(oned.RowDecoder)
	oITF := oned128GoITF(rdITF, row, allowed)
	oned128Cmp(c, suite, "row128 decitf "+allowed+" "+bs, oITF)
	if allowed != "none" {
		// the same (long-lived) reader instance again without the hint: no state may survive the first call
		oITF = oned128GoITF(rdITF, row, "none")
		oned128Cmp(c, suite, "row128 decitf none "+bs, oITF)
	}
	c.Note(suite + ":code128:" + oned128Kind(o128))
	c.Note(suite + ":itf:" + oned128Kind(oITF))
	if !deep {
		return o128, oITF
	}
	// --- Code 128 steps ---
	st := oned128GoStart128(row)
	oned128Cmp(c, suite, "row128 start128 "+bs, st)
	offs := []int{r.Intn(len(bits) + 2), r.Intn(len(bits) + 2)}
	var a, b, code int
	if n, _ := fmt.Sscanf(st, "ok %d,%d,%d", &a, &b, &code); n == 3 {
		offs = append(offs, b)
	}
	for _, off := range offs {
		oned128Cmp(c, suite, fmt.Sprintf("row128 code128 %d %s", off, bs), oned128GoCode128(row, off))
	}
	// --- ITF steps ---
	sti, nlw := oned128GoStartITF(row)
	oned128Cmp(c, suite, "row128 startitf "+bs, sti)
	if nlw < 0 {
		nlw = r.Intn(6)
	}
	oned128Cmp(c, suite, fmt.Sprintf("row128 enditf %d %s", nlw, bs), oned128GoEndITF(row, nlw))
	pats := [][]int{{1, 1, 1, 1}, {1, 1, 2}, {1, 1, 3}, {2, 1, 1, 3, 1}, {1, 2, 1}}
	pat := pats[r.Intn(len(pats))]
	off := r.Intn(len(bits) + 2)
	oned128Cmp(c, suite, fmt.Sprintf("row128 guarditf %d %s %s", off, ints(pat), bs), oned128GoGuardITF(row, off, pat))
	return o128, oITF
}

// counters near (or far from) a multiple of an ITF digit pattern
func oned128DigitCounters(r *Rng) []int {
	p := oned128PITF[r.Intn(20)]
	s := r.Range(1, 6)
	cs := make([]int, 5)
	for i := range cs {
		cs[i] = p[i] * s
	}
	switch r.Intn(4) {
	case 0:
	case 1:
		cs = oned128Jitter(r, cs, 1)
	case 2:
		cs = oned128Jitter(r, cs, 2)
	case 3:
		for i := range cs {
			cs[i] = r.Range(0, 9)
		}
	}
	return cs
}

// ---------- C06: arbitrary, mutated and crafted rows ----------

func oned128SuiteC06(c *Ctx) {
	const suite = "oned128-rows"
	r := c.Rng.Fork()
	oracle := func(bits []bool, o128, oITF string) {
		if len(bits) == 0 {
			return // the property quantifies over non-empty rows (compared with the model all the same)
		}
		c.Oracle(suite, oned128TotalOK(o128), "code128-row-decoder-not-total:"+oned128Kind(o128),
			"code128 DecodeRow row="+bitsStr(bits), "returned "+o128+"; the property demands a result or a NotFound/Checksum/Format error")
		c.Oracle(suite, oned128TotalOK(oITF), "itf-row-decoder-not-total:"+oned128Kind(oITF),
			"itf DecodeRow row="+bitsStr(bits), "returned "+oITF+"; the property demands a result or a NotFound/Checksum/Format error")
	}
	run := func(bits []bool) {
		if len(bits) > 400 {
			bits = bits[:400]
		}
		o128, oITF := oned128Layers(c, suite, bits, r, true)
		oracle(bits, o128, oITF)
		// the GS1 variant and the hinted ITF variants are judged as well
		if len(bits) > 0 {
			g := oned128Go128(oned.NewCode128Reader().(oned.RowDecoder), oned128Row(bits), true)
			c.Oracle(suite, oned128TotalOK(g), "code128-row-decoder-not-total-gs1:"+oned128Kind(g), "code128 DecodeRow ASSUME_GS1 row="+bitsStr(bits), "returned "+g)
			al := oned128AllowedChoices[r.Intn(len(oned128AllowedChoices))]
			h := oned128GoITF(oned.NewITFReader().(oned.RowDecoder), oned128Row(bits), al)
			c.Oracle(suite, oned128TotalOK(h), "itf-row-decoder-not-total-hint:"+oned128Kind(h), "itf DecodeRow ALLOWED_LENGTHS="+al+" row="+bitsStr(bits), "returned "+h)
		}
	}
	// (1) random and run-structured rows, every length 0..400 at least once in the thorough tier
	n1 := c.Pick(2500, 40000)
	for i := 0; i < n1; i++ {
		n := r.Intn(401)
		if i < 40 {
			n = i / 2 // the shortest rows explicitly
		}
		bits := make([]bool, 0, n)
		switch r.Intn(3) {
		case 0:
			p := float64(r.Range(1, 9)) / 10
			for len(bits) < n {
				bits = append(bits, r.Chance(p))
			}
		default:
			s := r.Range(1, 4)
			col := r.Bool()
			for len(bits) < n {
				w := s * r.Range(1, 4)
				if r.Chance(0.1) {
					w += r.Range(-1, 1)
				}
				for k := 0; k < w && len(bits) < n; k++ {
					bits = append(bits, col)
				}
				col = !col
			}
		}
		run(bits)
	}
	// (2) rendered symbols of both symbologies, mutated 0..3 times
	n2 := c.Pick(2500, 40000)
	for i := 0; i < n2; i++ {
		s := r.Range(1, 4)
		var ws []int
		if r.Bool() {
			content := oned128Content128(r)
			if len(content) > 12 {
				content = content[:12]
			}
			mods := oned128Modules(oned128Writer128, gozxing.BarcodeFormat_CODE_128, content, nil)
			if mods == nil {
				continue
			}
			bits := oned128Render(mods, s, r.Intn(3)*r.Intn(8*s+1), r.Intn(3)*r.Intn(8*s+1))
			for k := r.Intn(4); k > 0; k-- {
				bits = oned128Mutate(r, bits)
			}
			run(bits)
			continue
		}
		nd := 2 * r.Range(1, 9)
		ds := make([]int, nd)
		for k := range ds {
			ds[k] = r.Intn(10)
		}
		ws = oned128Scale(oned128WidthsITF(ds, r.Range(2, 3)), s)
		if r.Chance(0.3) {
			ws = oned128Jitter(r, ws, 1)
		}
		bits := oned128Padded(ws, r.Intn(3)*r.Intn(12*s+1), r.Intn(3)*r.Intn(12*s+1))
		for k := r.Intn(4); k > 0; k-- {
			bits = oned128Mutate(r, bits)
		}
		run(bits)
	}
	// (3) crafted Code 128 symbol-character sequences: every code value in every code set, start codes inside, early STOP,
	//     FNC1..4, SHIFT chains, right and wrong check characters; jittered widths around the variance limits
	n3 := c.Pick(2500, 40000)
	for i := 0; i < n3; i++ {
		codes := []int{103 + r.Intn(3)}
		for k := r.Range(0, 8); k > 0; k-- {
			switch r.Intn(6) {
			case 0:
				codes = append(codes, []int{96, 97, 98, 99, 100, 101, 102}[r.Intn(7)])
			case 1:
				codes = append(codes, 103+r.Intn(4)) // start code or STOP inside
			default:
				codes = append(codes, r.Intn(103))
			}
		}
		if i < 107*3 { // every code value directly after each start code
			codes = []int{103 + i/107, i % 107, r.Intn(96)}
		}
		delta := 0
		if r.Chance(0.2) {
			delta = r.Range(1, 102)
		}
		s := r.Range(1, 4)
		ws := oned128Scale(oned128Widths128(oned128WithCheck(codes, delta)), s)
		if r.Chance(0.35) {
			ws = oned128Jitter(r, ws, 1+r.Intn(s))
		}
		bits := oned128Padded(ws, r.Intn(3)*r.Intn(8*s+1), r.Intn(3)*r.Intn(8*s+1))
		if r.Chance(0.2) {
			bits = oned128Mutate(r, bits)
		}
		run(bits)
	}
	// (4) ITF decodeDigit on counter vectors (exact multiples, jittered, arbitrary)
	n4 := c.Pick(6000, 100000)
	for i := 0; i < n4; i++ {
		cs := oned128DigitCounters(r)
		oned128Cmp(c, suite, "row128 digititf "+ints(cs), oned128GoDigitITF(cs))
	}
	c.res.Rule += " | oned128 (C06): Code 128 and ITF DecodeRow and their steps on rows of length 0..400 (random, run-structured, rendered-and-mutated, crafted code sequences incl. every code value after every start code, jittered widths), ASSUME_GS1 and ALLOWED_LENGTHS hints; model = exact-fraction row model, IEEE interpretation where rounding decides"
}

// ---------- C03: what the writers draw is read back ----------

type oned128Geo struct{ s, lq, rq int }

func oned128Geos(r *Rng, thorough bool) []oned128Geo {
	gs := []oned128Geo{{1, 0, 0}, {2, 0, 0}, {3, 0, 1}, {4, 1, 0}, {1, 10, 10}, {2, 3, 30}, {3, 31, 2}, {4, 40, 40}}
	for k := 0; k < 2; k++ {
		s := r.Range(1, 4)
		gs = append(gs, oned128Geo{s, r.Intn(12 * s), r.Intn(12 * s)})
	}
	if thorough {
		for s := 5; s <= 8; s++ {
			gs = append(gs, oned128Geo{s, r.Intn(3), r.Intn(3)})
		}
	}
	return gs
}

func oned128SuiteC03(c *Ctx) {
	const suite = "oned128-readback"
	r := c.Rng.Fork()
	// Code 128: un-hinted contents, forced code sets, and (model comparison only) contents with FNC characters
	n := c.Pick(400, 8000)
	for i := 0; i < n; i++ {
		content := oned128Content128(r)
		var eh map[gozxing.EncodeHintType]interface{}
		hs := "-"
		switch {
		case i%10 == 7:
			b := make([]byte, r.Range(1, 20))
			for k := range b {
				b[k] = byte(r.Range(0, 95)) // code set A: control + upper case
			}
			content, hs = string(b), "A"
		case i%10 == 8:
			b := make([]byte, r.Range(1, 20))
			for k := range b {
				b[k] = byte(r.Range(33, 127)) // the writer refuses <= 32 in a forced set B
			}
			content, hs = string(b), "B"
		case i%10 == 9:
			b := make([]byte, 2*r.Range(1, 12))
			for k := range b {
				b[k] = byte('0' + r.Intn(10))
			}
			content, hs = string(b), "C"
		}
		if hs != "-" {
			eh = map[gozxing.EncodeHintType]interface{}{gozxing.EncodeHintType_FORCE_CODE_SET: hs}
		}
		mods := oned128Modules(oned128Writer128, gozxing.BarcodeFormat_CODE_128, content, eh)
		if mods == nil {
			c.Oracle(suite, false, "code128-writer-refuses-accepted-content", fmt.Sprintf("code128 content=%s force=%s", hexs([]byte(content)), hs), "the writer refused an admissible content")
			continue
		}
		want := "ok " + hexs([]byte(content)) + " "
		for _, g := range oned128Geos(r, c.Thorough) {
			bits := oned128Render(mods, g.s, g.lq, g.rq)
			o128, _ := oned128Layers(c, suite, bits, r, i%5 == 0)
			in := fmt.Sprintf("code128 content=%s force=%s scale=%d leftQuiet=%d rightQuiet=%d", hexs([]byte(content)), hs, g.s, g.lq, g.rq)
			c.Oracle(suite, strings.HasPrefix(o128, want), "code128-row-not-read-back", in, "row reader: "+o128+" expected "+want+"…")
		}
	}
	// contents with FNC1..FNC4 escapes: the reader's GS1 / FNC handling against the model (no read-back demand)
	nf := c.Pick(60, 2000)
	for i := 0; i < nf; i++ {
		rs := []rune(oned128Content128(r))
		if len(rs) > 20 {
			rs = rs[:20]
		}
		for k := r.Range(1, 3); k > 0; k-- {
			p := r.Intn(len(rs) + 1)
			f := []rune{0xF1, 0xF1, 0xF2, 0xF3, 0xF4}[r.Intn(5)]
			if i%3 == 0 && k == 1 {
				p, f = 0, 0xF1 // GS1-128: FNC1 in first position
			}
			rs = append(rs[:p], append([]rune{f}, rs[p:]...)...)
		}
		mods := oned128Modules(oned128Writer128, gozxing.BarcodeFormat_CODE_128, string(rs), nil)
		if mods == nil {
			continue
		}
		s := r.Range(1, 3)
		oned128Layers(c, suite, oned128Render(mods, s, r.Intn(6*s), r.Intn(6*s)), r, false)
		c.Note(suite + ":fnc-content")
	}
	// ITF: every length the reader accepts by default (6..14 and longer, up to 80), plus short ones under the hint
	lens := []int{6, 8, 10, 12, 14, 16, 18, 20, 24, 30, 44, 62, 80}
	n = c.Pick(300, 8000)
	for i := 0; i < n; i++ {
		content := oned128DigitsEven(r, lens)
		if i < len(lens) {
			content = oned128DigitsEven(r, lens[i:i+1])
		}
		mods := oned128Modules(oned128WriterITF, gozxing.BarcodeFormat_ITF, content, nil)
		if mods == nil {
			c.Oracle(suite, false, "itf-writer-refuses-accepted-content", "itf content="+content, "the writer refused an admissible content")
			continue
		}
		want := "ok " + hexs([]byte(content)) + " "
		for _, g := range oned128Geos(r, c.Thorough) {
			bits := oned128Render(mods, g.s, g.lq, g.rq)
			_, oITF := oned128Layers(c, suite, bits, r, i%5 == 0)
			in := fmt.Sprintf("itf content=%s scale=%d leftQuiet=%d rightQuiet=%d", content, g.s, g.lq, g.rq)
			c.Oracle(suite, strings.HasPrefix(oITF, want), "itf-row-not-read-back", in, "row reader: "+oITF+" expected "+want+"…")
		}
	}
	for i := 0; i < c.Pick(30, 500); i++ {
		content := oned128DigitsEven(r, []int{2, 4})
		mods := oned128Modules(oned128WriterITF, gozxing.BarcodeFormat_ITF, content, nil)
		if mods == nil {
			continue
		}
		s := r.Range(1, 4)
		bits := oned128Render(mods, s, r.Intn(12*s), r.Intn(12*s))
		bs := bitsStr(bits)
		for _, al := range []string{"2,4", "none", "6,2,4"} {
			o := oned128GoITF(oned.NewITFReader().(oned.RowDecoder), oned128Row(bits), al)
			oned128Cmp(c, suite, "row128 decitf "+al+" "+bs, o)
			if al != "none" {
				c.Oracle(suite, strings.HasPrefix(o, "ok "+hexs([]byte(content))+" "), "itf-row-not-read-back-hinted",
					fmt.Sprintf("itf content=%s ALLOWED_LENGTHS=%s scale=%d", content, al, s), "row reader: "+o)
			}
		}
	}
	c.res.Rule += " | oned128 (C03): Code 128 (un-hinted, forced A/B/C, FNC escapes) and ITF (6..80 digits, 2/4 under ALLOWED_LENGTHS) writer module patterns at scales 1..4(8) with quiet zones 0,1,…: real row reader must return the content; all reader layers compared with the row models"
}

// ---------- C10: a wrong check character is never read as text ----------

func oned128SuiteC10(c *Ctx) {
	const suite = "oned128-checksum"
	r := c.Rng.Fork()
	rd := oned.NewCode128Reader().(oned.RowDecoder)
	n := c.Pick(200, 4000)
	for i := 0; i < n; i++ {
		// a symbol in one code set: start, data values, check, STOP
		start := 103 + r.Intn(3)
		lim := 96
		if start == 105 {
			lim = 100
		}
		data := make([]int, r.Range(1, 12))
		for k := range data {
			data[k] = r.Intn(lim)
		}
		good := oned128WithCheck(append([]int{start}, data...), 0)
		s := r.Range(1, 3)
		lq, rq := r.Intn(8*s), r.Intn(8*s)
		read := func(codes []int) (string, string) {
			bits := oned128Padded(oned128Scale(oned128Widths128(codes), s), lq, rq)
			o := oned128Go128(rd, oned128Row(bits), false)
			oned128Cmp(c, suite, "row128 dec128 0 "+bitsStr(bits), o)
			return o, bitsStr(bits)
		}
		og, _ := read(good)
		c.Note(suite + ":good:" + oned128Kind(og))
		// every position (data and check character) x three replacement values below 103
		for p := 1; p < len(good)-1; p++ {
			for k := 0; k < 3; k++ {
				v := r.Intn(103)
				if v == good[p] {
					continue
				}
				bad := append([]int{}, good...)
				bad[p] = v
				o, bs := read(bad)
				c.Note(suite + ":substituted:" + oned128Kind(o))
				c.Oracle(suite, !strings.HasPrefix(o, "ok "), "code128-row-wrong-checksum-read-as-text",
					fmt.Sprintf("code128 symbol characters %s (position %d substituted, was %d) scale=%d row=%s", ints(bad), p, good[p], s, bs),
					"row reader returned "+o+" for a symbol whose mod-103 check character does not verify")
			}
		}
	}
	c.res.Rule += " | oned128 (C10): Code 128 symbols in each code set with one symbol character (data or check) replaced by another value below 103, rendered at scales 1..3: the real row reader must report an error; compared with the row model"
}
