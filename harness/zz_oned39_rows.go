package main

// Work package oned39: the pixel-level row decoders of Code 39, Code 93 and Codabar inside the model
// (lean/Gzx/Model/OneDRow39.lean, driver prefix `row39`).
//
//   C06 (wrapped below): the real DecodeRow and its unexported steps (verif hooks: code39ToNarrowWidePattern,
//        code93ToPattern, the two findAsteriskPattern, setCounters, toNarrowWidePattern, findStartPattern,
//        validatePattern) against the model on arbitrary rows (incl. lengths 0..3, all-white / all-black),
//        run-structured rows, writer output with pixel mutations, and on crafted counter vectors at the rounding
//        and threshold boundaries; oracle = the property (no panic, result xor error, error kind documented).
//   C03 (wrapped below): rows rendered from the real writers at scales 1..8 with quiet zones at and around what the
//        readers test (white only: must read back = oracle; junk at distance 6s-1 / 6s / 6s+1 … : compared only).
//
// Outcome line of a DecodeRow call: `ok <text hex> <2·x left> <2·x right>` | `ERR:<kind>` | `PANIC` | NEITHER | BOTH
// (`BADY`, `BADPOINTS`, `BADFORMAT`, `BADMETA` when the result object is not what DecodeRow documents).

import (
	"fmt"
	"math"
	"strings"

	"github.com/makiuchi-d/gozxing"
	"github.com/makiuchi-d/gozxing/oned"
)

func init() {
	prev6 := suites["C06"]
	suites["C06"] = func(c *Ctx) {
		if prev6 != nil {
			prev6(c)
		}
		oned39Arbitrary(c)
	}
	prev3 := suites["C03"]
	suites["C03"] = func(c *Ctx) {
		if prev3 != nil {
			prev3(c)
		}
		oned39Rendered(c)
	}
	// the two parts alone (development / self-test): `gzxh -prop ONED39`
	suites["ONED39"] = func(c *Ctx) {
		oned39Arbitrary(c)
		oned39Rendered(c)
	}
}

// ---------- calling the real decoders ----------

type oned39Dec struct {
	kind   string // c39 | c93 | cb
	ck     bool
	ext    bool
	retSE  bool
	hints  map[gozxing.DecodeHintType]interface{}
	hdesc  string
	format gozxing.BarcodeFormat
	symID  string
}

func oned39B(b bool) string {
	if b {
		return "1"
	}
	return "0"
}

func oned39Bits(bs []bool) string {
	if len(bs) == 0 {
		return "-"
	}
	return bitsStr(bs)
}

func (d *oned39Dec) op(bs []bool) string {
	switch d.kind {
	case "c39":
		return "row39 c39 " + oned39B(d.ck) + " " + oned39B(d.ext) + " " + oned39Bits(bs)
	case "c93":
		return "row39 c93 " + oned39Bits(bs)
	}
	return "row39 cb " + oned39B(d.retSE) + " " + oned39Bits(bs)
}

func (d *oned39Dec) fresh() oned.RowDecoder {
	switch d.kind {
	case "c39":
		return c06AsRow(oned.NewCode39ReaderWithFlags(d.ck, d.ext))
	case "c93":
		return c06AsRow(oned.NewCode93Reader())
	}
	return c06AsRow(oned.NewCodaBarReader())
}

func oned39NewDec(r *Rng, kind string) *oned39Dec {
	d := &oned39Dec{kind: kind}
	d.hints, d.hdesc = c06RowHints(r)
	switch kind {
	case "c39":
		d.ck, d.ext = r.Bool(), r.Bool()
		d.format, d.symID = gozxing.BarcodeFormat_CODE_39, "]A0"
	case "c93":
		d.format, d.symID = gozxing.BarcodeFormat_CODE_93, "]G0"
	default:
		d.format, d.symID = gozxing.BarcodeFormat_CODABAR, "]F0"
		_, d.retSE = d.hints[gozxing.DecodeHintType_RETURN_CODABAR_START_END]
		if !d.retSE && r.Chance(0.25) { // the reader tests the PRESENCE of the key: any value counts
			if d.hints == nil {
				d.hints = map[gozxing.DecodeHintType]interface{}{}
			}
			d.hints[gozxing.DecodeHintType_RETURN_CODABAR_START_END] = false
			d.hdesc += ",codabar-se=false"
			d.retSE = true
		}
	}
	return d
}

// oned39Outcome canonicalises (result, error) of DecodeRow called with row number rn.
func oned39Outcome(d *oned39Dec, res *gozxing.Result, err error, rn int) string {
	switch {
	case res != nil && err != nil:
		return "BOTH"
	case res == nil && err == nil:
		return "NEITHER"
	case err != nil:
		return "ERR:" + errKind(err)
	}
	pts := res.GetResultPoints()
	if len(pts) != 2 {
		return "BADPOINTS"
	}
	if pts[0].GetY() != float64(rn) || pts[1].GetY() != float64(rn) {
		return "BADY"
	}
	l2, r2 := pts[0].GetX()*2, pts[1].GetX()*2
	if l2 != math.Trunc(l2) || r2 != math.Trunc(r2) || l2 < 0 || r2 < 0 {
		return fmt.Sprintf("BADPOINTS %v %v", pts[0].GetX(), pts[1].GetX())
	}
	if res.GetBarcodeFormat() != d.format {
		return "BADFORMAT"
	}
	if id, ok := res.GetResultMetadata()[gozxing.ResultMetadataType_SYMBOLOGY_IDENTIFIER]; !ok || id != d.symID {
		return "BADMETA"
	}
	return fmt.Sprintf("ok %s %d %d", hexs([]byte(res.GetText())), int64(l2), int64(r2))
}

// oned39Call runs the real DecodeRow (sometimes after another call on the same instance: scratch state must not
// leak) and queues the comparison with the model.  Returns the outcome line.
func oned39Call(c *Ctx, r *Rng, d *oned39Dec, bs []bool, decoy []bool, class string) string {
	rn := r.Intn(60)
	out := Safe(func() string {
		dec := d.fresh()
		if decoy != nil {
			dec.DecodeRow(r.Intn(60), rowFromBits(decoy), d.hints)
		}
		res, err := dec.DecodeRow(rn, rowFromBitsVia(bs, r.Intn(c20Paths), r), d.hints)
		return oned39Outcome(d, res, err, rn)
	})
	c.Note("oned39:" + d.kind + "/" + class + ":" + strings.SplitN(out, " ", 2)[0])
	if d.kind == "cb" {
		c.CmpF("oned39-"+d.kind, d.op(bs), out, func(goOut, model string) (bool, bool) {
			if strings.HasSuffix(model, " TIE") {
				if strings.TrimSuffix(model, " TIE") == goOut {
					return true, false
				}
				return false, true // a stripe exactly on a float64 threshold with inexact quotients: not compared
			}
			return goOut == model, false
		})
	} else {
		c.Cmp("oned39-"+d.kind, d.op(bs), out)
	}
	return out
}

func oned39Documented(out string) bool {
	return strings.HasPrefix(out, "ok ") || out == "ERR:notfound" || out == "ERR:checksum" || out == "ERR:format"
}

// ---------- the unexported steps (verif hooks) against the model ----------

func oned39IntOrErr(v int, e error) string {
	if e != nil {
		return "ERR:" + errKind(e)
	}
	return fmt.Sprint(v)
}

func oned39Steps(c *Ctx, r *Rng, bs []bool) {
	bits := oned39Bits(bs)
	c.Cmp("oned39-steps", "row39 c39star "+bits, Safe(func() string {
		a, b, e := oned.VerifCode39FindAsteriskPattern(rowFromBits(bs))
		if e != nil {
			return "ERR:" + errKind(e)
		}
		return fmt.Sprintf("%d,%d", a, b)
	}))
	c.Cmp("oned39-steps", "row39 c93star "+bits, Safe(func() string {
		a, b, e := oned.VerifCode93FindAsteriskPattern(rowFromBits(bs))
		if e != nil {
			return "ERR:" + errKind(e)
		}
		return fmt.Sprintf("%d,%d", a, b)
	}))
	var counters []int
	c.Cmp("oned39-steps", "row39 cbcnt "+bits, Safe(func() string {
		cs, e := oned.VerifCodabarSetCounters(rowFromBits(bs))
		if e != nil {
			return "ERR:" + errKind(e)
		}
		counters = cs
		return ints(cs)
	}))
	if counters == nil {
		return
	}
	oned39CodabarSteps(c, r, counters)
}

// oned39CodabarSteps: findStartPattern, toNarrowWidePattern at every character position the reader would visit,
// validatePattern on the characters so classified — also after nudging counters by ±1 AFTER classification, which
// puts stripes next to (and onto) the acceptance thresholds.
func oned39CodabarSteps(c *Ctx, r *Rng, counters []int) {
	cs := ints(counters)
	start := -1
	c.Cmp("oned39-steps", "row39 cbstart "+cs, Safe(func() string {
		s, e := oned.VerifCodabarFindStartPattern(counters)
		if e == nil {
			start = s
		}
		return oned39IntOrErr(s, e)
	}))
	for k := 0; k < 3; k++ {
		pos := r.Intn(len(counters) + 3)
		c.Cmp("oned39-steps", fmt.Sprintf("row39 cbnw %s %d", cs, pos), Safe(func() string {
			return fmt.Sprint(oned.VerifCodabarToNarrowWidePattern(counters, pos))
		}))
	}
	if start < 0 {
		return
	}
	var res []byte
	for p := start; p < len(counters); p += 8 {
		off := oned.VerifCodabarToNarrowWidePattern(counters, p)
		if off < 0 {
			break
		}
		res = append(res, byte(off))
	}
	if len(res) == 0 {
		return
	}
	for k := 0; k < 3; k++ {
		cc := append([]int{}, counters...)
		for n := k; n > 0; n-- {
			i := r.Intn(len(cc))
			if r.Bool() {
				cc[i]++
			} else if cc[i] > 1 {
				cc[i]--
			}
		}
		rs := make([]int, len(res))
		for i, b := range res {
			rs[i] = int(b)
		}
		op := fmt.Sprintf("row39 cbval %s %s %d", ints(cc), ints(rs), start)
		goOut := Safe(func() string {
			if e := oned.VerifCodabarValidatePattern(cc, res, start); e != nil {
				return "ERR:" + errKind(e)
			}
			return "ok"
		})
		c.CmpF("oned39-steps", op, goOut, func(goOut, model string) (bool, bool) {
			if strings.HasSuffix(model, " TIE") {
				if strings.TrimSuffix(model, " TIE") == goOut {
					return true, false
				}
				return false, true
			}
			return goOut == model, false
		})
	}
}

// oned39Classifiers: counter vectors straight into the two pattern classifiers.
func oned39Classifiers(c *Ctx, r *Rng) {
	// Code 39: a table word at some scale with wide = 2..3 narrow, perturbed; or free counters; any length
	var cs []int
	switch r.Intn(5) {
	case 0, 1:
		enc := c06Code39Enc[r.Intn(len(c06Code39Enc))]
		if r.Chance(0.2) {
			enc = 0x094
		}
		s, wide := r.Range(1, 6), r.Pick([]int{2, 2, 3})
		for i := 0; i < 9; i++ {
			w := s
			if enc&(1<<uint(8-i)) != 0 {
				w = s * wide
			}
			cs = append(cs, w)
		}
		for k := r.Pick([]int{0, 1, 1, 2, 3}); k > 0; k-- {
			i := r.Intn(9)
			cs[i] += r.Pick([]int{-1, 1, 1, 2})
			if cs[i] < 0 {
				cs[i] = 0
			}
		}
	case 2:
		for i := 0; i < 9; i++ {
			cs = append(cs, r.Range(0, 6))
		}
	case 3:
		for i := r.Range(0, 12); i > 0; i-- {
			cs = append(cs, r.Range(0, 9))
		}
	default: // few distinct values: many equal counters, the `wideCounters > 3` iterations
		a, b, d := r.Range(1, 4), r.Range(2, 9), r.Range(3, 30)
		for i := 0; i < 9; i++ {
			cs = append(cs, r.Pick([]int{a, a, b, b, d}))
		}
	}
	c.Cmp("oned39-classify", "row39 c39pat "+ints(cs), Safe(func() string {
		return fmt.Sprint(oned.VerifCode39ToNarrowWidePattern(append([]int{}, cs...)))
	}))

	// Code 93: six counters; one third of the cases sit exactly on a rounding boundary 9c/sum = k - 1/2
	cs = nil
	switch r.Intn(4) {
	case 0:
		enc := c06Code93Enc[r.Intn(len(c06Code93Enc))]
		s := r.Range(1, 7)
		run, cur := 0, true
		for i := 8; i >= 0; i-- {
			b := enc&(1<<uint(i)) != 0
			if b == cur {
				run++
			} else {
				cs = append(cs, run*s)
				run, cur = 1, b
			}
		}
		cs = append(cs, run*s)
		for k := r.Pick([]int{0, 1, 1, 2}); k > 0 && len(cs) > 0; k-- {
			i := r.Intn(len(cs))
			cs[i] += r.Pick([]int{-1, 1})
			if cs[i] < 0 {
				cs[i] = 0
			}
		}
	case 1: // sum = 18t, one counter = t(2k-1): float64(c)*9/sum + 0.5 is exactly k
		t, k := r.Range(1, 12), r.Range(1, 5)
		sum := 18 * t
		first := t * (2*k - 1)
		rest := sum - first
		cs = []int{first}
		for i := 0; i < 5; i++ {
			x := 0
			if i == 4 {
				x = rest
			} else if rest > 0 {
				x = r.Range(0, rest*2/(5-i)+1)
				if x > rest {
					x = rest
				}
			}
			rest -= x
			cs = append(cs, x)
		}
		if r.Chance(0.4) {
			cs[r.Intn(6)] += r.Pick([]int{-1, 1})
		}
		for i := range cs {
			if cs[i] < 0 {
				cs[i] = 0
			}
		}
		r.shuffleInts(cs)
	case 2:
		for i := 0; i < 6; i++ {
			cs = append(cs, r.Range(0, 12))
		}
	default:
		for i := r.Range(0, 8); i > 0; i-- {
			cs = append(cs, r.Range(0, 5))
		}
	}
	c.Cmp("oned39-classify", "row39 c93pat "+ints(cs), Safe(func() string {
		return fmt.Sprint(oned.VerifCode93ToPattern(append([]int{}, cs...)))
	}))

	// Codabar: free counters (start search, classification, validation on whatever is found)
	if r.Chance(0.5) {
		n := r.Pick([]int{0, 1, 7, 8, 9, 15, 16, 17, r.Range(1, 60)})
		cc := make([]int, n)
		mx := r.Pick([]int{2, 3, 4, 9})
		for i := range cc {
			cc[i] = r.Range(1, mx)
		}
		if n > 0 {
			oned39CodabarSteps(c, r, cc)
		}
	}
}

func (r *Rng) shuffleInts(xs []int) {
	for i := len(xs) - 1; i > 0; i-- {
		j := r.Intn(i + 1)
		xs[i], xs[j] = xs[j], xs[i]
	}
}

// ---------- rows ----------

var oned39Formats = map[string]gozxing.BarcodeFormat{
	"c39": gozxing.BarcodeFormat_CODE_39, "c93": gozxing.BarcodeFormat_CODE_93, "cb": gozxing.BarcodeFormat_CODABAR}

func oned39Solid(n int, v bool) []bool {
	out := make([]bool, n)
	for i := range out {
		out[i] = v
	}
	return out
}

// oned39ArbitraryRow: (c) of the brief — free rows
func oned39ArbitraryRow(r *Rng) ([]bool, string) {
	switch r.Intn(6) {
	case 0:
		n := r.Pick([]int{0, 1, 2, 3, 4, 5, 8, 9, 10, 31, 32, 33, 63, 64, 65})
		bs := make([]bool, n)
		for i := range bs {
			bs[i] = r.Bool()
		}
		return bs, "short"
	case 1:
		return oned39Solid(r.Pick([]int{0, 1, 2, 3, 7, 32, 64, 100, 333}), r.Bool()), "uniform"
	case 2:
		n := r.Range(1, 500)
		return genRow(r, n)[:n], "random"
	default: // run-structured: widths from a small set, so that narrow/wide classification often succeeds
		n := r.Range(20, 600)
		a := r.Range(1, 4)
		set := [][]int{{a, 2 * a}, {a, 2 * a, 3 * a}, {a, a + 1, 2 * a, 2*a + 1}, {1, 2, 3, 4}, {a, 2 * a, 2 * a, a, a, 7 * a}}[r.Intn(5)]
		var bs []bool
		col := r.Bool()
		for len(bs) < n {
			for k := set[r.Intn(len(set))]; k > 0; k-- {
				bs = append(bs, col)
			}
			col = !col
		}
		return bs, "runs"
	}
}

// oned39SymbolRow: writer output (own or another symbology) or a crafted symbol, framed and possibly mutated
func oned39SymbolRow(r *Rng, kind string) ([]bool, string) {
	var base []bool
	class := "valid"
	switch {
	case kind == "c39" && r.Chance(0.35):
		s := c06FromAlphabet(r, c06Code39Alpha, 0, 8)
		switch r.Intn(5) {
		case 0:
			s += string("+$%/"[r.Intn(4)])
		case 1:
			s = c06FromAlphabet(r, "+$%/ABCZ0", 0, 6)
		case 2:
			s += string(c06Code39Check(s))
		case 3:
			s = ""
		}
		base, class = c06Code39Row(s, r.Pick([]int{2, 2, 3})), "crafted"
	case kind == "c93" && r.Chance(0.35):
		s := c06FromAlphabet(r, c06Code93Alpha[:47], 0, 8)
		switch r.Intn(4) {
		case 0:
			s += string("abcd"[r.Intn(4)])
		case 1:
			s = c06FromAlphabet(r, "abcdABZ09", 0, 6)
		case 2:
			s = ""
		}
		base, class = c06Code93Row(s, r.Chance(0.85)), "crafted"
	default:
		f := oned39Formats[kind]
		if r.Chance(0.12) {
			f = c06OnedFormats[r.Intn(len(c06OnedFormats))]
			class = "other-symbology"
		}
		base = c06Modules(f, c06OnedContent(r, f))
		if base == nil {
			return []bool{true, false, true}, "tiny"
		}
	}
	if kind == "c93" && r.Chance(0.2) {
		// a complete symbol WITHOUT its termination bar, white up to the row end: the reader's `nextStart == end`
		// test is all that keeps `row.Get(nextStart)` inside the row (inside the last word when size % 32 != 0)
		s := c06FromAlphabet(r, c06Code93Alpha[:43], 0, 6)
		sym := c06Code93Row(s, true)
		sym = sym[:len(sym)-1]
		k := r.Pick([]int{1, 1, 2, 3})
		row := append(c06White(r.Pick([]int{0, 1, 5, 10})), c06Scale(sym, k)...)
		row = append(row, c06White(r.Pick([]int{0, 0, 1, 7, 20}))...)
		return oned39Align(r, row), "c93-no-termination-bar"
	}
	row := c06Frame(r, base)
	for k := r.Pick([]int{0, 0, 1, 1, 2, 3}); k > 0; k-- {
		var how string
		row, how = c06MutateRow(r, row)
		class = "mutated-" + how
	}
	if r.Chance(0.2) {
		row = oned39Align(r, row)
	}
	if r.Chance(0.1) {
		f2 := c06OnedFormats[r.Intn(len(c06OnedFormats))]
		if b2 := c06Modules(f2, c06OnedContent(r, f2)); b2 != nil {
			row = append(row, c06Frame(r, b2)...)
			class = "two-symbols"
		}
	}
	return row, class
}

// oned39Align pads the row with white pixels to a multiple of 32 (mostly) or to one pixel off a multiple:
// BitArray keeps 32 pixels per word, reads at index == size stay inside the last word unless size % 32 == 0
func oned39Align(r *Rng, row []bool) []bool {
	pad := (32 - len(row)%32) % 32
	switch r.Intn(4) {
	case 0:
		pad++
	case 1:
		if pad > 0 {
			pad--
		} else {
			pad = 31
		}
	}
	return append(row, c06White(pad)...)
}

var oned39Kinds = []string{"c39", "c93", "cb"}

func oned39Arbitrary(c *Ctx) {
	// exhaustive: every row of length 0..3 and uniform rows up to 70, every reader configuration
	var tiny [][]bool
	for n := 0; n <= 3; n++ {
		for m := 0; m < 1<<uint(n); m++ {
			bs := make([]bool, n)
			for i := range bs {
				bs[i] = m&(1<<uint(i)) != 0
			}
			tiny = append(tiny, bs)
		}
	}
	for n := 4; n <= 70; n += 3 {
		tiny = append(tiny, oned39Solid(n, false), oned39Solid(n, true))
	}
	r0 := c.Rng.Fork()
	for _, bs := range tiny {
		for _, d := range []*oned39Dec{
			{kind: "c39", format: gozxing.BarcodeFormat_CODE_39, symID: "]A0"},
			{kind: "c39", ck: true, ext: true, format: gozxing.BarcodeFormat_CODE_39, symID: "]A0"},
			{kind: "c93", format: gozxing.BarcodeFormat_CODE_93, symID: "]G0"},
			{kind: "cb", format: gozxing.BarcodeFormat_CODABAR, symID: "]F0"}} {
			out := oned39Call(c, r0, d, bs, nil, "tiny")
			if len(bs) >= 1 {
				c.Oracle("oned39-row", oned39Documented(out), "oned39:"+d.kind+":"+strings.SplitN(out, " ", 2)[0],
					fmt.Sprintf("row %s %s", d.kind, oned39Bits(bs)), "outcome="+out)
			}
		}
		oned39Steps(c, r0, bs)
	}
	n := c.Pick(30000, 600000)
	c.Parallel(n, 16, func(i int, r *Rng) {
		kind := oned39Kinds[i%3]
		var bs []bool
		var class string
		if r.Chance(0.3) {
			bs, class = oned39ArbitraryRow(r)
		} else {
			bs, class = oned39SymbolRow(r, kind)
		}
		d := oned39NewDec(r, kind)
		var decoy []bool
		if r.Chance(0.3) {
			decoy, _ = oned39SymbolRow(r, kind)
		}
		out := oned39Call(c, r, d, bs, decoy, class)
		if len(bs) >= 1 {
			c.Oracle("oned39-row", oned39Documented(out), "oned39:"+d.kind+":"+strings.SplitN(out, " ", 2)[0],
				fmt.Sprintf("row %s[check=%v,ext=%v] %s %s", d.kind, d.ck, d.ext, d.hdesc, oned39Bits(bs)), "outcome="+out)
		}
		if i%4 == 0 {
			oned39Steps(c, r, bs)
		}
		oned39Classifiers(c, r)
	})
}

// ---------- C03: rendered rows ----------

func oned39InAlphabet(s string) bool {
	for i := 0; i < len(s); i++ {
		if !strings.ContainsRune(c06Code39Alpha, rune(s[i])) {
			return false
		}
	}
	return true
}

// oned39Content: a content the writer of `kind` accepts and the text the matching reader must return
func oned39Content(r *Rng, kind string) (content, want string) {
	switch kind {
	case "c39", "c93":
		var s string
		switch r.Intn(4) {
		case 0:
			s = c06FromAlphabet(r, c06Code39Alpha, 1, 20)
		case 1: // every alphabet character once in a while, boundary lengths
			s = c06FromAlphabet(r, c06Code39Alpha, 1, 3) + string(c06Code39Alpha[r.Intn(43)])
		case 2:
			b := make([]byte, r.Range(1, 10))
			for i := range b {
				b[i] = byte(r.Intn(128))
			}
			s = string(b)
		default:
			s = c06FromAlphabet(r, "abcxyz!#&'()*,;<=>?@[\\]^_`{|}~\x00\x01\x1f\x7f"+c06Code39Alpha, 1, 12)
		}
		return s, s
	}
	data := c06FromAlphabet(r, "0123456789-$:/.+", 2, 16)
	switch r.Intn(3) {
	case 0:
		return data, data
	case 1:
		return string("ABCD"[r.Intn(4)]) + data + string("ABCD"[r.Intn(4)]), data
	}
	return string("TN*E"[r.Intn(4)]) + data + string("TN*E"[r.Intn(4)]), data
}

func oned39Rendered(c *Ctx) {
	n := c.Pick(9000, 150000)
	c.Parallel(n, 16, func(i int, r *Rng) {
		kind := oned39Kinds[i%3]
		content, want := oned39Content(r, kind)
		mods := c06Modules(oned39Formats[kind], content)
		if mods == nil {
			c.Note("oned39:writer-refused/" + kind)
			return
		}
		s := r.Pick([]int{1, 1, 2, 2, 3, 4, 4, r.Range(5, 8)})
		body := c06Scale(mods, s)
		// quiet zones: 0, 1, the widths the readers compare with (6s for Code 39; half of a Codabar character),
		// one less, one more, large
		half := 6 * s
		if kind == "cb" {
			half = s * r.Pick([]int{4, 5, 6})
		}
		qs := []int{0, 1, 2, half - 1, half, half + 1, 3 * half, 10 * s, r.Range(0, 40)}
		lq, rq := r.Pick(qs), r.Pick(qs)
		if lq < 0 {
			lq = 0
		}
		if rq < 0 {
			rq = 0
		}
		junkL, junkR := 0, 0
		if r.Chance(0.3) {
			junkL = r.Range(1, 3*s)
		}
		if r.Chance(0.3) {
			junkR = r.Range(1, 3*s)
		}
		var row []bool
		row = append(row, oned39Solid(junkL, true)...)
		row = append(row, c06White(lq)...)
		row = append(row, body...)
		row = append(row, c06White(rq)...)
		row = append(row, oned39Solid(junkR, true)...)
		d := oned39NewDec(r, kind)
		if kind == "c39" {
			d.ck, d.ext = false, !oned39InAlphabet(content)
			if r.Chance(0.15) { // other flag combinations: compared with the model, not judged
				d.ck, d.ext = r.Bool(), r.Bool()
			}
		}
		class := fmt.Sprintf("rendered/s=%d", s)
		if s > 4 {
			class = "rendered/s=5..8"
		}
		out := oned39Call(c, r, d, row, nil, class)
		if i%5 == 0 {
			oned39Steps(c, r, row)
		}
		// the round-trip oracle: white-only surroundings inside what the reader demands
		inHyp := junkL == 0 && junkR == 0
		switch kind {
		case "c39":
			inHyp = inHyp && !d.ck && d.ext == !oned39InAlphabet(content)
		case "cb":
			inHyp = inHyp && lq >= 1 && rq >= 1 && !d.retSE
		}
		if !inHyp {
			c.Note("oned39:c03-compared-only/" + kind)
			return
		}
		c.Note(fmt.Sprintf("oned39:c03-judged/%s/lq=%s/rq=%s", kind, oned39QClass(lq, half), oned39QClass(rq, half)))
		ok := strings.HasPrefix(out, "ok "+hexs([]byte(want))+" ")
		c.Oracle("oned39-roundtrip", ok, "oned39-roundtrip:"+kind,
			fmt.Sprintf("%s content=%q scale=%d lq=%d rq=%d row=%s", kind, content, s, lq, rq, oned39Bits(row)),
			fmt.Sprintf("want text %q, outcome=%s", want, out))
	})
}

func oned39QClass(q, half int) string {
	switch {
	case q == 0:
		return "0"
	case q < half:
		return "<half"
	case q == half:
		return "half"
	}
	return ">half"
}
