package main

// Statelessness premise.  The Lean models treat Encode / Decode / DecodeRow ... as functions of their arguments.
// What ties that to the code is (a) the history suites (zz_reuse.go), which sample call sequences, and (b) this
// static premise: the set of instance fields of library struct types that are written AFTER construction (through
// a receiver or struct-pointer parameter of a non-constructor function) equals the reviewed list in
// corpus/purity/allowed-instance-writes.txt — containers (BitMatrix, BitArray ...), builders, per-call scratch
// buffers that every call resets, configuration setters.  A field that appears (a cache, a memo, a remembered
// hint) is state carried between calls that no model accounts for: the premise is reported as broken for the
// properties that own the package, the failing-input search (thorough reuse suites) runs, and if it finds no
// failing sequence the verdict is `VIOLATION ... no-failing-input-found` naming the field.

import (
	"path/filepath"
	"strings"
)

// which properties model code of which package (path relative to the module root, "gozxing" = root package)
var purityOwners = map[string][]string{
	"gozxing":             {"C06", "C09", "C12", "C14", "C16", "C17", "C20"},
	"common":              {"C06", "C15", "C19"},
	"common/reedsolomon":  {"C04", "C05", "C06"},
	"common/detector":     {"C06", "C09"},
	"common/util":         {"C19", "C20"},
	"qrcode":              {"C01", "C06", "C07", "C09", "C12", "C13", "C14", "C15"},
	"qrcode/decoder":      {"C01", "C05", "C06", "C15"},
	"qrcode/encoder":      {"C01", "C07", "C12", "C13", "C15"},
	"qrcode/detector":     {"C06", "C09"},
	"datamatrix":          {"C02", "C06", "C08", "C09", "C12", "C13", "C14"},
	"datamatrix/decoder":  {"C02", "C05", "C06"},
	"datamatrix/encoder":  {"C02", "C08", "C12", "C13"},
	"datamatrix/detector": {"C06", "C09"},
	"oned":                {"C03", "C06", "C09", "C10", "C12", "C14", "C20"},
	"oned/rss":            {"C06", "C09"},
	"aztec":               {"C06", "C09", "C11"},
	"aztec/decoder":       {"C06", "C11"},
	"aztec/detector":      {"C06", "C11"},
	"multi":               {"C06", "C09"},
	"multi/qrcode":        {"C06", "C09"},
}

func init() {
	// C18 ("every call returns exactly what it returns when run alone") rests on the same premise for every package:
	// an object that remembers something between calls may be one that several goroutines reach (package-level tables
	// such as the GenericGF instances are shared by every reader and writer).
	for pkg := range purityOwners {
		purityOwners[pkg] = append(purityOwners[pkg], "C18")
	}
	props := map[string]bool{}
	for _, ps := range purityOwners {
		for _, p := range ps {
			props[p] = true
		}
	}
	for p := range props {
		prop := p
		prev := suites[prop]
		if prev == nil {
			continue
		}
		suites[prop] = func(c *Ctx) {
			prev(c)
			purityPremise(c, prop)
		}
	}
}

func purityPremise(c *Ctx, prop string) {
	sc, err := c18ScanRepo(c06RepoDir())
	if err != nil {
		c.Remark("statelessness scan failed: " + err.Error())
		return
	}
	allowed, err := c18Allowed(filepath.Join(c18HarnessDir(), "..", "corpus", "purity", "allowed-instance-writes.txt"))
	if err != nil {
		c.Remark("statelessness allow-list unreadable: " + err.Error())
		return
	}
	mine, n := 0, 0
	for _, w := range sc.InstWrites { // "pkg/path.Type.field"
		i := strings.LastIndex(w, ".")
		j := strings.LastIndex(w[:i], ".")
		pkg := w[:j]
		owned := false
		for _, p := range purityOwners[pkg] {
			if p == prop {
				owned = true
			}
		}
		if !owned {
			continue
		}
		mine++
		if _, ok := allowed[w]; ok {
			n++
			continue
		}
		c.BrokenPremise("stateless:"+w,
			"instance field "+w+" is written after construction (a non-constructor function assigns it through its receiver or a struct-pointer parameter) and is not in the reviewed list corpus/purity/allowed-instance-writes.txt: the object now carries state from one call to the next, which the model of property "+prop+" (a function of the call's arguments) does not account for")
	}
	// package-level state written at run time (outside init): a process-wide cache or memo is state carried between
	// calls just as well.  Same scan and same reviewed list as C18 (corpus/C18/allowed-shared-writes.txt).
	allowedG, err := c18Allowed(filepath.Join(c18HarnessDir(), "..", "corpus", "C18", "allowed-shared-writes.txt"))
	if err == nil {
		for _, w := range sc.Writes { // "pkg.Func -> pkg.Var"
			if _, ok := allowedG[w]; ok {
				continue
			}
			k := strings.Index(w, " -> ")
			if k < 0 {
				continue
			}
			v := w[k+4:]
			pkg := v[:strings.LastIndex(v, ".")]
			for _, p := range purityOwners[pkg] {
				if p == prop {
					c.BrokenPremise("stateless:"+strings.ReplaceAll(w, " ", ""),
						"function writes package-level state at run time ("+w+"), not in the reviewed list corpus/C18/allowed-shared-writes.txt: calls now depend on what earlier calls in the process left there, which the model of property "+prop+" (a function of the call's arguments) does not account for")
				}
			}
		}
	}
	c.NoteN("purity:instance-fields-written-after-construction(owned packages)", mine)
	c.NoteN("purity:of-which-reviewed", n)
}
