package main

// wp qrenc — layer-wise correspondence of the REAL qrcode/encoder with the Go-mirroring Lean model
// lean/Gzx/Model/QREncMirror.lean (driver suite `c07m`): mode choice, data bits, length info, terminated bits,
// block sizes, Reed-Solomon blocks + interleaving, BCH words, the matrix after every embed step, the zig-zag
// data placement, the four penalty rules, mask choice, version choice and whole Encoder_encode calls with hints.
// Structured inputs (all versions / levels / masks, capacity boundaries) plus a malformed stream (wrong sizes,
// non-square and pre-filled matrices, invalid masks, negative counts) on which errors and panics must agree too.
// The property itself (library matrix == reference matrix of lean/Gzx/Ref/QR.lean) is judged by c07Check.

import (
	"fmt"
	"strings"
	"time"
	"unicode/utf8"

	textencoding "golang.org/x/text/encoding"

	"github.com/makiuchi-d/gozxing"
	"github.com/makiuchi-d/gozxing/common"
	"github.com/makiuchi-d/gozxing/qrcode/decoder"
	"github.com/makiuchi-d/gozxing/qrcode/encoder"
)

func init() {
	prev07 := suites["C07"]
	suites["C07"] = func(c *Ctx) {
		prev07(c)
		qrencBitStages(c)
		qrencMatrixStages(c)
		qrencPenalties(c)
		qrencMaskChoice(c)
		qrencVersionChoice(c)
		qrencEncode(c)
	}
	prev13 := suites["C13"]
	suites["C13"] = func(c *Ctx) {
		prev13(c)
		qrencVersionChoice(c)
	}
	prev01 := suites["C01"]
	suites["C01"] = func(c *Ctx) {
		prev01(c)
		qrencEncode(c)
	}
	prev12 := suites["C12"]
	suites["C12"] = func(c *Ctx) {
		prev12(c)
		qrencEncodeTotal(c)
	}
}

var qrencModes = []*decoder.Mode{decoder.Mode_NUMERIC, decoder.Mode_ALPHANUMERIC, decoder.Mode_BYTE, decoder.Mode_KANJI}

func qrencBits(b *gozxing.BitArray) string {
	if b == nil {
		return "nil"
	}
	n := b.GetSize()
	if n == 0 {
		return "-"
	}
	s := make([]byte, n)
	for i := 0; i < n; i++ {
		s[i] = '0'
		if b.Get(i) {
			s[i] = '1'
		}
	}
	return string(s)
}

// raw form for op arguments (empty string for no bits)
func qrencBitsArg(b *gozxing.BitArray) string {
	s := qrencBits(b)
	if s == "-" {
		return ""
	}
	return s
}

func qrencBitsOf(s string) *gozxing.BitArray {
	b := gozxing.NewEmptyBitArray()
	for i := 0; i < len(s); i++ {
		b.AppendBit(s[i] == '1')
	}
	return b
}

func qrencRandBits(r *Rng, n int) string {
	s := make([]byte, n)
	for i := range s {
		s[i] = byte('0' + r.Intn(2))
	}
	return string(s)
}

func qrencBM(m *encoder.ByteMatrix) string {
	var sb strings.Builder
	fmt.Fprintf(&sb, "%dx%d:", m.GetWidth(), m.GetHeight())
	for y := 0; y < m.GetHeight(); y++ {
		if y > 0 {
			sb.WriteByte('/')
		}
		for x := 0; x < m.GetWidth(); x++ {
			switch m.Get(x, y) {
			case 0:
				sb.WriteByte('0')
			case 1:
				sb.WriteByte('1')
			case -1:
				sb.WriteByte('?')
			default:
				sb.WriteByte('x')
			}
		}
	}
	return sb.String()
}

// cells: 0 -> zeros, 1 -> random 0/1, 2 -> random over {0,1,-1}, 3 -> all -1, 4 -> random incl. the odd value 2
func qrencNewBM(r *Rng, w, h, kind int) *encoder.ByteMatrix {
	m := encoder.NewByteMatrix(w, h)
	for y := 0; y < h; y++ {
		for x := 0; x < w; x++ {
			var v int8
			switch kind {
			case 1:
				v = int8(r.Intn(2))
			case 2:
				v = int8(r.Intn(3)) - 1
			case 3:
				v = -1
			case 4:
				v = int8(r.Intn(4)) - 1
			}
			m.Set(x, y, v)
		}
	}
	return m
}

func qrencErr(e error) string { return "ERR:" + errKind(e) }

func qrencSJIS(text string) string {
	b, e := common.StringUtils_SHIFT_JIS_CHARSET.NewEncoder().Bytes([]byte(text))
	if e != nil {
		return "none"
	}
	return hexs(b)
}

func qrencEncBytes(enc textencoding.Encoding, text string) string {
	b, e := enc.NewEncoder().Bytes([]byte(text))
	if e != nil {
		return "none"
	}
	return hexs(b)
}

func qrencCharset(name string) textencoding.Encoding {
	eci, ok := common.GetCharacterSetECIByName(name)
	if !ok {
		return nil
	}
	return eci.GetCharset()
}

// text generator: kinds 0 digits, 1 alphanumeric, 2 printable ASCII, 3 latin-1 runes, 4 kanji, 5 kanji+ascii,
// 6 arbitrary bytes (mostly invalid UTF-8), 7 empty, 8 digits with one foreign character
func qrencText(r *Rng, kind, n int) string {
	switch kind {
	case 0:
		return c07Random(r, "0123456789", n)
	case 1:
		return c07Random(r, c07Alnum, n)
	case 2:
		b := make([]byte, n)
		for i := range b {
			b[i] = byte(0x20 + r.Intn(0x5f))
		}
		return string(b)
	case 3:
		return c07Latin1(r, n)
	case 4:
		return c07KanjiStr(r, n)
	case 5:
		return c07KanjiStr(r, n/2+1) + c07Random(r, c07Alnum, n/2+1)
	case 6:
		b := make([]byte, n)
		for i := range b {
			b[i] = byte(r.Intn(256))
		}
		return string(b)
	case 7:
		return ""
	default:
		s := []byte(c07Random(r, "0123456789", n+1))
		s[r.Intn(len(s))] = "A a\x00:é"[r.Intn(6)]
		return string(s)
	}
}

func qrencDataBytes(v int, ec decoder.ErrorCorrectionLevel) (total, data, blocks int) {
	ver := c07Version(v)
	b := ver.GetECBlocksForLevel(ec)
	return ver.GetTotalCodewords(), ver.GetTotalCodewords() - b.GetTotalECCodewords(), b.GetNumBlocks()
}

// ---------------------------------------------------------------------------------------------------------
// bit-level stages

func qrencBitStages(c *Ctx) {
	r := c.Rng.Fork()
	sjisCS := common.StringUtils_SHIFT_JIS_CHARSET
	utf8CS := encoder.Encoder_DEFAULT_BYTE_MODE_ENCODING
	latin1 := qrencCharset("ISO-8859-1")
	encs := []textencoding.Encoding{utf8CS, latin1, sjisCS}

	// chooseMode / isOnlyDoubleByteKanji
	for it := 0; it < c.Pick(400, 4000); it++ {
		text := qrencText(r, r.Intn(9), r.Range(1, 24))
		enc := encs[r.Intn(3)]
		is := 0
		if enc == sjisCS {
			is = 1
		}
		g := Safe(func() string { return encoder.VerifChooseMode(text, enc).String() })
		c.Cmp("qrenc-mode", fmt.Sprintf("c07m mode text=%s issjis=%d sjis=%s", hexs([]byte(text)), is, qrencSJIS(text)), g)
		g2 := Safe(func() string {
			if encoder.VerifIsOnlyDoubleByteKanji(text) {
				return "1"
			}
			return "0"
		})
		c.Cmp("qrenc-mode", fmt.Sprintf("c07m kanji sjis=%s", qrencSJIS(text)), g2)
		c.Note("qrenc:mode:" + g)
	}

	// appendBytes in every mode, also on content the mode cannot carry
	for it := 0; it < c.Pick(600, 6000); it++ {
		mi := r.Intn(4)
		kind := []int{0, 1, 2, 4}[mi]
		if r.Chance(0.25) {
			kind = r.Intn(9) // malformed for the mode
		}
		text := qrencText(r, kind, r.Range(1, 40))
		enc := encs[r.Intn(3)]
		pre := qrencRandBits(r, r.Intn(10))
		g := Safe(func() string {
			bits := qrencBitsOf(pre)
			if e := encoder.VerifAppendBytes(text, qrencModes[mi], bits, enc); e != nil {
				return qrencErr(e)
			}
			return qrencBits(bits)
		})
		c.Cmp("qrenc-bytes", fmt.Sprintf("c07m bytes mode=%s text=%s enc=%s sjis=%s pre=%s", qrencModes[mi].String(),
			hexs([]byte(text)), qrencEncBytes(enc, text), qrencSJIS(text), pre), g)
		if strings.HasPrefix(g, "ERR") || g == "PANIC" {
			c.Note("qrenc:bytes:" + qrencModes[mi].String() + ":" + g)
		} else {
			c.Note("qrenc:bytes:" + qrencModes[mi].String() + ":ok")
		}
	}

	// appendLengthInfo around the 2^width boundaries of the three version classes
	for _, v := range []int{1, 9, 10, 26, 27, 40} {
		for mi := 0; mi < 4; mi++ {
			w := qrencModes[mi].GetCharacterCountBits(c07Version(v))
			for _, n := range []int{0, 1, 1<<uint(w) - 1, 1 << uint(w), 1<<uint(w) + 1, r.Intn(1 << uint(w)), -1, -r.Range(2, 70000)} {
				pre := qrencRandBits(r, r.Intn(6))
				g := Safe(func() string {
					bits := qrencBitsOf(pre)
					if e := encoder.VerifAppendLengthInfo(n, c07Version(v), qrencModes[mi], bits); e != nil {
						return qrencErr(e)
					}
					return qrencBits(bits)
				})
				c.Cmp("qrenc-len", fmt.Sprintf("c07m len n=%d v=%d mode=%s pre=%s", n, v, qrencModes[mi].String(), pre), g)
			}
		}
	}

	// terminateBits: every remainder class and every distance to the capacity
	for it := 0; it < c.Pick(500, 5000); it++ {
		d := r.Range(0, 40)
		if r.Chance(0.1) {
			d = r.Range(-3, 400)
		}
		n := r.Range(0, 8*d+9)
		if d < 0 {
			n = r.Intn(20)
		}
		if r.Chance(0.5) && d > 0 { // close to the capacity
			n = 8*d - r.Intn(14) + 2
			if n < 0 {
				n = 0
			}
		}
		bs := qrencRandBits(r, n)
		g := Safe(func() string {
			bits := qrencBitsOf(bs)
			if e := encoder.VerifTerminateBits(d, bits); e != nil {
				return qrencErr(e)
			}
			return qrencBits(bits)
		})
		c.Cmp("qrenc-term", fmt.Sprintf("c07m term d=%d bits=%s", d, bs), g)
		c.Note(fmt.Sprintf("qrenc:term:slack%d", func() int {
			s := 8*d - n
			if s > 13 {
				return 13
			}
			if s < -1 {
				return -1
			}
			return s
		}()))
	}

	// getNumDataBytesAndNumECBytesForBlockID: every block of every (version, level), the id just beyond, random arguments
	blk := func(t, d, n, b int) {
		g := Safe(func() string {
			x, y, e := encoder.VerifGetNumDataBytesAndNumECBytesForBlockID(t, d, n, b)
			if e != nil {
				return qrencErr(e)
			}
			return fmt.Sprintf("%d,%d", x, y)
		})
		c.Cmp("qrenc-blk", fmt.Sprintf("c07m blk t=%d d=%d n=%d b=%d", t, d, n, b), g)
	}
	for v := 1; v <= 40; v++ {
		for _, ec := range c07Levels {
			t, d, n := qrencDataBytes(v, ec)
			for b := 0; b <= n; b++ {
				blk(t, d, n, b)
			}
		}
	}
	for it := 0; it < c.Pick(300, 3000); it++ {
		n := r.Range(-3, 12)
		b := r.Range(-4, 14)
		if n == 0 && b < 0 { // integer division by zero in Go; never reached from interleaveWithECBytes (0 <= i < numRSBlocks)
			continue
		}
		blk(r.Range(-20, 400), r.Range(-20, 300), n, b)
	}

	// generateECBytes
	for it := 0; it < c.Pick(200, 2000); it++ {
		data := make([]byte, r.Intn(60))
		if r.Chance(0.1) {
			data = make([]byte, r.Range(200, 300))
		}
		for i := range data {
			data[i] = byte(r.Intn(256))
		}
		n := r.Range(-2, 36)
		if r.Chance(0.1) {
			n = r.Range(37, 68)
		}
		if r.Chance(0.05) {
			n = -len(data) - r.Intn(3)
		}
		g := Safe(func() string {
			ecb, e := encoder.VerifGenerateECBytes(data, n)
			if e != nil {
				return qrencErr(e)
			}
			return hexs(ecb)
		})
		c.Cmp("qrenc-ecb", fmt.Sprintf("c07m ecb data=%s n=%d", hexs(data), n), g)
	}

	// interleaveWithECBytes: real block structures with random data, then inconsistent arguments
	type cfg struct {
		v int
		e int
	}
	var cfgs []cfg
	for v := 1; v <= 40; v++ {
		for e := 0; e < 4; e++ {
			if c.Thorough || v <= 12 || (v+e)%4 == int(c.Seed%4) {
				cfgs = append(cfgs, cfg{v, e})
			}
		}
	}
	c.Parallel(len(cfgs), 16, func(i int, r *Rng) {
		t, d, n := qrencDataBytes(cfgs[i].v, c07Levels[cfgs[i].e])
		bs := qrencRandBits(r, 8*d)
		g := Safe(func() string {
			res, e := encoder.VerifInterleaveWithECBytes(qrencBitsOf(bs), t, d, n)
			if e != nil {
				return qrencErr(e)
			}
			return qrencBits(res)
		})
		c.Cmp("qrenc-inter", fmt.Sprintf("c07m inter t=%d d=%d n=%d bits=%s", t, d, n, bs), g)
		c.Note("qrenc:inter:real")
	})
	for it := 0; it < c.Pick(300, 3000); it++ {
		n := r.Range(-1, 6)
		d := r.Range(0, 30)
		t := d + r.Range(-2, 6)*qrencMax(n, 1)
		if r.Chance(0.3) {
			t = r.Range(0, 60)
		}
		nbits := 8 * d
		if r.Chance(0.2) {
			nbits = r.Range(0, 8*d+9)
		}
		bs := qrencRandBits(r, nbits)
		g := SafeT(5*time.Second, func() string {
			res, e := encoder.VerifInterleaveWithECBytes(qrencBitsOf(bs), t, d, n)
			if e != nil {
				return qrencErr(e)
			}
			return qrencBits(res)
		})
		c.Cmp("qrenc-inter", fmt.Sprintf("c07m inter t=%d d=%d n=%d bits=%s", t, d, n, bs), g)
		if len(g) > 12 {
			g = "ok"
		}
		c.Note("qrenc:inter:malformed:" + g)
	}

	// findMSBSet / calculateBCHCode / type and version information bits
	for _, v := range []int{0, 1, 2, 3, 255, 256, 0x537, 0x1f25, 1 << 30, 1<<31 - 1, 1 << 31, 1<<32 - 1, 1 << 32, 1<<32 + 5} {
		c.Cmp("qrenc-bch", fmt.Sprintf("c07m msb v=%d", v), fmt.Sprint(encoder.VerifFindMSBSet(v)))
	}
	bch := func(v, p int) {
		g := SafeT(2*time.Second, func() string {
			x, e := encoder.VerifCalculateBCHCode(v, p)
			if e != nil {
				return qrencErr(e)
			}
			return fmt.Sprint(x)
		})
		c.Cmp("qrenc-bch", fmt.Sprintf("c07m bch v=%d p=%d", v, p), g)
	}
	for v := 0; v < 32; v++ {
		bch(v, 0x537)
	}
	for v := 0; v <= 63; v++ {
		bch(v, 0x1f25)
	}
	for it := 0; it < 200; it++ {
		bch(r.Intn(1<<uint(r.Range(1, 12))), r.Intn(1<<uint(r.Range(1, 14))))
	}
	for _, ec := range c07Levels {
		for k := -2; k <= 9; k++ {
			g := Safe(func() string {
				bits := gozxing.NewEmptyBitArray()
				if e := encoder.VerifMakeTypeInfoBits(ec, k, bits); e != nil {
					return qrencErr(e)
				}
				return qrencBits(bits)
			})
			c.Cmp("qrenc-bch", fmt.Sprintf("c07m tib ec=%s mask=%d", ec.String(), k), g)
		}
	}
	for v := 1; v <= 40; v++ {
		g := Safe(func() string {
			bits := gozxing.NewEmptyBitArray()
			if e := encoder.VerifMakeVersionInfoBits(c07Version(v), bits); e != nil {
				return qrencErr(e)
			}
			return qrencBits(bits)
		})
		c.Cmp("qrenc-bch", fmt.Sprintf("c07m vib v=%d", v), g)
	}
}

// ---------------------------------------------------------------------------------------------------------
// the matrix after every embed step

func qrencStep(c *Ctx, suite, cmd, args string, m *encoder.ByteMatrix, f func() error) string {
	before := qrencBM(m)
	g := Safe(func() string {
		if e := f(); e != nil {
			return qrencErr(e)
		}
		return qrencBM(m)
	})
	op := "c07m " + cmd
	if args != "" {
		op += " " + args
	}
	c.Cmp(suite, op+" m="+before, g)
	return g
}

func qrencMatrixStages(c *Ctx) {
	// FuncOK v — the per-version hypothesis of the C07Mirror theorems for versions 11..40 (kernel-checked for 1..10):
	// the model's function-pattern loops with position tags leave exactly the standard's function modules; evaluated
	// here by the compiled driver for every version.  The real code is tied to the same loops just below: the matrix
	// after embedBasicPatterns / embedTypeInfo / maybeEmbedVersionInfo of EVERY version is compared with the model.
	for v := 1; v <= 40; v++ {
		c.Cmp("qrenc-funcok", fmt.Sprintf("c07m funcok v=%d", v), "1")
	}
	c.Parallel(40, 16, func(i int, r *Rng) {
		v := i + 1
		ver := c07Version(v)
		dim := ver.GetDimensionForVersion()
		ec := c07Levels[r.Intn(4)]
		mask := r.Intn(8)
		m := qrencNewBM(r, dim, dim, 3)
		qrencStep(c, "qrenc-embed", "basic", fmt.Sprintf("v=%d", v), m, func() error { return encoder.VerifEmbedBasicPatterns(ver, m) })
		qrencStep(c, "qrenc-embed", "tinfo", fmt.Sprintf("ec=%s mask=%d", ec.String(), mask), m, func() error { return encoder.VerifEmbedTypeInfo(ec, mask, m) })
		qrencStep(c, "qrenc-embed", "vinfo", fmt.Sprintf("v=%d", v), m, func() error { return encoder.VerifMaybeEmbedVersionInfo(ver, m) })
		c.Note("qrenc:function-stage")
	})
	var versions []int
	for v := 1; v <= 40; v++ {
		if c.Thorough || v <= 6 || v%9 == int(c.Seed%9) || v == 40 {
			versions = append(versions, v)
		}
	}
	c.Parallel(len(versions), 16, func(i int, r *Rng) {
		v := versions[i]
		ver := c07Version(v)
		dim := ver.GetDimensionForVersion()
		ec := c07Levels[r.Intn(4)]
		mask := r.Intn(8)
		// one step at a time, each from the state the real code left
		m := qrencNewBM(r, dim, dim, 2)
		qrencStep(c, "qrenc-embed", "clear", "", m, func() error { encoder.VerifClearMatrix(m); return nil })
		qrencStep(c, "qrenc-embed", "pdps", "", m, func() error { return encoder.VerifEmbedPositionDetectionPatternsAndSeparators(m) })
		qrencStep(c, "qrenc-embed", "dark", "", m, func() error { return encoder.VerifEmbedDarkDotAtLeftBottomCorner(m) })
		qrencStep(c, "qrenc-embed", "paps", fmt.Sprintf("v=%d", v), m, func() error { encoder.VerifMaybeEmbedPositionAdjustmentPatterns(ver, m); return nil })
		qrencStep(c, "qrenc-embed", "timing", "", m, func() error { encoder.VerifEmbedTimingPatterns(m); return nil })
		// the same through embedBasicPatterns
		m2 := qrencNewBM(r, dim, dim, 3)
		qrencStep(c, "qrenc-embed", "basic", fmt.Sprintf("v=%d", v), m2, func() error { return encoder.VerifEmbedBasicPatterns(ver, m2) })
		qrencStep(c, "qrenc-embed", "tinfo", fmt.Sprintf("ec=%s mask=%d", ec.String(), mask), m2, func() error { return encoder.VerifEmbedTypeInfo(ec, mask, m2) })
		qrencStep(c, "qrenc-embed", "vinfo", fmt.Sprintf("v=%d", v), m2, func() error { return encoder.VerifMaybeEmbedVersionInfo(ver, m2) })
		total := ver.GetTotalCodewords()
		bs := qrencRandBits(r, 8*total)
		qrencStep(c, "qrenc-embed", "data", fmt.Sprintf("mask=%d bits=%s", mask, bs), m2, func() error { return encoder.VerifEmbedDataBits(qrencBitsOf(bs), mask, m2) })
		// whole buildMatrix on a dirty matrix; the property's oracle on the result
		m3 := qrencNewBM(r, dim, dim, 4)
		bs3 := qrencRandBits(r, 8*total)
		k3 := r.Intn(8)
		g := qrencStep(c, "qrenc-embed", "bm", fmt.Sprintf("ec=%s v=%d mask=%d bits=%s", ec.String(), v, k3, bs3), m3,
			func() error { return encoder.MatrixUtil_buildMatrix(qrencBitsOf(bs3), ec, ver, k3, m3) })
		if strings.HasPrefix(g, fmt.Sprintf("%dx%d:", dim, dim)) {
			cw := make([]byte, total)
			for j := range cw {
				for b := 0; b < 8; b++ {
					cw[j] = cw[j]<<1 | (bs3[8*j+b] - '0')
				}
			}
			c07Check(c, "qrenc-embed", "matrix-buildMatrix", fmt.Sprintf("c07 bm %d %s %d %s", v, ec.String(), k3, hexs(cw)),
				strings.TrimPrefix(g, fmt.Sprintf("%dx%d:", dim, dim)))
		}
		c.Note(fmt.Sprintf("qrenc:embed:v%02d", v))
	})

	// malformed: small / non-square / pre-filled matrices, wrong version for the size, wrong number of bits, invalid masks
	r := c.Rng.Fork()
	for it := 0; it < c.Pick(500, 5000); it++ {
		w, h := r.Range(0, 30), r.Range(0, 30)
		if r.Chance(0.5) {
			h = w
		}
		if r.Chance(0.4) {
			w = 17 + 4*r.Range(1, 3)
			h = w
		}
		kind := []int{3, 3, 2, 1, 4}[r.Intn(5)]
		v := r.Range(1, 4)
		if r.Chance(0.15) {
			v = r.Range(5, 40)
		}
		ver := c07Version(v)
		ec := c07Levels[r.Intn(4)]
		mask := r.Range(-2, 9)
		m := qrencNewBM(r, w, h, kind)
		var g string
		switch r.Intn(9) {
		case 0:
			g = qrencStep(c, "qrenc-embed-x", "pdps", "", m, func() error { return encoder.VerifEmbedPositionDetectionPatternsAndSeparators(m) })
		case 1:
			g = qrencStep(c, "qrenc-embed-x", "dark", "", m, func() error { return encoder.VerifEmbedDarkDotAtLeftBottomCorner(m) })
		case 2:
			g = qrencStep(c, "qrenc-embed-x", "paps", fmt.Sprintf("v=%d", v), m, func() error { encoder.VerifMaybeEmbedPositionAdjustmentPatterns(ver, m); return nil })
		case 3:
			g = qrencStep(c, "qrenc-embed-x", "timing", "", m, func() error { encoder.VerifEmbedTimingPatterns(m); return nil })
		case 4:
			g = qrencStep(c, "qrenc-embed-x", "basic", fmt.Sprintf("v=%d", v), m, func() error { return encoder.VerifEmbedBasicPatterns(ver, m) })
		case 5:
			g = qrencStep(c, "qrenc-embed-x", "tinfo", fmt.Sprintf("ec=%s mask=%d", ec.String(), mask), m, func() error { return encoder.VerifEmbedTypeInfo(ec, mask, m) })
		case 6:
			g = qrencStep(c, "qrenc-embed-x", "vinfo", fmt.Sprintf("v=%d", v), m, func() error { return encoder.VerifMaybeEmbedVersionInfo(ver, m) })
		case 7:
			empty := 0
			for y := 0; y < h; y++ {
				for x := 0; x < w; x++ {
					if m.Get(x, y) == -1 && x != 6 {
						empty++
					}
				}
			}
			n := empty + r.Range(-3, 3)
			if n < 0 || r.Chance(0.2) {
				n = r.Intn(empty + 1)
			}
			bs := qrencRandBits(r, n)
			g = qrencStep(c, "qrenc-embed-x", "data", fmt.Sprintf("mask=%d bits=%s", mask, bs), m, func() error { return encoder.VerifEmbedDataBits(qrencBitsOf(bs), mask, m) })
		default:
			n := 8 * ver.GetTotalCodewords()
			if r.Chance(0.5) {
				n += r.Range(-9, 9)
				if n < 0 {
					n = 0
				}
			}
			bs := qrencRandBits(r, n)
			g = qrencStep(c, "qrenc-embed-x", "bm", fmt.Sprintf("ec=%s v=%d mask=%d bits=%s", ec.String(), v, mask, bs), m,
				func() error { return encoder.MatrixUtil_buildMatrix(qrencBitsOf(bs), ec, ver, mask, m) })
		}
		if len(g) > 12 {
			g = "ok"
		}
		c.Note("qrenc:embed-x:" + g)
	}
}

// ---------------------------------------------------------------------------------------------------------
// penalty rules

func qrencPenStr(m *encoder.ByteMatrix) string {
	p := func(f func() int) string {
		return Safe(func() string { return fmt.Sprint(f()) })
	}
	return strings.Join([]string{
		p(func() int { return encoder.VerifApplyMaskPenaltyRule1Internal(m, true) }),
		p(func() int { return encoder.VerifApplyMaskPenaltyRule1Internal(m, false) }),
		p(func() int { return encoder.MaskUtil_applyMaskPenaltyRule2(m) }),
		p(func() int { return encoder.MaskUtil_applyMaskPenaltyRule3(m) }),
		p(func() int { return encoder.MaskUtil_applyMaskPenaltyRule4(m) })}, ",")
}

func qrencPenalties(c *Ctx) {
	r := c.Rng.Fork()
	finder := []int8{1, 0, 1, 1, 1, 0, 1}
	for it := 0; it < c.Pick(500, 6000); it++ {
		w := r.Range(0, 40)
		h := w
		if r.Chance(0.25) {
			h = r.Range(0, 40)
		}
		kind := []int{1, 1, 1, 0, 2, 4}[r.Intn(6)]
		m := qrencNewBM(r, w, h, kind)
		if w > 0 && h > 0 {
			switch r.Intn(5) {
			case 0: // long runs
				for k := 0; k < 6; k++ {
					y, x0, n, v := r.Intn(h), r.Intn(w), r.Range(3, 12), int8(r.Intn(2))
					for x := x0; x < x0+n && x < w; x++ {
						m.Set(x, y, v)
					}
					x, y0 := r.Intn(w), r.Intn(h)
					for y := y0; y < y0+n && y < h; y++ {
						m.Set(x, y, v)
					}
				}
			case 1: // finder-like runs with light modules around them, also cut by the edges
				for k := 0; k < 8; k++ {
					x0, y0 := r.Range(-5, w), r.Range(-5, h)
					horiz := r.Bool()
					pre, post := r.Intn(6), r.Intn(6)
					for j := -pre; j < 7+post; j++ {
						var v int8
						if j >= 0 && j < 7 {
							v = finder[j]
						}
						x, y := x0+j, y0
						if !horiz {
							x, y = x0, y0+j
						}
						if x >= 0 && x < w && y >= 0 && y < h {
							m.Set(x, y, v)
						}
					}
				}
			case 2: // blocks
				for k := 0; k < 5; k++ {
					x0, y0, bw, bh, v := r.Intn(w), r.Intn(h), r.Range(2, 6), r.Range(2, 6), int8(r.Intn(2))
					for y := y0; y < y0+bh && y < h; y++ {
						for x := x0; x < x0+bw && x < w; x++ {
							m.Set(x, y, v)
						}
					}
				}
			case 3: // dark proportion swept over the 5 % steps
				p := float64(r.Intn(21)) / 20
				for y := 0; y < h; y++ {
					for x := 0; x < w; x++ {
						var v int8
						if r.Chance(p) {
							v = 1
						}
						m.Set(x, y, v)
					}
				}
			}
		}
		c.Cmp("qrenc-pen", "c07m pen m="+qrencBM(m), qrencPenStr(m))
		if w > 0 && h > 0 && r.Chance(0.5) {
			col := r.Intn(qrencMin(w, h))
			from, to := r.Range(-6, w+3), r.Range(-6, h+6)
			g := Safe(func() string {
				a := m.GetArray()
				b := func(x bool) string {
					if x {
						return "1"
					}
					return "0"
				}
				hh := Safe(func() string { return b(encoder.VerifIsWhiteHorizontal(a[col], from, to)) })
				vv := Safe(func() string { return b(encoder.VerifIsWhiteVertical(a, col, from, to)) })
				return hh + "," + vv
			})
			c.Cmp("qrenc-pen", fmt.Sprintf("c07m white m=%s col=%d from=%d to=%d", qrencBM(m), col, from, to), g)
		}
		c.Note(fmt.Sprintf("qrenc:pen:kind%d", kind))
	}
}

// ---------------------------------------------------------------------------------------------------------
// chooseMaskPattern

func qrencMaskChoice(c *Ctx) {
	vs := []int{1, 2, 3, 4, 6, 7, 9}
	if c.Thorough {
		vs = nil
		for v := 1; v <= 40; v++ {
			vs = append(vs, v)
		}
	} else {
		vs = append(vs, 10+int(c.Seed%20))
	}
	type job struct {
		v, e int
		bad int // 0 good, 1 wrong bit count, 2 wrong matrix size
	}
	var jobs []job
	for _, v := range vs {
		for e := 0; e < 4; e++ {
			if v > 9 && e != int(c.Seed%4) {
				continue
			}
			jobs = append(jobs, job{v, e, 0})
		}
	}
	jobs = append(jobs, job{1, 0, 1}, job{2, 1, 1}, job{3, 2, 2}, job{2, 3, 2})
	c.Parallel(len(jobs), 16, func(i int, r *Rng) {
		j := jobs[i]
		ver := c07Version(j.v)
		ec := c07Levels[j.e]
		dim := ver.GetDimensionForVersion()
		n := 8 * ver.GetTotalCodewords()
		if j.bad == 1 {
			n += []int{-9, 8, 1}[r.Intn(3)]
		}
		if j.bad == 2 {
			dim += []int{-4, 4, -1}[r.Intn(3)]
		}
		bs := qrencRandBits(r, n)
		m := qrencNewBM(r, dim, dim, 2)
		before := qrencBM(m)
		g := Safe(func() string {
			best, e := encoder.VerifChooseMaskPattern(qrencBitsOf(bs), ec, ver, m)
			if e != nil {
				return qrencErr(e)
			}
			pens := make([]int, 8)
			for k := 0; k < 8; k++ {
				if e := encoder.MatrixUtil_buildMatrix(qrencBitsOf(bs), ec, ver, k, m); e != nil {
					return qrencErr(e)
				}
				pens[k] = encoder.VerifCalculateMaskPenalty(m)
			}
			return fmt.Sprintf("%d %s", best, ints(pens))
		})
		c.Cmp("qrenc-mask", fmt.Sprintf("c07m cmp ec=%s v=%d bits=%s m=%s", ec.String(), j.v, bs, before), g)
		c.Note(fmt.Sprintf("qrenc:mask:bad%d", j.bad))
	})
}

// ---------------------------------------------------------------------------------------------------------
// willFit / calculateBitsNeeded / chooseVersion / recommendVersion

func qrencVersionChoice(c *Ctx) {
	r := c.Rng.Fork()
	ver := func(e error, v *decoder.Version) string {
		if e != nil {
			return qrencErr(e)
		}
		return fmt.Sprint(v.GetVersionNumber())
	}
	for _, ec := range c07Levels {
		for v := 1; v <= 40; v++ {
			_, d, _ := qrencDataBytes(v, ec)
			for _, bits := range []int{8*d - 8, 8*d - 7, 8*d - 1, 8 * d, 8*d + 1, 8*d + 8} {
				if bits < 0 {
					continue
				}
				g := Safe(func() string {
					if encoder.VerifWillFit(bits, c07Version(v), ec) {
						return "1"
					}
					return "0"
				})
				c.Cmp("qrenc-version", fmt.Sprintf("c07m fit bits=%d v=%d ec=%s", bits, v, ec.String()), g)
				g2 := Safe(func() string { x, e := encoder.VerifChooseVersion(bits, ec); return ver(e, x) })
				c.Cmp("qrenc-version", fmt.Sprintf("c07m cv bits=%d ec=%s", bits, ec.String()), g2)
			}
			// recommendVersion at the capacity of v for every mode: header + count + data = 8d, 8d + 1
			for mi, mode := range qrencModes {
				hdr := []int{4, 8, 16, 20}[r.Intn(4)]
				for _, delta := range []int{-1, 0, 1, 2} {
					data := 8*d - hdr - mode.GetCharacterCountBits(c07Version(v)) + delta
					if data < 0 {
						continue
					}
					g := Safe(func() string {
						hb, db := qrencBitsOf(strings.Repeat("0", hdr)), qrencBitsOf(strings.Repeat("1", data))
						x, e := encoder.VerifRecommendVersion(ec, mode, hb, db)
						return ver(e, x)
					})
					c.Cmp("qrenc-version", fmt.Sprintf("c07m rv ec=%s mode=%s h=%d d=%d", ec.String(), qrencModes[mi].String(), hdr, data), g)
					g2 := Safe(func() string {
						hb, db := qrencBitsOf(strings.Repeat("0", hdr)), qrencBitsOf(strings.Repeat("1", data))
						return fmt.Sprint(encoder.VerifCalculateBitsNeeded(mode, hb, db, c07Version(v)))
					})
					c.Cmp("qrenc-version", fmt.Sprintf("c07m need mode=%s h=%d d=%d v=%d", qrencModes[mi].String(), hdr, data, v), g2)
				}
			}
		}
	}
	c.Note("qrenc:version-choice")
}

// ---------------------------------------------------------------------------------------------------------
// whole Encoder_encode calls

type qrencHint struct {
	val interface{}
	arg string
}

func qrencHintInt(n int) qrencHint      { return qrencHint{n, fmt.Sprintf("i:%d", n)} }
func qrencHintStr(s string) qrencHint   { return qrencHint{s, "s:" + strings.Replace(hexs([]byte(s)), "-", "", 1)} }
func qrencHintBool(b bool) qrencHint {
	if b {
		return qrencHint{b, "b:1"}
	}
	return qrencHint{b, "b:0"}
}
func qrencHintOther() qrencHint { return qrencHint{3.5, "o"} }

type qrencCase struct {
	text    string
	ecl     decoder.ErrorCorrectionLevel
	charset string // "" none
	gs1     *qrencHint
	ver     *qrencHint
	mask    *qrencHint
}

func (k qrencCase) hints() map[gozxing.EncodeHintType]interface{} {
	h := map[gozxing.EncodeHintType]interface{}{}
	if k.charset != "" {
		h[gozxing.EncodeHintType_CHARACTER_SET] = k.charset
	}
	if k.gs1 != nil {
		h[gozxing.EncodeHintType_GS1_FORMAT] = k.gs1.val
	}
	if k.ver != nil {
		h[gozxing.EncodeHintType_QR_VERSION] = k.ver.val
	}
	if k.mask != nil {
		h[gozxing.EncodeHintType_QR_MASK_PATTERN] = k.mask.val
	}
	return h
}

// op line of the model for one call (codec results are supplied, they are outside the model)
func (k qrencCase) op(brief bool) string {
	args := []string{"c07m", "enc", "text=" + hexs([]byte(k.text)), fmt.Sprintf("ecl=%d", int(k.ecl)),
		fmt.Sprintf("runes=%d", utf8.RuneCountInString(k.text)), "sjis=" + qrencSJIS(k.text)}
	enc := encoder.Encoder_DEFAULT_BYTE_MODE_ENCODING
	if k.charset != "" {
		if eci, ok := common.GetCharacterSetECIByName(k.charset); ok {
			enc = eci.GetCharset()
			is := 0
			if enc == common.StringUtils_SHIFT_JIS_CHARSET {
				is = 1
			}
			ev := "-"
			if e2, ok2 := common.GetCharacterSetECI(enc); ok2 && e2 != nil {
				ev = fmt.Sprint(e2.GetValue())
			}
			args = append(args, fmt.Sprintf("cs=%d,%s", is, ev))
		} else {
			args = append(args, "cs=unknown")
		}
	}
	args = append(args, "enc="+qrencEncBytes(enc, k.text))
	if k.gs1 != nil {
		args = append(args, "gs1="+k.gs1.arg)
	}
	if k.ver != nil {
		args = append(args, "ver="+k.ver.arg)
	}
	if k.mask != nil {
		args = append(args, "mask="+k.mask.arg)
	}
	if brief {
		args = append(args, "brief=1")
	}
	return strings.Join(args, " ")
}

func qrencRunBrief(k qrencCase) string {
	return SafeT(20*time.Second, func() string {
		qr, e := encoder.Encoder_encode(k.text, k.ecl, k.hints())
		if e != nil {
			return qrencErr(e)
		}
		return fmt.Sprintf("ok %s v=%d mask=%d %s", qr.GetMode().String(), qr.GetVersion().GetVersionNumber(), qr.GetMaskPattern(), qrencBM(qr.GetMatrix()))
	})
}

// every layer, re-derived from the result through the hooks (plain calls: no CHARACTER_SET / GS1 hint)
func qrencRunTrace(k qrencCase) string {
	return SafeT(20*time.Second, func() string {
		qr, e := encoder.Encoder_encode(k.text, k.ecl, k.hints())
		if e != nil {
			return qrencErr(e)
		}
		mode, ver := qr.GetMode(), qr.GetVersion()
		hdr := gozxing.NewEmptyBitArray()
		encoder.VerifAppendModeInfo(mode, hdr)
		data := gozxing.NewEmptyBitArray()
		if e := encoder.VerifAppendBytes(k.text, mode, data, encoder.Encoder_DEFAULT_BYTE_MODE_ENCODING); e != nil {
			return "trace:" + qrencErr(e)
		}
		n := len(k.text)
		if mode == decoder.Mode_BYTE {
			n = data.GetSizeInBytes()
		}
		hd := qrencBitsOf(qrencBitsArg(hdr))
		if e := encoder.VerifAppendLengthInfo(n, ver, mode, hd); e != nil {
			return "trace:" + qrencErr(e)
		}
		hd.AppendBitArray(data)
		t, d, nb := qrencDataBytes(ver.GetVersionNumber(), k.ecl)
		term := qrencBitsOf(qrencBitsArg(hd))
		if e := encoder.VerifTerminateBits(d, term); e != nil {
			return "trace:" + qrencErr(e)
		}
		final, e2 := encoder.VerifInterleaveWithECBytes(term, t, d, nb)
		if e2 != nil {
			return "trace:" + qrencErr(e2)
		}
		pens := "-"
		forced := false
		if k.mask != nil {
			if mv, ok := k.mask.val.(int); ok && mv >= 0 && mv < 8 {
				forced = true
			}
			if ms, ok := k.mask.val.(string); ok {
				var mv int
				if _, err := fmt.Sscanf(ms, "%d", &mv); err == nil && fmt.Sprint(mv) == strings.TrimPrefix(ms, "+") && mv >= 0 && mv < 8 {
					forced = true
				}
			}
		}
		if !forced {
			ps := make([]int, 8)
			dim := ver.GetDimensionForVersion()
			m := encoder.NewByteMatrix(dim, dim)
			for kk := 0; kk < 8; kk++ {
				if e := encoder.MatrixUtil_buildMatrix(final, k.ecl, ver, kk, m); e != nil {
					return "trace:" + qrencErr(e)
				}
				ps[kk] = encoder.VerifCalculateMaskPenalty(m)
			}
			pens = ints(ps)
		}
		return fmt.Sprintf("ok %s v=%d mask=%d hdr=%s data=%s hd=%s term=%s final=%s pens=%s %s", mode.String(), ver.GetVersionNumber(),
			qr.GetMaskPattern(), qrencBits(hdr), qrencBits(data), qrencBits(hd), qrencBits(term), qrencBits(final), pens, qrencBM(qr.GetMatrix()))
	})
}

func qrencGenCase(c *Ctx, r *Rng) qrencCase {
	k := qrencCase{ecl: c07Levels[r.Intn(4)]}
	maxV := []int{2, 5, 9, 12}[r.Intn(4)]
	if r.Chance(0.012) || (c.Thorough && r.Chance(0.05)) {
		maxV = []int{20, 27, 40}[r.Intn(3)]
	}
	dmax := c07DataBytes(maxV, k.ecl)
	kind := r.Intn(9)
	switch kind {
	case 0:
		k.text = qrencText(r, 0, r.Range(1, dmax*8*3/10))
	case 1:
		k.text = qrencText(r, 1, r.Range(1, dmax*8*2/11))
	case 4:
		k.text = qrencText(r, 4, r.Range(1, dmax*8/13+1))
		k.charset = "Shift_JIS"
	case 5:
		k.text = qrencText(r, 5, r.Range(1, 12))
		k.charset = "SJIS"
	case 7:
		k.text = ""
	default:
		k.text = qrencText(r, kind, r.Range(1, qrencMax(dmax/3, 2)))
	}
	if k.charset == "" && r.Chance(0.3) {
		k.charset = []string{"UTF-8", "ISO-8859-1", "Shift_JIS", "SJIS", "ISO-8859-5", "NO-SUCH-CHARSET", "Cp437", "UTF8"}[r.Intn(8)]
	}
	if r.Chance(0.25) {
		h := []qrencHint{qrencHintBool(true), qrencHintBool(false), qrencHintStr("true"), qrencHintStr("1"), qrencHintStr("T"),
			qrencHintStr("false"), qrencHintStr("yes"), qrencHintInt(1), qrencHintOther()}[r.Intn(9)]
		k.gs1 = &h
	}
	if r.Chance(0.3) {
		h := []qrencHint{qrencHintInt(r.Range(1, maxV+3)), qrencHintInt(r.Range(-1, 42)), qrencHintStr(fmt.Sprint(r.Range(1, maxV+2))),
			qrencHintStr("7x"), qrencHintStr(""), qrencHintOther()}[r.Intn(6)]
		k.ver = &h
	}
	if r.Chance(0.4) {
		h := []qrencHint{qrencHintInt(r.Intn(8)), qrencHintInt(r.Range(-2, 9)), qrencHintStr(fmt.Sprint(r.Intn(8))), qrencHintStr("+3"),
			qrencHintStr("x"), qrencHintStr("9"), qrencHintOther()}[r.Intn(7)]
		k.mask = &h
	}
	if r.Chance(0.03) {
		k.ecl = decoder.ErrorCorrectionLevel([]int{4, -1, 7}[r.Intn(3)])
	}
	return k
}

func qrencEncode(c *Ctx) {
	n := c.Pick(260, 6000)
	c.Parallel(n, 16, func(i int, r *Rng) {
		k := qrencGenCase(c, r)
		valid := false
		for _, l := range c07Levels {
			valid = valid || l == k.ecl
		}
		if k.charset == "" && k.gs1 == nil && valid && r.Chance(0.6) {
			g := qrencRunTrace(k)
			c.Cmp("qrenc-encode", k.op(false), g)
			c.Note("qrenc:enc:trace:" + strings.SplitN(g, " ", 3)[0])
			return
		}
		g := qrencRunBrief(k)
		c.Cmp("qrenc-encode", k.op(true), g)
		f := strings.SplitN(g, " ", 3)
		if f[0] == "ok" {
			c.Note("qrenc:enc:" + f[1])
		} else {
			c.Note("qrenc:enc:" + f[0])
		}
	})
}

// C12: Encoder_encode never panics, whatever the content and hints (the model's `mirror_encode_total`)
func qrencEncodeTotal(c *Ctx) {
	n := c.Pick(300, 6000)
	c.Parallel(n, 16, func(i int, r *Rng) {
		k := qrencGenCase(c, r)
		g := qrencRunBrief(k)
		op := k.op(true)
		c.Oracle("qrenc-total", g != "PANIC" && g != "TIMEOUT", "qr-encoder-panics", op, "Encoder_encode: "+g[:qrencMin(len(g), 40)])
		c.Cmp("qrenc-total", op, g)
	})
}

func qrencMax(a, b int) int {
	if a > b {
		return a
	}
	return b
}

func qrencMin(a, b int) int {
	if a < b {
		return a
	}
	return b
}
