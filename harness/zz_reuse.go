package main

// History / instance-reuse suites (C01, C02, C03): the properties quantify over every call, not only over the
// first call on a fresh object.  A long-lived writer, reader and matrix-level decoder instance executes a SEQUENCE
// of write→read round trips (contents of very different lengths, hints that change from call to call, images at
// different scales, upside-down rows) and every result must equal the result of fresh instances on the same job.
// State that leaks from one call into the next (a cached table keyed too coarsely, a scratch buffer that is not
// reset, a hint remembered from an earlier call) shows up as a difference; the replay is the sequence of jobs up to
// the failing call.  The file name sorts last so that its init() wraps the suites registered by cXX.go.

import (
	"fmt"
	"image"
	"sort"
	"strings"

	"github.com/makiuchi-d/gozxing"
	"github.com/makiuchi-d/gozxing/datamatrix"
	dmdecoder "github.com/makiuchi-d/gozxing/datamatrix/decoder"
	dmenc "github.com/makiuchi-d/gozxing/datamatrix/encoder"
	"github.com/makiuchi-d/gozxing/oned"
	"github.com/makiuchi-d/gozxing/qrcode"
	qrdecoder "github.com/makiuchi-d/gozxing/qrcode/decoder"
)

func init() {
	wrap := func(prop string, fs []gozxing.BarcodeFormat) {
		prev := suites[prop]
		if prev == nil {
			return
		}
		suites[prop] = func(c *Ctx) {
			prev(c)
			reuseSuite(c, prop, fs)
		}
	}
	wrap("C01", []gozxing.BarcodeFormat{gozxing.BarcodeFormat_QR_CODE})
	wrap("C02", []gozxing.BarcodeFormat{gozxing.BarcodeFormat_DATA_MATRIX})
	wrap("C09", []gozxing.BarcodeFormat{gozxing.BarcodeFormat_QR_CODE,
		gozxing.BarcodeFormat_CODE_39, gozxing.BarcodeFormat_CODE_93, gozxing.BarcodeFormat_CODE_128, gozxing.BarcodeFormat_ITF,
		gozxing.BarcodeFormat_CODABAR, gozxing.BarcodeFormat_EAN_13, gozxing.BarcodeFormat_EAN_8, gozxing.BarcodeFormat_UPC_A})
	wrap("C13", []gozxing.BarcodeFormat{gozxing.BarcodeFormat_QR_CODE, gozxing.BarcodeFormat_DATA_MATRIX})
	wrap("C15", []gozxing.BarcodeFormat{gozxing.BarcodeFormat_QR_CODE})
	wrap("C03", []gozxing.BarcodeFormat{
		gozxing.BarcodeFormat_CODE_39, gozxing.BarcodeFormat_CODE_93, gozxing.BarcodeFormat_CODE_128, gozxing.BarcodeFormat_ITF,
		gozxing.BarcodeFormat_CODABAR, gozxing.BarcodeFormat_EAN_13, gozxing.BarcodeFormat_EAN_8, gozxing.BarcodeFormat_UPC_A, gozxing.BarcodeFormat_UPC_E})
}

type reuseJob struct {
	f       gozxing.BarcodeFormat
	content string
	eh      map[gozxing.EncodeHintType]interface{}
	ehs     string
	dh      map[gozxing.DecodeHintType]interface{}
	dhs     string
	scale   int
	flip    bool // image rotated by 180 degrees (1-D readers retry on the reversed row)
	matrix  bool // 2-D: decode the module matrix with the package-level Decoder instead of the image reader
}

func (j reuseJob) String() string {
	return fmt.Sprintf("%v content=%s enc-hints=%s dec-hints=%s scale=%d flip=%v matrix=%v", j.f, hexs([]byte(j.content)), j.ehs, j.dhs, j.scale, j.flip, j.matrix)
}

// reuseInst is one set of instances ("own instances" of a caller).
type reuseInst struct {
	w     map[gozxing.BarcodeFormat]gozxing.Writer
	r     map[gozxing.BarcodeFormat]gozxing.Reader
	qrDec *qrdecoder.Decoder
	dmDec *dmdecoder.Decoder
}

func newReuseInst() *reuseInst {
	i := &reuseInst{w: map[gozxing.BarcodeFormat]gozxing.Writer{}, r: map[gozxing.BarcodeFormat]gozxing.Reader{}}
	i.w[gozxing.BarcodeFormat_QR_CODE] = qrcode.NewQRCodeWriter()
	i.w[gozxing.BarcodeFormat_DATA_MATRIX] = datamatrix.NewDataMatrixWriter()
	i.w[gozxing.BarcodeFormat_CODE_39] = oned.NewCode39Writer()
	i.w[gozxing.BarcodeFormat_CODE_93] = oned.NewCode93Writer()
	i.w[gozxing.BarcodeFormat_CODE_128] = oned.NewCode128Writer()
	i.w[gozxing.BarcodeFormat_ITF] = oned.NewITFWriter()
	i.w[gozxing.BarcodeFormat_CODABAR] = oned.NewCodaBarWriter()
	i.w[gozxing.BarcodeFormat_EAN_13] = oned.NewEAN13Writer()
	i.w[gozxing.BarcodeFormat_EAN_8] = oned.NewEAN8Writer()
	i.w[gozxing.BarcodeFormat_UPC_A] = oned.NewUPCAWriter()
	i.w[gozxing.BarcodeFormat_UPC_E] = oned.NewUPCEWriter()
	i.r[gozxing.BarcodeFormat_QR_CODE] = qrcode.NewQRCodeReader()
	i.r[gozxing.BarcodeFormat_DATA_MATRIX] = datamatrix.NewDataMatrixReader()
	i.r[gozxing.BarcodeFormat_CODE_39] = oned.NewCode39Reader()
	i.r[gozxing.BarcodeFormat_CODE_93] = oned.NewCode93Reader()
	i.r[gozxing.BarcodeFormat_CODE_128] = oned.NewCode128Reader()
	i.r[gozxing.BarcodeFormat_ITF] = oned.NewITFReader()
	i.r[gozxing.BarcodeFormat_CODABAR] = oned.NewCodaBarReader()
	i.r[gozxing.BarcodeFormat_EAN_13] = oned.NewEAN13Reader()
	i.r[gozxing.BarcodeFormat_EAN_8] = oned.NewEAN8Reader()
	i.r[gozxing.BarcodeFormat_UPC_A] = oned.NewUPCAReader()
	i.r[gozxing.BarcodeFormat_UPC_E] = oned.NewUPCEReader()
	i.qrDec = qrdecoder.NewDecoder()
	i.dmDec = dmdecoder.NewDecoder()
	return i
}

func reuseFrom(r *Rng, alpha string, lo, hi int) string {
	n := r.Range(lo, hi)
	b := make([]byte, n)
	for i := range b {
		b[i] = alpha[r.Intn(len(alpha))]
	}
	return string(b)
}

func reuseUPCCheck(s string) string {
	sum := 0
	for i := len(s) - 1; i >= 0; i -= 2 {
		sum += int(s[i] - '0')
	}
	sum *= 3
	for i := len(s) - 2; i >= 0; i -= 2 {
		sum += int(s[i] - '0')
	}
	return string(rune('0' + (1000-sum)%10))
}

const reuseDigits = "0123456789"

func reuseGenJob(r *Rng, f gozxing.BarcodeFormat) reuseJob {
	j := reuseJob{f: f, scale: r.Range(1, 3), ehs: "-", dhs: "-"}
	long := r.Chance(0.4) // alternate long and short contents: stale buffer tails show after a long one
	n := func(short, lng int) int {
		if long {
			return r.Range(short+1, lng)
		}
		return r.Range(1, short)
	}
	switch f {
	case gozxing.BarcodeFormat_QR_CODE:
		switch r.Intn(4) {
		case 0:
			j.content = reuseFrom(r, reuseDigits, 1, n(8, 300))
		case 1:
			j.content = reuseFrom(r, "0123456789ABCDEFGHIJKLMNOPQRSTUVWXYZ $%*+-./:", 1, n(8, 200))
		case 2:
			j.content = reuseFrom(r, "abcdefghijklmnopqrstuvwxyz ,.;:!?/", 1, n(8, 200))
		default:
			ks := c01KanjiRunes()
			rs := make([]rune, r.Range(1, n(4, 40)))
			for i := range rs {
				rs[i] = ks[r.Intn(len(ks))]
			}
			j.content = string(rs)
			if r.Bool() {
				j.eh = map[gozxing.EncodeHintType]interface{}{gozxing.EncodeHintType_CHARACTER_SET: "Shift_JIS"}
				j.ehs = "CHARACTER_SET=Shift_JIS"
			}
		}
		if j.eh == nil {
			switch r.Intn(5) {
			case 0:
				lv := []string{"L", "M", "Q", "H"}[r.Intn(4)]
				j.eh = map[gozxing.EncodeHintType]interface{}{gozxing.EncodeHintType_ERROR_CORRECTION: lv}
				j.ehs = "ERROR_CORRECTION=" + lv
			case 1:
				mg := r.Range(4, 7)
				j.eh = map[gozxing.EncodeHintType]interface{}{gozxing.EncodeHintType_MARGIN: mg}
				j.ehs = fmt.Sprint("MARGIN=", mg)
			case 2:
				j.eh = map[gozxing.EncodeHintType]interface{}{gozxing.EncodeHintType_CHARACTER_SET: "ISO-8859-1"}
				j.ehs = "CHARACTER_SET=ISO-8859-1"
			}
		}
		j.matrix = r.Chance(0.4)
		if !j.matrix && r.Chance(0.4) {
			j.dh = map[gozxing.DecodeHintType]interface{}{gozxing.DecodeHintType_PURE_BARCODE: true}
			j.dhs = "PURE_BARCODE"
		} else if r.Chance(0.4) { // a caller's own, non-nil map that says nothing about the charset
			j.dh = map[gozxing.DecodeHintType]interface{}{gozxing.DecodeHintType_TRY_HARDER: true}
			j.dhs = "TRY_HARDER"
		}
		if j.eh == nil && r.Chance(0.3) { // likewise for the writer: an empty map of the caller
			j.eh = map[gozxing.EncodeHintType]interface{}{}
			j.ehs = "{}"
		}
	case gozxing.BarcodeFormat_DATA_MATRIX:
		switch r.Intn(4) {
		case 0:
			j.content = reuseFrom(r, reuseDigits, 1, n(6, 200))
		case 1:
			j.content = reuseFrom(r, "ABCDEFGHIJKLMNOPQRSTUVWXYZ0123456789 ", 1, n(6, 150))
		case 2:
			j.content = reuseFrom(r, "abcdefghijklmnopqrstuvwxyz0123456789 ", 1, n(6, 150))
		default:
			j.content = reuseFrom(r, "aB3 ,.*>\r{}~", 1, n(6, 80))
		}
		switch r.Intn(4) {
		case 0:
			j.eh = map[gozxing.EncodeHintType]interface{}{gozxing.EncodeHintType_DATA_MATRIX_SHAPE: reuseShape(1)}
			j.ehs = "SHAPE=FORCE_SQUARE"
		case 1:
			j.eh = map[gozxing.EncodeHintType]interface{}{gozxing.EncodeHintType_DATA_MATRIX_SHAPE: reuseShape(2)}
			j.ehs = "SHAPE=FORCE_RECTANGLE"
		}
		j.matrix = r.Chance(0.4)
		if !j.matrix && r.Chance(0.4) {
			j.dh = map[gozxing.DecodeHintType]interface{}{gozxing.DecodeHintType_PURE_BARCODE: true}
			j.dhs = "PURE_BARCODE"
		}
	case gozxing.BarcodeFormat_CODE_39:
		j.content = reuseFrom(r, "0123456789ABCDEFGHIJKLMNOPQRSTUVWXYZ-. ", 1, n(3, 30))
	case gozxing.BarcodeFormat_CODE_93:
		j.content = reuseFrom(r, "0123456789ABCDEFGHIJKLMNOPQRSTUVWXYZ-. $/+%", 1, n(3, 30))
	case gozxing.BarcodeFormat_CODE_128:
		j.content = reuseFrom(r, "0123456789ABCabc-./ ", 1, n(3, 40))
	case gozxing.BarcodeFormat_ITF:
		k := []int{6, 8, 10, 12, 14}[r.Intn(5)]
		j.content = reuseFrom(r, reuseDigits, k, k)
	case gozxing.BarcodeFormat_CODABAR:
		j.content = "A" + reuseFrom(r, "0123456789-$", 3, 2+n(3, 20)) + "B"
	case gozxing.BarcodeFormat_EAN_13:
		s := reuseFrom(r, reuseDigits, 12, 12)
		j.content = s + reuseUPCCheck(s)
	case gozxing.BarcodeFormat_EAN_8:
		s := reuseFrom(r, reuseDigits, 7, 7)
		j.content = s + reuseUPCCheck(s)
	case gozxing.BarcodeFormat_UPC_A:
		s := reuseFrom(r, reuseDigits, 11, 11)
		j.content = s + reuseUPCCheck(s)
	case gozxing.BarcodeFormat_UPC_E:
		j.content = "0" + reuseFrom(r, reuseDigits, 6, 6)
	}
	if f != gozxing.BarcodeFormat_QR_CODE && f != gozxing.BarcodeFormat_DATA_MATRIX {
		j.flip = r.Chance(0.3)
		if f == gozxing.BarcodeFormat_UPC_E {
			j.eh = map[gozxing.EncodeHintType]interface{}{gozxing.EncodeHintType_MARGIN: 14} // the default right quiet zone is a listed finding
			j.ehs = "MARGIN=14"
		}
		if r.Chance(0.3) {
			j.dh = map[gozxing.DecodeHintType]interface{}{gozxing.DecodeHintType_TRY_HARDER: true}
			j.dhs = "TRY_HARDER"
		}
	}
	return j
}

// reuseDerive: a request that differs from an earlier one of the sequence in ONE respect — same contents with other
// encode hints (a symbol memo keyed on the contents must not answer), or the same hints with other contents of the same
// length.  Run right after its parent (third pass of reuseSuite), this is the history a coarsely keyed cache needs.
func reuseDerive(r *Rng, p reuseJob) reuseJob {
	j := p
	if r.Chance(0.25) { // same hints, other contents of the same length
		q := reuseGenJob(r, p.f)
		if len(q.content) >= len(p.content) && len(p.content) > 0 && p.f != gozxing.BarcodeFormat_EAN_13 && p.f != gozxing.BarcodeFormat_EAN_8 &&
			p.f != gozxing.BarcodeFormat_UPC_A && p.f != gozxing.BarcodeFormat_UPC_E && p.f != gozxing.BarcodeFormat_CODABAR && p.f != gozxing.BarcodeFormat_ITF {
			rs, ps := []rune(q.content), []rune(p.content)
			if len(rs) >= len(ps) {
				j.content = string(rs[:len(ps)])
			}
		} else if p.f != gozxing.BarcodeFormat_QR_CODE && p.f != gozxing.BarcodeFormat_DATA_MATRIX {
			j.content = q.content
		}
		return j
	}
	if r.Chance(0.3) { // same symbol, other DECODE hints: a reader must not remember a hint of an earlier call
		type dv struct {
			k gozxing.DecodeHintType
			v interface{}
			s string
		}
		dpool := []dv{{gozxing.DecodeHintType_TRY_HARDER, true, "TRY_HARDER"}}
		switch p.f {
		case gozxing.BarcodeFormat_CODABAR:
			dpool = append(dpool, dv{gozxing.DecodeHintType_RETURN_CODABAR_START_END, true, "RETURN_CODABAR_START_END"})
		case gozxing.BarcodeFormat_CODE_39:
			dpool = append(dpool, dv{gozxing.DecodeHintType_ASSUME_CODE_39_CHECK_DIGIT, true, "ASSUME_CODE_39_CHECK_DIGIT"})
		case gozxing.BarcodeFormat_CODE_128:
			dpool = append(dpool, dv{gozxing.DecodeHintType_ASSUME_GS1, true, "ASSUME_GS1"})
		case gozxing.BarcodeFormat_ITF:
			dpool = append(dpool, dv{gozxing.DecodeHintType_ALLOWED_LENGTHS, []int{len(p.content)}, fmt.Sprint("ALLOWED_LENGTHS=", len(p.content))},
				dv{gozxing.DecodeHintType_ALLOWED_LENGTHS, []int{len(p.content) + 2}, fmt.Sprint("ALLOWED_LENGTHS=", len(p.content)+2)})
		case gozxing.BarcodeFormat_EAN_13, gozxing.BarcodeFormat_EAN_8, gozxing.BarcodeFormat_UPC_A, gozxing.BarcodeFormat_UPC_E:
			dpool = append(dpool, dv{gozxing.DecodeHintType_ALLOWED_EAN_EXTENSIONS, []int{2, 5}, "ALLOWED_EAN_EXTENSIONS=2,5"})
		case gozxing.BarcodeFormat_QR_CODE:
			dpool = append(dpool, dv{gozxing.DecodeHintType_CHARACTER_SET, "ISO-8859-1", "CHARACTER_SET=ISO-8859-1"},
				dv{gozxing.DecodeHintType_CHARACTER_SET, "Shift_JIS", "CHARACTER_SET=Shift_JIS"},
				dv{gozxing.DecodeHintType_CHARACTER_SET, "no-such-charset", "CHARACTER_SET=no-such-charset"},
				dv{gozxing.DecodeHintType_PURE_BARCODE, true, "PURE_BARCODE"})
		case gozxing.BarcodeFormat_DATA_MATRIX:
			dpool = append(dpool, dv{gozxing.DecodeHintType_PURE_BARCODE, true, "PURE_BARCODE"})
		}
		if p.dh != nil && r.Bool() {
			j.dh, j.dhs = nil, "-"
		} else {
			h := dpool[r.Intn(len(dpool))]
			j.dh = map[gozxing.DecodeHintType]interface{}{h.k: h.v}
			j.dhs = h.s
		}
		return j
	}
	type hv struct {
		k gozxing.EncodeHintType
		v interface{}
		s string
	}
	var pool []hv
	switch p.f {
	case gozxing.BarcodeFormat_QR_CODE:
		for _, cs := range []string{"UTF-8", "ISO-8859-1", "Shift_JIS", "windows-1252", "UTF-16BE", "US-ASCII", "ISO-8859-5"} {
			pool = append(pool, hv{gozxing.EncodeHintType_CHARACTER_SET, cs, "CHARACTER_SET=" + cs})
		}
		for _, v := range []int{1, 2, 5, 10, 27, 40} {
			pool = append(pool, hv{gozxing.EncodeHintType_QR_VERSION, v, fmt.Sprint("QR_VERSION=", v)})
		}
		for _, m := range []int{0, 3, 7} {
			pool = append(pool, hv{gozxing.EncodeHintType_QR_MASK_PATTERN, m, fmt.Sprint("QR_MASK_PATTERN=", m)})
		}
		for _, lv := range []string{"L", "M", "Q", "H"} {
			pool = append(pool, hv{gozxing.EncodeHintType_ERROR_CORRECTION, lv, "ERROR_CORRECTION=" + lv})
		}
		pool = append(pool, hv{gozxing.EncodeHintType_GS1_FORMAT, true, "GS1_FORMAT=true"}, hv{gozxing.EncodeHintType_MARGIN, 6, "MARGIN=6"})
	case gozxing.BarcodeFormat_DATA_MATRIX:
		pool = append(pool, hv{gozxing.EncodeHintType_DATA_MATRIX_SHAPE, reuseShape(1), "SHAPE=FORCE_SQUARE"},
			hv{gozxing.EncodeHintType_DATA_MATRIX_SHAPE, reuseShape(2), "SHAPE=FORCE_RECTANGLE"})
		for _, d := range [][2]int{{10, 10}, {16, 16}, {24, 24}, {12, 36}, {52, 52}} {
			dim, _ := gozxing.NewDimension(d[0], d[1])
			pool = append(pool, hv{gozxing.EncodeHintType_MIN_SIZE, dim, fmt.Sprintf("MIN_SIZE=%dx%d", d[0], d[1])},
				hv{gozxing.EncodeHintType_MAX_SIZE, dim, fmt.Sprintf("MAX_SIZE=%dx%d", d[0], d[1])})
		}
	case gozxing.BarcodeFormat_CODE_128:
		for _, cs := range []string{"A", "B", "C"} {
			pool = append(pool, hv{gozxing.EncodeHintType_FORCE_CODE_SET, cs, "FORCE_CODE_SET=" + cs})
		}
		pool = append(pool, hv{gozxing.EncodeHintType_MARGIN, 20, "MARGIN=20"})
	default:
		pool = append(pool, hv{gozxing.EncodeHintType_MARGIN, 14, "MARGIN=14"}, hv{gozxing.EncodeHintType_MARGIN, 30, "MARGIN=30"})
	}
	j.eh = map[gozxing.EncodeHintType]interface{}{}
	j.ehs = ""
	if p.f == gozxing.BarcodeFormat_UPC_E {
		j.eh[gozxing.EncodeHintType_MARGIN] = 14
		j.ehs = "MARGIN=14"
	}
	if r.Chance(0.2) { // no hints at all (free choice after a forced one)
		if j.ehs == "" {
			j.eh, j.ehs = nil, "-"
		}
		return j
	}
	for k := r.Range(1, 2); k > 0; k-- {
		h := pool[r.Intn(len(pool))]
		if _, dup := j.eh[h.k]; dup {
			continue
		}
		j.eh[h.k] = h.v
		if j.ehs != "" {
			j.ehs += ","
		}
		j.ehs += h.s
	}
	return j
}

func reuseShape(k int) interface{} { return dmenc.SymbolShapeHint(k) } // 1 = FORCE_SQUARE, 2 = FORCE_RECTANGLE

func reuseRender(m *gozxing.BitMatrix, scale, pad int, flip bool) *image.Gray {
	w, h := (m.GetWidth()+2*pad)*scale, (m.GetHeight()+2*pad)*scale
	g := image.NewGray(image.Rect(0, 0, w, h))
	for i := range g.Pix {
		g.Pix[i] = 255
	}
	for y := 0; y < m.GetHeight(); y++ {
		for x := 0; x < m.GetWidth(); x++ {
			if !m.Get(x, y) {
				continue
			}
			for dy := 0; dy < scale; dy++ {
				for dx := 0; dx < scale; dx++ {
					px, py := (pad+x)*scale+dx, (pad+y)*scale+dy
					if flip {
						px, py = w-1-px, h-1-py
					}
					g.Pix[py*g.Stride+px] = 0
				}
			}
		}
	}
	return g
}

func reuseResult(res *gozxing.Result) string {
	md := res.GetResultMetadata()
	keys := make([]int, 0, len(md))
	for k := range md {
		keys = append(keys, int(k))
	}
	sort.Ints(keys)
	var sb strings.Builder
	fmt.Fprintf(&sb, "text=%s fmt=%v raw=%s meta=[", hexs([]byte(res.GetText())), res.GetBarcodeFormat(), hexs(res.GetRawBytes()))
	for _, k := range keys {
		v := md[gozxing.ResultMetadataType(k)]
		if bs, ok := v.([][]byte); ok {
			fmt.Fprintf(&sb, " %v=", gozxing.ResultMetadataType(k))
			for _, b := range bs {
				sb.WriteString(hexs(b) + ",")
			}
			continue
		}
		fmt.Fprintf(&sb, " %v=%v", gozxing.ResultMetadataType(k), v)
	}
	sb.WriteString("] pts=")
	for _, p := range res.GetResultPoints() {
		if p != nil {
			fmt.Fprintf(&sb, "(%.1f,%.1f)", p.GetX(), p.GetY())
		}
	}
	return sb.String()
}

func (in *reuseInst) run(j reuseJob) string {
	return Safe(func() string {
		height := 0
		is2D := j.f == gozxing.BarcodeFormat_QR_CODE || j.f == gozxing.BarcodeFormat_DATA_MATRIX
		if !is2D {
			height = 8
		}
		ehBefore, dhBefore := fmt.Sprint(j.eh), fmt.Sprint(j.dh)
		m, err := in.w[j.f].Encode(j.content, j.f, 0, height, j.eh)
		if fmt.Sprint(j.eh) != ehBefore {
			return "CALLER-HINTS-MUTATED by Encode: before " + ehBefore + " after " + fmt.Sprint(j.eh)
		}
		if err != nil {
			return "write-ERR:" + errKind(err)
		}
		defer func() {
			// (checked by the caller through the marker in the returned string; see reuseSuite)
			_ = dhBefore
		}()
		mh := fmt.Sprintf("m=%dx%d:%x ", m.GetWidth(), m.GetHeight(), reuseHash(m))
		if j.matrix {
			// strip the quiet zone: the matrix-level decoders take the bare symbol
			rect := m.GetEnclosingRectangle()
			if rect == nil {
				return mh + "empty-matrix"
			}
			bare, _ := gozxing.NewBitMatrix(rect[2], rect[3])
			for y := 0; y < rect[3]; y++ {
				for x := 0; x < rect[2]; x++ {
					if m.Get(rect[0]+x, rect[1]+y) {
						bare.Set(x, y)
					}
				}
			}
			if j.f == gozxing.BarcodeFormat_QR_CODE {
				dr, e := in.qrDec.Decode(bare, j.dh)
				if fmt.Sprint(j.dh) != dhBefore {
					return mh + "CALLER-HINTS-MUTATED by Decoder.Decode: before " + dhBefore + " after " + fmt.Sprint(j.dh)
				}
				if e != nil {
					return mh + "decode-ERR:" + errKind(e)
				}
				return mh + fmt.Sprintf("text=%s raw=%s ec=%s", hexs([]byte(dr.GetText())), hexs(dr.GetRawBytes()), dr.GetECLevel())
			}
			dr, e := in.dmDec.Decode(bare)
			if e != nil {
				return mh + "decode-ERR:" + errKind(e)
			}
			return mh + fmt.Sprintf("text=%s raw=%s", hexs([]byte(dr.GetText())), hexs(dr.GetRawBytes()))
		}
		pad, scale := 0, j.scale
		if j.f == gozxing.BarcodeFormat_DATA_MATRIX {
			pad = 4
			if j.dh == nil {
				scale += 3 // the detector needs a few pixels per module
			}
		}
		bmp, err := gozxing.NewBinaryBitmapFromImage(reuseRender(m, scale, pad, j.flip))
		if err != nil {
			return mh + "bitmap-ERR"
		}
		res, err := in.r[j.f].Decode(bmp, j.dh)
		if fmt.Sprint(j.dh) != dhBefore {
			return mh + "CALLER-HINTS-MUTATED by Reader.Decode: before " + dhBefore + " after " + fmt.Sprint(j.dh)
		}
		first := ""
		if err != nil {
			first = "read-ERR:" + errKind(err)
		} else {
			first = reuseResult(res)
		}
		// the SAME BinaryBitmap scanned once more (applications try one reader after another, or the same reader again
		// with TRY_HARDER, on one bitmap): the answer must be the answer for a new bitmap of the same image.
		if !is2D || j.scale == 1 {
			dh2 := j.dh
			if j.scale%2 == 0 {
				dh2 = map[gozxing.DecodeHintType]interface{}{gozxing.DecodeHintType_TRY_HARDER: true}
				for k, v := range j.dh {
					dh2[k] = v
				}
			}
			again := func(b *gozxing.BinaryBitmap) string {
				r2, e2 := in.r[j.f].Decode(b, dh2)
				if e2 != nil {
					return "read-ERR:" + errKind(e2)
				}
				return reuseResult(r2)
			}
			same := again(bmp)
			nb, _ := gozxing.NewBinaryBitmapFromImage(reuseRender(m, scale, pad, j.flip))
			if other := again(nb); same != other {
				return mh + "BITMAP-REUSE-DIFFERS second scan of the same BinaryBitmap: " + same + " ; new BinaryBitmap of the same image: " + other
			}
		}
		return mh + first
	})
}

func reuseHash(m *gozxing.BitMatrix) uint64 {
	h := uint64(1469598103934665603)
	for y := 0; y < m.GetHeight(); y++ {
		for x := 0; x < m.GetWidth(); x++ {
			if m.Get(x, y) {
				h ^= uint64(y*4099+x) + 1
			}
			h *= 1099511628211
		}
	}
	return h
}

func reuseSuite(c *Ctx, prop string, fs []gozxing.BarcodeFormat) {
	r := c.Rng.Fork()
	nSeq := c.Pick(6, 60)
	perSeq := c.Pick(40, 120)
	c.Parallel(nSeq, 16, func(si int, rr *Rng) {
		_ = r
		// jobs and their fresh-instance results
		jobs := make([]reuseJob, perSeq)
		fresh := make([]string, perSeq)
		family := make([]int, perSeq)
		for i := range jobs {
			if i > 0 && rr.Chance(0.45) {
				p := rr.Intn(i)
				jobs[i], family[i] = reuseDerive(rr, jobs[p]), family[p]
				c.Note("reuse:job-derived-from-earlier-job")
			} else {
				jobs[i], family[i] = reuseGenJob(rr, fs[rr.Intn(len(fs))]), i
			}
			fresh[i] = newReuseInst().run(jobs[i])
			if strings.Contains(fresh[i], "CALLER-HINTS-MUTATED") {
				c.Oracle("reuse", false, "caller-hints-mutated:"+jobs[i].f.String(), "["+jobs[i].String()+"]",
					"the hint map belongs to the caller (it is commonly shared by many calls); "+c05Short(fresh[i]))
				return
			}
			if strings.Contains(fresh[i], "BITMAP-REUSE-DIFFERS") {
				c.Oracle("reuse", false, "bitmap-reuse:"+jobs[i].f.String(), "fresh instances, one BinaryBitmap decoded twice: ["+jobs[i].String()+"]", c05Short(fresh[i]))
				return
			}
			switch {
			case strings.Contains(fresh[i], "-ERR"):
				c.Note("reuse:fresh-error:" + jobs[i].f.String() + ":" + fresh[i][strings.Index(fresh[i], "-ERR")-5:])
			default:
				c.Note("reuse:fresh-ok:" + jobs[i].f.String())
			}
		}
		// one long-lived set of instances runs the sequence twice in different orders
		inst := newReuseInst()
		var hist []int
		for pass := 0; pass < 3; pass++ {
			order := make([]int, perSeq)
			for i := range order {
				order[i] = i
			}
			for i := len(order) - 1; i > 0; i-- {
				k := rr.Intn(i + 1)
				order[i], order[k] = order[k], order[i]
			}
			if pass == 2 { // third pass: every request right next to the requests it was derived from / that derive from it
				sort.SliceStable(order, func(a, b int) bool { return family[order[a]] < family[order[b]] })
			}
			for _, idx := range order {
				hist = append(hist, idx)
				got := inst.run(jobs[idx])
				ok := got == fresh[idx]
				if !ok {
					var sb strings.Builder
					lo := len(hist) - 4
					if lo < 0 {
						lo = 0
					}
					sb.WriteString("reused instances; the last calls were: ")
					for _, h := range hist[lo:] {
						sb.WriteString("[" + jobs[h].String() + "] ")
					}
					c.Oracle("reuse", false, "reuse:"+jobs[idx].f.String(), sb.String(),
						"long-lived instance returned "+c05Short(got)+" ; fresh instances return "+c05Short(fresh[idx]))
					return
				}
			}
		}
		c.Oracle("reuse", true, "", fmt.Sprintf("sequence %d of %d jobs x 3 passes", si, perSeq), "")
		c.NoteN("reuse:calls-on-long-lived-instances", 3*perSeq)
	})
}
