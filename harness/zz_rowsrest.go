package main

// wp rowsrest: registration of the package's suites (see zz_rowsrest_upc.go, zz_rowsrest_rss.go, zz_rowsrest_multi.go).

import "os"

func init() {
	only := os.Getenv("ROWSREST_ONLY") != "" // development aid: run this package's suites alone
	prev06 := suites["C06"]
	suites["C06"] = func(c *Ctx) {
		if prev06 != nil && !only {
			prev06(c)
		}
		rowsrestUPC(c)
		rowsrestRSS(c)
	}
	prev03 := suites["C03"]
	suites["C03"] = func(c *Ctx) {
		if prev03 != nil && !only {
			prev03(c)
		}
		rowsrestMulti(c)
	}
	prev10 := suites["C10"]
	suites["C10"] = func(c *Ctx) {
		if prev10 != nil && !only {
			prev10(c)
		}
		rowsrestC10(c)
	}
}
