package main

// wp rowsrest: registration of the package's suites (see zz_rowsrest_upc.go, zz_rowsrest_rss.go, zz_rowsrest_multi.go).

import "os"

func init() {
	only := os.Getenv("ROWSREST_ONLY") != "" // development aid: run this package's suites alone
	prev06 := suites["C06"]
	suites["C06"] = func(c *Ctx) {
		if prev06 != nil && !only {
			prev06(c)
		}
		rowsrestUPC(c)
		rowsrestRSS(c)
	}
}
