package main

// wp rowsrest, C10: "readers never return a symbol whose check characters do not verify" on the WHOLE row space of the
// five UPC/EAN row readers — rendered symbols with add-ons, scaled, framed, MUTATED (flips, deletions, duplications,
// truncations, widened runs), UPC-like run rows, rows with variances on a limit, random rows — under every hint map:
// whenever DecodeRow returns a result, its text must pass the mod-10 test of the format it is returned as, computed
// here independently (EAN-13 / EAN-8 weights 3,1 from the right; UPC-A the same on 12 digits; UPC-E on the GS1
// zero-suppression expansion).  Theorem side: Properties/C10Row.lean (reader_result_verifies_row, multi_result_verifies_row).

import (
	"fmt"
	"strings"

	"github.com/makiuchi-d/gozxing"
)

func rowsrestMod10OK(s string) bool {
	if len(s) < 2 {
		return false
	}
	sum := 0
	for i := len(s) - 2; i >= 0; i-- {
		d := int(s[i] - '0')
		if d < 0 || d > 9 {
			return false
		}
		if (len(s)-2-i)%2 == 0 {
			sum += 3 * d
		} else {
			sum += d
		}
	}
	c := int(s[len(s)-1] - '0')
	return c >= 0 && c <= 9 && (sum+c)%10 == 0
}

// GS1 General Specifications, UPC-E zero-suppression, read backwards
func rowsrestExpandUPCE(s string) string {
	if len(s) != 8 {
		return ""
	}
	b := s[1:7]
	var m string
	switch b[5] {
	case '0', '1', '2':
		m = b[0:2] + string(b[5]) + "0000" + b[2:5]
	case '3':
		m = b[0:3] + "00000" + b[3:5]
	case '4':
		m = b[0:4] + "00000" + b[4:5]
	default:
		m = b[0:5] + "0000" + string(b[5])
	}
	return s[0:1] + m + s[7:8]
}

func rowsrestVerifies(format, text string) bool {
	switch format {
	case "EAN_13":
		return len(text) == 13 && rowsrestMod10OK(text)
	case "EAN_8":
		return len(text) == 8 && rowsrestMod10OK(text)
	case "UPC_A":
		return len(text) == 12 && rowsrestMod10OK(text)
	case "UPC_E":
		return len(text) == 8 && (text[0] == '0' || text[0] == '1') && rowsrestMod10OK(rowsrestExpandUPCE(text))
	}
	return false
}

func rowsrestC10(c *Ctx) {
	c.res.Rule += " | wp rowsrest: every result of DecodeRow of the five UPC/EAN row readers on rendered+mutated / UPC-like / tie / random rows under every hint map " +
		"passes the independently computed mod-10 test of its format (UPC-E on the expansion); same calls compared with the whole-row model"
	n := c.Pick(6000, 300000)
	c.Parallel(n, 16, func(i int, r *Rng) {
		bs, class := rowsrestGenRow(r, rowsrestPref(i%5))
		if len(bs) == 0 {
			bs = []bool{false}
		}
		rd := rowsrestNewReader(r, i%5)
		h := rowsrestGenHints(r)
		out := rowsrestCall(c, rd, h, 0, bs, class)
		if strings.HasPrefix(out, "ok ") {
			p := strings.SplitN(out, " ", 4)
			text := ""
			for j := 0; j+1 < len(p[2]); j += 2 {
				var v int
				fmt.Sscanf(p[2][j:j+2], "%02x", &v)
				text += string(rune(v))
			}
			c.Oracle("rowsrest-c10", rowsrestVerifies(p[1], text), "row-result-fails-mod10",
				fmt.Sprintf("reader=%s ext=%s ua=%v row=%s", rd.name, h.ext, h.ua, bitsStr(bs)), "returned "+p[1]+" "+text)
			c.Note("rowsrest-c10:verified:" + p[1] + ":" + strings.SplitN(class, "-", 2)[0])
		}
	})
	_ = gozxing.BarcodeFormat_EAN_13
}
