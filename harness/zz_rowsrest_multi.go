package main

// wp rowsrest, C03: the multi-format UPC/EAN reader on rows the writers draw — every ORDER and SUBSET of
// POSSIBLE_FORMATS (EAN_13 / UPC_A, with foreign formats and duplicates in between), constructor and call given the
// same hint map (as `NewMultiFormatUPCEANReader(h).Decode(img, h)` does) or different ones.  The REAL reader is judged
// by the rule `multi_hinted_ean13_upca` / `multi_default_ean13` state (Properties/C03Multi.lean) — a UPC-A symbol
// (EAN-13 "0…") comes back as UPC_A iff UPC_A is listed, otherwise as EAN_13 with all 13 digits; an EAN-13 symbol
// not starting with '0' comes back as EAN_13 if EAN_13 is listed (or nothing UPC/EAN is), as NotFound if only UPC_A is
// — and compared with the model (`c06rows upc row m:…`) incl. result points, metadata and callbacks.

import (
	"fmt"
	"strings"

	"github.com/makiuchi-d/gozxing"
	"github.com/makiuchi-d/gozxing/oned"
)

func rowsrestMulti(c *Ctx) {
	c.res.Rule += " | wp rowsrest multi-format dispatch: writer-drawn EAN-13 (first digit 0 and non-0) and UPC-A symbols x scales 1..3 x every order/subset of " +
		"POSSIBLE_FORMATS over {EAN_13, UPC_A} with foreign formats and duplicates x same/different constructor and call hints; oracle = the UPC-A/EAN-13 rule of Properties/C03Multi"
	n := c.Pick(1200, 60000)
	c.Parallel(n, 16, func(i int, r *Rng) {
		// the symbol
		var text13 string
		upcaSymbol := r.Bool()
		if upcaSymbol {
			s := c06Digits(r, 11)
			text13 = "0" + s + string(c06UPCCheck(s))
		} else {
			s := string(byte('1'+r.Intn(9))) + c06Digits(r, 11)
			if r.Chance(0.3) {
				s = "0" + s[1:]
			}
			text13 = s + string(c06UPCCheck(s))
		}
		mods := c06Modules(gozxing.BarcodeFormat_EAN_13, text13)
		if text13[0] == '0' && r.Bool() {
			mods = c06Modules(gozxing.BarcodeFormat_UPC_A, text13[1:]) // the UPC-A writer draws the same symbol
		}
		if mods == nil {
			c.Oracle("rowsrest-multi", false, "writer-refuses-valid-content", text13, "EAN-13/UPC-A writer returned no modules")
			return
		}
		k := r.Range(1, 3)
		lq, rq := 3*k+r.Intn(6), 3*k+1+r.Intn(6)
		bs := append(append(c06White(lq), c06Scale(mods, k)...), c06White(rq)...)
		// the hint list
		pool := []gozxing.BarcodeFormat{gozxing.BarcodeFormat_EAN_13, gozxing.BarcodeFormat_UPC_A, gozxing.BarcodeFormat_EAN_13, gozxing.BarcodeFormat_UPC_A,
			gozxing.BarcodeFormat_CODE_39, gozxing.BarcodeFormat_QR_CODE}
		var fs []gozxing.BarcodeFormat
		var names []string
		for j := r.Pick([]int{0, 1, 1, 2, 2, 3, 4}); j > 0; j-- {
			f := pool[r.Intn(len(pool))]
			fs = append(fs, f)
			if nm, ok := rowsrestFmtNames[f]; ok {
				names = append(names, nm)
			} else {
				names = append(names, "x")
			}
		}
		has := func(f gozxing.BarcodeFormat) bool {
			for _, g := range fs {
				if g == f {
					return true
				}
			}
			return false
		}
		var hm map[gozxing.DecodeHintType]interface{}
		nm := "-"
		if fs != nil || r.Bool() {
			if fs == nil {
				fs = []gozxing.BarcodeFormat{}
			}
			hm = map[gozxing.DecodeHintType]interface{}{gozxing.DecodeHintType_POSSIBLE_FORMATS: fs}
			if len(names) > 0 {
				nm = strings.Join(names, ",")
			}
		}
		rd := rowsrestReader{"m:" + nm, "multi", c06AsRow(oned.NewMultiFormatUPCEANReader(hm))}
		h := rowsrestHints{ext: "-", cb: r.Chance(0.3), ua: has(gozxing.BarcodeFormat_UPC_A), uaFs: fs}
		if hm == nil {
			h.uaFs = nil
		}
		out := rowsrestCall(c, rd, h, r.Pick([]int{0, 3, 20}), bs, "multi-dispatch")
		// the rule
		listed13, listedA := has(gozxing.BarcodeFormat_EAN_13), has(gozxing.BarcodeFormat_UPC_A)
		var want string
		switch {
		case !listed13 && !listedA: // default sub-readers EAN-13, EAN-8, UPC-E; UPC_A not listed
			want = "ok EAN_13 " + hexs([]byte(text13))
		case text13[0] == '0' && listedA:
			want = "ok UPC_A " + hexs([]byte(text13[1:]))
		case text13[0] == '0':
			want = "ok EAN_13 " + hexs([]byte(text13))
		case listed13:
			want = "ok EAN_13 " + hexs([]byte(text13))
		default:
			want = "ERR:notfound"
		}
		got := out
		if strings.HasPrefix(out, "ok ") {
			got = strings.Join(strings.SplitN(out, " ", 4)[:3], " ")
		}
		c.Oracle("rowsrest-multi", got == want, "multi-format-upca-ean13-rule",
			fmt.Sprintf("symbol=%s POSSIBLE_FORMATS=%v scale=%d quiet=%d/%d", text13, fs, k, lq, rq), "reader: "+got+" expected "+want)
		c.Note(fmt.Sprintf("rowsrest-multi:first0=%v:ean13=%v:upca=%v:%s", text13[0] == '0', listed13, listedA, strings.SplitN(want, " ", 3)[0]+strings.SplitN(want+" ", " ", 3)[1]))
	})
}
