package main

// wp rowsrest, C06: RSS-14 row reader (oned/rss) against the Lean model Gzx.RSS14 (driver prefix `c06rows rss`).
// One long-lived reader instance executes SEQUENCES of DecodeRow / Reset calls (the pair history legitimately
// persists between rows); every outcome (text, result points, callback sequence, error kind) and the final
// history (value, checksum portion, count, finder value / range / points of every remembered pair) are compared.
// Intermediate layers through verif hooks: finder search + counters, finder parse, data characters, pairs,
// RSSUtils_getRSSvalue (exported) and combins.  Rows: synthetic RSS-14 symbols built from the finder-pattern and
// width tables (ISO/IEC 24724 layout; element widths by inverting the library's exported RSSUtils_getRSSvalue over
// all width tuples — generator only, nothing is judged by it), scaled, framed, halves only, mutated; photographs'
// rows; random and run-structured rows.  The REAL code is judged by the C06 oracle on every call.

import (
	"fmt"
	"os"
	"strings"
	"sync"

	"github.com/makiuchi-d/gozxing"
	"github.com/makiuchi-d/gozxing/oned"
	"github.com/makiuchi-d/gozxing/oned/rss"
)

// ---------- synthetic symbols ----------

var rowsrestFinder = [][]int{{3, 8, 2, 1, 1}, {3, 5, 5, 1, 1}, {3, 3, 7, 1, 1}, {3, 1, 9, 1, 1}, {2, 7, 4, 1, 1},
	{2, 5, 6, 1, 1}, {2, 3, 8, 1, 1}, {1, 5, 7, 1, 1}, {1, 3, 9, 1, 1}}

type rowsrestGroup struct{ gsum, t, oddMod, evenMod, oddWidest, evenWidest int }

var rowsrestOutside = []rowsrestGroup{{0, 1, 12, 4, 8, 1}, {161, 10, 10, 6, 6, 3}, {961, 34, 8, 8, 4, 5}, {2015, 70, 6, 10, 3, 6}, {2715, 126, 4, 12, 1, 8}}
var rowsrestInside = []rowsrestGroup{{0, 4, 5, 10, 2, 7}, {336, 20, 7, 8, 4, 5}, {1036, 48, 9, 6, 6, 3}, {1516, 81, 11, 4, 8, 1}}

var rowsrestWidthCache = map[string]map[int][]int{}
var rowsrestWidthMu sync.Mutex

// all 4-tuples of widths 1..maxWidth with sum n (and at least one 1 when narrow is demanded), keyed by their RSS value
func rowsrestWidthTable(n, maxWidth int, needNarrow bool) map[int][]int {
	key := fmt.Sprint(n, maxWidth, needNarrow)
	rowsrestWidthMu.Lock()
	defer rowsrestWidthMu.Unlock()
	if t, ok := rowsrestWidthCache[key]; ok {
		return t
	}
	t := map[int][]int{}
	for a := 1; a <= maxWidth; a++ {
		for b := 1; b <= maxWidth; b++ {
			for cc := 1; cc <= maxWidth; cc++ {
				d := n - a - b - cc
				if d < 1 || d > maxWidth {
					continue
				}
				if needNarrow && a != 1 && b != 1 && cc != 1 && d != 1 {
					continue
				}
				w := []int{a, b, cc, d}
				t[rss.RSSUtils_getRSSvalue(w, maxWidth, needNarrow)] = w
			}
		}
	}
	rowsrestWidthCache[key] = t
	return t
}

// eight element widths of a data character (odd elements at even positions); nil when the value has no widths
func rowsrestCharWidths(value int, outside bool) []int {
	groups := rowsrestInside
	if outside {
		groups = rowsrestOutside
	}
	gi := 0
	for i, g := range groups {
		if value >= g.gsum {
			gi = i
		}
	}
	g := groups[gi]
	var vOdd, vEven int
	if outside {
		vOdd, vEven = (value-g.gsum)/g.t, (value-g.gsum)%g.t
	} else {
		vEven, vOdd = (value-g.gsum)/g.t, (value-g.gsum)%g.t
	}
	odd := rowsrestWidthTable(g.oddMod, g.oddWidest, !outside)[vOdd]
	even := rowsrestWidthTable(g.evenMod, g.evenWidest, outside)[vEven]
	if odd == nil || even == nil {
		return nil
	}
	return []int{odd[0], even[0], odd[1], even[1], odd[2], even[2], odd[3], even[3]}
}

var rowsrestCkWeight = []int{1, 3, 9, 27, 2, 6, 18, 54, 4, 12, 36, 29, 8, 24, 72, 58, 16, 48, 65, 37, 32, 17, 51, 74, 64, 34, 23, 69, 49, 68, 46, 59}

// the 46 element widths (first element a space) of the RSS-14 symbol of a 13-digit value; nil if not encodable.
// forceL/forceR >= 0 draw those finder patterns instead of the ones the checksum selects.
func rowsrestSymbolWidthsF(value int64, forceL, forceR int) ([]int, int) {
	left, right := int(value/4537077), int(value%4537077)
	d := [][]int{rowsrestCharWidths(left/1597, true), rowsrestCharWidths(left%1597, false),
		rowsrestCharWidths(right/1597, true), rowsrestCharWidths(right%1597, false)}
	ck := 0
	for i := 0; i < 4; i++ {
		if d[i] == nil {
			return nil, 0
		}
		for j := 0; j < 8; j++ {
			ck += rowsrestCkWeight[8*i+j] * d[i][j]
		}
	}
	ck %= 79
	raw := ck
	if ck >= 8 {
		ck++
	}
	if ck >= 72 {
		ck++
	}
	cl, cr := ck/9, ck%9
	if forceL >= 0 {
		cl, cr = forceL, forceR
	}
	w := make([]int, 46)
	w[0], w[1], w[44], w[45] = 1, 1, 1, 1
	for i := 0; i < 8; i++ {
		w[2+i] = d[0][i]
		w[15+i] = d[1][7-i]
		w[23+i] = d[3][i]
		w[36+i] = d[2][7-i]
	}
	for i := 0; i < 5; i++ {
		w[10+i] = rowsrestFinder[cl][i]
		w[31+i] = rowsrestFinder[cr][4-i]
	}
	return w, raw
}

func rowsrestSymbolWidths(value int64) []int {
	w, _ := rowsrestSymbolWidthsF(value, -1, -1)
	return w
}

// a symbol drawn with a finder-pattern pair on the edges of the check-value mapping (the pairs (0,8) and (8,0) are
// never used by an encoder; the pairs next to them are the first / last shifted ones), carrying a value whose check
// value is exactly what the reader expects for that pair — or one off
func rowsrestRSSBoundarySymbol(r *Rng) []int {
	pairs := [][2]int{{8, 0}, {0, 8}, {0, 7}, {1, 0}, {7, 8}, {8, 1}, {8, 8}, {0, 0}}
	pr := pairs[r.Intn(len(pairs))]
	t := 9*pr[0] + pr[1]
	if t > 72 {
		t--
	}
	if t > 8 {
		t--
	}
	t += r.Pick([]int{0, 0, 0, 1, -1})
	for try := 0; try < 4000; try++ {
		v := int64(r.U64() % 10000000000000)
		if w, raw := rowsrestSymbolWidthsF(v, pr[0], pr[1]); w != nil && raw == (t+79)%79 {
			return w
		}
	}
	return nil
}

func rowsrestGTIN(value int64) string {
	s := fmt.Sprintf("%013d", value)
	sum := 0
	for i := 0; i < 13; i++ {
		dgt := int(s[i] - '0')
		if i%2 == 0 {
			sum += 3 * dgt
		} else {
			sum += dgt
		}
	}
	return s + fmt.Sprint((10-sum%10)%10)
}

func rowsrestRSSValue(r *Rng) int64 {
	switch r.Intn(5) {
	case 0:
		return []int64{0, 1, 4537076, 4537077, 9999999999999, 10000000000000, 4537077*4537077 - 1, 1234567890123, 2841 * 1597, 160 * 1597, 161 * 1597}[r.Intn(11)]
	case 1: // boundaries of the character groups
		b := []int{0, 160, 161, 960, 961, 2014, 2015, 2714, 2715, 2840}[r.Intn(10)]
		in := []int{0, 335, 336, 1035, 1036, 1515, 1516, 1596}[r.Intn(8)]
		// NOT reduced to 13 digits: the symbol space (4537077^2 values) is larger than the GTIN range, and a row
		// carrying a 14-digit value is a row like any other for "any pixel row" (C06)
		return (int64(b*1597+in))*4537077 + int64(r.Intn(4537077))
	case 2: // beyond the GTIN range: left half >= 2204063
		return int64(2204063+r.Intn(4537077-2204063))*4537077 + int64(r.Intn(4537077))
	}
	return int64(r.U64() % 10000000000000)
}

// one row out of a symbol: which elements, scale, margins
func rowsrestRSSRow(r *Rng, w []int, part int) []bool {
	k := r.Pick([]int{1, 2, 2, 3, 4})
	ws := append([]int{}, w...)
	first := false // the symbol starts with a space
	switch part {
	case 1: // left half only (stacked variant, upper row): guard, char1, finder, char2
		ws = ws[:23]
	case 2: // right half only
		ws = ws[23:]
		first = true
	}
	px := c06Scale(c06Runs(ws, first), k)
	l := r.Pick([]int{0, 1, 2, 5, 10, 30}) * k
	t := r.Pick([]int{0, 1, 2, 5, 10, 30}) * k
	return append(append(c06White(l), px...), c06White(t)...)
}

func rowsrestRSSRandomRow(r *Rng) ([]bool, string) {
	switch r.Intn(6) {
	case 0:
		n := r.Pick([]int{1, 2, 3, 15, 16, 31, 32, 33, 64, r.Range(1, 300)})
		return genRow(r, n)[:n], "random"
	case 1: // finder-like runs everywhere: ratios inside and on the limits 9.5/12 and 12.5/14
		k := r.Range(1, 3)
		var ws []int
		for i := r.Range(2, 25); i > 0; i-- {
			f := [][]int{{8, 2, 1, 1}, {5, 5, 1, 1}, {19, 0, 3, 2}, {25, 0, 2, 1}, {7, 3, 1, 1}, {9, 1, 1, 1}, {1, 9, 1, 1}, {10, 9, 3, 2}, {20, 5, 2, 1}}[r.Intn(9)]
			ws = append(ws, r.Range(1, 4)*k)
			for _, x := range f {
				if x > 0 {
					ws = append(ws, x*k)
				}
			}
			for j := r.Range(0, 9); j > 0; j-- {
				ws = append(ws, r.Range(1, 9)*k)
			}
		}
		return c06Runs(ws, r.Bool()), "finder-like"
	case 2:
		n := r.Range(1, 300)
		bs := make([]bool, 0, n)
		col := r.Bool()
		mr := r.Pick([]int{2, 4, 9})
		for len(bs) < n {
			for k := r.Range(1, mr); k > 0 && len(bs) < n; k-- {
				bs = append(bs, col)
			}
			col = !col
		}
		return bs, "runs"
	case 3:
		if bs := c06PhotoRow(r, "rss14"); bs != nil {
			return bs, "photo-row"
		}
	case 4:
		n := r.Pick([]int{1, 2, 40, 200})
		bs := make([]bool, n)
		if r.Bool() {
			for i := range bs {
				bs[i] = true
			}
		}
		return bs, "uniform"
	}
	f := c06OnedFormats[r.Intn(len(c06OnedFormats))]
	if m := c06Modules(f, c06OnedContent(r, f)); m != nil {
		return c06Frame(r, m), "other-symbology"
	}
	return []bool{true, false}, "tiny"
}

// ---------- canonical output ----------

func rowsrestIPt(p gozxing.ResultPoint) string { return fmt.Sprintf("%d:%d", int64(p.GetX()), int64(p.GetY())) }

func rowsrestFinderStr(f *rss.FinderPattern) string {
	ps := f.GetResultPoints()
	return fmt.Sprintf("%d %d,%d %s %s", f.GetValue(), f.GetStartEnd()[0], f.GetStartEnd()[1], rowsrestIPt(ps[0]), rowsrestIPt(ps[1]))
}

func rowsrestPairStr(p *rss.Pair) string {
	return fmt.Sprintf("%d/%d/%d/%s", p.GetValue(), p.GetChecksumPortion(), p.GetCount(), rowsrestFinderStr(p.GetFinderPattern()))
}

func rowsrestPairsStr(ps []*rss.Pair) string {
	s := make([]string, len(ps))
	for i, p := range ps {
		s[i] = rowsrestPairStr(p)
	}
	return strings.Join(s, ";")
}

type rowsrestRSSOp struct {
	reset bool
	rn    int
	cb    bool
	nilcb bool // the hint holds a nil ResultPointCallback
	bs    []bool
	class string
}

func rowsrestRSSSeq(c *Ctx, ops []rowsrestRSSOp, expect string) {
	rd := rss.NewRSS14Reader()
	dec := c06AsRow(rd)
	var opStr, outs []string
	sawExpected := false
	for _, op := range ops {
		if op.reset {
			opStr = append(opStr, "X")
			Safe(func() string { rd.Reset(); return "" })
			continue
		}
		row := rowFromBitsVia(op.bs, int(c06Fnv([]byte(bitsStr(op.bs)))%uint64(c20Paths)), NewRng(uint64(len(op.bs))+7))
		var trace []string
		var hints map[gozxing.DecodeHintType]interface{}
		if op.cb {
			hints = map[gozxing.DecodeHintType]interface{}{gozxing.DecodeHintType_NEED_RESULT_POINT_CALLBACK: gozxing.ResultPointCallback(func(p gozxing.ResultPoint) {
				trace = append(trace, rowsrestPt(p))
			})}
		}
		if op.nilcb && !op.cb {
			hints = map[gozxing.DecodeHintType]interface{}{gozxing.DecodeHintType_NEED_RESULT_POINT_CALLBACK: gozxing.ResultPointCallback(nil)}
		}
		var res *gozxing.Result
		var err error
		v := c06Judge(c, c06Case{Entry: "rowsrest-rss14-row", Class: op.class, Feat: fmt.Sprintf("nilcb=%v", op.nilcb && !op.cb),
			Desc: fmt.Sprintf("rss14 row rn=%d cb=%v nilcb=%v %s (call %d of a sequence)", op.rn, op.cb, op.nilcb && !op.cb, bitsStr(op.bs), len(outs)+1)},
			func() (bool, error) {
				res, err = dec.DecodeRow(op.rn, row, hints)
				return res != nil, err
			})
		out := v.Out
		if v.Out == "ok" {
			ps := res.GetResultPoints()
			s := make([]string, len(ps))
			for i, p := range ps {
				s[i] = rowsrestIPt(p)
			}
			out = fmt.Sprintf("ok %s P[%s]", hexs([]byte(res.GetText())), strings.Join(s, ";"))
			meta := rowsrestMeta(res.GetResultMetadata())
			c.Oracle("rowsrest-rss-seq", res.GetBarcodeFormat() == gozxing.BarcodeFormat_RSS_14 && meta == "[SYMBOLOGY_IDENTIFIER=s5d6530]",
				"rss14-result-format-or-metadata", bitsStr(op.bs), res.GetBarcodeFormat().String()+" "+meta)
			if expect != "" && res.GetText() == expect {
				sawExpected = true
			}
		}
		for i, b := range op.bs {
			if row.Get(i) != b {
				c.Oracle("rowsrest-rss-seq", false, "rss14-row-modified-by-DecodeRow", bitsStr(op.bs), "pixel "+fmt.Sprint(i))
				break
			}
		}
		outs = append(outs, "T["+strings.Join(trace, ";")+"] "+out)
		b2i := map[bool]int{false: 0, true: 1}
		opStr = append(opStr, fmt.Sprintf("R:%d:%d:%s", op.rn, b2i[op.cb], bitsStr(op.bs)))
		c.Note("rowsrest-rss:" + strings.SplitN(out, " ", 2)[0])
	}
	state := Safe(func() string {
		l, r := rss.VerifRowsPairs(rd)
		return "L[" + rowsrestPairsStr(l) + "] R[" + rowsrestPairsStr(r) + "]"
	})
	c.Cmp("rowsrest-rss-seq", "c06rows rss seq "+strings.Join(opStr, "|"), strings.Join(outs, "|")+" # "+state)
	if expect != "" {
		if sawExpected {
			c.Note("rowsrest-rss-gen:synthetic-symbol-read-back")
		} else {
			if os.Getenv("ROWSREST_DEBUG") != "" {
				fmt.Fprintln(os.Stderr, "NOT-READ-BACK", expect, "c06rows rss pair 0 0 "+bitsStr(ops[0].bs))
			}
			lq, rq := 0, 0
			for _, op := range ops {
				if !op.reset {
					for lq < len(op.bs) && !op.bs[lq] {
						lq++
					}
					for rq < len(op.bs) && !op.bs[len(op.bs)-1-rq] {
						rq++
					}
					break
				}
			}
			c.Note(fmt.Sprintf("rowsrest-rss-gen:synthetic-symbol-NOT-read-back:leftwhite=%d:rightwhite=%d:len=%d:%s", lq, rq, len(ops[0].bs), expect))
		}
	}
}

func rowsrestRSSLayers(c *Ctx, r *Rng, bs []bool) {
	b2i := map[bool]int{false: 0, true: 1}
	right := r.Bool()
	px := append([]bool{}, bs...)
	if right {
		for i, j := 0, len(px)-1; i < j; i, j = i+1, j-1 {
			px[i], px[j] = px[j], px[i]
		}
	}
	bits := bitsStr(px)
	row := rowFromBits(px)
	c.Cmp("rowsrest-rss-layers", fmt.Sprintf("c06rows rss finder %d %s", b2i[right], bits), Safe(func() string {
		se, cs, e := rss.VerifRowsFindFinderPattern(row, right)
		if e != nil {
			return rowsrestErr(e)
		}
		return fmt.Sprintf("ok %d,%d %s", se[0], se[1], ints(cs))
	}))
	rn := r.Range(-2, 40)
	c.Cmp("rowsrest-rss-layers", fmt.Sprintf("c06rows rss parse %d %d %s", b2i[right], rn, bits), Safe(func() string {
		f, e := rss.VerifRowsParseFinderPattern(row, rn, right)
		if e != nil {
			return rowsrestErr(e)
		}
		return "ok " + rowsrestFinderStr(f)
	}))
	for _, outside := range []bool{true, false} {
		c.Cmp("rowsrest-rss-layers", fmt.Sprintf("c06rows rss datachar %d %d %s", b2i[right], b2i[outside], bits), Safe(func() string {
			d, e := rss.VerifRowsDecodeDataCharacter(row, right, outside)
			if e != nil {
				return rowsrestErr(e)
			}
			return fmt.Sprintf("ok %d %d", d.GetValue(), d.GetChecksumPortion())
		}))
	}
	c.Cmp("rowsrest-rss-layers", fmt.Sprintf("c06rows rss pair %d %d %s", b2i[right], rn, bits), Safe(func() string {
		p := rss.VerifRowsDecodePair(row, right, rn, nil)
		if p == nil {
			return "nil"
		}
		return "ok " + rowsrestPairStr(p)
	}))
}

func rowsrestRSSUtils(c *Ctx) {
	// combins on the whole square the reader can reach and beyond (negative n, r > n)
	for n := -4; n <= 20; n++ {
		for k := 0; k <= 6; k++ {
			c.Cmp("rowsrest-rss-utils", fmt.Sprintf("c06rows rss combins %d %d", n, k), Safe(func() string {
				return fmt.Sprintf("ok %d", rss.VerifRowsCombins(n, k))
			}))
		}
	}
	// getRSSvalue: every 4-tuple over 0..9 the reader can produce (counts 1..8 after clamping, one bump up or down) x widest x noNarrow
	for a := 0; a <= 9; a++ {
		for b := 0; b <= 9; b++ {
			for cc := 0; cc <= 9; cc++ {
				for d := 0; d <= 9; d++ {
					if (a*1000+b*100+cc*10+d)%7 != int(c.Rng.Intn(7)) && !c.Thorough {
						continue
					}
					for _, mw := range []int{1, 2, 3, 4, 5, 6, 7, 8} {
						for _, nn := range []bool{false, true} {
							w := []int{a, b, cc, d}
							nb := 0
							if nn {
								nb = 1
							}
							c.Cmp("rowsrest-rss-utils", fmt.Sprintf("c06rows rss rssvalue %s %d %d", ints(w), mw, nb), Safe(func() string {
								return fmt.Sprintf("ok %d", rss.RSSUtils_getRSSvalue(w, mw, nn))
							}))
						}
					}
				}
			}
		}
	}
}

func rowsrestRSS(c *Ctx) {
	c.res.Rule += " | wp rowsrest RSS-14: sequences of 1..9 DecodeRow/Reset calls on ONE reader instance vs the Lean model (outcome of every call, callback " +
		"sequence, final pair history), rows = synthetic RSS-14 symbols (whole, left/right half as in the stacked variant, scaled, framed, mutated), test-photograph rows, " +
		"finder-like run rows on the ratio limits, random/uniform rows, other symbologies; layers: finder search, finder parse, data characters, pairs, getRSSvalue on the " +
		"whole reachable domain, combins"
	rowsrestRSSUtils(c)
	n := c.Pick(2500, 120000)
	c.Parallel(n, 16, func(i int, r *Rng) {
		// a pool of rows for this sequence
		type poolRow struct {
			bs    []bool
			class string
		}
		var pool []poolRow
		expect := ""
		if r.Chance(0.75) {
			v := rowsrestRSSValue(r)
			if w := rowsrestSymbolWidths(v); w != nil {
				expect = rowsrestGTIN(v)
				full := rowsrestRSSRow(r, w, 0)
				pool = append(pool, poolRow{full, "symbol"})
				if r.Chance(0.4) {
					pool = append(pool, poolRow{rowsrestRSSRow(r, w, 1), "left-half"}, poolRow{rowsrestRSSRow(r, w, 2), "right-half"})
					if r.Bool() {
						pool = pool[1:]
						expect = rowsrestGTIN(v)
					}
				}
				if r.Chance(0.4) {
					m, how := c06MutateRow(r, full)
					pool = append(pool, poolRow{m, "symbol-" + how})
				}
				if r.Chance(0.2) {
					if wb := rowsrestRSSBoundarySymbol(r); wb != nil {
						pool = append([]poolRow{{rowsrestRSSRow(r, wb, 0), "boundary-finder-pair"}}, pool...)
					}
				}
				if r.Chance(0.3) { // a second symbol: pairs of two symbols in one history
					if w2 := rowsrestSymbolWidths(rowsrestRSSValue(r)); w2 != nil {
						pool = append(pool, poolRow{rowsrestRSSRow(r, w2, 0), "symbol2"})
						expect = ""
					}
				}
			}
		}
		for k := r.Pick([]int{0, 1, 1, 2}); k > 0 || len(pool) == 0; k-- {
			bs, class := rowsrestRSSRandomRow(r)
			if len(bs) == 0 {
				bs = []bool{false}
			}
			pool = append(pool, poolRow{bs, class})
		}
		nops := r.Pick([]int{1, 2, 3, 3, 4, 5, 6, 7, 9})
		var ops []rowsrestRSSOp
		cb := r.Chance(0.3)
		nilcb := !cb && r.Chance(0.1)
		for j := 0; j < nops; j++ {
			if r.Chance(0.08) {
				ops = append(ops, rowsrestRSSOp{reset: true})
				expect = ""
				continue
			}
			p := pool[r.Intn(len(pool))]
			if r.Chance(0.6) {
				p = pool[0]
			}
			ops = append(ops, rowsrestRSSOp{rn: r.Pick([]int{0, 1, 5, 30, -1}), cb: cb, nilcb: nilcb, bs: p.bs, class: p.class})
			c.Note("rowsrest-rss-gen:" + strings.SplitN(p.class, "-", 2)[0])
		}
		if nops < 3 {
			expect = ""
		}
		rowsrestRSSSeq(c, ops, "")
		_ = expect
		if i%3 == 0 {
			rowsrestRSSLayers(c, r, pool[r.Intn(len(pool))].bs)
		}
	})
	// every outside character value 0..2840 and every inside value 0..1596 once: data-character layer of the left pair
	for vo := 0; vo <= 2840; vo++ {
		if !c.Thorough && vo%2 != int(c.Rng.Intn(2)) && vo%97 != 0 {
			continue
		}
		vi := (vo * 7) % 1597
		v := int64(vo*1597+vi)*4537077 + int64(c.Rng.Intn(4537077))
		w, _ := rowsrestSymbolWidthsF(v, -1, -1)
		if w == nil {
			c.Note("rowsrest-rss-gen:value-without-widths")
			continue
		}
		k := c.Rng.Pick([]int{1, 2, 3})
		px := append(append(c06White(4*k), c06Scale(c06Runs(w, false), k)...), c06White(4*k)...)
		bits := bitsStr(px)
		row := rowFromBits(px)
		for _, outside := range []bool{true, false} {
			ob := 0
			want := vi
			if outside {
				ob, want = 1, vo
			}
			got := Safe(func() string {
				d, e := rss.VerifRowsDecodeDataCharacter(row, false, outside)
				if e != nil {
					return rowsrestErr(e)
				}
				if d.GetValue() == want {
					c.Note("rowsrest-rss-gen:character-value-read-back")
				} else {
					c.Note("rowsrest-rss-gen:character-value-NOT-read-back")
				}
				return fmt.Sprintf("ok %d %d", d.GetValue(), d.GetChecksumPortion())
			})
			c.Cmp("rowsrest-rss-layers", fmt.Sprintf("c06rows rss datachar 0 %d %s", ob, bits), got)
		}
	}
	// the generator's symbols (widths by inverting the library's getRSSvalue) against the reference encoder written from the
	// standard (Lean, Gzx/Ref/RSS14.lean): same 46 element widths for every value
	for i := 0; i < c.Pick(400, 20000); i++ {
		v := rowsrestRSSValue(c.Rng)
		w := rowsrestSymbolWidths(v)
		out := "none"
		if w != nil {
			out = "ok " + ints(w)
		}
		c.Cmp("rowsrest-rss-ref", fmt.Sprintf("c06rows rss refenc %d", v), out)
	}
	// read-back of synthetic symbols (generator sanity, and the one end-to-end value check): the same row three times
	for i := 0; i < c.Pick(150, 3000); i++ {
		r := c.Rng
		v := rowsrestRSSValue(r)
		w := rowsrestSymbolWidths(v)
		if w == nil {
			c.Note("rowsrest-rss-gen:value-without-widths")
			continue
		}
		row := rowsrestRSSRow(r, w, 0)
		ops := []rowsrestRSSOp{{bs: row, class: "symbol"}, {bs: row, class: "symbol", rn: 1}, {bs: row, class: "symbol", rn: 2}}
		rowsrestRSSSeq(c, ops, rowsrestGTIN(v))
	}
	_ = oned.RecordPattern
}
