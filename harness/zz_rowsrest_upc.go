package main

// wp rowsrest, C06: the WHOLE DecodeRow of the five UPC/EAN readers (EAN-13, EAN-8, UPC-A, UPC-E, multi-format)
// against the Lean model Gzx.OneDRowExt (driver prefix `c06rows upc`), every observable compared: text, format,
// result points, metadata (add-on text, issue number, suggested price, country, symbology identifier), the
// sequence of result-point callbacks, the error kind; intermediate layers through verif hooks (start guard,
// guard search from any offset, digit decoding, decodeMiddle, the add-on reader, price / country strings).
// The REAL code is judged by the C06 oracle on every call (no panic, result xor error, error kind documented).

import (
	"fmt"
	"sort"
	"strings"

	"github.com/makiuchi-d/gozxing"
	"github.com/makiuchi-d/gozxing/oned"
)

// ---------- canonical output of a row read ----------

func rowsrestPt(p gozxing.ResultPoint) string {
	x2 := 2 * p.GetX()
	if x2 != float64(int64(x2)) || p.GetY() != float64(int64(p.GetY())) {
		return fmt.Sprintf("%v:%v", x2, p.GetY())
	}
	return fmt.Sprintf("%d:%d", int64(x2), int64(p.GetY()))
}

func rowsrestPts(ps []gozxing.ResultPoint) string {
	s := make([]string, len(ps))
	for i, p := range ps {
		s[i] = rowsrestPt(p)
	}
	return "[" + strings.Join(s, ";") + "]"
}

func rowsrestMeta(m map[gozxing.ResultMetadataType]interface{}) string {
	keys := make([]int, 0, len(m))
	for k := range m {
		keys = append(keys, int(k))
	}
	sort.Ints(keys)
	var out []string
	for _, k := range keys {
		v := m[gozxing.ResultMetadataType(k)]
		var vs string
		switch t := v.(type) {
		case string:
			vs = "s" + hexs([]byte(t))
		case int:
			vs = fmt.Sprintf("i%d", t)
		default:
			vs = fmt.Sprintf("?%T", v)
		}
		out = append(out, gozxing.ResultMetadataType(k).String()+"="+vs)
	}
	return "[" + strings.Join(out, ";") + "]"
}

func rowsrestResult(res *gozxing.Result) string {
	return fmt.Sprintf("ok %s %s P%s M%s", res.GetBarcodeFormat().String(), hexs([]byte(res.GetText())),
		rowsrestPts(res.GetResultPoints()), rowsrestMeta(res.GetResultMetadata()))
}

type rowsrestHints struct {
	cb    bool
	ext   string // "-" absent | "e" empty | "2,5"
	extV  []int
	ua    bool // POSSIBLE_FORMATS given to DecodeRow contains UPC_A
	uaFs  []gozxing.BarcodeFormat
	wrong bool // ALLOWED_EAN_EXTENSIONS of another type: ignored by the code
	nilcb bool // NEED_RESULT_POINT_CALLBACK holds a nil ResultPointCallback (a well-typed value): nothing to call
}

func (h rowsrestHints) goHints(trace *[]string) map[gozxing.DecodeHintType]interface{} {
	m := map[gozxing.DecodeHintType]interface{}{}
	if h.cb {
		m[gozxing.DecodeHintType_NEED_RESULT_POINT_CALLBACK] = gozxing.ResultPointCallback(func(p gozxing.ResultPoint) {
			*trace = append(*trace, rowsrestPt(p))
		})
	}
	if h.nilcb && !h.cb {
		m[gozxing.DecodeHintType_NEED_RESULT_POINT_CALLBACK] = gozxing.ResultPointCallback(nil)
	}
	if h.ext != "-" {
		m[gozxing.DecodeHintType_ALLOWED_EAN_EXTENSIONS] = h.extV
	} else if h.wrong {
		m[gozxing.DecodeHintType_ALLOWED_EAN_EXTENSIONS] = "2,5"
	}
	if h.uaFs != nil {
		m[gozxing.DecodeHintType_POSSIBLE_FORMATS] = h.uaFs
	}
	if len(m) == 0 {
		return nil
	}
	return m
}

func rowsrestGenHints(r *Rng) rowsrestHints {
	h := rowsrestHints{ext: "-"}
	h.cb = r.Chance(0.35)
	h.nilcb = !h.cb && r.Chance(0.1)
	if r.Chance(0.45) {
		l := [][]int{{}, {0}, {2}, {5}, {2, 5}, {1, 3}, {-1, 5}, {0, 2}, {5, 5}}[r.Intn(9)]
		h.extV = l
		if len(l) == 0 {
			h.ext = "e"
		} else {
			h.ext = ints(l)
		}
	} else if r.Chance(0.1) {
		h.wrong = true
	}
	if r.Chance(0.4) {
		all := []gozxing.BarcodeFormat{gozxing.BarcodeFormat_UPC_A, gozxing.BarcodeFormat_EAN_13, gozxing.BarcodeFormat_QR_CODE,
			gozxing.BarcodeFormat_UPC_E, gozxing.BarcodeFormat_EAN_8}
		h.uaFs = []gozxing.BarcodeFormat{}
		for _, f := range all {
			if r.Bool() {
				h.uaFs = append(h.uaFs, f)
				if f == gozxing.BarcodeFormat_UPC_A {
					h.ua = true
				}
			}
		}
	}
	return h
}

// ---------- readers ----------

type rowsrestReader struct {
	name string // driver name: ean13|ean8|upca|upce|m:<fmts>
	key  string // evidence key
	dec  oned.RowDecoder
}

var rowsrestFmtNames = map[gozxing.BarcodeFormat]string{gozxing.BarcodeFormat_EAN_13: "ean13", gozxing.BarcodeFormat_EAN_8: "ean8",
	gozxing.BarcodeFormat_UPC_A: "upca", gozxing.BarcodeFormat_UPC_E: "upce"}

func rowsrestNewReader(r *Rng, which int) rowsrestReader {
	switch which {
	case 0:
		return rowsrestReader{"ean13", "ean13", c06AsRow(oned.NewEAN13Reader())}
	case 1:
		return rowsrestReader{"ean8", "ean8", c06AsRow(oned.NewEAN8Reader())}
	case 2:
		return rowsrestReader{"upca", "upca", c06AsRow(oned.NewUPCAReader())}
	case 3:
		return rowsrestReader{"upce", "upce", c06AsRow(oned.NewUPCEReader())}
	}
	// multi-format: constructor POSSIBLE_FORMATS in any order, with duplicates and foreign formats
	if r.Chance(0.3) {
		return rowsrestReader{"m:-", "multi", c06AsRow(oned.NewMultiFormatUPCEANReader(nil))}
	}
	pool := []gozxing.BarcodeFormat{gozxing.BarcodeFormat_EAN_13, gozxing.BarcodeFormat_EAN_8, gozxing.BarcodeFormat_UPC_A,
		gozxing.BarcodeFormat_UPC_E, gozxing.BarcodeFormat_CODE_128, gozxing.BarcodeFormat_RSS_14}
	n := r.Pick([]int{0, 1, 1, 2, 2, 3, 4, 5})
	fs := []gozxing.BarcodeFormat{}
	var names []string
	for i := 0; i < n; i++ {
		f := pool[r.Intn(len(pool))]
		fs = append(fs, f)
		if nm, ok := rowsrestFmtNames[f]; ok {
			names = append(names, nm)
		} else {
			names = append(names, "x")
		}
	}
	nm := "-"
	if len(names) > 0 {
		nm = strings.Join(names, ",")
	}
	h := map[gozxing.DecodeHintType]interface{}{gozxing.DecodeHintType_POSSIBLE_FORMATS: fs}
	return rowsrestReader{"m:" + nm, "multi", c06AsRow(oned.NewMultiFormatUPCEANReader(h))}
}

// ---------- rows ----------

func rowsrestLG(d int, g bool) []int {
	if g {
		return oned.UPCEANReader_L_AND_G_PATTERNS[10+d]
	}
	return oned.UPCEANReader_L_AND_G_PATTERNS[d]
}

// add-on symbol for the digit string d with the parity word par (bit n-1-i set = digit i in number set G)
func rowsrestAddOn(d string, par int) []bool {
	n := len(d)
	out := c06Runs([]int{1, 1, 2}, true)
	for i := 0; i < n; i++ {
		out = append(out, c06Runs(rowsrestLG(int(d[i]-'0'), par&(1<<uint(n-1-i)) != 0), false)...)
		if i != n-1 {
			out = append(out, false, true)
		}
	}
	return out
}

func rowsrestExt2Parity(d string) int { return (int(d[0]-'0')*10 + int(d[1]-'0')) % 4 }

func rowsrestExt5Parity(d string) int {
	s := 0
	for i := 3; i >= 0; i -= 2 {
		s += int(d[i] - '0')
	}
	s *= 3
	for i := 4; i >= 0; i -= 2 {
		s += int(d[i] - '0')
	}
	s *= 3
	return c06Ext5Parity[s%10]
}

var rowsrestPrices = []string{"90000", "99991", "99990", "99999", "90001", "00000", "01234", "59999", "50000", "51099", "09900", "12345", "91234", "30005"}

// country prefixes: both ends of every range of the table and their neighbours
func rowsrestPrefixes() []int {
	var out []int
	seen := map[int]bool{}
	add := func(v int) {
		if v >= 0 && v <= 999 && !seen[v] {
			seen[v] = true
			out = append(out, v)
		}
	}
	for p := 0; p <= 999; p++ {
		a := oned.VerifRowsLookupCountryIdentifier(fmt.Sprintf("%03d", p))
		b := ""
		if p > 0 {
			b = oned.VerifRowsLookupCountryIdentifier(fmt.Sprintf("%03d", p-1))
		}
		if a != b {
			add(p - 1)
			add(p)
		}
	}
	add(999)
	return out
}

var rowsrestPrefixList []int

// a symbol of format f; EAN-13 / UPC-A contents start with an interesting country prefix half of the time
func rowsrestSymbol(r *Rng, f gozxing.BarcodeFormat) ([]bool, string) {
	content := c06OnedContent(r, f)
	if f == gozxing.BarcodeFormat_EAN_13 && r.Bool() && len(rowsrestPrefixList) > 0 {
		p := rowsrestPrefixList[r.Intn(len(rowsrestPrefixList))]
		s := fmt.Sprintf("%03d", p) + c06Digits(r, 9)
		content = s + string(c06UPCCheck(s))
	}
	if f == gozxing.BarcodeFormat_UPC_A && r.Bool() && len(rowsrestPrefixList) > 0 {
		p := rowsrestPrefixList[r.Intn(len(rowsrestPrefixList))] % 100
		s := fmt.Sprintf("%02d", p) + c06Digits(r, 9)
		content = s + string(c06UPCCheck(s))
	}
	return c06Modules(f, content), content
}

// rows on which a variance lies exactly ON a limit (float and exact arithmetic may part there): counters (1,4,5)·k
// for the 1-1-1 guards, followed by arbitrary runs
func rowsrestTieRow(r *Rng) []bool {
	k := r.Range(1, 4)
	// (28,17,5), (25,20,5) …: total 50, one run exactly total/10 — the individual-variance limit 0.7·unit is met exactly; exact
	// arithmetic accepts the guard, float64 (0.7 is not a binary fraction) refuses it
	ties := [][]int{{1, 4, 5}, {5, 4, 1}, {4, 1, 5}, {5, 1, 4}, {1, 5, 4}, {4, 5, 1}, {3, 3, 3}, {2, 5, 3}, {17, 10, 3}, {10, 3, 17},
		{28, 17, 5}, {28, 5, 17}, {25, 20, 5}, {24, 5, 21}, {5, 22, 23}, {17, 28, 5}, {56, 34, 10}, {50, 10, 40}, {13, 60, 57}}
	t := ties[r.Intn(len(ties))]
	ws := []int{r.Range(3, 12) * k}
	for _, x := range t {
		ws = append(ws, x*k)
	}
	for i := r.Range(4, 60); i > 0; i-- {
		ws = append(ws, r.Range(1, 4)*k)
	}
	ws = append(ws, r.Range(0, 12)*k+1)
	return c06Runs(ws, false)
}

// pref: index into c06UPCFormats of the format the reader under test owns (-1: none)
func rowsrestGenRow(r *Rng, pref int) ([]bool, string) {
	switch r.Intn(10) {
	case 0, 1, 2, 3, 4: // symbol + add-on, framed
		f := c06UPCFormats[r.Intn(4)]
		if pref >= 0 && r.Chance(0.75) {
			f = c06UPCFormats[pref]
		}
		base, _ := rowsrestSymbol(r, f)
		if base == nil {
			return []bool{true, false, true}, "tiny"
		}
		class := "symbol"
		row := append([]bool{}, base...)
		if r.Chance(0.75) {
			n := r.Pick([]int{2, 5, 2, 5, 2, 5, 1, 3, 4, 6})
			d := c06Digits(r, n)
			if n == 5 && r.Chance(0.5) {
				d = rowsrestPrices[r.Intn(len(rowsrestPrices))]
			}
			par := r.Intn(1 << uint(n))
			valid := r.Chance(0.75)
			if valid && n == 2 {
				par = rowsrestExt2Parity(d)
			}
			if valid && n == 5 {
				par = rowsrestExt5Parity(d)
			}
			gap := r.Pick([]int{7, 9, 12, 3, 6, 1, 0, 20})
			row = append(append(row, c06White(gap)...), rowsrestAddOn(d, par)...)
			class = fmt.Sprintf("symbol+addon%d", n)
			if !valid {
				class += "-badparity"
			}
		}
		k := r.Pick([]int{1, 1, 2, 3, 4})
		l := r.Pick([]int{0, 2, 3, 5, 9, 10, 20, 40}) * r.Pick([]int{1, k})
		t := r.Pick([]int{0, 1, 3, 5, 6, 7, 10, 20, 40}) * r.Pick([]int{1, k})
		row = append(append(c06White(l), c06Scale(row, k)...), c06White(t)...)
		for m := r.Pick([]int{0, 0, 0, 0, 0, 1, 1, 2}); m > 0; m-- {
			var how string
			row, how = c06MutateRow(r, row)
			class += "-" + how
		}
		return row, class
	case 5:
		if r.Chance(0.04) { // very long rows: a clean symbol at a large scale or inside wide margins (word and 2^15 boundaries)
			if cb, _ := rowsrestCleanRow(r, pref); cb != nil {
				pad := r.Pick([]int{1000, 32768 - len(cb), 33000, 70000})
				if pad < 0 {
					pad = 500
				}
				l := r.Intn(pad + 1)
				return append(append(c06White(l), cb...), c06White(pad-l)...), "long-row"
			}
		}
		return rowsrestTieRow(r), "variance-tie"
	case 6: // UPC-like runs: widths 1..4 modules at scale k, white margin
		k := r.Pick([]int{1, 1, 2, 3})
		ws := []int{r.Range(0, 12) * k}
		for i := r.Range(3, 90); i > 0; i-- {
			ws = append(ws, r.Range(1, 4)*k)
		}
		ws = append(ws, r.Range(0, 12)*k)
		return c06Runs(ws, false), "upc-like-runs"
	}
	return c06GenRow(r, &c06RowDecs[5+r.Intn(5)])
}

// a clean, readable row for the reader: matching format, quiet zones as the reader insists on them, optional VALID add-on;
// returns the row and the length of the add-on (0 = none)
func rowsrestCleanRow(r *Rng, pref int) ([]bool, int) {
	f := c06UPCFormats[r.Intn(4)]
	if pref >= 0 {
		f = c06UPCFormats[pref]
	}
	base, _ := rowsrestSymbol(r, f)
	if base == nil {
		return nil, 0
	}
	row := append([]bool{}, base...)
	n := r.Pick([]int{0, 2, 5, 2, 5})
	if n > 0 {
		d := c06Digits(r, n)
		if n == 5 && r.Chance(0.5) {
			d = rowsrestPrices[r.Intn(len(rowsrestPrices))]
		}
		par := rowsrestExt2Parity(d)
		if n == 5 {
			par = rowsrestExt5Parity(d)
		}
		row = append(append(row, c06White(r.Pick([]int{7, 9, 12}))...), rowsrestAddOn(d, par)...)
	}
	k := r.Pick([]int{1, 1, 2, 3, 4})
	row = append(append(c06White((3+r.Intn(8))*k), c06Scale(row, k)...), c06White((7+r.Intn(8))*k)...)
	return row, n
}

// reader index (0 ean13, 1 ean8, 2 upca, 3 upce, 4 multi) -> index of its format in c06UPCFormats (EAN_13, EAN_8, UPC_A, UPC_E)
func rowsrestPref(which int) int {
	if which >= 0 && which < 4 {
		return which
	}
	return -1
}

// ---------- one call ----------

func rowsrestErr(e error) string { return "ERR:" + errKind(e) }

func rowsrestCall(c *Ctx, rd rowsrestReader, h rowsrestHints, rn int, bs []bool, class string) string {
	// the row decoders must see pixels, not the way the BitArray was built (appended, concatenated, reversed, xor-ed …)
	row := rowFromBitsVia(bs, int(c06Fnv([]byte(bitsStr(bs)))%uint64(c20Paths)), NewRng(c06Fnv([]byte(class))+uint64(len(bs))))
	var trace []string
	hints := h.goHints(&trace)
	var res *gozxing.Result
	var err error
	v := c06Judge(c, c06Case{Entry: "rowsrest-" + rd.key + "-row", Class: class,
		Desc: fmt.Sprintf("row %s rn=%d cb=%v ext=%s ua=%v %s", rd.name, rn, h.cb, h.ext, h.ua, bitsStr(bs))},
		func() (bool, error) {
			res, err = rd.dec.DecodeRow(rn, row, hints)
			return res != nil, err
		})
	out := v.Out
	switch {
	case v.Out == "ok":
		out = rowsrestResult(res)
	case strings.HasPrefix(v.Out, "ERR:"):
	default:
		out = v.Out
	}
	goOut := "T[" + strings.Join(trace, ";") + "] " + out
	b2i := map[bool]int{false: 0, true: 1}
	c.Cmp("rowsrest-upc-row", fmt.Sprintf("c06rows upc row %s %d %d %s %d %s", rd.name, rn, b2i[h.cb], h.ext, b2i[h.ua], bitsStr(bs)), goOut)
	if class == "variance-tie" && !strings.HasPrefix(rd.name, "m:") {
		mo := c.Model([]string{fmt.Sprintf("c06rows upc rowx %s %d %d %s %d %s", rd.name, rn, b2i[h.cb], h.ext, b2i[h.ua], bitsStr(bs))})
		if len(mo) == 1 && mo[0] != "NO-DRIVER" {
			if mo[0] == goOut {
				c.Note("rowsrest-upc:tie-rows:exact-arithmetic-agrees-with-float64")
			} else {
				c.Note("rowsrest-upc:tie-rows:exact-arithmetic-DIFFERS-from-float64 (why the driver runs IEEE binary64)")
			}
		}
	}
	// the row must come back unchanged
	for i, b := range bs {
		if row.Get(i) != b {
			c.Oracle("rowsrest-upc-row", false, "rowsrest-row-modified-by-DecodeRow", bitsStr(bs), "pixel "+fmt.Sprint(i))
			break
		}
	}
	return out
}

func rowsrestRange(r []int, e error) string {
	if e != nil {
		return rowsrestErr(e)
	}
	return fmt.Sprintf("ok %d,%d", r[0], r[1])
}

func rowsrestLayers(c *Ctx, r *Rng, bs []bool) {
	bits := bitsStr(bs)
	row := rowFromBits(bs)
	var sg []int
	c.Cmp("rowsrest-upc-layers", "c06rows upc start "+bits, Safe(func() string {
		var e error
		sg, e = oned.VerifRowsFindStartGuardPattern(row)
		return rowsrestRange(sg, e)
	}))
	pats := [][]int{{1, 1, 1}, {1, 1, 1, 1, 1}, {1, 1, 1, 1, 1, 1}, {1, 1, 2}}
	off := r.Intn(len(bs) + 3)
	p := pats[r.Intn(len(pats))]
	wf := r.Bool()
	c.Cmp("rowsrest-upc-layers", fmt.Sprintf("c06rows upc guard %d %d %s %s", off, map[bool]int{false: 0, true: 1}[wf], ints(p), bits), Safe(func() string {
		return rowsrestRange(oned.VerifRowsFindGuardPattern(row, off, wf, p))
	}))
	off = r.Intn(len(bs) + 2)
	lg := r.Bool()
	c.Cmp("rowsrest-upc-layers", fmt.Sprintf("c06rows upc digit %d %d %s", off, map[bool]int{false: 0, true: 1}[lg], bits), Safe(func() string {
		ps := oned.UPCEANReader_L_PATTERNS
		if lg {
			ps = oned.UPCEANReader_L_AND_G_PATTERNS
		}
		b, w, e := oned.VerifRowsDecodeDigit(row, off, ps)
		if e != nil {
			return rowsrestErr(e)
		}
		return fmt.Sprintf("ok %d,%d", b, w)
	}))
	if sg != nil {
		for _, k := range []struct {
			n string
			f gozxing.BarcodeFormat
		}{{"ean13", gozxing.BarcodeFormat_EAN_13}, {"ean8", gozxing.BarcodeFormat_EAN_8}, {"upce", gozxing.BarcodeFormat_UPC_E}} {
			c.Cmp("rowsrest-upc-layers", fmt.Sprintf("c06rows upc middle %s %d %s", k.n, sg[1], bits), Safe(func() string {
				end, text, e := oned.VerifRowsDecodeMiddle(k.f, row, sg)
				if e != nil {
					return rowsrestErr(e)
				}
				return fmt.Sprintf("ok %d %s", end, hexs([]byte(text)))
			}))
		}
	}
	// the add-on reader from an arbitrary offset (also from the offsets at which a white-black edge sits)
	off = r.Intn(len(bs) + 2)
	rn := r.Range(-3, 60)
	c.Cmp("rowsrest-upc-layers", fmt.Sprintf("c06rows upc ext %d %d %s", rn, off, bits), Safe(func() string {
		res, e := oned.VerifRowsExtensionDecodeRow(rn, row, off)
		if e != nil {
			return rowsrestErr(e)
		}
		return fmt.Sprintf("ok %s P%s M%s", hexs([]byte(res.GetText())), rowsrestPts(res.GetResultPoints()), rowsrestMeta(res.GetResultMetadata()))
	}))
}

func rowsrestStrings(c *Ctx) {
	// parseExtension5String: every first digit x boundary amounts, the three special codes and their neighbours
	var raws []string
	for d := 0; d <= 9; d++ {
		for _, a := range []string{"0000", "0001", "0009", "0010", "0099", "0100", "0101", "1000", "9999", "9990", "9991", "1234"} {
			raws = append(raws, fmt.Sprint(d)+a)
		}
	}
	if c.Thorough {
		raws = nil
		for v := 0; v < 100000; v++ {
			raws = append(raws, fmt.Sprintf("%05d", v))
		}
	} else {
		for i := 0; i < 3000; i++ {
			raws = append(raws, fmt.Sprintf("%05d", c.Rng.Intn(100000)))
		}
	}
	for _, raw := range raws {
		c.Cmp("rowsrest-upc-strings", "c06rows upc price "+hexs([]byte(raw)), Safe(func() string {
			return "ok " + hexs([]byte(oned.VerifRowsParseExtension5String(raw)))
		}))
	}
	// lookupCountryIdentifier: all 1000 prefixes, short and non-numeric codes
	for p := 0; p <= 999; p++ {
		code := fmt.Sprintf("%03d", p) + "0000000000"
		c.Cmp("rowsrest-upc-strings", "c06rows upc country "+hexs([]byte(code)), Safe(func() string {
			return "ok " + hexs([]byte(oned.VerifRowsLookupCountryIdentifier(code)))
		}))
	}
	for _, code := range []string{"", "0", "00", "000", "4a0123", "x00", "12"} {
		c.Cmp("rowsrest-upc-strings", "c06rows upc country "+hexs([]byte(code)), Safe(func() string {
			return "ok " + hexs([]byte(oned.VerifRowsLookupCountryIdentifier(code)))
		}))
	}
	for _, fs := range []string{"-", "x", "ean13", "upca,ean13", "ean8,ean8,x,upce", "x,x", "upce,upca,ean8,ean13"} {
		_ = fs
	}
}

func rowsrestUPC(c *Ctx) {
	c.res.Rule += " | wp rowsrest: whole DecodeRow of EAN-13/EAN-8/UPC-A/UPC-E/multi-format readers vs the Lean model (text, format, result points, " +
		"metadata incl. add-on, price, country, symbology identifier, result-point callback sequence, error kind) on rendered symbols with 2/5/odd-length add-ons " +
		"(valid and invalid parity, special price codes, every country range boundary), scaled, framed and mutated, rows with variances exactly on a limit, UPC-like run rows, " +
		"random rows; hint maps over callback / ALLOWED_EAN_EXTENSIONS (absent, empty, lists, ignored wrong type) / POSSIBLE_FORMATS; intermediate layers via hooks"
	if rowsrestPrefixList == nil {
		rowsrestPrefixList = rowsrestPrefixes()
	}
	rowsrestStrings(c)
	n := c.Pick(9000, 400000)
	c.Parallel(n, 16, func(i int, r *Rng) {
		bs, class := rowsrestGenRow(r, rowsrestPref(i%5))
		rd := rowsrestNewReader(r, i%5)
		h := rowsrestGenHints(r)
		if r.Chance(0.35) { // a readable row and a hint map that lets it through
			if cb, n := rowsrestCleanRow(r, rowsrestPref(i%5)); cb != nil {
				bs, class = cb, fmt.Sprintf("clean+addon%d", n)
				if h.ext != "-" && r.Chance(0.8) {
					h.extV = [][]int{{n}, {n, 7}, {0, 2, 5}}[r.Intn(3)]
					h.ext = ints(h.extV)
				}
			}
		}
		if len(bs) == 0 {
			bs = []bool{false}
		}
		rn := r.Pick([]int{0, 1, 7, 49, 1000, -1})
		// the same reader INSTANCE first reads up to two other rows (the model is a function of the call alone: any
		// state a reader keeps between rows — string buffers, counters, the add-on supports — must not show)
		for pre := r.Pick([]int{0, 0, 1, 2}); pre > 0; pre-- {
			pb, pc := rowsrestGenRow(r, rowsrestPref(i%5))
			if r.Bool() {
				if cb, n := rowsrestCleanRow(r, rowsrestPref(i%5)); cb != nil {
					pb, pc = cb, fmt.Sprintf("clean+addon%d", n)
				}
			}
			if len(pb) > 0 {
				rowsrestCall(c, rd, rowsrestGenHints(r), rn, pb, pc)
				c.Note("rowsrest-upc:reused-instance")
			}
		}
		out := rowsrestCall(c, rd, h, rn, bs, class)
		kind := "err"
		if strings.HasPrefix(out, "ok") {
			kind = "ok"
			if strings.Contains(out, "UPC_EAN_EXTENSION") {
				kind = "ok+addon"
			}
		}
		c.Note("rowsrest-upc:" + rd.key + ":" + kind)
		c.Note("rowsrest-upc-gen:" + strings.SplitN(class, "-", 2)[0])
		if i%4 == 0 {
			rowsrestLayers(c, r, bs)
		}
	})
}
