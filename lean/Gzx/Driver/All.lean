import Gzx.Driver.C01
import Gzx.Driver.C01Multi
import Gzx.Driver.C02
import Gzx.Driver.C03
import Gzx.Driver.C03Row39
import Gzx.Driver.C03Image
import Gzx.Driver.C04
import Gzx.Driver.C05
import Gzx.Driver.C06
import Gzx.Driver.C06Det
import Gzx.Driver.C06Row128
import Gzx.Driver.C06Rows
import Gzx.Driver.C06Rest
import Gzx.Driver.C07
import Gzx.Driver.C07QREnc
import Gzx.Driver.C08
import Gzx.Driver.C09
import Gzx.Driver.C10
import Gzx.Driver.C11
import Gzx.Driver.C12
import Gzx.Driver.C12DM
import Gzx.Driver.C12Enc2
import Gzx.Driver.C13
import Gzx.Driver.C14
import Gzx.Driver.C15
import Gzx.Driver.C16
import Gzx.Driver.C17
import Gzx.Driver.C18
import Gzx.Driver.C18Gen
import Gzx.Driver.C19
import Gzx.Driver.C20
import Gzx.Driver.ImagePath2D
namespace Gzx.Driver

/-- `<suite> <cmd> <args...>`; one handler module per property, each owned by that property -/
def dispatch (line : String) : String :=
  match line.splitOn " " with
  | "c01" :: rest => C01.handle rest
  | "c01multi" :: rest => C01Multi.handle rest
  | "c02" :: rest => C02.handle rest
  | "c03" :: rest => C03.handle rest
  | "row39" :: rest => C03Row39.handle rest
  | "img1d" :: rest => C03Image.handle rest
  | "c04" :: rest => C04.handle rest
  | "c05" :: rest => C05.handle rest
  | "c06" :: rest => C06.handle rest
  | "c06det" :: rest => C06Det.handle rest
  | "row128" :: rest => C06Row128.handle rest
  | "c06rows" :: rest => C06Rows.handle rest
  | "c06rest" :: rest => C06Rest.handle rest
  | "c07" :: rest => C07.handle rest
  | "c07m" :: rest => C07QREnc.handle rest
  | "c08" :: rest => C08.handle rest
  | "c09" :: rest => C09.handle rest
  | "c10" :: rest => C10.handle rest
  | "c11" :: rest => C11.handle rest
  | "c12" :: rest => C12.handle rest
  | "c12dm" :: rest => C12DM.handle rest
  | "c12e" :: rest => C12Enc2.handle rest
  | "c13" :: rest => C13.handle rest
  | "c14" :: rest => C14.handle rest
  | "c15" :: rest => C15.handle rest
  | "c16" :: rest => C16.handle rest
  | "c17" :: rest => C17.handle rest
  | "c18" :: rest => C18.handle rest
  | "c18g" :: rest => C18Gen.handle rest
  | "c19" :: rest => C19.handle rest
  | "c20" :: rest => C20.handle rest
  | "img2d" :: rest => ImagePath2D.handle rest
  | _ => "bad-suite"

end Gzx.Driver
