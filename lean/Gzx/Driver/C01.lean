import Gzx.Util
namespace Gzx.Driver.C01
open Gzx

/-- line-protocol handler of suite `c01` (arguments after the suite name) -/
def handle : List String → String
  | _ => "bad-op"

end Gzx.Driver.C01
