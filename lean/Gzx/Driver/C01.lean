import Gzx.Driver.QRTables
import Gzx.Model.RS
namespace Gzx.Driver.C01
open Gzx Gzx.QRDec Gzx.ECI

/-! line protocol of suite `c01` (QR decoder layers); also used by `c05` and `c15` -/

def parseHint (s : String) : Option Hint :=
  if s == "-" then some .none
  else if s.startsWith "o:" then some (.object (s.drop 2).toString)
  else if s.startsWith "n0:" then some (.name (s.drop 3).toString 0)
  else if s.startsWith "n1:" then some (.name (s.drop 3).toString 1)
  else if s.startsWith "n2:" then some (.name (s.drop 3).toString 2)
  else none

def parseEC (s : String) : Option EC :=
  if s == "L" then some .L else if s == "M" then some .M else if s == "Q" then some .Q
  else if s == "H" then some .H else none

def showSeg : Seg → String
  | .raw bs => "R|" ++ showHex bs
  | .text cs bs => "T|" ++ cs.show ++ "|" ++ showHex bs

def showList (f : α → String) (xs : List α) : String :=
  if xs.isEmpty then "-" else ";".intercalate (xs.map f)

def showParsed (p : Parsed) : String :=
  s!"segs={showList showSeg p.segs} bs={showList showHex p.byteSegs} sa={p.saSeq},{p.saPar} sm={p.symMod}"

def showErr : Fault → String
  | .panic _ => "PANIC"
  | e => "ERR:" ++ e.tag

/-- sequential ReadBits calls; a failed call leaves the source untouched -/
def bsRun : List Nat → List Bool → List String → List String × Nat
  | [], bits, acc => (acc.reverse, bits.length)
  | n :: ns, bits, acc =>
    match readBits n bits with
    | .ok (v, bits') => bsRun ns bits' (toString v :: acc)
    | .error _ => bsRun ns bits ("E" :: acc)

def matrixOfBits (dim : Nat) (s : String) : Option Matrix :=
  let arr := (parseBits s).toArray
  if arr.size = dim * dim then some { dim := dim, bit := fun x y => arr.getD (y * dim + x) false } else none

def T : Tables := QRTables.tables

/-- Reed-Solomon block decoding: the C04 model of `ReedSolomonDecoder.Decode` over GF(256)/0x11D, base 0 —
    the decoder the theorems of C01/C05 are about (`QRComp.rsQR`; `Obligations.C01.driver_rs_is_rsQR`) -/
def rs : List Nat → Nat → Res (List Nat) := Gzx.RS.decode Gzx.GF.qrCode256

def handle : List String → String
  | ["bs", hex, ns] =>
    match parseHex? hex, parseNatList? ns with
    | some bs, some ns =>
      let (outs, avail) := bsRun ns (bytesToBits bs) []
      ",".intercalate outs ++ "|" ++ toString avail
    | _, _ => "bad-op"
  | ["parse", hex, ver, hint] =>
    match parseHex? hex, argNat [ver] "v", (argOf [hint] "hint").bind parseHint with
    | some bs, some v, some h =>
      match parse T.eci bs v h with
      | .ok p => "ok " ++ showParsed p
      | .error e => showErr e
    | _, _, _ => "bad-op"
  | ["fmt", a, b] =>
    match parseNat? a, parseNat? b with
    | some a, some b =>
      match decodeFormat T.fmt T.fmtMask a b with
      | .ok (some (ec, m)) => s!"ok {ec.name} {m}"
      | .ok none => "none"
      | .error e => showErr e
    | _, _ => "bad-op"
  | ["ver", a] =>
    match parseNat? a with
    | some a =>
      match decodeVersionInformation T a with
      | .ok v => s!"ok {v.num}"
      | .error (.panic _) => "PANIC"
      | .error _ => "ERR"
    | _ => "bad-op"
  | ["deint", hex, ver, ec] =>
    match parseHex? hex, argNat [ver] "v", (argOf [ec] "ec").bind parseEC with
    | some raw, some v, some ec =>
      match getVersionForNumber T.versions v with
      | .ok vi =>
        match getDataBlocks raw vi ec with
        | .ok bs => "ok " ++ showList (fun b => s!"{b.1}:{showHex b.2}") bs
        | .error e => showErr e
      | .error e => showErr e
    | _, _, _ => "bad-op"
  | ["cw", dim, bits, mir] =>
    match parseNat? dim, argNat [mir] "mirror" with
    | some dim, some mir =>
      match matrixOfBits dim bits with
      | none => "bad-op"
      | some m =>
        match newParser m with
        | .error e => showErr e
        | .ok p =>
          let r : Res String := do
            let p := if mir = 1 then setMirror p true else p
            let (v, p) ← readVersion T p
            let (fi, p) ← readFormatInformation T p
            let p := if mir = 1 then { p with m := mirrorMatrix p.m } else p
            let cws ← (readCodewords T p).1
            pure s!"ok fmt={fi.1.name},{fi.2} ver={v.num} cw={showHex cws}"
          match r with
          | .ok s => s
          | .error e => showErr e
    | _, _ => "bad-op"
  | ["decode", dim, bits, hint] =>
    match parseNat? dim, (argOf [hint] "hint").bind parseHint with
    | some dim, some h =>
      match matrixOfBits dim bits with
      | none => "bad-op"
      | some m =>
        match decode T rs h m with
        | .ok d => s!"ok ec={d.ec.name} mir={if d.mirrored then 1 else 0} data={showHex d.data} {showParsed d.parsed}"
        | .error e => showErr e
    | _, _ => "bad-op"
  | ["rs", hex, n] =>
    match parseHex? hex, parseNat? n with
    | some w, some n =>
      match rs w n with
      | .ok w => "ok " ++ showHex w
      | .error e => showErr e
    | _, _ => "bad-op"
  | _ => "bad-op"

end Gzx.Driver.C01
