import Gzx.Driver.C01
import Gzx.Ref.QR
import Gzx.Ref.QRMultiSem
namespace Gzx.Driver.C01Multi
open Gzx Gzx.QRDec Gzx.ECI Gzx.QRMulti

/-! line protocol of suite `c01multi` (work package c01multi): reference multi-segment symbols.
    items: `;`-separated tokens  N<digits> | A<hex of Table-5 values> | B<hex> | K<hex of Shift_JIS pairs> |
    H<hex of GB 2312 pairs> | E<number> | F1 | F2 | S<seq>.<parity>;  `-` = no item -/

def pairs : List Nat → Option (List (Nat × Nat))
  | [] => some []
  | a :: b :: r => (pairs r).map ((a, b) :: ·)
  | [_] => none

def parseItem (s : String) : Option Item :=
  match s.toList with
  | 'N' :: cs => if cs.all Char.isDigit then some (.numeric (cs.map (fun c => c.toNat - 48))) else none
  | 'A' :: cs => (parseHex? (String.ofList cs)).map .alnum
  | 'B' :: cs => (parseHex? (String.ofList cs)).map .byte
  | 'K' :: cs => ((parseHex? (String.ofList cs)).bind pairs).map .kanji
  | 'H' :: cs => ((parseHex? (String.ofList cs)).bind pairs).map .hanzi
  | 'E' :: cs => (parseNat? (String.ofList cs)).map .eci
  | ['F', '1'] => some .fnc1First
  | ['F', '2'] => some .fnc1Second
  | 'S' :: cs =>
    match (String.ofList cs).splitOn "." with
    | [a, b] => do let q ← parseNat? a; let p ← parseNat? b; pure (.sa q p)
    | _ => none
  | _ => none

def parseItems (s : String) : Option (List Item) :=
  if s == "-" || s.isEmpty then some [] else (s.splitOn ";").mapM parseItem

def rowMajor (rows : List (List Bool)) : String := String.join (rows.map showBits)

/-- the guess the decoder would make for an un-designated byte segment (the parameter `g` of the theorems) -/
def guessOf (h : Hint) (bs : List Nat) : Charset :=
  match guessCharset C01.T.eci bs h with
  | .ok cs => cs
  | .error _ => .latin1

def handle : List String → String
  | ["bits", v, items] =>
    match parseNat? v, parseItems items with
    | some v, some its => "ok " ++ showBits (bitsOf v its)
    | _, _ => "bad-op"
  | ["data", v, ec, items] =>
    match parseNat? v, QRRef.EC.ofName? ec, parseItems items with
    | some v, some ec, some its =>
      let bits := bitsOf v its
      if bits.length ≤ 8 * QRRef.dataCodewords v ec then "ok " ++ showHex (QRRef.terminate (QRRef.dataCodewords v ec) bits)
      else "ERR:nofit"
    | _, _, _ => "bad-op"
  | ["sym", v, ec, mask, items] =>
    match parseNat? v, QRRef.EC.ofName? ec, parseNat? mask, parseItems items with
    | some v, some ec, some mask, some its =>
      let bits := bitsOf v its
      if bits.length ≤ 8 * QRRef.dataCodewords v ec ∧ 1 ≤ v ∧ v ≤ 40 ∧ mask < 8 then
        let data := QRRef.terminate (QRRef.dataCodewords v ec) bits
        let cw := QRRef.finalCodewords v ec data
        s!"ok data={showHex data} cw={showHex cw} m={rowMajor (QRRef.refMatrix v ec mask cw)}"
      else "ERR:nofit"
    | _, _, _, _ => "bad-op"
  | ["expect", v, items, hint] =>      -- the right-hand side of `qr_roundtrip_items`: toParsed (run T.eci g {} items)
    match parseNat? v, parseItems items, (argOf [hint] "hint").bind C01.parseHint with
    | some _, some its, some h => "ok " ++ C01.showParsed (toParsed (run C01.T.eci (guessOf h) {} its))
    | _, _, _ => "bad-op"
  | _ => "bad-op"

end Gzx.Driver.C01Multi
