import Gzx.Model.DMHighLevel
import Gzx.Gen.C02DM
import Gzx.Gen.DMSymbols
import Gzx.Model.DMDecodeChain
namespace Gzx.Driver.C02
open Gzx Gzx.DMHighLevel

/-- the decoder's character tables as regenerated from /repo for this run -/
def genTables : Option Tables :=
  decodeTables Gen.C02DM.c40Basic Gen.C02DM.c40Shift2 Gen.C02DM.textBasic Gen.C02DM.textShift2 Gen.C02DM.textShift3

/-- the encoder's symbol table as regenerated from /repo for this run -/
def genSymbols : Option (List SymbolInfo) := decodeSymbols Gen.DMSymbols.symbols

/-- "WxH" or "-" -/
def parseDim (s : String) : Option (Option (Nat × Nat)) :=
  if s == "-" then some none
  else match s.splitOn "x" with
    | [w, h] => match w.toNat?, h.toNat? with
      | some w, some h => some (some (w, h))
      | _, _ => none
    | _ => none

/-- line-protocol handler of suite `c02` (arguments after the suite name)
    * `dec <hex codewords>`                       → `<hex text>|m=<symbology modifier>` or `ERR:kind`
    * `enc <hex text> <shape> <min WxH|-> <max>`  → `<hex codewords>` or `ERR:kind`
    * `symdec <rows/of/bits>`                     → `<hex text>` or `ERR:kind`: Decoder.Decode (model `DMDec.decodeMatrix`)
    * `la <hex text> <pos> <mode>`                → mode (Lean `Float` look-ahead)
    * `lax <hex text> <pos> <mode>`               → mode (exact integer look-ahead `laExact`)
    * `laxr <hex text> <pos> <mode> <bumps>`      → mode (`laExactR` with the float roundings observed by the harness:
                                                    one digit 0..7 per processed character, `-` = none)
    * `encx <hex text> <shape> <min> <max>`       → like `enc`, with `laExact` as the look-ahead -/
def handle : List String → String
  | ["dec", hex] =>
    match parseHex? hex, genTables with
    | some cw, some T =>
      match decodeFull T cw with
      | .ok (t, m) => showHex t ++ "|m=" ++ toString m
      | .error e => "ERR:" ++ e.tag
    | _, none => "ERR:gen-tables"
    | none, _ => "bad-op"
  | ["enc", hex, shape, mn, mx] =>
    match parseHex? hex, shape.toNat?, parseDim mn, parseDim mx, genSymbols with
    | some msg, some sh, some mn, some mx, some syms =>
      match encodeHL syms laFloat msg ⟨sh, mn, mx⟩ with
      | .ok cw => showHex cw
      | .error e => "ERR:" ++ e.tag
    | _, _, _, _, none => "ERR:gen-symbols"
    | _, _, _, _, _ => "bad-op"
  | ["encx", hex, shape, mn, mx] =>
    match parseHex? hex, shape.toNat?, parseDim mn, parseDim mx, genSymbols with
    | some msg, some sh, some mn, some mx, some syms =>
      match encodeHL syms laExact msg ⟨sh, mn, mx⟩ with
      | .ok cw => showHex cw
      | .error e => "ERR:" ++ e.tag
    | _, _, _, _, none => "ERR:gen-symbols"
    | _, _, _, _, _ => "bad-op"
  | ["lax", hex, pos, mode] =>
    match parseHex? hex, pos.toNat?, mode.toNat? with
    | some msg, some p, some m => toString (laExact msg p m)
    | _, _, _ => "bad-op"
  | ["symdec", grid] =>
    match genTables with
    | some T =>
      let rows := (grid.splitOn "/").map parseBits
      let g : DMDec.BitGrid := ⟨(rows.headD []).length, rows.length, (rows.flatMap id).toArray⟩
      match DMDec.decodeMatrix T g with
      | .ok t => showHex t
      | .error e => "ERR:" ++ e.tag
    | none => "ERR:gen-tables"
  | ["laxr", hex, pos, mode, bumps] =>
    match parseHex? hex, pos.toNat?, mode.toNat? with
    | some msg, some p, some m =>
      let ds := if bumps == "-" then [] else bumps.toList.map (fun ch => ch.toNat - 48)
      toString (laExactR (bumpOfDigits ds) msg p m)
    | _, _, _ => "bad-op"
  | ["la", hex, pos, mode] =>
    match parseHex? hex, pos.toNat?, mode.toNat? with
    | some msg, some p, some m => toString (laFloat msg p m)
    | _, _, _ => "bad-op"
  | _ => "bad-op"

end Gzx.Driver.C02
