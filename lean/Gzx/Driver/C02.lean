import Gzx.Util
namespace Gzx.Driver.C02
open Gzx

/-- line-protocol handler of suite `c02` (arguments after the suite name) -/
def handle : List String → String
  | _ => "bad-op"

end Gzx.Driver.C02
