import Gzx.Model.OneD
namespace Gzx.Driver.C03
open Gzx Gzx.CheckDigit Gzx.OneD

def showR {α} (f : α → String) : Res α → String
  | .ok a => f a
  | .error (.panic _) => "PANIC"
  | .error e => "ERR:" ++ e.tag

def T := refTables

def kindOf? : String → Option EanKind
  | "ean13" => some .ean13 | "ean8" => some .ean8 | "upca" => some .upca | "upce" => some .upce
  | _ => none

def kindName : EanKind → String
  | .ean13 => "EAN_13" | .ean8 => "EAN_8" | .upca => "UPC_A" | .upce => "UPC_E"

def forcedOf? : String → Option (Option Nat)
  | "-" => some none | "A" => some (some 101) | "B" => some (some 100) | "C" => some (some 99)
  | _ => none

def showPatterns (ps : List (List Nat)) : String := ";".intercalate (ps.map showNatList)

def okBits (r : Res (List Bool)) : String := showR (fun b => "ok " ++ showBits b) r
def okHex (r : Res (List Nat)) : String := showR (fun b => "ok " ++ showHex b) r

def writerModules (sym : String) (bytes : List Nat) : Option (Res (List Bool)) :=
  match sym with
  | "ean13" => some (ean13Modules T bytes)
  | "ean8" => some (ean8Modules T bytes)
  | "upca" => some (upcaModules T bytes)
  | "upce" => some (upceModules T bytes)
  | "code39" => some (code39Modules T bytes)
  | "code93" => some (code93Modules T bytes)
  | "itf" => some (itfModules T bytes)
  | "codabar" => some (codabarModules T bytes)
  | _ => none

/-- line-protocol handler of suite `c03` (arguments after the suite name) -/
def handle : List String → String
  | ["wr", sym, hex] =>
    match parseHex? hex with
    | some bs =>
      -- OneDimensionalCodeWriter.Encode refuses empty contents before the encoder runs (UPC-A prepends "0" first)
      if bs.isEmpty && sym != "upca" then "ERR:writer"
      else (match writerModules sym bs with | some r => okBits r | none => "bad-op")
    | none => "bad-op"
  | ["wr128", forced, cps] =>
    match forcedOf? forced, parseNatList? cps with
    | some f, some cs => okBits (code128Modules T cs f)
    | _, _ => "bad-op"
  | ["codes128", forced, cps] =>
    match forcedOf? forced, parseNatList? cps with
    | some f, some cs => showR (fun c => "ok " ++ showNatList c) (code128Codes cs f)
    | _, _ => "bad-op"
  | ["render", bits, width, margin] =>
    match parseNat? width, parseNat? margin with
    | some w, some m => okBits (renderRow (parseBits bits) w m)
    | _, _ => "bad-op"
  | ["upcread", kind, bits] =>
    match kindOf? kind with
    | some k => okHex (decodeRow T k (parseBits bits))
    | none => "bad-op"
  | ["multi", fmts, bits] =>
    let fs := if fmts == "-" then some [] else (fmts.splitOn ",").mapM kindOf?
    match fs with
    | some fs => showR (fun (r : EanKind × List Nat) => "ok " ++ kindName r.1 ++ " " ++ showHex r.2) (multiDecodeRow T fs (parseBits bits))
    | none => "bad-op"
  | ["ideal", sym, bits] =>
    let m := parseBits bits
    match sym with
    | "code128" => okHex (code128Ideal T m)
    | "code93" => okHex (code93Ideal T m)
    | "code39" => okHex (code39Ideal T m false)
    | "code39x" => okHex (code39Ideal T m true)
    | "itf" => okHex (itfIdeal T [6, 8, 10, 12, 14] m)
    | "codabar" => okHex (codabarIdeal T m)
    | _ => "bad-op"
  | ["read128", codes] =>
    match parseNatList? codes with
    | some cs => okHex (code128ReadCodes cs)
    | none => "bad-op"
  | ["unesc39", hex] =>
    match parseHex? hex with
    | some bs => okHex (code39Unescape bs)
    | none => "bad-op"
  | ["unesc93", hex] =>
    match parseHex? hex with
    | some bs => okHex (code93Unescape bs)
    | none => "bad-op"
  | ["tbl", "code128"] => showPatterns T.code128
  | ["tbl", "code39"] => showNatList (T.code39Asterisk :: T.code39Enc)
  | ["tbl", "code93"] => showNatList T.code93Enc
  | ["tbl", "itf"] => showPatterns T.itfWriter
  | ["tbl", "codabar"] => showNatList T.codabarEnc
  | ["tbl", "lg"] => showPatterns (lAndG T.lPatterns)
  | _ => "bad-op"

end Gzx.Driver.C03
