import Gzx.Util
namespace Gzx.Driver.C03
open Gzx

/-- line-protocol handler of suite `c03` (arguments after the suite name) -/
def handle : List String → String
  | _ => "bad-op"

end Gzx.Driver.C03
