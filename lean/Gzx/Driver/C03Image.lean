import Gzx.Model.Image1D
namespace Gzx.Driver.C03Image
open Gzx Gzx.Image1D

/-!
  line protocol of suite `img1d` (wp imgpath1d):
    img1d path <sym> <contents> <width> <height> <margin|-> <forced|-> <pose> <binz> <ext39> <th>
    img1d scan <sym> <ext39> <binz> <th> <w> <h> <rows>          reader on an arbitrary picture
    img1d brow <binz> <w> <h> <rows> <y>                          GetBlackRow of a picture
    img1d rotrow <binz> <w> <h> <rows> <y>                        GetBlackRow of the bitmap turned counter-clockwise
    img1d pic <sym> <contents> <width> <height> <margin|-> <forced|-> <pose>   the posed picture (size + hash)
  contents: hex bytes, Code 128: comma-separated code points.  rows: "/"-separated, `N*bits` = N copies.
-/

def symOf? : String → Option Sym
  | "ean13" => some .ean13 | "ean8" => some .ean8 | "upca" => some .upca | "upce" => some .upce
  | "code39" => some .code39 | "code93" => some .code93 | "code128" => some .code128 | "itf" => some .itf
  | "codabar" => some .codabar | _ => none

def fmtName : Sym → String
  | .ean13 => "EAN_13" | .ean8 => "EAN_8" | .upca => "UPC_A" | .upce => "UPC_E" | .code39 => "CODE_39"
  | .code93 => "CODE_93" | .code128 => "CODE_128" | .itf => "ITF" | .codabar => "CODABAR"

def contentsOf? (sym : Sym) (s : String) : Option (List Nat) :=
  if sym = .code128 then parseNatList? s else if s == "-" then some [] else parseHex? s

def optInt? (s : String) : Option (Option Int) := if s == "-" then some none else (parseInt? s).map some

def forcedOf? : String → Option (Option Nat)
  | "-" => some none | "A" => some (some 101) | "B" => some (some 100) | "C" => some (some 99) | _ => none

def poseOf? : String → Option Pose
  | "up" => some .upright | "down" => some .upsideDown | "side" => some .sideways | _ => none

def binzOf? : String → Option Binz
  | "hybrid" => some .hybrid | "global" => some .global | _ => none

def parseRows (s : String) : List (List Bool) :=
  ((s.splitOn "/").map (fun seg =>
    match seg.splitOn "*" with
    | [n, bits] => List.replicate (n.toNat?.getD 0) (parseBits bits)
    | _ => [parseBits seg])).flatten

def showErr (e : Fault) : String :=
  match e with
  | .panic _ => "PANIC"
  | e => "ERR:" ++ e.tag

def showRead : Res Read → String
  | .error e => showErr e
  | .ok r =>
    let o := match r.orientation with | some o => toString o | none => "none"
    s!"ok {fmtName r.fmt} {showHex r.text} row={r.row} rev={if r.reversed then 1 else 0} rot={if r.rotated then 1 else 0} orient={o}"

def showRow : Res (List Bool) → String
  | .error e => showErr e
  | .ok bits => "ok " ++ showBits bits

def handle : List String → String
  | ["path", sym, contents, width, height, margin, forced, pose, binz, ext39, th] =>
    match symOf? sym with
    | none => "bad-op"
    | some sy =>
      match contentsOf? sy contents, parseInt? width, parseInt? height, optInt? margin, forcedOf? forced, poseOf? pose,
          binzOf? binz with
      | some c, some w, some h, some m, some f, some p, some b =>
        showRead (imagePath refEnv sy c w h m f p b (ext39 == "1") (th == "1"))
      | _, _, _, _, _, _, _ => "bad-op"
  | ["pathm", sym, contents, width, height, margin, pose, binz, formats, th] =>
    match symOf? sym with
    | none => "bad-op"
    | some sy =>
      match contentsOf? sy contents, parseInt? width, parseInt? height, optInt? margin, poseOf? pose, binzOf? binz with
      | some c, some w, some h, some m, some p, some b =>
        let fs : List (Option CheckDigit.EanKind) :=
          if formats == "-" then [] else (formats.splitOn ",").map (fun f =>
            match f with
            | "EAN_13" => some .ean13 | "EAN_8" => some .ean8 | "UPC_A" => some .upca | "UPC_E" => some .upce | _ => none)
        showRead (imagePathMulti refEnv sy c w h m none p b fs (th == "1"))
      | _, _, _, _, _, _ => "bad-op"
  | ["pic", sym, contents, width, height, margin, forced, pose] =>
    match symOf? sym with
    | none => "bad-op"
    | some sy =>
      match contentsOf? sy contents, parseInt? width, parseInt? height, optInt? margin, forcedOf? forced, poseOf? pose with
      | some c, some w, some h, some m, some f, some p =>
        match writeImage refEnv.T sy c w h m f with
        | .error e => showErr e
        | .ok img =>
          let pic := (Pic.ofImage img).pose p
          s!"ok {pic.w}x{pic.h} h={(Render.hashRows pic.rows).toNat}"
      | _, _, _, _, _, _ => "bad-op"
  | ["scan", sym, ext39, binz, th, w, h, rows] =>
    match symOf? sym, binzOf? binz, w.toNat?, h.toNat? with
    | some sy, some b, some w, some h =>
      showRead (readImage refEnv sy (ext39 == "1") (Bitmap.ofPic b ⟨w, h, parseRows rows⟩) (th == "1"))
    | _, _, _, _ => "bad-op"
  | ["brow", binz, w, h, rows, y] =>
    match binzOf? binz, w.toNat?, h.toNat?, y.toNat? with
    | some b, some w, some h, some y => showRow ((Bitmap.ofPic b ⟨w, h, parseRows rows⟩).getBlackRow y)
    | _, _, _, _ => "bad-op"
  | ["rotrow", binz, w, h, rows, y] =>
    match binzOf? binz, w.toNat?, h.toNat?, y.toNat? with
    | some b, some w, some h, some y =>
      match (Bitmap.ofPic b ⟨w, h, parseRows rows⟩).rotate with
      | .error e => showErr e
      | .ok b' => s!"{b'.src.w}x{b'.src.h} " ++ showRow (b'.getBlackRow y)
    | _, _, _, _ => "bad-op"
  | _ => "bad-op"

end Gzx.Driver.C03Image
