/-
  Driver commands of the Code 39 / Code 93 / Codabar row-decoder models (suite prefix `row39`), used by
  harness/zz_oned39_rows.go.  Rows travel as 0/1 strings (`-` = empty row), counters as comma lists.
-/
import Gzx.Model.OneDRow39
namespace Gzx.Driver.C03Row39
open Gzx Gzx.OneD Gzx.Row39

def showFault (e : Fault) : String :=
  match e with
  | .panic _ => "PANIC"
  | e => "ERR:" ++ e.tag

def showHit : Res Hit → String
  | .ok h => s!"ok {showHex h.text} {h.left2} {h.right2}"
  | .error e => showFault e

def showOptNat : Option Nat → String
  | some p => toString p
  | none => "-1"

def showPair : Res (Nat × Nat) → String
  | .ok (a, b) => s!"{a},{b}"
  | .error e => showFault e

def T := refTables

def handle : List String → String
  | ["c39", ck, ext, bits] => showHit (c39DecodeRow T (ck == "1") (ext == "1") (parseBits bits))
  | ["c93", bits] => showHit (c93DecodeRow T (parseBits bits))
  | ["cb", se, bits] =>
    let row := parseBits bits
    let tie := match cbScan T row with
      | .ok s => cbInexactTie T s.counters s.res s.start
      | .error _ => false
    showHit (cbDecodeRow T (se == "1") row) ++ (if tie then " TIE" else "")
  | ["c39pat", cs] =>
    match parseNatList? cs with
    | some cs => (match c39Pattern cs with | .ok p => showOptNat p | .error e => showFault e)
    | none => "bad-op"
  | ["c93pat", cs] =>
    match parseNatList? cs with
    | some cs => showOptNat (c93Pattern cs)
    | none => "bad-op"
  | ["c39star", bits] => showPair (c39FindAsterisk T (parseBits bits))
  | ["c93star", bits] =>
    match nth T.code93Enc 47 with
    | .ok star => showPair (c93FindAsterisk star (parseBits bits))
    | .error e => showFault e
  | ["cbcnt", bits] =>
    match cbSetCounters (parseBits bits) with
    | .ok cs => showNatList cs
    | .error e => showFault e
  | ["cbnw", cs, pos] =>
    match parseNatList? cs, parseNat? pos with
    | some cs, some pos => (match cbToNarrowWide T cs pos with | .ok p => showOptNat p | .error e => showFault e)
    | _, _ => "bad-op"
  | ["cbstart", cs] =>
    match parseNatList? cs with
    | some cs => (match cbFindStart T cs with | .ok i => toString i | .error e => showFault e)
    | none => "bad-op"
  | ["cbval", cs, res, start] =>
    match parseNatList? cs, parseNatList? res, parseNat? start with
    | some cs, some res, some start =>
      (match cbValidate T cs res start with | .ok () => "ok" | .error e => showFault e) ++
        (if cbInexactTie T cs res start then " TIE" else "")
    | _, _, _ => "bad-op"
  | _ => "bad-op"

end Gzx.Driver.C03Row39
