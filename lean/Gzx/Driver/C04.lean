import Gzx.Model.RS
import Gzx.Ref.GF
namespace Gzx.Driver.C04
open Gzx Gzx.GF Gzx.RS

/-- the six fields, by the short names the harness uses -/
def fieldOf : String → Option GF
  | "a12" => some aztecData12
  | "a10" => some aztecData10
  | "a6" => some aztecData6
  | "a4" => some aztecParam
  | "qr" => some qrCode256
  | "dm" => some dataMatrix256
  | "a8" => some aztecData8
  | "mc" => some maxicode64
  | _ => none

def showR : Res Nat → String
  | .ok v => toString v
  | .error (.panic _) => "PANIC"
  | .error e => "ERR:" ++ e.tag

def showL : Res (List Nat) → String
  | .ok v => "ok " ++ showNatList v
  | .error (.panic _) => "PANIC"
  | .error e => "ERR:" ++ e.tag

def showD : DRes (List Nat) → String
  | .ok v => "ok " ++ showNatList v
  | .error (.base (.panic _)) => "PANIC"
  | .error e => "ERR:" ++ e.tag

def showPP : Res (Poly × Poly) → String
  | .ok (q, r) => "ok " ++ showNatList q ++ " " ++ showNatList r
  | .error (.panic _) => "PANIC"
  | .error e => "ERR:" ++ e.tag

/-- element-wise binary op on two equally long operand lists; results joined by ',' -/
def zipShow (f : Nat → Nat → String) (as bs : List Nat) : String :=
  ",".intercalate (List.zipWith f as bs)

def handle : List String → String
  | ["tab", f, which] =>
    match fieldOf f with
    | some F =>
      if which == "exp" then showNatList F.exp.toList
      else if which == "log" then showNatList F.log.toList
      else if which == "par" then s!"{F.prim},{F.size},{F.base}"
      else "bad-op"
    | none => "bad-field"
  | ["mulv", f, as, bs] =>
    match fieldOf f, parseNatList? as, parseNatList? bs with
    | some F, some as, some bs => zipShow (fun a b => showR (F.mul a b)) as bs
    | _, _, _ => "bad-op"
  | ["refv", f, as, bs] =>   -- reference product pmod prim (clmul a b)
    match fieldOf f, parseNatList? as, parseNatList? bs with
    | some F, some as, some bs => zipShow (fun a b => toString (Ref.GF.gmul F.prim a b)) as bs
    | _, _, _ => "bad-op"
  | ["invv", f, as] =>
    match fieldOf f, parseNatList? as with
    | some F, some as => ",".intercalate (as.map (fun a => showR (F.inv a)))
    | _, _ => "bad-op"
  | ["expv", f, as] =>
    match fieldOf f, parseNatList? as with
    | some F, some as => ",".intercalate (as.map (fun a => showR (F.expAt a)))
    | _, _ => "bad-op"
  | ["logv", f, as] =>
    match fieldOf f, parseNatList? as with
    | some F, some as => ",".intercalate (as.map (fun a => showR (F.logOf a)))
    | _, _ => "bad-op"
  | ["pnew", cs] =>
    match parseNatList? cs with
    | some cs => showL (mkPoly cs)
    | _ => "bad-op"
  | ["padd", p, q] =>
    match parseNatList? p, parseNatList? q with
    | some p, some q => showL (addOrSubtract p q)
    | _, _ => "bad-op"
  | ["pmul", f, p, q] =>
    match fieldOf f, parseNatList? p, parseNatList? q with
    | some F, some p, some q => showL (multiply F p q)
    | _, _, _ => "bad-op"
  | ["pscale", f, p, s] =>
    match fieldOf f, parseNatList? p, parseNat? s with
    | some F, some p, some s => showL (multiplyBy F p s)
    | _, _, _ => "bad-op"
  | ["pmono", f, p, d, c] =>
    match fieldOf f, parseNatList? p, parseNat? d, parseNat? c with
    | some F, some p, some d, some c => showL (multiplyByMonomial F p d c)
    | _, _, _, _ => "bad-op"
  | ["bmono", d, c] =>
    match parseNat? d, parseNat? c with
    | some d, some c => showL (buildMonomial d c)
    | _, _ => "bad-op"
  | ["pdiv", f, p, q] =>
    match fieldOf f, parseNatList? p, parseNatList? q with
    | some F, some p, some q => showPP (divide F p q)
    | _, _, _ => "bad-op"
  | ["peval", f, p, as] =>
    match fieldOf f, parseNatList? p, parseNatList? as with
    | some F, some p, some as => ",".intercalate (as.map (fun a => showR (evaluateAt F p a)))
    | _, _, _ => "bad-op"
  | ["gen", f, d] =>
    match fieldOf f, parseNat? d with
    | some F, some d => showL (buildGenerator F d)
    | _, _ => "bad-op"
  | ["enc", f, w, ec] =>
    match fieldOf f, parseNatList? w, parseNat? ec with
    | some F, some w, some ec => showL (encodeArr F w ec)
    | _, _, _ => "bad-op"
  | ["par", f, d, ec] =>   -- parity only (the API the other models import)
    match fieldOf f, parseNatList? d, parseNat? ec with
    | some F, some d, some ec => showL (encode F d ec)
    | _, _, _ => "bad-op"
  | ["dec", f, w, twoS] =>
    match fieldOf f, parseNatList? w, parseNat? twoS with
    | some F, some w, some t => showD (decodeD F w t)
    | _, _, _ => "bad-op"
  | ["synd", f, w, twoS] =>
    match fieldOf f, parseNatList? w, parseNat? twoS with
    | some F, some w, some t =>
      match mkPoly w with
      | .ok p => showL (syndromes F p t 0)
      | .error e => "ERR:" ++ e.tag
    | _, _, _ => "bad-op"
  | _ => "bad-op"

end Gzx.Driver.C04
