import Gzx.Util
namespace Gzx.Driver.C04
open Gzx

/-- line-protocol handler of suite `c04` (arguments after the suite name) -/
def handle : List String → String
  | _ => "bad-op"

end Gzx.Driver.C04
