import Gzx.Driver.C01
namespace Gzx.Driver.C05
open Gzx

/-- suite `c05` shares the decoder-layer commands of `c01` (fmt, ver, deint, cw, decode, rs) -/
def handle (args : List String) : String := C01.handle args

end Gzx.Driver.C05
