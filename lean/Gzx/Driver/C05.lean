import Gzx.Util
namespace Gzx.Driver.C05
open Gzx

/-- line-protocol handler of suite `c05` (arguments after the suite name) -/
def handle : List String → String
  | _ => "bad-op"

end Gzx.Driver.C05
