import Gzx.Util
namespace Gzx.Driver.C06
open Gzx

/-- line-protocol handler of suite `c06` (arguments after the suite name) -/
def handle : List String → String
  | _ => "bad-op"

end Gzx.Driver.C06
