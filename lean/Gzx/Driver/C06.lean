import Gzx.Util
import Gzx.Model.BitSource
import Gzx.Model.OneDPost
import Gzx.Driver.C01
import Gzx.Driver.C02
import Gzx.Driver.C08
namespace Gzx.Driver.C06
open Gzx Gzx.BitSource Gzx.OneDPost

def showFault (e : Fault) : String :=
  match e with
  | .panic _ => "PANIC"
  | e => "ERR:" ++ e.tag

/-- a sequence of ReadBits calls on one source: results separated by ';', then the final offsets -/
def runReads : BitSource → List Int → List String → String
  | s, [], acc => ";".intercalate acc.reverse ++ s!" @{s.byteOffset}.{s.bitOffset} a={available s}"
  | s, n :: ns, acc =>
    match readBits s n with
    | .ok (v, s') => runReads s' ns (toString v :: acc)
    | .error e => runReads s ns (showFault e :: acc)

def showBytesRes : Res (List Nat) → String
  | .ok bs => "ok " ++ showHex bs
  | .error e => showFault e

/-- line-protocol handler of suite `c06` (arguments after the suite name) -/
def handle : List String → String
  | ["rb", hex, ns] =>
    match parseHex? hex, parseIntList? ns with
    | some bs, some ns => runReads (BitSource.new bs) ns []
    | _, _ => "bad-op"
  | ["eci", hex, skip] =>
    match parseHex? hex, parseInt? skip with
    | some bs, some k =>
      let s0 := BitSource.new bs
      let s1 := match readBits s0 k with
        | .ok (_, s') => s'
        | .error _ => s0
      match parseECIValue s1 with
      | .ok (v, s') => s!"ok {v} @{s'.byteOffset}.{s'.bitOffset}"
      | .error e => showFault e
    | _, _ => "bad-op"
  | ["c39", ck, ext, hex] =>
    match parseHex? hex with
    | some s => showBytesRes (c39Post (ck == "1") (ext == "1") s)
    | none => "bad-op"
  | ["c39orig", ck, ext, hex] =>
    match parseHex? hex with
    | some s => showBytesRes (c39PostOrig (ck == "1") (ext == "1") s)
    | none => "bad-op"
  | ["c93", hex] =>
    match parseHex? hex with
    | some s => showBytesRes (c93Post s)
    | none => "bad-op"
  -- the decoder models whose totality Properties/C06.lean proves, on the C06 input streams:
  -- `qr parse|decode|cw …` = QRDec.parse / decode (Driver.C01), `dm dec …` = DMHighLevel.decodeFull (Driver.C02),
  -- `dmx dread|dextract|dblocks …` = DMDec.newBitMatrixParser / readCodewords / getDataBlocks (Driver.C08)
  | "qr" :: rest => Gzx.Driver.C01.handle rest
  | "dm" :: rest => Gzx.Driver.C02.handle rest
  | "dmx" :: rest => Gzx.Driver.C08.handle rest
  -- `Decoder.Decode` on a w x h matrix: NewBitMatrixParser (repaired, 3d2539e) rejects non-square matrices
  | ["qrd", w, h, bits, hint] =>
    if w ≠ h then "ERR:format" else Gzx.Driver.C01.handle ["decode", h, bits, hint]
  | _ => "bad-op"

end Gzx.Driver.C06
