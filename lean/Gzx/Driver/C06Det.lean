/-
  Driver commands of the detector models (suite prefix `c06det`), used by harness/zz_c06_det.go.
  Images travel as `<w> <h> <w*h characters 0/1, row-major>`.
-/
import Gzx.Model.DetWhiteRect
namespace Gzx.Driver.C06Det
open Gzx Gzx.Det

/-- image from its 0/1 string (driver only: the byte array is indexed with a default) -/
def imgOfBits (w h : Nat) (s : String) : Img :=
  let b := s.toUTF8
  { w := w, h := h, pix := fun x y => (b[y.toNat * w + x.toNat]?).getD 48 == 49 }

def showFault (e : Fault) : String :=
  match e with
  | .panic _ => "PANIC"
  | e => "ERR:" ++ e.tag

def showIPts (ps : List (Int × Int)) : String :=
  ";".intercalate (ps.map (fun p => s!"{p.1},{p.2}"))

def showIPtsRes : Res (List (Int × Int)) → String
  | .ok ps => "ok " ++ showIPts ps
  | .error e => showFault e

def handle : List String → String
  | ["wrd", w, h, bits, initSize, x, y] =>
    match parseNat? w, parseNat? h, parseInt? initSize, parseInt? x, parseInt? y with
    | some w, some h, some i, some x, some y =>
      let img := imgOfBits w h bits
      showIPtsRes (WRD.newAndDetect FOps.float img.rdGo w h i x y)
    | _, _, _, _, _ => "bad-op"
  | ["wrdimg", w, h, bits] =>
    match parseNat? w, parseNat? h with
    | some w, some h =>
      let img := imgOfBits w h bits
      showIPtsRes (do let d ← WRD.newFromImage w h; WRD.detect FOps.float img.rdGo w h d)
    | _, _ => "bad-op"
  -- the same run with an unguarded Get: PANIC means "a read left the image"
  | ["wrdstrict", w, h, bits, initSize, x, y] =>
    match parseNat? w, parseNat? h, parseInt? initSize, parseInt? x, parseInt? y with
    | some w, some h, some i, some x, some y =>
      let img := imgOfBits w h bits
      showIPtsRes (WRD.newAndDetect FOps.float img.rdStrict w h i x y)
    | _, _, _, _, _ => "bad-op"
  | _ => "bad-op"

end Gzx.Driver.C06Det
