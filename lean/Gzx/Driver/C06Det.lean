/-
  Driver commands of the detector models (suite prefix `c06det`), used by harness/zz_c06_det.go.
  Images travel as `<w> <h> <w*h characters 0/1, row-major>`.
-/
import Gzx.Model.DetWhiteRect
import Gzx.Model.DetQRDetector
import Gzx.Model.DetDM
import Gzx.Model.DetAztec
namespace Gzx.Driver.C06Det
open Gzx Gzx.Det

/-- image from its 0/1 string (driver only: the byte array is indexed with a default) -/
def imgOfBits (w h : Nat) (s : String) : Img :=
  let b := s.toUTF8
  { w := w, h := h, pix := fun x y => (b[y.toNat * w + x.toNat]?).getD 48 == 49 }

def showFault (e : Fault) : String :=
  match e with
  | .panic _ => "PANIC"
  | e => "ERR:" ++ e.tag

def showIPts (ps : List (Int × Int)) : String :=
  ";".intercalate (ps.map (fun p => s!"{p.1},{p.2}"))

def showIPtsRes : Res (List (Int × Int)) → String
  | .ok ps => "ok " ++ showIPts ps
  | .error e => showFault e

/-- floats travel as `f<IEEE bits, decimal>` -/
def showF (f : Float) : String := "f" ++ toString f.toBits.toNat

def parseF? (s : String) : Option Float :=
  if s.startsWith "f" then (s.drop 1).toString.toNat?.map (fun n => Float.ofBits n.toUInt64) else none

def showFP (p : QR.FP Float) : String := s!"{showF p.x},{showF p.y},{showF p.size},{p.count}"
def showFPs (ps : List (QR.FP Float)) : String := if ps.isEmpty then "-" else ";".intercalate (ps.map showFP)
def showAP (p : QR.AP Float) : String := s!"{showF p.x},{showF p.y},{showF p.size}"

def parseFP? (s : String) : Option (QR.FP Float) :=
  match s.splitOn "," with
  | [x, y] => match parseF? x, parseF? y with
    | some x, some y => some { x := x, y := y, size := 1.0, count := 1 }
    | _, _ => none
  | _ => none

def showFRes : Res Float → String
  | .ok f => "ok " ++ showF f
  | .error e => showFault e

def showLocated (l : QR.Located Float) : String :=
  s!"ms={showF l.moduleSize} dim={l.dimension} align=" ++ (match l.alignment with | some a => s!"{showF a.x},{showF a.y}" | none => "none")

def showLocated2 (l : QR.Located Float) : String :=
  s!"dim={l.dimension} align=" ++ (match l.alignment with | some a => s!"{showF a.x},{showF a.y}" | none => "none")

def withImg (w h bits : String) (f : Img → Nat → Nat → String) : String :=
  match parseNat? w, parseNat? h with
  | some w, some h => f (imgOfBits w h bits) w h
  | _, _ => "bad-op"

def ints? (l : List String) : Option (List Int) := l.mapM parseInt?

def handleQR : List String → Option String
  | ["qrfind", w, h, bits, th] => some <| withImg w h bits fun img w h =>
    match QR.find FOps.float img.rdGo h w (th == "1") with
    | .ok i => s!"ok {showFP i.bottomLeft};{showFP i.topLeft};{showFP i.topRight}|{showFPs i.centers}"
    | .error e => showFault e
  | ["qrscan", w, h, bits, th] => some <| withImg w h bits fun img w h =>
    match QR.findScan FOps.float img.rdGo h w (th == "1") with
    | .ok s => s!"ok {showFPs s.fs.centers}"
    | .error e => showFault e
  | ["qrcc", w, h, bits, vert, start, q, maxCount, total] => some <| withImg w h bits fun img w h =>
    match ints? [start, q, maxCount, total] with
    | some [start, q, maxCount, total] =>
      showFRes (QR.crossCheck FOps.float img.rdGo (vert == "1") (if vert == "1" then h else w) start q maxCount total)
    | _ => "bad-op"
  | ["qrdiag", w, h, bits, ci, cj] => some <| withImg w h bits fun img w h =>
    match ints? [ci, cj] with
    | some [ci, cj] =>
      match QR.crossCheckDiagonal FOps.float img.rdGo h w ci cj with
      | .ok b => s!"ok {b}"
      | .error e => showFault e
    | _ => "bad-op"
  | ["qrbwb", w, h, bits, both, fx, fy, tx, ty] => some <| withImg w h bits fun img w h =>
    match ints? [fx, fy, tx, ty] with
    | some [fx, fy, tx, ty] =>
      if both == "1" then showFRes (QR.sizeOfBlackWhiteBlackRunBothWays FOps.float img.rdGo w h fx fy tx ty)
      else showFRes (QR.sizeOfBlackWhiteBlackRun FOps.float img.rdGo fx fy tx ty)
    | _ => "bad-op"
  | ["qrms", w, h, bits, tl, tr, bl] => some <| withImg w h bits fun img w h =>
    match parseFP? tl, parseFP? tr, parseFP? bl with
    | some tl, some tr, some bl => showFRes (QR.calculateModuleSize FOps.float img.rdGo w h tl tr bl)
    | _, _, _ => "bad-op"
  | ["qrdim", tl, tr, bl, ms] => some <|
    match parseFP? tl, parseFP? tr, parseFP? bl, parseF? ms with
    | some tl, some tr, some bl, some ms =>
      match QR.computeDimension FOps.float tl tr bl ms with
      | .ok d => s!"ok {d}"
      | .error e => showFault e
    | _, _, _, _ => "bad-op"
  | ["qralign", w, h, bits, ms, ex, ey, factor] => some <| withImg w h bits fun img w h =>
    match parseF? ms, parseInt? ex, parseInt? ey, parseF? factor with
    | some ms, some ex, some ey, some factor =>
      match QR.findAlignmentInRegion FOps.float img.rdGo w h ms ex ey factor with
      | .ok a => "ok " ++ showAP a
      | .error e => showFault e
    | _, _, _, _ => "bad-op"
  | ["qrapfind", w, h, bits, sx, sy, aw, ah, ms] => some <| withImg w h bits fun img _ h =>
    match ints? [sx, sy, aw, ah], parseF? ms with
    | some [sx, sy, aw, ah], some ms =>
      match QR.apFind FOps.float img.rdGo h sx sy aw ah ms with
      | .ok a => "ok " ++ showAP a
      | .error e => showFault e
    | _, _ => "bad-op"
  | ["qrlocate", w, h, bits, tl, tr, bl] => some <| withImg w h bits fun img w h =>
    match parseFP? tl, parseFP? tr, parseFP? bl with
    | some tl, some tr, some bl =>
      match QR.locate FOps.float img.rdGo w h tl tr bl with
      | .ok l => "ok " ++ showLocated l
      | .error e => showFault e
    | _, _, _ => "bad-op"
  | ["qrlocate2", w, h, bits, tl, tr, bl] => some <| withImg w h bits fun img w h =>
    match parseFP? tl, parseFP? tr, parseFP? bl with
    | some tl, some tr, some bl =>
      match QR.locate FOps.float img.rdGo w h tl tr bl with
      | .ok l => "ok " ++ showLocated2 l
      | .error e => showFault e
    | _, _, _ => "bad-op"
  | ["qrdetect2", w, h, bits, th] => some <| withImg w h bits fun img w h =>
    match QR.detect FOps.float img.rdGo w h (th == "1") with
    | .ok (i, l) => s!"ok {showFP i.bottomLeft};{showFP i.topLeft};{showFP i.topRight} {showLocated2 l}"
    | .error e => showFault e
  | ["qrdetect", w, h, bits, th] => some <| withImg w h bits fun img w h =>
    match QR.detect FOps.float img.rdGo w h (th == "1") with
    | .ok (i, l) => s!"ok {showFP i.bottomLeft};{showFP i.topLeft};{showFP i.topRight} {showLocated l}"
    | .error e => showFault e
  | _ => none

def parsePt? (s : String) : Option (FPt Float) :=
  match s.splitOn "," with
  | [x, y] => match parseF? x, parseF? y with
    | some x, some y => some { x := x, y := y }
    | _, _ => none
  | _ => none

def showPt (p : FPt Float) : String := s!"{showF p.x},{showF p.y}"

def handleDM : List String → Option String
  | ["dmtrans", w, h, bits, p, q] => some <| withImg w h bits fun img _ h =>
    match parsePt? p, parsePt? q with
    | some p, some q =>
      match DM.transitionsBetween FOps.float img.rdGo h p q with
      | .ok n => s!"ok {n}"
      | .error e => showFault e
    | _, _ => "bad-op"
  | ["dmctr", w, h, bits, a, b, c, d] => some <| withImg w h bits fun img w h =>
    match parsePt? a, parsePt? b, parsePt? c, parsePt? d with
    | some a, some b, some c, some d =>
      match DM.correctTopRight FOps.float img.rdGo w h ⟨a, b, c, d⟩ with
      | .ok (some p) => "ok " ++ showPt p
      | .ok none => "ok nil"
      | .error e => showFault e
    | _, _, _, _ => "bad-op"
  | ["dmdetect", w, h, bits] => some <| withImg w h bits fun img w h =>
    match DM.detect FOps.float img.rdGo w h with
    | .ok l => s!"ok {showPt l.topLeft};{showPt l.bottomLeft};{showPt l.bottomRight};{showPt l.topRight} dim={l.dimensionTop}x{l.dimensionRight}"
    | .error e => showFault e
  | _ => none

def handleAZ : List String → Option String
  | ["azcenter", w, h, bits] => some <| withImg w h bits fun img w h =>
    match AZ.getMatrixCenter FOps.float img.rdGo w h with
    | .ok p => s!"ok {p.1},{p.2}"
    | .error e => showFault e
  | ["azgfd", w, h, bits, x, y, color, dx, dy] => some <| withImg w h bits fun img w h =>
    match ints? [x, y, dx, dy] with
    | some [x, y, dx, dy] =>
      match AZ.getFirstDifferent img.rdGo w h (x, y) (color == "1") dx dy with
      | .ok p => s!"ok {p.1},{p.2}"
      | .error e => showFault e
    | _ => "bad-op"
  | _ => none

def handleWRD : List String → String
  | ["wrd", w, h, bits, initSize, x, y] =>
    match parseNat? w, parseNat? h, parseInt? initSize, parseInt? x, parseInt? y with
    | some w, some h, some i, some x, some y =>
      let img := imgOfBits w h bits
      showIPtsRes (WRD.newAndDetect FOps.float img.rdGo w h i x y)
    | _, _, _, _, _ => "bad-op"
  | ["wrdimg", w, h, bits] =>
    match parseNat? w, parseNat? h with
    | some w, some h =>
      let img := imgOfBits w h bits
      showIPtsRes (do let d ← WRD.newFromImage w h; WRD.detect FOps.float img.rdGo w h d)
    | _, _ => "bad-op"
  -- the same run with an unguarded Get: PANIC means "a read left the image"
  | ["wrdstrict", w, h, bits, initSize, x, y] =>
    match parseNat? w, parseNat? h, parseInt? initSize, parseInt? x, parseInt? y with
    | some w, some h, some i, some x, some y =>
      let img := imgOfBits w h bits
      showIPtsRes (WRD.newAndDetect FOps.float img.rdStrict w h i x y)
    | _, _, _, _, _ => "bad-op"
  | _ => "bad-op"

def handle (args : List String) : String :=
  match handleQR args with
  | some r => r
  | none =>
    match handleDM args with
    | some r => r
    | none =>
      match handleAZ args with
      | some r => r
      | none => handleWRD args

end Gzx.Driver.C06Det
