/-
  Driver commands of work package detrest (suite prefix `c06rest`), used by harness/zz_detrest_*.go.
  Images travel as `<w> <h> <w*h characters 0/1, row-major>` (as in Driver/C06Det).
-/
import Gzx.Driver.C06Det
import Gzx.Model.PureBits
import Gzx.Model.DetAztec2
import Gzx.Model.AztecRS
import Gzx.Gen.C11Aztec
import Gzx.Model.DetMulti
import Gzx.Model.MultiSA
import Gzx.Model.ReaderGlue
namespace Gzx.Driver.C06Rest
open Gzx Gzx.Det Gzx.Driver.C06Det

def showPt? : Option (Int × Int) → String
  | some p => s!"{p.1},{p.2}"
  | none => "nil"

def showBitsM (b : Pure.Bits) : String :=
  s!"ok {b.w} {b.h} " ++ String.join (b.rows.map showBits)

def showBitsRes : Res Pure.Bits → String
  | .ok b => showBitsM b
  | .error e => showFault e

def handlePure : List String → Option String
  -- GetTopLeftOnBit / GetBottomRightOnBit
  | ["corners", w, h, bits] => some <| withImg w h bits fun img _ _ =>
    s!"{showPt? (Pure.topLeft img)} {showPt? (Pure.bottomRight img)}"
  | ["dmms", w, h, bits, x, y] => some <| withImg w h bits fun img w _ =>
    match parseInt? x, parseInt? y with
    | some x, some y =>
      match Pure.DM.moduleSize img.rdGo w x y with
      | .ok m => s!"ok {m}"
      | .error e => showFault e
    | _, _ => "bad-op"
  | ["dmpure", w, h, bits] => some <| withImg w h bits fun img _ _ =>
    showBitsRes (Pure.DM.extractPureBits img.rdGo img)
  | ["qrms", w, h, bits, x, y] => some <| withImg w h bits fun img w h =>
    match parseInt? x, parseInt? y with
    | some x, some y =>
      match Pure.QR.moduleSize FOps.float img.rdGo w h x y with
      | .ok (m, k) => s!"ok {showF m} {k}"
      | .error e => showFault e
    | _, _ => "bad-op"
  | ["qrpure", w, h, bits] => some <| withImg w h bits fun img _ _ =>
    showBitsRes (Pure.QR.extractPureBits FOps.float img.rdGo img)
  -- the same runs with an unguarded Get: PANIC means "a read left the image"
  | ["dmpurestrict", w, h, bits] => some <| withImg w h bits fun img _ _ =>
    showBitsRes (Pure.DM.extractPureBits img.rdStrict img)
  | ["qrpurestrict", w, h, bits] => some <| withImg w h bits fun img _ _ =>
    showBitsRes (Pure.QR.extractPureBits FOps.float img.rdStrict img)
  | _ => none

/-! ## Aztec detector, later stages -/

def azExpected : List Nat := (Gzx.Gen.C11Aztec.EXPECTED_CORNER_BITS.asNatList?).getD []

def parseQuad? (s : String) : Option (AZ.Quad Float) :=
  match (s.splitOn ";").mapM parsePt? with
  | some [a, b, c, d] => some ⟨a, b, c, d⟩
  | _ => none

def showQuad (q : AZ.Quad Float) : String := ";".intercalate [showPt q.p0, showPt q.p1, showPt q.p2, showPt q.p3]

def showIntRes : Res Int → String
  | .ok n => s!"ok {n}"
  | .error e => showFault e

def handleAZ2 : List String → Option String
  | ["azcolor", w, h, bits, x1, y1, x2, y2] => some <| withImg w h bits fun img _ _ =>
    match ints? [x1, y1, x2, y2] with
    | some [x1, y1, x2, y2] => showIntRes (AZ.getColor FOps.float img.rdGo (x1, y1) (x2, y2))
    | _ => "bad-op"
  | ["azrect", w, h, bits, ps] => some <| withImg w h bits fun img w h =>
    match parseIntList? ps with
    | some [a, b, c, d, e, f, g, i] =>
      match AZ.isWhiteOrBlackRectangle FOps.float img.rdGo w h (a, b) (c, d) (e, f) (g, i) with
      | .ok r => s!"ok {r}"
      | .error e => showFault e
    | _ => "bad-op"
  | ["azbulls", w, h, bits, cx, cy] => some <| withImg w h bits fun img w h =>
    match ints? [cx, cy] with
    | some [cx, cy] =>
      match AZ.getBullsEyeCorners FOps.float img.rdGo w h (cx, cy) with
      | .ok be => s!"ok nb={be.nbCenterLayers} compact={be.compact} {showQuad be.corners}"
      | .error e => showFault e
    | _ => "bad-op"
  | ["azexpand", q, oldSide, newSide] => some <|
    match parseQuad? q, parseInt? oldSide, parseInt? newSide with
    | some q, some a, some b => "ok " ++ showQuad (AZ.expandSquare FOps.float q a b)
    | _, _, _ => "bad-op"
  | ["azline", w, h, bits, p1, p2, size] => some <| withImg w h bits fun img _ _ =>
    match parsePt? p1, parsePt? p2, parseInt? size with
    | some p1, some p2, some size =>
      match AZ.sampleLine FOps.float img.rdGo p1 p2 size with
      | .ok n => s!"ok {n}"
      | .error e => showFault e
    | _, _, _ => "bad-op"
  | ["azparams", w, h, bits, q, nb, compact] => some <| withImg w h bits fun img w h =>
    match parseQuad? q, parseInt? nb with
    | some q, some nb =>
      match AZ.extractParameters FOps.float img.rdGo w h azExpected AztecDecoder.rsModel q nb (compact == "1") with
      | .ok p => s!"ok shift={p.shift} layers={p.nbLayers} blocks={p.nbDataBlocks}"
      | .error e => showFault e
    | _, _ => "bad-op"
  | ["azcorners", q, nb, compact, layers] => some <|
    match parseQuad? q, parseInt? nb, parseInt? layers with
    | some q, some nb, some l => "ok " ++ showQuad (AZ.getMatrixCornerPoints FOps.float q nb (compact == "1") l)
    | _, _, _ => "bad-op"
  | ["azdim", compact, layers] => some <|
    match parseInt? layers with
    | some l => s!"ok {AZ.getDimension (compact == "1") l}"
    | none => "bad-op"
  | ["azdetect", w, h, bits, mirror] => some <| withImg w h bits fun img w h =>
    match AZ.detect FOps.float img.rdGo w h azExpected AztecDecoder.rsModel (mirror == "1") with
    | .ok l => s!"ok compact={l.compact} layers={l.nbLayers} blocks={l.nbDataBlocks} shift={l.shift} dim={l.dimension} c={showQuad l.corners}"
    | .error e => showFault e
  | _ => none

/-! ## multi QR: scan, selection, DetectMulti up to sampling -/

def parseFP4? (s : String) : Option (QR.FP Float) :=
  match s.splitOn "," with
  | [x, y, sz, c] => match parseF? x, parseF? y, parseF? sz, parseInt? c with
    | some x, some y, some sz, some c => some { x := x, y := y, size := sz, count := c }
    | _, _, _, _ => none
  | _ => none

def parseFPs? (s : String) : Option (List (QR.FP Float)) :=
  if s == "-" then some [] else (s.splitOn ";").mapM parseFP4?

def showTriples (ts : List (Multi.Triple Float)) : String :=
  "|".intercalate (ts.map (fun t => s!"{showFP t.1};{showFP t.2.1};{showFP t.2.2}"))

def showTriplesRes : Res (List (Multi.Triple Float)) → String
  | .ok ts => "ok " ++ showTriples ts
  | .error e => showFault e

def sortOf (mode : String) : List (QR.FP Float) → List (QR.FP Float) :=
  if mode == "ins" then Multi.sortBySizeDesc FOps.float else id

def showLocs : Res (List (QR.Located Float)) → String
  | .ok ls => "ok " ++ (if ls.isEmpty then "-" else ",".intercalate (ls.map (fun l => toString l.dimension)))
  | .error e => showFault e

def handleMulti : List String → Option String
  | ["mscan", w, h, bits, th] => some <| withImg w h bits fun img w h =>
    match Multi.findMultiScan FOps.float img.rdGo h w (th == "1") with
    | .ok cs => "ok " ++ showFPs cs
    | .error e => showFault e
  -- selection on a given centre list; mode `id` = the list is already sorted, `ins` = insertion sort
  | ["msel", mode, fps] => some <|
    match parseFPs? fps with
    | some cs => showTriplesRes (Multi.selectMultipleBestPatterns FOps.float (sortOf mode) cs)
    | none => "bad-op"
  | ["mfindfrom", mode, fps] => some <|
    match parseFPs? fps with
    | some cs => showTriplesRes (Multi.selectAndOrder FOps.float (sortOf mode) cs)
    | none => "bad-op"
  | ["mfind", w, h, bits, th] => some <| withImg w h bits fun img w h =>
    showTriplesRes (Multi.findMulti FOps.float (Multi.sortBySizeDesc FOps.float) img.rdGo h w (th == "1"))
  | ["mdetectfrom", w, h, bits, mode, fps] => some <| withImg w h bits fun img w h =>
    match parseFPs? fps with
    | some cs => showLocs (Multi.detectMultiFrom FOps.float (sortOf mode) img.rdGo w h cs)
    | none => "bad-op"
  | ["mdetect", w, h, bits, th] => some <| withImg w h bits fun img w h =>
    showLocs (Multi.detectMulti FOps.float (Multi.sortBySizeDesc FOps.float) img.rdGo w h (th == "1"))
  | _ => none

/-! ## processStructuredAppend -/

open Gzx.MultiSA in
def parseMetaVal? (s : String) : Option MetaVal :=
  if s.startsWith "i" then (parseInt? (s.drop 1).toString).map MetaVal.int
  else if s.startsWith "s" then
    let body := (s.drop 1).toString
    if body.isEmpty then some (.segs [])
    else ((body.splitOn "/").mapM parseHex?).map MetaVal.segs
  else if s.startsWith "o" then some (.other (s.drop 1).toString)
  else none

open Gzx.MultiSA in
def parseSAResult? (s : String) : Option Result :=
  match s.splitOn ";" with
  | [t, r, p, m] =>
    match parseHex? t, parseHex? r, parseNat? p with
    | some t, some r, some p =>
      let kvs := if m == "-" then some [] else (m.splitOn ",").mapM (fun kv =>
        match kv.splitOn ":" with
        | [k, v] => match parseNat? k, parseMetaVal? v with
          | some k, some v => some (k, v)
          | _, _ => none
        | _ => none)
      kvs.map (fun kvs => { text := t, raw := r, npoints := p, md := kvs })
    | _, _, _ => none
  | _ => none

open Gzx.MultiSA in
def showMetaVal : MetaVal → String
  | .int n => s!"i{n}"
  | .segs ss => "s" ++ "/".intercalate (ss.map showHex)
  | .other t => "o" ++ t

open Gzx.MultiSA in
def showSAResult (r : Result) : String :=
  s!"{showHex r.text};{showHex r.raw};{r.npoints};" ++
    (if r.md.isEmpty then "-" else ",".intercalate (r.md.map (fun kv => s!"{kv.1}:{showMetaVal kv.2}")))

/-- `E` (decoder failed) or `<text>;<raw>;<npoints>;<s…|->;<ec 0|1>;<seq,parity|->` -/
def parseDecItem? (s : String) : Option (Option MultiSA.DecRes × Nat) :=
  if s == "E" then some (none, 0)
  else match s.splitOn ";" with
    | [t, r, p, sg, ec, sa] =>
      match parseHex? t, parseHex? r, parseNat? p with
      | some t, some r, some p =>
        let segs : Option (Option (List (List Nat))) :=
          if sg == "-" then some none
          else match parseMetaVal? sg with
            | some (.segs l) => some (some l)
            | _ => none
        let sa : Option (Option (Int × Int)) :=
          if sa == "-" then some none
          else match parseIntList? sa with
            | some [a, b] => some (some (a, b))
            | _ => none
        match segs, sa with
        | some segs, some sa => some (some { text := t, raw := r, segs := segs, hasEC := ec == "1", sa := sa }, p)
        | _, _ => none
      | _, _, _ => none
    | _ => none

def handleSA : List String → Option String
  | ["mdecode", items] => some <|
    match (if items == "-" then some [] else (items.splitOn "|").mapM parseDecItem?) with
    | some drs =>
      match MultiSA.decodeMultiple MultiSA.sortBySeq drs with
      | .ok out => "ok " ++ (if out.isEmpty then "-" else "|".intercalate (out.map showSAResult))
      | .error e => showFault e
    | none => "bad-op"
  | ["sa", rs] => some <|
    match (if rs == "-" then some [] else (rs.splitOn "|").mapM parseSAResult?) with
    | some rs =>
      match MultiSA.process MultiSA.sortBySeq rs with
      | .ok out => "ok " ++ (if out.isEmpty then "-" else "|".intercalate (out.map showSAResult))
      | .error e => showFault e
    | none => "bad-op"
  | _ => none

/-! ## reader glue -/

def handleGlue : List String → Option String
  | ["gluecb", kind] => some <|
    let hint : Option Glue.HintVal :=
      if kind == "absent" then none
      else if kind == "callback" then some (.callback false)
      else if kind == "nilcallback" then some (.callback true)
      else some (.other kind)
    match Glue.upceanCallback hint with
    | .ok b => s!"ok called={b}"
    | .error e => showFault e
  | ["glueaz", d0, c0, d1, c1] => some <|
    let detect : Bool → Option Nat := fun m => if m then (if d1 == "1" then some 1 else none) else (if d0 == "1" then some 0 else none)
    let decode : Nat → Option Nat := fun d => if d = 0 then (if c0 == "1" then some 0 else none) else (if c1 == "1" then some 1 else none)
    match Glue.aztecRead detect decode with
    | .ok r => s!"ok attempt={r}"
    | .notFound => "ERR:notfound"
    | .format => "ERR:format"
    | .reader => "ERR:reader"
  | _ => none

def handle (args : List String) : String :=
  match handleGlue args with
  | some r => r
  | none =>
  match handleMulti args with
  | some r => r
  | none =>
  match handleSA args with
  | some r => r
  | none =>
  match handlePure args with
  | some r => r
  | none =>
    match handleAZ2 args with
    | some r => r
    | none => "bad-op"

end Gzx.Driver.C06Rest
