/-
  Driver commands of work package detrest (suite prefix `c06rest`), used by harness/zz_detrest_*.go.
  Images travel as `<w> <h> <w*h characters 0/1, row-major>` (as in Driver/C06Det).
-/
import Gzx.Driver.C06Det
import Gzx.Model.PureBits
namespace Gzx.Driver.C06Rest
open Gzx Gzx.Det Gzx.Driver.C06Det

def showPt? : Option (Int × Int) → String
  | some p => s!"{p.1},{p.2}"
  | none => "nil"

def showBitsM (b : Pure.Bits) : String :=
  s!"ok {b.w} {b.h} " ++ String.join (b.rows.map showBits)

def showBitsRes : Res Pure.Bits → String
  | .ok b => showBitsM b
  | .error e => showFault e

def handlePure : List String → Option String
  -- GetTopLeftOnBit / GetBottomRightOnBit
  | ["corners", w, h, bits] => some <| withImg w h bits fun img _ _ =>
    s!"{showPt? (Pure.topLeft img)} {showPt? (Pure.bottomRight img)}"
  | ["dmms", w, h, bits, x, y] => some <| withImg w h bits fun img w _ =>
    match parseInt? x, parseInt? y with
    | some x, some y =>
      match Pure.DM.moduleSize img.rdGo w x y with
      | .ok m => s!"ok {m}"
      | .error e => showFault e
    | _, _ => "bad-op"
  | ["dmpure", w, h, bits] => some <| withImg w h bits fun img _ _ =>
    showBitsRes (Pure.DM.extractPureBits img.rdGo img)
  | ["qrms", w, h, bits, x, y] => some <| withImg w h bits fun img w h =>
    match parseInt? x, parseInt? y with
    | some x, some y =>
      match Pure.QR.moduleSize FOps.float img.rdGo w h x y with
      | .ok (m, k) => s!"ok {showF m} {k}"
      | .error e => showFault e
    | _, _ => "bad-op"
  | ["qrpure", w, h, bits] => some <| withImg w h bits fun img _ _ =>
    showBitsRes (Pure.QR.extractPureBits FOps.float img.rdGo img)
  -- the same runs with an unguarded Get: PANIC means "a read left the image"
  | ["dmpurestrict", w, h, bits] => some <| withImg w h bits fun img _ _ =>
    showBitsRes (Pure.DM.extractPureBits img.rdStrict img)
  | ["qrpurestrict", w, h, bits] => some <| withImg w h bits fun img _ _ =>
    showBitsRes (Pure.QR.extractPureBits FOps.float img.rdStrict img)
  | _ => none

def handle (args : List String) : String :=
  match handlePure args with
  | some r => r
  | none => "bad-op"

end Gzx.Driver.C06Rest
