/-
  Driver commands of work package detrest (suite prefix `c06rest`), used by harness/zz_detrest_*.go.
  Images travel as `<w> <h> <w*h characters 0/1, row-major>` (as in Driver/C06Det).
-/
import Gzx.Driver.C06Det
import Gzx.Model.PureBits
import Gzx.Model.DetAztec2
import Gzx.Model.AztecRS
import Gzx.Gen.C11Aztec
namespace Gzx.Driver.C06Rest
open Gzx Gzx.Det Gzx.Driver.C06Det

def showPt? : Option (Int × Int) → String
  | some p => s!"{p.1},{p.2}"
  | none => "nil"

def showBitsM (b : Pure.Bits) : String :=
  s!"ok {b.w} {b.h} " ++ String.join (b.rows.map showBits)

def showBitsRes : Res Pure.Bits → String
  | .ok b => showBitsM b
  | .error e => showFault e

def handlePure : List String → Option String
  -- GetTopLeftOnBit / GetBottomRightOnBit
  | ["corners", w, h, bits] => some <| withImg w h bits fun img _ _ =>
    s!"{showPt? (Pure.topLeft img)} {showPt? (Pure.bottomRight img)}"
  | ["dmms", w, h, bits, x, y] => some <| withImg w h bits fun img w _ =>
    match parseInt? x, parseInt? y with
    | some x, some y =>
      match Pure.DM.moduleSize img.rdGo w x y with
      | .ok m => s!"ok {m}"
      | .error e => showFault e
    | _, _ => "bad-op"
  | ["dmpure", w, h, bits] => some <| withImg w h bits fun img _ _ =>
    showBitsRes (Pure.DM.extractPureBits img.rdGo img)
  | ["qrms", w, h, bits, x, y] => some <| withImg w h bits fun img w h =>
    match parseInt? x, parseInt? y with
    | some x, some y =>
      match Pure.QR.moduleSize FOps.float img.rdGo w h x y with
      | .ok (m, k) => s!"ok {showF m} {k}"
      | .error e => showFault e
    | _, _ => "bad-op"
  | ["qrpure", w, h, bits] => some <| withImg w h bits fun img _ _ =>
    showBitsRes (Pure.QR.extractPureBits FOps.float img.rdGo img)
  -- the same runs with an unguarded Get: PANIC means "a read left the image"
  | ["dmpurestrict", w, h, bits] => some <| withImg w h bits fun img _ _ =>
    showBitsRes (Pure.DM.extractPureBits img.rdStrict img)
  | ["qrpurestrict", w, h, bits] => some <| withImg w h bits fun img _ _ =>
    showBitsRes (Pure.QR.extractPureBits FOps.float img.rdStrict img)
  | _ => none

/-! ## Aztec detector, later stages -/

def azExpected : List Nat := (Gzx.Gen.C11Aztec.EXPECTED_CORNER_BITS.asNatList?).getD []

def parseQuad? (s : String) : Option (AZ.Quad Float) :=
  match (s.splitOn ";").mapM parsePt? with
  | some [a, b, c, d] => some ⟨a, b, c, d⟩
  | _ => none

def showQuad (q : AZ.Quad Float) : String := ";".intercalate [showPt q.p0, showPt q.p1, showPt q.p2, showPt q.p3]

def showIntRes : Res Int → String
  | .ok n => s!"ok {n}"
  | .error e => showFault e

def handleAZ2 : List String → Option String
  | ["azcolor", w, h, bits, x1, y1, x2, y2] => some <| withImg w h bits fun img _ _ =>
    match ints? [x1, y1, x2, y2] with
    | some [x1, y1, x2, y2] => showIntRes (AZ.getColor FOps.float img.rdGo (x1, y1) (x2, y2))
    | _ => "bad-op"
  | ["azrect", w, h, bits, ps] => some <| withImg w h bits fun img w h =>
    match parseIntList? ps with
    | some [a, b, c, d, e, f, g, i] =>
      match AZ.isWhiteOrBlackRectangle FOps.float img.rdGo w h (a, b) (c, d) (e, f) (g, i) with
      | .ok r => s!"ok {r}"
      | .error e => showFault e
    | _ => "bad-op"
  | ["azbulls", w, h, bits, cx, cy] => some <| withImg w h bits fun img w h =>
    match ints? [cx, cy] with
    | some [cx, cy] =>
      match AZ.getBullsEyeCorners FOps.float img.rdGo w h (cx, cy) with
      | .ok be => s!"ok nb={be.nbCenterLayers} compact={be.compact} {showQuad be.corners}"
      | .error e => showFault e
    | _ => "bad-op"
  | ["azexpand", q, oldSide, newSide] => some <|
    match parseQuad? q, parseInt? oldSide, parseInt? newSide with
    | some q, some a, some b => "ok " ++ showQuad (AZ.expandSquare FOps.float q a b)
    | _, _, _ => "bad-op"
  | ["azline", w, h, bits, p1, p2, size] => some <| withImg w h bits fun img _ _ =>
    match parsePt? p1, parsePt? p2, parseInt? size with
    | some p1, some p2, some size =>
      match AZ.sampleLine FOps.float img.rdGo p1 p2 size with
      | .ok n => s!"ok {n}"
      | .error e => showFault e
    | _, _, _ => "bad-op"
  | ["azparams", w, h, bits, q, nb, compact] => some <| withImg w h bits fun img w h =>
    match parseQuad? q, parseInt? nb with
    | some q, some nb =>
      match AZ.extractParameters FOps.float img.rdGo w h azExpected AztecDecoder.rsModel q nb (compact == "1") with
      | .ok p => s!"ok shift={p.shift} layers={p.nbLayers} blocks={p.nbDataBlocks}"
      | .error e => showFault e
    | _, _ => "bad-op"
  | ["azcorners", q, nb, compact, layers] => some <|
    match parseQuad? q, parseInt? nb, parseInt? layers with
    | some q, some nb, some l => "ok " ++ showQuad (AZ.getMatrixCornerPoints FOps.float q nb (compact == "1") l)
    | _, _, _ => "bad-op"
  | ["azdim", compact, layers] => some <|
    match parseInt? layers with
    | some l => s!"ok {AZ.getDimension (compact == "1") l}"
    | none => "bad-op"
  | ["azdetect", w, h, bits, mirror] => some <| withImg w h bits fun img w h =>
    match AZ.detect FOps.float img.rdGo w h azExpected AztecDecoder.rsModel (mirror == "1") with
    | .ok l => s!"ok compact={l.compact} layers={l.nbLayers} blocks={l.nbDataBlocks} shift={l.shift} dim={l.dimension} c={showQuad l.corners}"
    | .error e => showFault e
  | _ => none

def handle (args : List String) : String :=
  match handlePure args with
  | some r => r
  | none =>
    match handleAZ2 args with
    | some r => r
    | none => "bad-op"

end Gzx.Driver.C06Rest
