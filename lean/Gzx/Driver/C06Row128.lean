/-
  Driver commands of the Code 128 / ITF row-decoder models (suite prefix `row128`), used by harness/zz_oned128_*.go.
  Every command runs the exact model (`exactDom`) and the IEEE-binary64 interpretation (`floatDom`) of the same model;
  when the two differ (a float rounding changes a decision) the answer is `<exact> ~ <ieee>`, and the harness judges the
  Go code by the IEEE answer and counts the case as float-borderline.
-/
import Gzx.Model.OneDRowITF
namespace Gzx.Driver.C06Row128
open Gzx Gzx.OneD Gzx.Row128

def P128 : List (List Nat) := refTables.code128
def TItf : RowITF.ItfT := RowITF.refItfT

def showFault (e : Fault) : String :=
  match e with
  | .panic _ => "PANIC"
  | e => "ERR:" ++ e.tag

def showR {α} (f : α → String) : Res α → String
  | .ok a => f a
  | .error e => showFault e

/-- exact answer, or `exact ~ ieee` when rounding matters -/
def both (a b : String) : String := if a == b then a else a ++ " ~ " ++ b

def showOut128 (o : Row128.Out) : String :=
  s!"ok {showHex o.text} raw={showHex o.raw} pts={o.left2},{o.right2} mod={o.symMod}"

def showOutItf (o : RowITF.Out) : String := s!"ok {showHex o.text} pts={o.p0},{o.p1}"

def showTriple (t : Nat × Nat × Nat) : String := s!"ok {t.1},{t.2.1},{t.2.2}"
def showPair (t : Nat × Nat) : String := s!"ok {t.1},{t.2}"
def showCode (t : Nat × List Nat) : String := s!"ok {t.1};{showNatList t.2}"

def parseAllowed (s : String) : Option (Option (List Int)) :=
  if s == "none" then some none
  else if s == "empty" then some (some [])
  else (parseIntList? s).map some

def handle : List String → String
  | ["dec128", gs1, bits] =>
    let row := parseBits bits
    let g := gs1 == "1"
    both (showR showOut128 (decodeRow exactDom P128 row g)) (showR showOut128 (decodeRow floatDom P128 row g))
  | ["start128", bits] =>
    let row := parseBits bits
    both (showR showTriple (findStartPattern exactDom P128 row)) (showR showTriple (findStartPattern floatDom P128 row))
  | ["code128", off, bits] =>
    match parseNat? off with
    | some off =>
      let row := parseBits bits
      both (showR showCode (decodeCode exactDom P128 row off)) (showR showCode (decodeCode floatDom P128 row off))
    | none => "bad-op"
  | ["decitf", allowed, bits] =>
    match parseAllowed allowed with
    | some a =>
      let row := parseBits bits
      both (showR showOutItf (RowITF.decodeRow exactDom TItf row a)) (showR showOutItf (RowITF.decodeRow floatDom TItf row a))
    | none => "bad-op"
  | ["startitf", bits] =>
    let row := parseBits bits
    let f (D : VarDom) := showR (fun (r : (Nat × Nat) × Nat) => s!"ok {r.1.1},{r.1.2} nlw={r.2}") (RowITF.decodeStart D TItf row)
    both (f exactDom) (f floatDom)
  | ["enditf", nlw, bits] =>
    match parseNat? nlw with
    | some n =>
      let row := parseBits bits
      both (showR showPair (RowITF.decodeEnd exactDom TItf row n)) (showR showPair (RowITF.decodeEnd floatDom TItf row n))
    | none => "bad-op"
  | ["guarditf", off, pat, bits] =>
    match parseNat? off, parseNatList? pat with
    | some off, some p =>
      let row := parseBits bits
      both (showR showPair (RowITF.findGuardPattern exactDom row off p)) (showR showPair (RowITF.findGuardPattern floatDom row off p))
    | _, _ => "bad-op"
  | ["digititf", cs] =>
    match parseNatList? cs with
    | some c =>
      let f (D : VarDom) := showR (fun (d : Nat) => s!"ok {d}") (RowITF.decodeDigit D TItf c)
      both (f exactDom) (f floatDom)
    | none => "bad-op"
  | ["tbl", "itf"] => C03showPatterns TItf.patterns
  | _ => "bad-op"
where
  C03showPatterns (ps : List (List Nat)) : String := ";".intercalate (ps.map showNatList)

end Gzx.Driver.C06Row128
