/-
  wp rowsrest — suite `c06rows`: whole 1-D row decoders (UPC/EAN family incl. add-ons and the multi-format reader;
  RSS-14 with its pair history).  `c06rows upc …` / `c06rows rss …`.
-/
import Gzx.Driver.C06RowsUPC
import Gzx.Driver.C06RowsRSS
namespace Gzx.Driver.C06Rows

def handle : List String → String
  | "upc" :: rest => C06RowsUPC.handle rest
  | "rss" :: rest => C06RowsRSS.handle rest
  | _ => "bad-op"

end Gzx.Driver.C06Rows
