/-
  wp rowsrest — line protocol of the RSS-14 part of suite `c06rows` (model Gzx/Model/RSS14.lean run with IEEE binary64).
-/
import Gzx.Model.RSS14
import Gzx.Ref.RSS14
namespace Gzx.Driver.C06RowsRSS
open Gzx Gzx.Det Gzx.RSS14

def T := refTables
def o := FOps.float

def showFault : Fault → String
  | .panic _ => "PANIC"
  | e => "ERR:" ++ e.tag

def showR {α} (f : α → String) : Res α → String
  | .ok a => f a
  | .error e => showFault e

def showP (p : Int × Int) : String := s!"{p.1}:{p.2}"
def showPs (ps : List (Int × Int)) : String := "[" ++ ";".intercalate (ps.map showP) ++ "]"

def showResult (r : RSSResult) : String := s!"ok {showHex r.text} P{showPs r.points}"

def showFinder (f : FinderPattern) : String :=
  s!"{f.value} {f.startEnd.1},{f.startEnd.2} {showP f.p0} {showP f.p1}"

def showPair (p : Pair) : String :=
  s!"{p.value}/{p.checksumPortion}/{p.count}/{showFinder p.finder}"

def showState (s : State) : String :=
  "L[" ++ ";".intercalate (s.left.map showPair) ++ "] R[" ++ ";".intercalate (s.right.map showPair) ++ "]"

def opOf? (s : String) : Option Op :=
  if s == "X" then some .reset
  else match s.splitOn ":" with
    | ["R", rn, cb, bits] => (parseInt? rn).map (fun rn => Op.row rn (parseBits bits) (cb == "1"))
    | _ => none

def showOutcome (r : Trace × Res RSSResult) : String := "T" ++ showPs r.1 ++ " " ++ showR showResult r.2

def handle : List String → String
  -- a sequence of DecodeRow / Reset calls on one instance: outcomes, then the pair history
  | ["seq", ops] =>
    match (ops.splitOn "|").mapM opOf? with
    | some ops =>
      let r := run o T State.empty ops
      "|".intercalate (r.1.map showOutcome) ++ " # " ++ showState r.2
    | none => "bad-op"
  | ["finder", right, bits] =>
    showR (fun (r : (Nat × Nat) × C4) => s!"ok {r.1.1},{r.1.2} {r.2.c0},{r.2.c1},{r.2.c2},{r.2.c3}")
      (findFinderPattern o (parseBits bits) (right == "1"))
  | ["parse", right, rn, bits] =>
    match parseInt? rn with
    | some rn =>
      let row := parseBits bits
      match findFinderPattern o row (right == "1") with
      | .error e => showFault e
      | .ok (se, cs) => showR (fun f => "ok " ++ showFinder f) (parseFoundFinderPattern o T row rn (right == "1") se cs)
    | none => "bad-op"
  | ["datachar", right, outside, bits] =>
    let row := parseBits bits
    match findFinderPattern o row (right == "1") with
    | .error e => showFault e
    | .ok (se, cs) =>
      match parseFoundFinderPattern o T row 0 (right == "1") se cs with
      | .error e => showFault e
      | .ok fp => showR (fun (d : DataCharacter) => s!"ok {d.value} {d.checksumPortion}") (decodeDataCharacter o T row fp (outside == "1"))
  | ["pair", right, rn, bits] =>
    match parseInt? rn with
    | some rn =>
      match (decodePair o T (parseBits bits) (right == "1") rn false).2 with
      | .error e => showFault e
      | .ok none => "nil"
      | .ok (some p) => "ok " ++ showPair p
    | none => "bad-op"
  | ["rssvalue", ws, mw, nn] =>
    match parseIntList? ws, parseInt? mw with
    | some ws, some mw => showR (fun (v : Int) => s!"ok {v}") (getRSSvalue ws mw (nn == "1"))
    | _, _ => "bad-op"
  -- the reference encoder written from the standard (Gzx/Ref/RSS14.lean): 46 element widths of a 13-digit value
  | ["refenc", v] =>
    match parseNat? v with
    | some v => (match Ref.RSS14.encode v with | some ws => "ok " ++ showIntList ws | none => "none")
    | none => "bad-op"
  | ["combins", n, r] =>
    match parseInt? n, parseInt? r with
    | some n, some r => showR (fun (v : Int) => s!"ok {v}") (combins n r)
    | _, _ => "bad-op"
  | _ => "bad-op"

end Gzx.Driver.C06RowsRSS
