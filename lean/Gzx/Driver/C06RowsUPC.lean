/-
  wp rowsrest — line protocol of the UPC/EAN part of suite `c06rows` (whole DecodeRow of the five UPC/EAN readers,
  model Gzx/Model/OneDRowExt.lean run with IEEE binary64 variances).
-/
import Gzx.Model.OneDRowExt
namespace Gzx.Driver.C06RowsUPC
open Gzx Gzx.CheckDigit Gzx.OneD Gzx.OneDRowExt

def T := refTables
def X := refExt
def O := VarOps.float

def showFault : Fault → String
  | .panic _ => "PANIC"
  | e => "ERR:" ++ e.tag

def showR {α} (f : α → String) : Res α → String
  | .ok a => f a
  | .error e => showFault e

def kindOf? : String → Option EanKind
  | "ean13" => some .ean13 | "ean8" => some .ean8 | "upca" => some .upca | "upce" => some .upce
  | _ => none

def kindName : EanKind → String
  | .ean13 => "EAN_13" | .ean8 => "EAN_8" | .upca => "UPC_A" | .upce => "UPC_E"

def showPt (p : Pt) : String := s!"{p.x2}:{p.y}"
def showPts (ps : List Pt) : String := "[" ++ ";".intercalate (ps.map showPt) ++ "]"

def keyName : MetaKey → String
  | .issueNumber => "ISSUE_NUMBER" | .suggestedPrice => "SUGGESTED_PRICE" | .possibleCountry => "POSSIBLE_COUNTRY"
  | .upcEanExtension => "UPC_EAN_EXTENSION" | .symbologyIdentifier => "SYMBOLOGY_IDENTIFIER"

def showVal : MetaVal → String
  | .str bs => "s" ++ showHex bs
  | .int n => "i" ++ toString n

def insertByOrd (p : MetaKey × MetaVal) : List (MetaKey × MetaVal) → List (MetaKey × MetaVal)
  | [] => [p]
  | q :: qs => if p.1.ord ≤ q.1.ord then p :: q :: qs else q :: insertByOrd p qs

def showMeta (m : Meta) : String :=
  let sorted := m.foldl (fun acc p => insertByOrd p acc) []
  "[" ++ ";".intercalate (sorted.map (fun p => keyName p.1 ++ "=" ++ showVal p.2)) ++ "]"

def showResult (r : RowResult) : String :=
  s!"ok {kindName r.format} {showHex r.text} P{showPts r.points} M{showMeta r.md}"

def showExt (r : ExtResult) : String :=
  s!"ok {showHex r.text} P{showPts r.points} M{showMeta r.md}"

def showOut (o : Trace × Res RowResult) : String :=
  "T" ++ showPts o.1 ++ " " ++ showR showResult o.2

/-- "-" absent, "e" empty list, else comma-separated ints -/
def extOf? (s : String) : Option (Option (List Int)) :=
  if s == "-" then some none
  else if s == "e" then some (some [])
  else (parseIntList? s).map some

def fmtOf? : String → Option (Option EanKind)
  | "x" => some none
  | s => (kindOf? s).map some

def fmtsOf? (s : String) : Option (List (Option EanKind)) :=
  if s == "-" then some [] else (s.splitOn ",").mapM fmtOf?

def showRange (r : Res (Nat × Nat)) : String := showR (fun p => s!"ok {p.1},{p.2}") r

def handle : List String → String
  -- whole DecodeRow: reader (ean13|ean8|upca|upce|m:<constructor formats>), row number, callback?, allowed extensions, UPC_A in POSSIBLE_FORMATS?, pixels
  | ["row", rd, rn, cb, ext, ua, bits] =>
    match parseInt? rn, extOf? ext with
    | some rn, some ext =>
      let h : Hints := { cb := cb == "1", allowedExt := ext, canUPCA := ua == "1" }
      let row := parseBits bits
      if rd.startsWith "m:" then
        match fmtsOf? (rd.drop 2).toString with
        | some fs => showOut (multiDecodeRow O T X (multiReaders fs) rn row h)
        | none => "bad-op"
      else
        match kindOf? rd with
        | some k => showOut (decodeRow O T X k rn row h)
        | none => "bad-op"
    | _, _ => "bad-op"
  -- the same call on the exact-fraction instance (the model C03's read-back theorems are about): evidence only —
  -- counts the rows on which a variance lies exactly on a limit and float64 decides differently
  | ["rowx", rd, rn, cb, ext, ua, bits] =>
    match parseInt? rn, extOf? ext, kindOf? rd with
    | some rn, some ext, some k =>
      showOut (decodeRow VarOps.exact T X k rn (parseBits bits) { cb := cb == "1", allowedExt := ext, canUPCA := ua == "1" })
    | _, _, _ => "bad-op"
  | ["readers", fs] =>
    match fmtsOf? fs with
    | some fs => ",".intercalate ((multiReaders fs).map kindName)
    | none => "bad-op"
  -- intermediate layers
  | ["start", bits] => showRange (findStartGuardPattern O T (parseBits bits))
  | ["guard", off, wf, pat, bits] =>
    match parseNat? off, parseNatList? pat with
    | some off, some pat => showRange (findGuardPattern O (parseBits bits) off (wf == "1") pat)
    | _, _ => "bad-op"
  | ["digit", off, lg, bits] =>
    match parseNat? off with
    | some off => showR (fun p => s!"ok {p.1},{p.2}")
        (decodeDigit O (parseBits bits) off (if lg == "1" then lAndG T.lPatterns else T.lPatterns))
    | none => "bad-op"
  | ["middle", kind, s1, bits] =>
    match kindOf? kind, parseNat? s1 with
    | some k, some s1 => showR (fun p => s!"ok {p.1} {showHex p.2}") (decodeMiddle O T k (parseBits bits) s1)
    | _, _ => "bad-op"
  | ["ext", rn, off, bits] =>
    match parseInt? rn, parseNat? off with
    | some rn, some off => showR showExt (extDecodeRow O T X rn (parseBits bits) off)
    | _, _ => "bad-op"
  | ["price", hex] =>
    match parseHex? hex with
    | some raw => showR (fun s => "ok " ++ showHex s) (parseExtension5String raw)
    | none => "bad-op"
  | ["country", hex] =>
    match parseHex? hex with
    | some code => "ok " ++ showHex (lookupCountry X.countries code)
    | none => "bad-op"
  | _ => "bad-op"

end Gzx.Driver.C06RowsUPC
