import Gzx.Util
namespace Gzx.Driver.C07
open Gzx

/-- line-protocol handler of suite `c07` (arguments after the suite name) -/
def handle : List String → String
  | _ => "bad-op"

end Gzx.Driver.C07
