import Gzx.Util
import Gzx.Ref.QR
import Gzx.Model.QRVersionChoice
namespace Gzx.Driver.C07
open Gzx Gzx.QRRef

def showMatrix (m : List (List Bool)) : String := "/".intercalate (m.map showBits)

def parseMatrix (s : String) : List (List Bool) := (s.splitOn "/").map parseBits

def showPen (m : List (List Bool)) : String :=
  s!"{penalty1 m},{penalty2 m},{penalty3 m},{penalty4 m}"

def showGroups (gs : List (Nat × Nat)) : String :=
  "+".intercalate (gs.map (fun g => s!"{g.1}*{g.2}"))

def showVersion (v : Nat) : String :=
  let vi := versionInfo v
  s!"total={vi.total};align={showNatList vi.align};" ++
    ";".intercalate ((EC.all.zip vi.ecBlocks).map (fun (ec, b) => s!"{ec.name}={b.1}:{showGroups b.2}"))

/-- nearest codeword within Hamming distance 3, as the index into `words` -/
def nearest (w : Nat) (width : Nat) (words : List Nat) : Option Nat :=
  (List.range words.length).find? (fun i => hamming width w (words.getD i 0) ≤ 3)

def formatWords : List Nat := (List.range 32).map formatWordOfData
def versionWords : List Nat := (List.range 34).map (fun i => versionWord (i + 7))

def showFormat (d : Nat) : String := s!"{(EC.all.find? (fun e => e.bits == d / 8)).map EC.name |>.getD "?"} {d % 8}"

def handleEnc (args : List String) : String :=
  match (argOf args "ec").bind EC.ofName?, (argOf args "text").bind parseHex? with
  | some ec, some text =>
    let sjis := (argOf args "sjis").bind parseHex?
    let data := ((argOf args "data").bind parseHex?).getD text
    let m := QRVersionChoice.chooseMode text sjis
    let bytes := match m with
      | .kanji => sjis.getD []
      | .byte => data
      | _ => text
    let eci := if m == .byte then argNat args "eci" else none
    let cfg : Config := { ec := ec, eci := eci, gs1 := (argOf args "gs1") == some "1",
                          version := (argInt args "ver").map Int.toNat, mask := argNat args "mask" }
    match refEncode m bytes cfg with
    | some s =>
      -- the standard leaves ties between equally good masks open: when the library chose another
      -- mask (`gomask`) whose penalty equals the minimum, judge its symbol with that mask
      let s := match cfg.mask, argNat args "gomask" with
        | none, some g =>
          if g != s.mask && g < 8 then
            let alt := refMatrix s.version ec g s.codewords
            if penalty alt == penalty s.matrix then { s with mask := g, matrix := alt } else s
          else s
        | _, _ => s
      s!"ok {m.name} v={s.version} mask={s.mask} {showMatrix s.matrix}"
    | none => "ERR:writer"
  | _, _ => "bad-op"

/-- line-protocol handler of suite `c07` (arguments after the suite name) -/
def handle : List String → String
  | ["bm", v, ec, mask, hex] =>
    match parseNat? v, EC.ofName? ec, parseNat? mask, parseHex? hex with
    | some v, some ec, some mask, some cw => showMatrix (refMatrix v ec mask cw)
    | _, _, _, _ => "bad-op"
  | ["bmp", v, ec, mask, hex] =>
    match parseNat? v, EC.ofName? ec, parseNat? mask, parseHex? hex with
    | some v, some ec, some mask, some cw =>
      let m := refMatrix v ec mask cw
      showMatrix m ++ " " ++ showPen m
    | _, _, _, _ => "bad-op"
  | ["spec", v, ec, mask, hex] =>   -- the quadratic functional specification (small versions only)
    match parseNat? v, EC.ofName? ec, parseNat? mask, parseHex? hex with
    | some v, some ec, some mask, some cw => showMatrix (specMatrix v ec mask cw)
    | _, _, _, _ => "bad-op"
  | ["pen", rows] => showPen (parseMatrix rows)
  | ["cw", v, ec, hex] =>           -- data codewords -> final codeword sequence
    match parseNat? v, EC.ofName? ec, parseHex? hex with
    | some v, some ec, some d => showHex (finalCodewords v ec d)
    | _, _, _ => "bad-op"
  | "enc" :: args => handleEnc args
  | ["ver", v] =>
    match parseNat? v with
    | some v => showVersion v
    | none => "bad-op"
  | ["fw", d] => match parseNat? d with
    | some d => toString (formatWordOfData d)
    | none => "bad-op"
  | ["vw", v] => match parseNat? v with
    | some v => toString (versionWord v)
    | none => "bad-op"
  | ["fdec", w] =>
    match parseNat? w with
    | some w =>
      match nearest w 15 formatWords with
      | some d => showFormat d
      | none => match nearest (w ^^^ formatMask) 15 formatWords with
        | some d => showFormat d
        | none => "none"
    | none => "bad-op"
  | ["vdec", w] =>
    match parseNat? w with
    | some w => match nearest w 18 versionWords with
      | some i => toString (i + 7)
      | none => "none"
    | none => "bad-op"
  | ["maskgrid", k, n] =>           -- rows y = 0..n-1 of mask condition k
    match parseNat? k, parseNat? n with
    | some k, some n => showMatrix ((List.range n).map (fun y => (List.range n).map (fun x => maskBit k x y)))
    | _, _ => "bad-op"
  | ["mask", k, x, y] =>
    match parseNat? k, parseNat? x, parseNat? y with
    | some k, some x, some y => if maskBit k x y then "1" else "0"
    | _, _, _ => "bad-op"
  | _ => "bad-op"

end Gzx.Driver.C07
