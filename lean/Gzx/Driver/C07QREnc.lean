/-
  wp `qrenc` — line protocol of suite `c07m`: every stage of the Go-mirroring QR encoder model
  (`Gzx.QREnc`, Model/QREncMirror.lean) so that the harness can compare the real code layer by layer.
  Kernels: `refKernels` (the regenerated kernels are tied to them by `Obligations/QREnc.lean`).
-/
import Gzx.Util
import Gzx.Model.QREncMirror
import Gzx.Proofs.QREncFuncDefs
namespace Gzx.Driver.C07QREnc
open Gzx Gzx.QRRef Gzx.QREnc

def K : Kernels := refKernels

def showB (bs : List Bool) : String := if bs.isEmpty then "-" else showBits bs

def cellChar (v : Int) : Char := if v = 0 then '0' else if v = 1 then '1' else if v = -1 then '?' else 'x'

/-- `WxH:row/row/...` -/
def showBM (m : ByteMatrix) : String :=
  s!"{m.width}x{m.height}:" ++ "/".intercalate (m.bytes.map (fun r => String.ofList (r.map cellChar)))

def parseCell (c : Char) : Int := if c = '0' then 0 else if c = '1' then 1 else if c = '?' then -1 else 2

def parseBM (s : String) : Option ByteMatrix :=
  match s.splitOn ":" with
  | [dims, rows] =>
    match dims.splitOn "x" with
    | [w, h] =>
      match parseInt? w, parseInt? h with
      | some w, some h =>
        let rs := if h = 0 then [] else (rows.splitOn "/").map (fun r => r.toList.map parseCell)
        some ⟨rs, w, h⟩
      | _, _ => none
    | _ => none
  | _ => none

def modeOf? : String → Option Mode
  | "NUMERIC" => some .numeric | "ALPHANUMERIC" => some .alnum | "BYTE" => some .byte | "KANJI" => some .kanji
  | _ => none

def optHex (args : List String) (key : String) : Option (List Nat) :=
  match argOf args key with
  | none => none
  | some "none" => none
  | some s => parseHex? s

def bitsArg (args : List String) (key : String) : List Bool := ((argOf args key).map parseBits).getD []

def ecArg (args : List String) : Option EC := (argOf args "ec").bind EC.ofName?

def showR {α} (f : α → String) (r : Res α) : String :=
  match r with
  | .ok a => f a
  | .error (.panic _) => "PANIC"
  | .error e => "ERR:" ++ e.tag

def hintOf (s : String) : HintVal :=
  if s.startsWith "i:" then match parseInt? (s.drop 2).toString with | some n => .int n | none => .other
  else if s.startsWith "s:" then
    -- string payload hex-encoded (may contain spaces)
    match parseHex? (s.drop 2).toString with
    | some bs => .str (String.ofList (bs.map Char.ofNat))
    | none => .other
  else if s == "b:1" then .bool true
  else if s == "b:0" then .bool false
  else .other

def versionRow (v : Nat) : Res VersionInfo :=
  match QRVersionChoice.getVersionForNumber tables v with
  | .ok r => .ok r
  | .error e => .error e

def showPens (ps : List Int) : String := showIntList ps

def showBlocks (bs : List (List Nat × List Nat)) : String :=
  if bs.isEmpty then "-" else ";".intercalate (bs.map (fun b => showHex b.1 ++ ":" ++ showHex b.2))

def handleEnc (args : List String) : String :=
  match optHex args "text", argInt args "ecl" with
  | some text, some ecl =>
    let cs : Option Charset := match argOf args "cs" with
      | none => none
      | some "unknown" => some ⟨false, false, none⟩
      | some s =>
        -- cs=<sjis 0/1>,<eci value or ->
        match s.splitOn "," with
        | [sj, e] => some ⟨true, sj == "1", parseNat? e⟩
        | _ => some ⟨false, false, none⟩
    let inp : EncInput :=
      { content := text, runeCount := (argNat args "runes").getD text.length, ecLevel := ecl, charset := cs,
        encoded := optHex args "enc", sjis := optHex args "sjis",
        gs1 := (argOf args "gs1").map hintOf, version := (argOf args "ver").map hintOf,
        mask := (argOf args "mask").map hintOf }
    match encode K inp with
    | .ok t =>
      if (argOf args "brief") == some "1" then
        s!"ok {t.mode.name} v={t.version} mask={t.maskPattern} " ++ showBM t.matrix
      else
      s!"ok {t.mode.name} v={t.version} mask={t.maskPattern} hdr={showB t.headerBits} data={showB t.dataBits} " ++
      s!"hd={showB t.headerAndDataBits} term={showB t.terminated} final={showB t.finalBits} pens={showPens t.penalties} " ++
      showBM t.matrix
    | .error (.panic _) => "PANIC"
    | .error e => "ERR:" ++ e.tag
  | _, _ => "bad-op"

/-- line-protocol handler of suite `c07m` (arguments after the suite name) -/
def handle : List String → String
  | "mode" :: args =>
    match optHex args "text" with
    | some text => showR Mode.name (chooseMode text ((argOf args "issjis") == some "1") (optHex args "sjis"))
    | none => "bad-op"
  | "kanji" :: args => showR (fun b => if b then "1" else "0") (isOnlyDoubleByteKanji (optHex args "sjis"))
  | "bytes" :: args =>
    match (argOf args "mode").bind modeOf?, optHex args "text" with
    | some m, some text => showR showB (appendBytes text m (optHex args "enc") (optHex args "sjis") (bitsArg args "pre"))
    | _, _ => "bad-op"
  | "len" :: args =>
    match argInt args "n", argNat args "v", (argOf args "mode").bind modeOf? with
    | some n, some v, some m =>
      showR showB (do
        let row ← versionRow v
        appendLengthInfo n row m (bitsArg args "pre"))
    | _, _, _ => "bad-op"
  | "modeinfo" :: args =>
    match argInt args "bits" with
    | some b => showB (appendModeInfo b (bitsArg args "pre"))
    | none => "bad-op"
  | "term" :: args =>
    match argInt args "d" with
    | some d => showR showB (terminateBits d (bitsArg args "bits"))
    | none => "bad-op"
  | "blk" :: args =>
    match argInt args "t", argInt args "d", argInt args "n", argInt args "b" with
    | some t, some d, some n, some b =>
      let (x, y, e) := K.blockSizes t d n b
      if e then "ERR:writer" else s!"{x},{y}"
    | _, _, _, _ => "bad-op"
  | "inter" :: args =>
    match argInt args "t", argInt args "d", argInt args "n" with
    | some t, some d, some n =>
      showR (fun (r : Bits × List (List Nat × List Nat)) => showB r.1) (interleaveBlocks K (bitsArg args "bits") t d n)
    | _, _, _ => "bad-op"
  | "ecb" :: args =>
    match optHex args "data", argInt args "n" with
    | some data, some n => showR showHex (generateECBytes data n)
    | _, _ => "bad-op"
  | "msb" :: args =>
    match argNat args "v" with
    | some v => toString (findMSBSet v)
    | none => "bad-op"
  | "bch" :: args =>
    match argNat args "v", argNat args "p" with
    | some v, some p => showR toString (calculateBCHCode v p)
    | _, _ => "bad-op"
  | "tib" :: args =>
    match ecArg args, argInt args "mask" with
    | some ec, some k => showR showB (makeTypeInfoBits ec k)
    | _, _ => "bad-op"
  | "vib" :: args =>
    match argNat args "v" with
    | some v => showR showB (makeVersionInfoBits v)
    | none => "bad-op"
  | "clear" :: args =>
    match (argOf args "m").bind parseBM with
    | some m => showBM (m.clear (-1))
    | none => "bad-op"
  | "pdps" :: args =>
    match (argOf args "m").bind parseBM with
    | some m => showR showBM (embedPositionDetectionPatternsAndSeparators m)
    | none => "bad-op"
  | "dark" :: args =>
    match (argOf args "m").bind parseBM with
    | some m => showR showBM (embedDarkDotAtLeftBottomCorner m)
    | none => "bad-op"
  | "paps" :: args =>
    match argInt args "v", (argOf args "m").bind parseBM with
    | some v, some m => showR showBM (maybeEmbedPositionAdjustmentPatterns v m)
    | _, _ => "bad-op"
  | "timing" :: args =>
    match (argOf args "m").bind parseBM with
    | some m => showR showBM (embedTimingPatterns m)
    | none => "bad-op"
  | "basic" :: args =>
    match argInt args "v", (argOf args "m").bind parseBM with
    | some v, some m => showR showBM (embedBasicPatterns v m)
    | _, _ => "bad-op"
  | "tinfo" :: args =>
    match ecArg args, argInt args "mask", (argOf args "m").bind parseBM with
    | some ec, some k, some m => showR showBM (embedTypeInfo ec k m)
    | _, _, _ => "bad-op"
  | "vinfo" :: args =>
    match argNat args "v", (argOf args "m").bind parseBM with
    | some v, some m => showR showBM (maybeEmbedVersionInfo v m)
    | _, _ => "bad-op"
  | "data" :: args =>
    match argInt args "mask", (argOf args "m").bind parseBM with
    | some k, some m => showR showBM (embedDataBits K (bitsArg args "bits") k m)
    | _, _ => "bad-op"
  | "order" :: args =>           -- the cells the coded zig-zag loop visits, in order
    match argInt args "w", argInt args "h" with
    | some w, some h =>
      showR (fun (cs : List (Int × Int)) => if cs.isEmpty then "-" else ";".intercalate (cs.map (fun c => s!"{c.1},{c.2}")))
        ((zigzagLoop (fun x y (acc : List (Int × Int)) => .ok ((x, y) :: acc)) w h []).map List.reverse)
    | _, _ => "bad-op"
  | "bm" :: args =>
    match ecArg args, argNat args "v", argInt args "mask", (argOf args "m").bind parseBM with
    | some ec, some v, some k, some m => showR showBM (buildMatrix K (bitsArg args "bits") ec v k m)
    | _, _, _, _ => "bad-op"
  | "pen" :: args =>
    match (argOf args "m").bind parseBM with
    | some m =>
      let p (r : Res Int) := showR toString r
      s!"{p (applyMaskPenaltyRule1Internal m true)},{p (applyMaskPenaltyRule1Internal m false)},{p (applyMaskPenaltyRule2 m)},{p (applyMaskPenaltyRule3 m)},{p (applyMaskPenaltyRule4 m)}"
    | none => "bad-op"
  | "white" :: args =>
    match (argOf args "m").bind parseBM, argInt args "col", argInt args "from", argInt args "to" with
    | some m, some col, some f, some t =>
      let b (r : Res Bool) := showR (fun b => if b then "1" else "0") r
      -- horizontal on row `col`, vertical on column `col`
      s!"{b (do isWhiteHorizontal (← idx m.bytes col) f t)},{b (isWhiteVertical m.bytes col f t)}"
    | _, _, _, _ => "bad-op"
  | "cmp" :: args =>
    match ecArg args, argNat args "v", (argOf args "m").bind parseBM with
    | some ec, some v, some m =>
      showR (fun (r : Int × List Int × ByteMatrix) => s!"{r.1} {showPens r.2.1}") (chooseMaskPattern K (bitsArg args "bits") ec v m)
    | _, _, _ => "bad-op"
  | "fit" :: args =>
    match argNat args "bits", argNat args "v", ecArg args with
    | some b, some v, some ec =>
      showR (fun (x : Bool) => if x then "1" else "0") (do QRVersionChoice.willFit b (← versionRow v) ec)
    | _, _, _ => "bad-op"
  | "need" :: args =>
    match (argOf args "mode").bind modeOf?, argNat args "h", argNat args "d", argNat args "v" with
    | some m, some h, some d, some v =>
      showR toString (do QRVersionChoice.calculateBitsNeeded tables m h d (← versionRow v))
    | _, _, _, _ => "bad-op"
  | "cv" :: args =>
    match argNat args "bits", ecArg args with
    | some b, some ec => showR (fun (r : VersionInfo) => toString r.number) (QRVersionChoice.chooseVersion tables b ec)
    | _, _ => "bad-op"
  | "rv" :: args =>
    match ecArg args, (argOf args "mode").bind modeOf?, argNat args "h", argNat args "d" with
    | some ec, some m, some h, some d =>
      showR (fun (r : VersionInfo) => toString r.number) (QRVersionChoice.recommendVersion tables ec m h d)
    | _, _, _, _ => "bad-op"
  | "enc" :: args => handleEnc args
  | "funcok" :: args =>          -- the per-version hypothesis `FuncOK v` of the C07Mirror theorems, evaluated by compiled code
    match argNat args "v" with
    | some v => if decide (FuncOK v) then "1" else "0"
    | none => "bad-op"
  | _ => "bad-op"

end Gzx.Driver.C07QREnc
