import Gzx.Util
namespace Gzx.Driver.C08
open Gzx

/-- line-protocol handler of suite `c08` (arguments after the suite name) -/
def handle : List String → String
  | _ => "bad-op"

end Gzx.Driver.C08
