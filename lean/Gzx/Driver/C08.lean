import Gzx.Util
import Gzx.Ref.DM
import Gzx.Model.DMEncoder
import Gzx.Model.DMWriter
import Gzx.Model.DMDecoder
namespace Gzx.Driver.C08
open Gzx

/-- the model of `factorSets` / `factors`: the standard's generator polynomials
    (`Obligations.C08` proves the regenerated Go tables equal them) -/
def factorSets : List Nat := DMRef.parityLengths
def factors : List (List Nat) := DMRef.factorTable

/-- a modelled Go panic prints as the harness prints a recovered panic -/
def showR {α} (f : α → String) : Res α → String
  | .ok a => f a
  | .error e => if e.isPanic then "PANIC" else "ERR:" ++ e.tag

def showRows (rows : List (List Bool)) : String := "/".intercalate (rows.map showBits)

def showSym (s : DMEnc.SymbolInfo) : String :=
  let bc := match s.interleavedBlockCount with | .ok b => toString b | .error e => showR (fun (_ : Unit) => "") (.error e)
  let n := match s.interleavedBlockCount with | .ok b => b.toNat | .error _ => 0
  let dls := (List.range n).map (fun i => s.dataLengthForInterleavedBlock (i + 1))
  let els := (List.range n).map (fun i => s.errorLengthForInterleavedBlock (i + 1))
  s!"rect={s.rectangular} cap={s.dataCapacity} err={s.errorCodewords} mw={s.matrixWidth} mh={s.matrixHeight} " ++
  s!"regions={s.dataRegions} h={s.horizontalDataRegions} v={s.verticalDataRegions} w={s.symbolWidth} " ++
  s!"hgt={s.symbolHeight} dw={s.symbolDataWidth} dh={s.symbolDataHeight} blocks={bc} dl={showIntList dls} el={showNatList els}"

def showVersion (v : DMDec.Version) : String :=
  s!"n={v.versionNumber} rows={v.symbolSizeRows} cols={v.symbolSizeColumns} rr={v.dataRegionSizeRows} " ++
  s!"rc={v.dataRegionSizeColumns} ec={v.ecCodewords} total={v.totalCodewords} blocks=" ++
  ";".intercalate (v.ecBlocks.map (fun b => s!"{b.count}x{b.dataCodewords}"))

def gridOf (w h : Nat) (bits : List Bool) : DMDec.BitGrid := ⟨w, h, bits.toArray⟩

/-- "rows/of/bits" → grid (width = length of the first row) -/
def parseGrid (s : String) : DMDec.BitGrid :=
  let rows := (s.splitOn "/").map parseBits
  let w := (rows.headD []).length
  ⟨w, rows.length, (rows.flatMap id).toArray⟩

def showGrid (g : DMDec.BitGrid) : String :=
  let bits := g.bits.toList
  if g.width = 0 then s!"{g.width}x{g.height}"
  else "/".intercalate ((List.range g.height).map (fun y => showBits ((bits.drop (y * g.width)).take g.width)))

def showBlocks (bs : List (Nat × List Nat)) : String :=
  "|".intercalate (bs.map (fun b => s!"{b.1}:{showHex b.2}"))

def handle : List String → String
  | ["nsyms"] => toString DMEnc.symbols.length
  | ["sym", i] =>
    match (parseNat? i).bind (fun i => DMEnc.symbols[i]?) with
    | some s => showSym s
    | none => "none"
  | ["ecc", i, hex] =>
    match (parseNat? i).bind (fun i => DMRef.symbols[i]?), parseHex? hex with
    | some s, some d => showHex (DMRef.codewords s d)
    | _, _ => "bad-op"
  | ["mecc", i, hex] =>
    match (parseNat? i).bind (fun i => DMEnc.symbols[i]?), parseHex? hex with
    | some s, some d => showR showHex (DMEnc.encodeECC200 factorSets factors d s)
    | _, _ => "bad-op"
  | ["mecc-norot", i, hex] =>
    match (parseNat? i).bind (fun i => DMEnc.symbols[i]?), parseHex? hex with
    | some s, some d => showR showHex (DMEnc.encodeECC200 factorSets factors d s false)
    | _, _ => "bad-op"
  | ["eccblk", n, hex] =>
    match parseNat? n, parseHex? hex with
    | some n, some d => showR showHex (DMEnc.createECCBlock factorSets factors d n)
    | _, _ => "bad-op"
  | ["refeccblk", n, hex] =>
    match parseNat? n, parseHex? hex with
    | some n, some d => showHex (DMRef.eccBlock n d)
    | _, _ => "bad-op"
  | ["place", cols, rows, hex] =>
    match parseNat? cols, parseNat? rows, parseHex? hex with
    | some c, some r, some cw => showBits (DMRef.mappingBits r c cw).toList
    | _, _, _ => "bad-op"
  | ["matrix", i, hex] =>
    match (parseNat? i).bind (fun i => DMRef.symbols[i]?), parseHex? hex with
    | some s, some cw => showRows (DMRef.symbolOfCodewords s cw)
    | _, _ => "bad-op"
  | ["mmatrix", i, hex] =>
    match (parseNat? i).bind (fun i => DMEnc.symbols[i]?), parseHex? hex with
    | some s, some cw =>
      let m := DMRef.mappingBits s.symbolDataHeight s.symbolDataWidth cw
      showR showRows (DMEnc.encodeLowLevel s (fun x y => m.getD (y * s.symbolDataWidth + x) false))
    | _, _ => "bad-op"
  | ["mfull", i, hex] =>
    match (parseNat? i).bind (fun i => DMEnc.symbols[i]?), parseHex? hex with
    | some s, some d => showR showRows (DMEnc.encodeSymbol factorSets factors d s)
    | _, _ => "bad-op"
  | ["full", i, hex] =>
    match (parseNat? i).bind (fun i => DMRef.symbols[i]?), parseHex? hex with
    | some s, some d => showRows (DMRef.symbolBits s d)
    | _, _ => "bad-op"
  | ["r253", lo, hi] =>
    match parseNat? lo, parseNat? hi with
    | some lo, some hi => showIntList ((List.range (hi + 1 - lo)).map (fun (k : Nat) => DMEnc.randomize253State ((lo + k : Nat) : Int)))
    | _, _ => "bad-op"
  | ["ref253", lo, hi] =>
    match parseNat? lo, parseNat? hi with
    | some lo, some hi => showNatList ((List.range (hi + 1 - lo)).map (fun k => DMRef.randomize253 (lo + k)))
    | _, _ => "bad-op"
  | ["r255", pos] =>
    match parseNat? pos with
    | some p => showIntList ((List.range 256).map (fun (b : Nat) => DMEnc.randomize255State b p))
    | _ => "bad-op"
  | ["ref255", pos] =>
    match parseNat? pos with
    | some p => showNatList ((List.range 256).map (fun b => DMRef.randomize255 b p))
    | _ => "bad-op"
  | ["u255", pos] =>
    match parseNat? pos with
    | some p => showIntList ((List.range 256).map (fun (b : Nat) => DMDec.unrandomize255State b p))
    | _ => "bad-op"
  | ["refu255", pos] =>
    match parseNat? pos with
    | some p => showNatList ((List.range 256).map (fun b => DMRef.unrandomize255 b p))
    | _ => "bad-op"
  | ["gftables"] => "alog=" ++ showNatList DMEnc.alog ++ " log=" ++ showNatList DMEnc.log
  | ["refgftables"] => "alog=" ++ showNatList DMRef.expTable ++ " log=" ++ showNatList DMRef.logTable
  | ["factors"] => showNatList factorSets ++ " " ++ "|".intercalate (factors.map showNatList)
  | ["nversions"] => toString DMDec.versions.length
  | ["version", i] =>
    match (parseNat? i).bind (fun i => DMDec.versions[i]?) with
    | some v => showVersion v
    | none => "none"
  | ["dver", rows, cols] =>
    match parseNat? rows, parseNat? cols with
    | some r, some c => showR showVersion (DMDec.getVersionForDimensions DMDec.versions r c)
    | _, _ => "bad-op"
  | ["dextract", grid] =>
    showR (fun (vm : DMDec.Version × DMDec.BitGrid) => showGrid vm.2)
      (DMDec.newBitMatrixParser DMDec.versions (parseGrid grid))
  | ["dread", grid] =>
    match DMDec.newBitMatrixParser DMDec.versions (parseGrid grid) with
    | .error e => showR (fun (_ : Unit) => "") (.error e)
    | .ok (v, m) => showR showHex (DMDec.readCodewords v m)
  | ["dblocks", rows, cols, hex] =>
    match parseNat? rows, parseNat? cols, parseHex? hex with
    | some r, some c, some raw =>
      match DMDec.getVersionForDimensions DMDec.versions r c with
      | .error e => showR (fun (_ : Unit) => "") (.error e)
      | .ok v => showR showBlocks (DMDec.getDataBlocks raw v)
    | _, _, _ => "bad-op"
  | ["dresult", rows, cols, hex] =>
    match parseNat? rows, parseNat? cols, parseHex? hex with
    | some r, some c, some raw =>
      match DMDec.getVersionForDimensions DMDec.versions r c with
      | .error e => showR (fun (_ : Unit) => "") (.error e)
      | .ok v => match DMDec.getDataBlocks raw v with
        | .error e => showR (fun (_ : Unit) => "") (.error e)
        | .ok bs => showR showHex (DMDec.resultBytes bs)
    | _, _, _ => "bad-op"
  | _ => "bad-op"

end Gzx.Driver.C08
