import Gzx.Util
namespace Gzx.Driver.C09
open Gzx

/-- line-protocol handler of suite `c09` (arguments after the suite name) -/
def handle : List String → String
  | _ => "bad-op"

end Gzx.Driver.C09
