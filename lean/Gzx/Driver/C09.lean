import Gzx.Util
import Gzx.Model.Poses
import Gzx.Model.OneDScan
import Gzx.Model.QRMirror
namespace Gzx.Driver.C09
open Gzx Gzx.Poses Gzx.OneDScan

/-- "0101/1100" -> image (driver-side parsing; the model itself never indexes a list) -/
def parseImg (w h : Nat) (s : String) : Img :=
  let rs := (s.splitOn "/").map parseBits
  ⟨w, h, fun x y => ((rs[y]?).bind (fun r => r[x]?)).getD false⟩

def showImg (m : Img) : String :=
  s!"{m.w}x{m.h}:" ++ "/".intercalate ((rows m).map showBits)

def faultOf (s : String) : Fault :=
  if s == "nf" then .notFound else if s == "ck" then .checksum else if s == "fm" then .format else .illegalArg

/-- scripted row decoder: entries `row.rev.kind[.text.x0.x1]`, everything else NotFound -/
def parseDec (s : String) : Nat → Bool → Res Hit :=
  let entries := if s == "-" then [] else s.splitOn ","
  let tbl : List (Nat × Bool × Res Hit) := entries.filterMap (fun e =>
    match e.splitOn "." with
    | [r, v, "ok", t, x0, x1] =>
      match r.toNat?, t.toNat?, parseInt? x0, parseInt? x1 with
      | some r, some t, some x0, some x1 => some (r, v == "1", .ok ⟨t, none, [(x0, (r : Int)), (x1, (r : Int))]⟩)
      | _, _, _, _ => none
    | [r, v, "ok1", t, x0] =>   -- a hit with a single result point (points are not flipped then)
      match r.toNat?, t.toNat?, parseInt? x0 with
      | some r, some t, some x0 => some (r, v == "1", .ok ⟨t, none, [(x0, (r : Int))]⟩)
      | _, _, _ => none
    | [r, v, k] => r.toNat?.map (fun r => (r, v == "1", .error (faultOf k)))
    | _ => none)
  fun row rev =>
    match tbl.find? (fun e => e.1 == row && e.2.1 == rev) with
    | some e => e.2.2
    | none => .error .notFound

def parseBlack (s : String) : Nat → Bool :=
  let bs := parseBits s
  fun y => (bs[y]?).getD false

def showHit : Res Hit → String
  | .ok h =>
    let o := match h.orientation with | some o => toString o | none => "none"
    s!"ok text={h.text} orient={o} pts=" ++ ";".intercalate (h.points.map (fun p => s!"{p.1},{p.2}"))
  | .error (.panic _) => "PANIC"
  | .error e => "ERR:" ++ e.tag

def parseOutcome (s : String) : Res (Option (QRMirror.Outcome String)) :=
  if s.startsWith "D:" then .ok (some ⟨(s.drop 2).toString, false⟩)
  else if s.startsWith "M:" then .ok (some ⟨(s.drop 2).toString, true⟩)
  else if s == "NEITHER" then .ok none
  else .error .format

/-- line-protocol handler of suite `c09` -/
def handle : List String → String
  | ["rotccw", w, h, rs] =>
    match w.toNat?, h.toNat? with
    | some w, some h => showImg (rotCCW (parseImg w h rs))
    | _, _ => "bad-op"
  | ["rot90", w, h, rs] =>
    match w.toNat?, h.toNat? with
    | some w, some h => showImg (rot90 (parseImg w h rs))
    | _, _ => "bad-op"
  | ["mirror", w, h, rs] =>
    match w.toNat?, h.toNat? with
    | some w, some h => showImg (transpose (parseImg w h rs))
    | _, _ => "bad-op"
  | ["row180", w, h, rs, y] =>
    match w.toNat?, h.toNat?, y.toNat? with
    | some w, some h, some y => showBits (row (rot180 (parseImg w h rs)) y)
    | _, _, _ => "bad-op"
  | ["scalepad", w, h, rs, k, p] =>
    match w.toNat?, h.toNat?, k.toNat?, p.toNat? with
    | some w, some h, some k, some p => showImg (pad p (scale k (parseImg w h rs)))
    | _, _, _, _ => "bad-op"
  | ["visit", h, th] =>
    match h.toNat? with
    | some h => showNatList (visitOrder h (th == "1"))
    | none => "bad-op"
  | ["scan", w, h, th, rot, black, black2, dec, dec2] =>
    match w.toNat?, h.toNat? with
    | some w, some h =>
      showHit (decode w h (th == "1") (rot == "1") (parseBlack black) (parseDec dec) (parseBlack black2) (parseDec dec2))
    | _, _ => "bad-op"
  | ["qrpair", a, b] =>
    if QRMirror.pairConsistent (parseOutcome a) (parseOutcome b) then "consistent" else "inconsistent"
  | _ => "bad-op"

end Gzx.Driver.C09
