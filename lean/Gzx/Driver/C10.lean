import Gzx.Util
namespace Gzx.Driver.C10
open Gzx

/-- line-protocol handler of suite `c10` (arguments after the suite name) -/
def handle : List String → String
  | _ => "bad-op"

end Gzx.Driver.C10
