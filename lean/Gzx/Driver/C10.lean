import Gzx.Model.CheckDigit
import Gzx.Ref.UPCEAN
namespace Gzx.Driver.C10
open Gzx Gzx.CheckDigit

def showR {α} (f : α → String) : Res α → String
  | .ok a => f a
  | .error (.panic _) => "PANIC"
  | .error e => "ERR:" ++ e.tag

/-- "0123" -> [0,1,2,3] (digit values); non-digits give none -/
def digitVals? (s : String) : Option (List Nat) :=
  if s == "-" then some [] else
  s.toList.mapM (fun c => if '0' ≤ c ∧ c ≤ '9' then some (c.toNat - 48) else none)

def flags (s : String) : List Bool := if s == "-" then [] else s.toList.map (· == '1')

def showDigits (ds : List Nat) : String := String.ofList (ds.map (fun d => Char.ofNat (48 + d)))

def kindOf? : String → Option EanKind
  | "ean13" => some .ean13 | "ean8" => some .ean8 | "upca" => some .upca | "upce" => some .upce
  | _ => none

def showPatterns (ps : List (List Nat)) : String :=
  ";".intercalate (ps.map showNatList)

/-- line-protocol handler of suite `c10` (arguments after the suite name) -/
def handle : List String → String
  | ["eansum", hex] =>
    match parseHex? hex with
    | some bs => showR (fun (c : Int) => s!"ok {c}") (eanChecksumB bs)
    | none => "bad-op"
  | ["eancheck", hex] =>
    match parseHex? hex with
    | some bs => showR (fun (b : Bool) => toString b) (checkStandardB bs)
    | none => "bad-op"
  | ["expand", hex] =>
    match parseHex? hex with
    | some bs => showR showHex (convertUPCEtoUPCA bs)
    | none => "bad-op"
  | ["suppress", hex] =>
    match parseHex? hex with
    | some bs => (match suppress bs with | some e => showHex e | none => "none")
    | none => "bad-op"
  | ["canon", hex] =>
    match parseHex? hex with
    | some bs => toString (canonicalUPCE bs)
    | none => "bad-op"
  | ["wr", kind, hex] =>
    match kindOf? kind, parseHex? hex with
    | some k, some bs => showR (fun full => "ok " ++ showHex full) (writerContents k bs)
    | _, _ => "bad-op"
  | ["lg"] => showPatterns Ref.UPCEAN.lAndGPatterns
  | ["upceread", ds, gs] =>
    match digitVals? ds with
    | some ds => showR (fun s => "ok " ++ showHex s) (upceSymbolRead Ref.UPCEAN.upceParity (ds.zip (flags gs)))
    | none => "bad-op"
  | ["ean13read", ds, gs, rs] =>
    match digitVals? ds, digitVals? rs with
    | some ds, some rs =>
      showR (fun s => "ok " ++ showHex s) (ean13SymbolRead Ref.UPCEAN.ean13FirstDigit (ds.zip (flags gs)) rs)
    | _, _ => "bad-op"
  | ["upcaread", ds, gs, rs] =>
    match digitVals? ds, digitVals? rs with
    | some ds, some rs =>
      showR (fun s => "ok " ++ showHex s) (upcaSymbolRead Ref.UPCEAN.ean13FirstDigit (ds.zip (flags gs)) rs)
    | _, _ => "bad-op"
  | ["ean8read", ds] =>
    match digitVals? ds with
    | some ds => showR (fun s => "ok " ++ showHex s) (ean8SymbolRead ds)
    | none => "bad-op"
  | ["c128chk", codes] =>
    match parseNatList? codes with
    | some (st :: data) => toString (c128Check st data)
    | _ => "bad-op"
  | ["c128wsum", idxs, moved] =>
    match parseNatList? idxs with
    | some is => toString (c128WriterSum (is.zip (flags moved)) 0 1)
    | none => "bad-op"
  | ["c128acc", codes] =>
    match parseNatList? codes with
    | some (st :: cs) => toString (c128ReaderAccept st cs)
    | _ => "bad-op"
  | ["c93idx", vals, maxw] =>
    match parseNatList? vals, parseNat? maxw with
    | some vs, some m => toString (c93Check m vs)
    | _, _ => "bad-op"
  | ["c93chk", vals] =>
    match parseNatList? vals with
    | some vs => let (c, k) := c93Checks vs; s!"{c},{k}"
    | none => "bad-op"
  | ["c93acc", vals] =>
    match parseNatList? vals with
    | some vs => showR (fun (b : Bool) => toString b) (c93ReaderAccept vs)
    | none => "bad-op"
  | ["c39chk", vals] =>
    match parseNatList? vals with
    | some vs => toString (c39Check vs)
    | none => "bad-op"
  | ["ext5sum", ds] =>
    match digitVals? ds with
    | some ds => toString (ext5Checksum ds)
    | none => "bad-op"
  | ["ext", ds, gs] =>
    match digitVals? ds with
    | some ds => showR (fun t => "ok " ++ showDigits t) (extDecode Ref.UPCEAN.ean5CheckDigit (ds.zip (flags gs)))
    | none => "bad-op"
  | ["tbl", "ean13parity"] => showNatList Ref.UPCEAN.ean13FirstDigit
  | ["tbl", "upceparity"] => showPatterns Ref.UPCEAN.upceParity
  | ["tbl", "ean5parity"] => showNatList Ref.UPCEAN.ean5CheckDigit
  | ["tbl", "seta"] => ",".intercalate Ref.UPCEAN.setA
  | _ => "bad-op"

end Gzx.Driver.C10
