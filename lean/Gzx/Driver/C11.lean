import Gzx.Util
import Gzx.Ref.Aztec
import Gzx.Model.AztecDecoder
import Gzx.Model.AztecRS
import Gzx.Proofs.AztecLink
namespace Gzx.Driver.C11
open Gzx Gzx.Ref.Aztec

/-! line protocol of suite `c11`

  ref <compact|full> <layers> t:<hex text> [mc=<minCheck>]     greedy reference encoder
  ref <compact|full> <layers> s:<script>   [mc=<minCheck>]     scripted reference encoder
      script = ops separated by ',':  c<code> | L<mode> | S<mode><code> | b<hex> | f<n>:<digits> | F<n>:<digits>
      (mode letters U L M P D; f = FLG(n) in Punct mode, F = P/S FLG(n))
    -> ok size=<n> dw=<data words> hl=<bits> words=<data codewords> chk=<check words> mode=<bits> rows=<row>/<row>/...
-/

def parseMode? : Char → Option Mode
  | 'U' => some .upper | 'L' => some .lower | 'M' => some .mixed
  | 'P' => some .punct | 'D' => some .digit | _ => none

def parseDigits? (s : String) : Option (List Nat) :=
  s.toList.mapM (fun c => if '0' ≤ c ∧ c ≤ '9' then some (c.toNat - 48) else none)

def parseFlg? (s : String) : Option (Nat × List Nat) :=
  match s.splitOn ":" with
  | [n, ds] => do
    let n ← parseNat? n
    let ds ← parseDigits? ds
    pure (n, ds)
  | _ => none

def parseOp? (s : String) : Option Op :=
  match s.toList with
  | 'c' :: r => (parseNat? (String.ofList r)).map .ch
  | 'L' :: m :: [] => (parseMode? m).map .latch
  | 'S' :: m :: r => do
    let m ← parseMode? m
    let c ← parseNat? (String.ofList r)
    pure (.sh m c)
  | 'b' :: r => (parseHex? (String.ofList r)).map .bin
  | 'f' :: r => (parseFlg? (String.ofList r)).map (fun (n, ds) => .flg n ds)
  | 'F' :: r => (parseFlg? (String.ofList r)).map (fun (n, ds) => .shFlg n ds)
  | _ => none

def parseScript? (s : String) : Option (List Op) :=
  if s.isEmpty || s == "-" then some [] else (s.splitOn ",").mapM parseOp?

def showMode : Mode → String
  | .upper => "U" | .lower => "L" | .mixed => "M" | .punct => "P" | .digit => "D"

def showOp : Op → String
  | .ch c => s!"c{c}"
  | .latch m => "L" ++ showMode m
  | .sh m c => "S" ++ showMode m ++ toString c
  | .bin bs => "b" ++ showHex bs
  | .flg n ds => s!"f{n}:" ++ String.join (ds.map toString)
  | .shFlg n ds => s!"F{n}:" ++ String.join (ds.map toString)

def showScript (ops : List Op) : String :=
  if ops.isEmpty then "-" else ",".intercalate (ops.map showOp)

def showBitsD (bs : List Bool) : String := if bs.isEmpty then "-" else showBits bs

def showItem : Item → String
  | .bytes bs => "B" ++ showHex bs
  | .fnc1 => "G"
  | .eci n => s!"E{n}"

def showSymbol (s : Symbol) : String :=
  s!"ok size={s.matrix.length} dw={s.dataWords.length} hl={showBitsD s.hlBits} " ++
  s!"words={showNatList s.dataWords} chk={showNatList s.checkWords} mode={showBits s.modeMsg} " ++
  "rows=" ++ "/".intercalate (s.matrix.map showBits)

def showEncErr : EncErr → String
  | .badScript => "ERR:badscript" | .badLayers => "ERR:badlayers" | .tooLong => "ERR:toolong"
  | .internal => "ERR:internal"

def parseOpsArg? (arg : String) : Option (List Op) :=
  if arg.startsWith "t:" then (parseHex? (arg.drop 2).toString).map greedy
  else if arg.startsWith "s:" then parseScript? (arg.drop 2).toString
  else none

/-! decoder-model commands

  hld <bits|-> [reg=<registered ECI values>]           getEncodedData
     -> ok <utf8 hex>                (only the default character set involved)
      | seg <seg> <seg> ...          (L<hex> default charset, E<eci>:<hex>, R<hex> raw bytes)
      | ERR:<kind>
  decode <compact|full> <layers> <nbDatablocks> <rows> [reg=..]   Decoder.Decode
     -> <hld result> raw=<hex> nbits=<n> ec=<n> | ERR:<kind>
  extract <compact|full> <layers> <rows>               extractBits -> bit string
  pos <compact|full> <layers>                          read position of every stream bit: x:y,x:y,...
  layoutcheck <compact|full> <layers>                  decoder read order vs reference layout (run-time check)
  detect <compact|full> <shift> <mode bits>            detector tail on ideal samples of the core ring
-/

open Gzx.AztecDecoder in
def showSeg : Seg → String
  | .enc none bs => "L" ++ showHex bs
  | .enc (some e) bs => s!"E{e}:" ++ showHex bs
  | .raw bs => "R" ++ showHex bs

def showSegs (segs : List AztecDecoder.Seg) : String :=
  match AztecDecoder.renderDefault segs with
  | some u => "ok " ++ showHex u
  | none => "seg " ++ " ".intercalate (segs.map showSeg)

def regOf (opts : List String) : Nat → Bool :=
  let l := ((argOf opts "reg").bind parseNatList?).getD []
  fun n => n < 900 && l.contains n

def parseRows (s : String) : List (List Bool) :=
  if s == "-" then [] else (s.splitOn "/").map parseBits

def parseKind? (s : String) : Option Bool :=
  if s == "compact" then some true else if s == "full" then some false else none

def decHandle : List String → String
  | "hld" :: bits :: opts =>
    match AztecDecoder.getEncodedData AztecLink.refTables (regOf opts) (parseBits bits) with
    | .ok segs => showSegs segs
    | .error e => "ERR:" ++ e.tag
  | "decode" :: kind :: layers :: dw :: rows :: opts =>
    match parseKind? kind, parseNat? layers, parseNat? dw with
    | some compact, some l, some dw =>
      let m := parseRows rows
      if m.length ≠ AztecDecoder.matrixSize l compact ∨ m.any (·.length ≠ m.length) then "OUT-OF-DOMAIN"
      else
      -- `decodeFull` = `decode` with `rsModel` (the C04 model of ReedSolomonDecoder.Decode): the function the
      -- theorems aztec_decode_ref / aztec_tolerates_errors / C06Aztec.aztec_decode_total are about
      match AztecDecoder.decodeFull AztecLink.refTables (regOf opts) m compact dw l with
      | .ok d => s!"{showSegs d.segs} raw={showHex d.rawBytes} nbits={d.numBits} ec={d.ecLevel}"
      | .error e => "ERR:" ++ e.tag
    | _, _, _ => "bad-op"
  | ["extract", kind, layers, rows] =>
    match parseKind? kind, parseNat? layers with
    | some compact, some l =>
      match AztecDecoder.extractBits (parseRows rows) l compact with
      | .ok bs => showBitsD bs
      | .error e => "ERR:" ++ e.tag
    | _, _ => "bad-op"
  | ["pos", kind, layers] =>
    match parseKind? kind, parseNat? layers with
    | some compact, some l =>
      ",".intercalate ((AztecDecoder.readPositions l compact).map (fun (x, y) => s!"{x}:{y}"))
    | _, _ => "bad-op"
  | ["layoutcheck", kind, layers] =>
    match parseKind? kind, parseNat? layers with
    | some compact, some l =>
      let ps := AztecDecoder.readPositions l compact
      let cells := ps.map (fun (x, y) => cellAt compact l x y)
      let want := (List.range (totalBits compact l)).map Cell.data
      if cells == want then s!"ok {ps.length}" else "MISMATCH"
    | _, _ => "bad-op"
  | ["detect", kind, shift, mode] =>
    match parseKind? kind, parseNat? shift with
    | some compact, some sh =>
      let sides := AztecLink.sidesAt compact (parseBits mode) sh
      let length := if compact then 10 else 14
      match AztecDecoder.getRotation AztecLink.refExpectedCornerBits sides length with
      | .error e => "ERR:" ++ e.tag
      | .ok s =>
        match AztecDecoder.correctedParameters AztecDecoder.rsModel compact
                (AztecDecoder.parameterData compact sides s) with
        | .ok (l, dw) => s!"ok shift={s} layers={l} dw={dw}"
        | .error e => "ERR:" ++ e.tag
    | _, _ => "bad-op"
  | _ => "bad-op"

/-- line-protocol handler of suite `c11` (arguments after the suite name) -/
def handle : List String → String
  | "ref" :: kind :: layers :: arg :: opts =>
    match parseNat? layers, parseOpsArg? arg with
    | some l, some ops =>
      let mc := (argNat opts "mc").getD 3
      match encodeOps (kind == "compact") l ops mc with
      | .ok s => showSymbol s
      | .error e => showEncErr e
    | _, _ => "bad-op"
  | ["script", arg] =>   -- the script the greedy encoder chooses, its bits and its meaning
    match parseOpsArg? arg with
    | some ops =>
      match encodeScript .upper ops with
      | some bits => s!"ok {showScript ops} {showBitsD bits} " ++
          " ".intercalate ((scriptItems .upper ops).map showItem)
      | none => "ERR:badscript"
    | none => "bad-op"
  | args => decHandle args

end Gzx.Driver.C11
