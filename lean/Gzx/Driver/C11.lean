import Gzx.Util
namespace Gzx.Driver.C11
open Gzx

/-- line-protocol handler of suite `c11` (arguments after the suite name) -/
def handle : List String → String
  | _ => "bad-op"

end Gzx.Driver.C11
