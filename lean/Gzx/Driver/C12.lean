import Gzx.Util
namespace Gzx.Driver.C12
open Gzx

/-- line-protocol handler of suite `c12` (arguments after the suite name) -/
def handle : List String → String
  | _ => "bad-op"

end Gzx.Driver.C12
