import Gzx.Model.WriterFrontend
namespace Gzx.Driver.C12
open Gzx Gzx.Render Gzx.WriterFrontend

def keyOf? : String → Option HintKey
  | "ERROR_CORRECTION" => some .errorCorrection
  | "CHARACTER_SET" => some .characterSet
  | "DATA_MATRIX_SHAPE" => some .dataMatrixShape
  | "MIN_SIZE" => some .minSize
  | "MAX_SIZE" => some .maxSize
  | "MARGIN" => some .margin
  | "QR_VERSION" => some .qrVersion
  | "QR_MASK_PATTERN" => some .qrMaskPattern
  | "GS1_FORMAT" => some .gs1Format
  | "FORCE_CODE_SET" => some .forceCodeSet
  | _ => none

/-- `int:<n>` | `str:<hex>` | `bool:<0|1>` | `other:<tag>[:a[:b…]]` -/
def valOf? (s : String) : Option HintVal :=
  match s.splitOn ":" with
  | ["int", n] => (parseInt? n).map .int
  | ["str", h] => (parseHex? h).map .str
  | ["bool", b] => some (.bool (b == "1"))
  | "other" :: tag :: args => (args.mapM parseInt?).map (.other tag)
  | _ => none

def hintsOf? (s : String) : Option (List (HintKey × HintVal)) :=
  if s == "-" then some [] else
  (s.splitOn ",").mapM (fun kv =>
    match kv.splitOn "=" with
    | [k, v] => do let k ← keyOf? k; let v ← valOf? v; pure (k, v)
    | _ => none)

def lookupHints (kvs : List (HintKey × HintVal)) : Hints :=
  fun k => (kvs.find? (fun kv => kv.1 == k)).map (·.2)

/-- outcome of the real encoder core, measured by the harness: `na` | `ok:WxH` | `ERR:writer` | `ERR:other` | `PANIC` -/
inductive CoreOut where
  | na | ok (w h : Nat) | err (f : Fault)

def coreOf? (s : String) : Option CoreOut :=
  match s.splitOn ":" with
  | ["na"] => some .na
  | ["ok", d] =>
    match d.splitOn "x" with
    | [w, h] => do let w ← parseNat? w; let h ← parseNat? h; pure (.ok w h)
    | _ => none
  | ["ERR", "writer"] => some (.err .writer)
  | ["ERR", _] => some (.err .illegalArg)
  | ["PANIC"] => some (.err (.panic "core"))
  | _ => none

def coreModules : CoreOut → Res Modules
  | .na => .error (.panic "model asked for a core result the harness did not measure")
  | .ok w h => .ok ⟨w, h, fun _ _ => false⟩
  | .err f => .error f

def coreCode : CoreOut → Res (List Bool)
  | .na => .error (.panic "model asked for a core result the harness did not measure")
  | .ok w _ => .ok (List.replicate w false)
  | .err f => .error f

def showOut : Res Image → String
  | .ok img => s!"ok {img.w}x{img.h}"
  | .error (.panic _) => "PANIC"
  | .error .writer => "ERR:writer"
  | .error _ => "ERR:other"

/-- `enc <writer> fmt=<n> own=<0|1> empty=<0|1> runes=<n> w=<w> h=<h> cs=<-|0|1> core=<…> hints=<…>` -/
def handle : List String → String
  | "enc" :: writer :: args =>
    match argNat args "fmt", argNat args "empty", argNat args "runes", argInt args "w", argInt args "h",
          argOf args "cs", (argOf args "core").bind coreOf?, (argOf args "hints").bind hintsOf? with
    | some fmt, some empty, some runes, some w, some h, some cs, some core, some kvs =>
      let hints := lookupHints kvs
      let content : List Nat := if empty = 1 then [] else [65]
      let cc : List Nat → Hints → Res (List Bool) := fun _ _ => coreCode core
      match writer with
      | "QR" => showOut (encodeQR ⟨fun _ => cs == "1", fun _ _ _ => coreModules core⟩ content fmt w h hints)
      | "DM" => showOut (encodeDM ⟨fun _ _ _ _ => coreModules core⟩ content fmt w h hints)
      | "CODE_128" =>
        showOut (encode1D (code128Writer (fun _ => runes) cc) content fmt w h hints)
      | "CODE_39" => showOut (encode1D (code39Writer cc) content fmt w h hints)
      | "CODE_93" => showOut (encode1D (code93Writer cc) content fmt w h hints)
      | "CODABAR" => showOut (encode1D (codabarWriter cc) content fmt w h hints)
      | "ITF" => showOut (encode1D (itfWriter cc) content fmt w h hints)
      | "EAN_13" => showOut (encode1D (ean13Writer cc) content fmt w h hints)
      | "EAN_8" => showOut (encode1D (ean8Writer cc) content fmt w h hints)
      | "UPC_E" => showOut (encode1D (upcEWriter cc) content fmt w h hints)
      | "UPC_A" => showOut (encodeUPCA (ean13Writer cc) content fmt w h hints)
      | _ => "bad-writer"
    | _, _, _, _, _, _, _, _ => "bad-op"
  | ["atoi", hex] =>
    match parseHex? hex with
    | some bs => match atoi bs with | some v => s!"{v}" | none => "ERR"
    | none => "bad-op"
  | _ => "bad-op"

end Gzx.Driver.C12
