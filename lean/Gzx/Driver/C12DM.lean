import Gzx.Model.DMWriterCore
namespace Gzx.Driver.C12DM
open Gzx Gzx.DMHighLevel

/-- "WxH" or "-" -/
def parseDim (s : String) : Option (Option (Nat × Nat)) :=
  if s == "-" then some none
  else match s.splitOn "x" with
    | [w, h] => match w.toNat?, h.toNat? with
      | some w, some h => some (some (w, h))
      | _, _ => none
    | _ => none

def showRows (rows : List (List Bool)) : String := "/".intercalate (rows.map showBits)

def intDim (d : Option (Nat × Nat)) : Option WriterFrontend.HintVal :=
  d.map (fun p => .other "dim" [(p.1 : Int), (p.2 : Int)])

/-- line-protocol handler of suite `c12dm` (wp dmenc): the whole Data Matrix writer from the ISO-8859-1 bytes of
    the contents, with the float64 look-ahead `laFloat`
    * `enc <hex text> <shape> <min WxH|-> <max WxH|->`           → module rows `0101/…` of the symbol, or `ERR:kind`
    * `img <hex text> <shape> <min> <max> <width> <height>`      → `ok WxH` (image size) or `ERR:kind` -/
def handle : List String → String
  | ["enc", hex, shape, mn, mx] =>
    match parseHex? hex, shape.toNat?, parseDim mn, parseDim mx with
    | some msg, some sh, some mn, some mx =>
      match DMWriterCore.rowsOf laFloat msg ⟨sh, mn, mx⟩ with
      | .ok rows => showRows rows
      | .error e => "ERR:" ++ e.tag
    | _, _, _, _ => "bad-op"
  | ["img", hex, shape, mn, mx, w, h] =>
    match parseHex? hex, shape.toNat?, parseDim mn, parseDim mx, parseInt? w, parseInt? h with
    | some msg, some sh, some mn, some mx, some w, some h =>
      let hints : WriterFrontend.Hints := fun k =>
        if k = .dataMatrixShape then (if sh = 0 then none else some (.other "shape" [(sh : Int)]))
        else if k = .minSize then intDim mn
        else if k = .maxSize then intDim mx
        else none
      match WriterFrontend.encodeDM ⟨DMWriterCore.core laFloat some⟩ msg WriterFrontend.fmtDATA_MATRIX w h hints with
      | .ok img => s!"ok {img.w}x{img.h}"
      | .error e => "ERR:" ++ e.tag
    | _, _, _, _, _, _ => "bad-op"
  | _ => "bad-op"

end Gzx.Driver.C12DM
