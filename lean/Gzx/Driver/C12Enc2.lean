/-
  wp `enc2` — line protocol `c12e`: the Code 128 look-ahead automaton alone (`code128FindCType`,
  `code128ChooseCode` on a rune slice from a start index with an old code set) and the symbol characters /
  module pattern of the writer model for a forced code set.
-/
import Gzx.Model.OneD
import Gzx.Driver.C03
namespace Gzx.Driver.C12Enc2
open Gzx Gzx.OneD Gzx.Driver.C03

def ctName : CType → String
  | .uncodable => "0" | .oneDigit => "1" | .twoDigits => "2" | .fnc1 => "3"

def natList? (s : String) : Option (List Nat) := if s = "-" then some [] else parseNatList? s

def handle : List String → String
  | ["ctype", start, cps] =>
    match parseNat? start, natList? cps with
    | some s, some v => ctName (findCType (v.drop s))
    | _, _ => "bad-op"
  | ["choose", old, start, cps] =>
    match parseNat? old, parseNat? start, natList? cps with
    | some o, some s, some v => toString (chooseCode (v.drop s) o)
    | _, _, _ => "bad-op"
  | ["wr", forced, cps] =>
    match forcedOf? forced, natList? cps with
    | some f, some cs => okBits (code128Modules T cs f)
    | _, _ => "bad-op"
  | _ => "bad-op"

end Gzx.Driver.C12Enc2
