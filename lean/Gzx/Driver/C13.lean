import Gzx.Util
namespace Gzx.Driver.C13
open Gzx

/-- line-protocol handler of suite `c13` (arguments after the suite name) -/
def handle : List String → String
  | _ => "bad-op"

end Gzx.Driver.C13
