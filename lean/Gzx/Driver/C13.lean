import Gzx.Util
import Gzx.Ref.QR
import Gzx.Ref.DMSizes
import Gzx.Model.QRVersionChoice
namespace Gzx.Driver.C13
open Gzx Gzx.QRRef Gzx.QRVersionChoice

def modeOfName? : String → Option Mode
  | "NUMERIC" => some .numeric | "ALPHANUMERIC" => some .alnum | "BYTE" => some .byte | "KANJI" => some .kanji
  | _ => none

/-- the ECC 200 symbols of the standard as rows of the model's symbol table (the Reed-Solomon block
    fields play no part in the lookup) -/
def refSymbols : List SymbolInfo :=
  DMSizesRef.byCapacity.map (fun s =>
    let h := DMSizesRef.regions s.width s.rectangular
    let v := if s.rectangular then 1 else DMSizesRef.regions s.height false
    { rectangular := s.rectangular, dataCapacity := s.dataCapacity, errorCodewords := s.errorCodewords,
      matrixWidth := (s.width - 2 * h) / h, matrixHeight := (s.height - 2 * v) / v, dataRegions := h * v,
      rsBlockData := s.dataCapacity, rsBlockError := s.errorCodewords })

def parseShape? : String → Option Shape
  | "none" => some .none | "square" => some .square | "rect" => some .rectangle | _ => none

def parseDim? (s : String) : Option (Option (Nat × Nat)) :=
  if s == "-" then some none
  else match s.splitOn "x" with
    | [w, h] => match parseNat? w, parseNat? h with
      | some w, some h => some (some (w, h))
      | _, _ => none
    | _ => none

def showSym (s : SymbolInfo) : String := s!"{symbolWidth s}x{symbolHeight s}:{s.dataCapacity}"

def showLookup : Res (Option SymbolInfo) → String
  | .ok (some s) => showSym s
  | .ok none => "nil"
  | .error e => "ERR:" ++ e.tag

def parseHint? (s : String) : Option HintVal :=
  if s.startsWith "int:" then (parseInt? (s.drop 4).toString).map .int
  else if s.startsWith "str:" then some (.str (s.drop 4).toString)
  else if s == "other" then some .other
  else none

/-- capacity in characters from the reference formulae: the largest n whose payload fits -/
def refCapacity (m : Mode) (ec : EC) (v : Nat) : Nat :=
  let B := 8 * dataCodewords v ec - 4 - countBits m v
  match m with
  | .numeric => 3 * (B / 10) + (if B % 10 ≥ 7 then 2 else if B % 10 ≥ 4 then 1 else 0)
  | .alnum => 2 * (B / 11) + (if B % 11 ≥ 6 then 1 else 0)
  | .byte => B / 8
  | .kanji => B / 13

def updSeq (cur : Option SymbolInfo) (shape : Shape) (mn mx : Option (Nat × Nat)) : List Nat → List String
  | [] => []
  | l :: ls =>
    match updateSymbolInfoByLength refSymbols cur l shape mn mx with
    | .ok r => showLookup (.ok r) :: updSeq r shape mn mx ls
    | .error e => ("ERR:" ++ e.tag) :: updSeq none shape mn mx ls

/-- line-protocol handler of suite `c13` (arguments after the suite name) -/
def handle : List String → String
  | ["caps"] =>
    ";".intercalate (Mode.all.flatMap (fun m => EC.all.map (fun ec =>
      showNatList ((List.range 40).map (fun i => refCapacity m ec (i + 1))))))
  | "ver" :: args =>
    match (argOf args "ec").bind EC.ofName?, (argOf args "mode").bind modeOfName?, argNat args "hdr", argNat args "n" with
    | some ec, some m, some hdr, some n =>
      let hint := (argOf args "hint").bind parseHint?
      match encodeVersion refTables ec m hdr (dataBitsLen m n) n hint with
      | .ok v => s!"ok {v.number}"
      | .error e => "ERR:" ++ e.tag
    | _, _, _, _ => "bad-op"
  | ["rec", ec, m, hdr, data] =>
    match EC.ofName? ec, modeOfName? m, parseNat? hdr, parseNat? data with
    | some ec, some m, some hdr, some data =>
      match recommendVersion refTables ec m hdr data with
      | .ok v => s!"ok {v.number}"
      | .error e => "ERR:" ++ e.tag
    | _, _, _, _ => "bad-op"
  | ["mode", text] =>
    match parseHex? text with
    | some t => (chooseMode t none).name
    | none => "bad-op"
  | ["mode", text, sjis] =>
    match parseHex? text, parseHex? sjis with
    | some t, some s => (chooseMode t (some s)).name
    | _, _ => "bad-op"
  | ["dmref"] => ";".intercalate (refSymbols.map showSym)
  | ["lookup", n, shape, mn, mx, fail] =>
    match parseNat? n, parseShape? shape, parseDim? mn, parseDim? mx with
    | some n, some shape, some mn, some mx => showLookup (symbolLookup refSymbols n shape mn mx (fail == "1"))
    | _, _, _, _ => "bad-op"
  | ["writer", k, shape, mn, mx] =>
    match parseNat? k, parseShape? shape, parseDim? mn, parseDim? mx with
    | some k, some shape, some mn, some mx =>
      match writerSymbol refSymbols k shape mn mx with
      | .ok s => s!"{symbolWidth s}x{symbolHeight s}"
      | .error e => "ERR:" ++ e.tag
    | _, _, _, _ => "bad-op"
  | ["upd", shape, mn, mx, seq] =>
    match parseShape? shape, parseDim? mn, parseDim? mx, parseNatList? seq with
    | some shape, some mn, some mx, some ls => ";".intercalate (updSeq none shape mn mx ls)
    | _, _, _, _ => "bad-op"
  | _ => "bad-op"

end Gzx.Driver.C13
