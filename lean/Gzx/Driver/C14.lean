import Gzx.Util
namespace Gzx.Driver.C14
open Gzx

/-- line-protocol handler of suite `c14` (arguments after the suite name) -/
def handle : List String → String
  | _ => "bad-op"

end Gzx.Driver.C14
