import Gzx.Model.Render
namespace Gzx.Driver.C14
open Gzx Gzx.Render

/-- module grid from a row-major 0/1 string (driver-side decoding only; the model takes the grid as a function) -/
def bitArray (bits : String) : Array Bool := (bits.toList.map (fun c => c == '1')).toArray

def gridOf (mw : Nat) (arr : Array Bool) (i j : Nat) : Bool := arr.getD (j * mw + i) false

def showOut : Res Image → String
  | .ok img => showImage img
  | .error (.panic _) => "PANIC"
  | .error e => "ERR:" ++ e.tag

/-- line-protocol handler of suite `c14` (arguments after the suite name)
    * `qr <mw> <mh> <bits> <quiet> <reqW> <reqH>`
    * `dm <mw> <mh> <bits> <reqW> <reqH>`
    * `1d <bits> <reqW> <reqH> <margin>`
    answer: `ok <W>x<H> <rows joined by '/' | h=<hash>>`, `ERR:<kind>` or `PANIC` -/
def handle : List String → String
  | ["qr", mw, mh, bits, q, w, h] =>
    match parseNat? mw, parseNat? mh, parseInt? q, parseInt? w, parseInt? h with
    | some mw, some mh, some q, some w, some h => let arr := bitArray bits; showOut (renderQR mw mh (gridOf mw arr) q w h)
    | _, _, _, _, _ => "bad-op"
  | ["dm", mw, mh, bits, w, h] =>
    match parseNat? mw, parseNat? mh, parseInt? w, parseInt? h with
    | some mw, some mh, some w, some h => let arr := bitArray bits; showOut (renderDM mw mh (gridOf mw arr) w h)
    | _, _, _, _ => "bad-op"
  | ["1d", bits, w, h, mg] =>
    match parseInt? w, parseInt? h, parseInt? mg with
    | some w, some h, some mg => showOut (render1D (parseBits bits) w h mg)
    | _, _, _ => "bad-op"
  | _ => "bad-op"

end Gzx.Driver.C14
