import Gzx.Driver.C01
namespace Gzx.Driver.C15
open Gzx Gzx.QRDec Gzx.ECI

def reg : Registry := QRTables.registry

def showEntry (e : Entry) : String :=
  let v := match e.values with | v :: _ => toString v | [] => "none"
  s!"{e.name}|{v}|{e.iana}"

def showMode : EncMode → String
  | .numeric => "NUMERIC" | .alphanumeric => "ALPHANUMERIC" | .byte => "BYTE" | .kanji => "KANJI"

/-- `<text>` of an encoder hint is hex (it may contain spaces) -/
def parseEncHint (s : String) : Option (Option EncHint) :=
  if s == "-" then some none
  else match s.splitOn ":" with
    | [k, hex] =>
      match parseHex? hex with
      | some bs =>
        let txt := String.ofList (bs.map Char.ofNat)
        if k == "s" then some (some ⟨txt, true⟩) else if k == "v" then some (some ⟨txt, false⟩) else none
      | none => none
    | _ => none

def handle : List String → String
  | ["guess", hex, hint] =>
    match parseHex? hex, C01.parseHint hint with
    | some bs, some h =>
      match guessCharset reg bs h with
      | .ok cs => cs.show
      | .error e => "ERR:" ++ e.tag
    | _, _ => "bad-op"
  | ["regv", v] =>
    match parseInt? v with
    | some v =>
      match byValue reg v with
      | .ok (some e) => showEntry e
      | .ok none => "nil"
      | .error e => "ERR:" ++ e.tag
    | none => "bad-op"
  | ["regn", hex] =>
    match parseHex? hex with
    | some bs =>
      match byName reg (String.ofList (bs.map Char.ofNat)) with
      | some e => showEntry e
      | none => "nil"
    | none => "bad-op"
  | ["regsize"] => toString reg.length
  | ["regdump"] =>
    ";".intercalate (reg.map (fun e =>
      s!"{e.name}|{",".intercalate (e.values.map toString)}|{",".intercalate e.others}|{e.iana}"))
  | ["enc", hex, hint, sjis] =>
    match parseHex? hex, parseEncHint hint with
    | some content, some h =>
      let sj : Option (List Nat) := if sjis == "x" then none else parseHex? sjis
      match encCharset reg h with
      | .error e => "ERR:" ++ e.tag
      | .ok cs =>
        let isSjis := match cs with
          | some e => e.charset == "golang.org/x/text/encoding/japanese.ShiftJIS"
          | none => false
        let mode := chooseMode content isSjis sj
        match encEciHeader reg h mode with
        | .error e => "ERR:" ++ e.tag
        | .ok hdr =>
          let eci := if hdr.isEmpty then "-" else toString (natOfBits (hdr.drop 4))
          s!"mode={showMode mode} eci={eci}"
    | _, _ => "bad-op"
  | "parse" :: rest => C01.handle ("parse" :: rest)
  | _ => "bad-op"

end Gzx.Driver.C15
