import Gzx.Util
namespace Gzx.Driver.C15
open Gzx

/-- line-protocol handler of suite `c15` (arguments after the suite name) -/
def handle : List String → String
  | _ => "bad-op"

end Gzx.Driver.C15
