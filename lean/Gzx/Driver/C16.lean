import Gzx.Util
namespace Gzx.Driver.C16
open Gzx

/-- line-protocol handler of suite `c16` (arguments after the suite name) -/
def handle : List String → String
  | _ => "bad-op"

end Gzx.Driver.C16
