/-
  Line protocol of suite `c16`.

    c16 wm <ctor>;<op>;<op>…     BitMatrix sequence on the WORD model
    c16 sm <ctor>;<op>;<op>…     the same sequence on the SPEC model
    c16 wa <ctor>;<op>;…         BitArray sequence on the WORD model
    c16 sa <ctor>;<op>;…         the same on the SPEC model

  A token is `name,arg,arg…` (no blanks).  The answer is one string per token joined by `|`:
  `<answer>@<state>`; `<answer>` is `ok`, a query result, or `ERR:illegalarg`; a panic prints
  `PANIC` and ends the sequence (the state is unspecified afterwards).
  Matrix state: `w,h,rowSize:<row words hex>/…;E=<rect>;TL=<pt>;BR=<pt>` (the three whole-matrix
  queries are part of the state string so they are compared after every step).
  Array state: `size,sizeInBytes:<words hex>` with zero words beyond ceil(size/32) dropped (spare
  capacity is an allocation policy, not part of the container's value).
  Literals: array `E<01…>` (NewEmptyBitArray + AppendBit) / `N<01…>` (NewBitArray(n) + Set), `-` = nil;
  matrix `w:h:<01… row major>`; byte strings in hex (`-` = empty).
-/
import Gzx.Model.Bits
namespace Gzx.Driver.C16
open Gzx Gzx.Bits

def hex32 (w : Nat) : String :=
  String.ofList [hexDigit ((w / 268435456) % 16), hexDigit ((w / 16777216) % 16),
    hexDigit ((w / 1048576) % 16), hexDigit ((w / 65536) % 16), hexDigit ((w / 4096) % 16),
    hexDigit ((w / 256) % 16), hexDigit ((w / 16) % 16), hexDigit (w % 16)]

def hexWords (ws : List Nat) : String := String.join (ws.map hex32)

/-- little-endian packing of a bit list into 32-bit words (driver-side canonical form of the spec state) -/
def packFuel : Nat → List Bool → List Nat
  | 0, _ => []
  | fuel + 1, bs =>
    if bs.isEmpty then []
    else (bs.take 32).foldr (fun b acc => 2 * acc + b.toNat) 0 :: packFuel fuel (bs.drop 32)

def packBits (bs : List Bool) : List Nat := packFuel (bs.length + 1) bs

def showOptPt (tag : String) : Option (List Nat) → String
  | none => tag ++ "=nil"
  | some xs => tag ++ "=" ++ showNatList xs

def nat! (s : String) : Nat := (parseNat? s).getD 0
def hex! (s : String) : List Nat := (parseHex? s).getD []
def showHexS (bs : List Nat) : String := showHex bs

/-! ### literals -/

inductive ArrLit where
  | nil
  | viaEmpty (bits : List Bool)
  | viaNew (bits : List Bool)

def parseArrLit (s : String) : ArrLit :=
  if s == "-" then .nil
  else if s.startsWith "E" then .viaEmpty (parseBits (s.drop 1).toString)
  else .viaNew (parseBits (s.drop 1).toString)

def ArrLit.bits : ArrLit → Option (List Bool)
  | .nil => none
  | .viaEmpty b => some b
  | .viaNew b => some b

/-- build the literal with the word-level operations the harness uses on the real type -/
def wArrOfLit : ArrLit → Res (Option WArr)
  | .nil => .ok none
  | .viaEmpty bits => (bits.foldlM (fun (a : WArr) b => a.appendBit b) WArr.empty).map some
  | .viaNew bits =>
    ((bits.zipIdx).foldlM (fun (a : WArr) (p : Bool × Nat) => if p.1 then a.set p.2 else pure a) (WArr.new bits.length)).map some

def chunkRows (w h : Nat) (bits : List Bool) : List (List Bool) :=
  (List.range h).map (fun y => (bits.drop (y * w)).take w)

/-- matrix literal `w:h:bits` → (w, h, rows) -/
def parseMatLit (s : String) : Nat × Nat × List (List Bool) :=
  match s.splitOn ":" with
  | [w, h, bits] => (nat! w, nat! h, chunkRows (nat! w) (nat! h) (parseBits bits))
  | _ => (0, 0, [])

def wMatOfLit (l : Nat × Nat × List (List Bool)) : Res WMat :=
  match WMat.new l.1 l.2.1 with
  | .error e => .error e
  | .ok m0 =>
    (l.2.2.zipIdx).foldlM (fun m (r, y) =>
      (r.zipIdx).foldlM (fun m (b, x) => if b then m.set x y else pure m) m) m0

/-! ### state strings -/

def rowsOfWords (rs : Nat) : Nat → List Nat → List String
  | 0, _ => []
  | h + 1, ws => hexWords (ws.take rs) :: rowsOfWords rs h (ws.drop rs)

def wMatState (m : WMat) : String :=
  let q (r : Res (Option (List Nat))) (tag : String) : String :=
    match r with
    | .ok v => showOptPt tag v
    | .error e => tag ++ "=ERR:" ++ e.tag
  s!"{m.width},{m.height},{m.rowSize}:" ++ "/".intercalate (rowsOfWords m.rowSize m.height m.words) ++
    ";" ++ q m.getEnclosingRectangle "E" ++ ";" ++ q m.getTopLeftOnBit "TL" ++ ";" ++ q m.getBottomRightOnBit "BR"

def sMatState (m : SMat) : String :=
  s!"{m.width},{m.height},{(m.width + 31) / 32}:" ++
    "/".intercalate (m.rows.map (fun r => hexWords (packBits r))) ++
    ";" ++ showOptPt "E" m.enclosingRectangle ++ ";" ++ showOptPt "TL" m.topLeftOnBit ++
    ";" ++ showOptPt "BR" m.bottomRightOnBit

/-- drop zero words beyond ceil(size/32) -/
def canonWords (size : Nat) (ws : List Nat) : List Nat :=
  let n := (size + 31) / 32
  ws.take n ++ ((ws.drop n).reverse.dropWhile (fun w => w == 0)).reverse

def wArrCanon (a : WArr) : String :=
  s!"{a.getSize},{a.getSizeInBytes}:" ++ hexWords (canonWords a.size a.words)

def wArrState (a : WArr) : String := wArrCanon a

def sArrState (a : SArr) : String :=
  s!"{SArr.size a},{SArr.sizeInBytes a}:" ++ hexWords (packBits a)

/-! ### step results -/

inductive Step (σ : Type) where
  | next (answer : String) (s : σ)     -- answer + (possibly new) state
  | stop (answer : String)             -- panic: sequence ends

def mutS {σ} (old : σ) : Res σ → Step σ
  | .ok s => .next "ok" s
  | .error (.panic _) => .stop "PANIC"
  | .error e => .next ("ERR:" ++ e.tag) old

def qryS {σ α} (old : σ) (f : α → String) : Res α → Step σ
  | .ok a => .next (f a) old
  | .error (.panic _) => .stop "PANIC"
  | .error e => .next ("ERR:" ++ e.tag) old

def b01 (b : Bool) : String := if b then "1" else "0"

/-! ### matrix, word model -/

def wmCtor (t : List String) : Res WMat :=
  match t with
  | ["new", w, h] => WMat.new (nat! w) (nat! h)
  | ["sq", d] => WMat.new (nat! d) (nat! d)
  | ["pb", rows] => WMat.ofBoolMap (if rows.isEmpty then [] else (rows.splitOn "/").map parseBits)
  | ["ps", s, a, b] => WMat.parse (hex! s) (hex! a) (hex! b)
  | _ => .error .format

def wmStep (m : WMat) (t : List String) : Step WMat :=
  match t with
  | ["get", x, y] => qryS m b01 (m.get (nat! x) (nat! y))
  | ["at", x, y] => qryS m toString (m.atGray (nat! x) (nat! y))
  | ["set", x, y] => mutS m (m.set (nat! x) (nat! y))
  | ["unset", x, y] => mutS m (m.unset (nat! x) (nat! y))
  | ["flip", x, y] => mutS m (m.flip (nat! x) (nat! y))
  | ["flipAll"] => mutS m m.flipAll
  | ["clear"] => .next "ok" m.clear
  | ["rot180"] => mutS m m.rotate180
  | ["rot90"] => mutS m m.rotate90
  | ["xor", lit] =>
    match wMatOfLit (parseMatLit lit) with
    | .ok mask => mutS m (m.xor mask)
    | .error _ => .stop "bad-literal"
  | ["setRegion", l, tp, w, h] => mutS m (m.setRegion (nat! l) (nat! tp) (nat! w) (nat! h))
  | ["getRow", y, lit] =>
    match wArrOfLit (parseArrLit lit) with
    | .ok row => qryS m wArrState (m.getRow (nat! y) row)
    | .error _ => .stop "bad-literal"
  | ["setRow", y, lit] =>
    match wArrOfLit (parseArrLit lit) with
    | .ok (some row) => mutS m (m.setRow (nat! y) row)
    | _ => .stop "bad-literal"
  | ["toStr", a, b, sep] => qryS m showHexS (m.toStr (hex! a) (hex! b) (hex! sep))
  | _ => .stop "bad-op"

/-! ### matrix, spec model -/

def smCtor (t : List String) : Res SMat :=
  match t with
  | ["new", w, h] => SMat.new (nat! w) (nat! h)
  | ["sq", d] => SMat.new (nat! d) (nat! d)
  | ["pb", rows] => SMat.ofBoolMap (if rows.isEmpty then [] else (rows.splitOn "/").map parseBits)
  | ["ps", s, a, b] => SMat.parse (hex! s) (hex! a) (hex! b)
  | _ => .error .format

def smStep (m : SMat) (t : List String) : Step SMat :=
  match t with
  | ["get", x, y] => .next (b01 (m.get (nat! x) (nat! y))) m
  | ["at", x, y] => .next (toString (m.atGray (nat! x) (nat! y))) m
  | ["set", x, y] => .next "ok" (m.set (nat! x) (nat! y))
  | ["unset", x, y] => .next "ok" (m.unset (nat! x) (nat! y))
  | ["flip", x, y] => .next "ok" (m.flip (nat! x) (nat! y))
  | ["flipAll"] => .next "ok" m.flipAll
  | ["clear"] => .next "ok" m.clear
  | ["rot180"] => .next "ok" m.rotate180
  | ["rot90"] => .next "ok" m.rotate90
  | ["xor", lit] =>
    let l := parseMatLit lit
    mutS m (m.xor ⟨l.1, l.2.1, l.2.2⟩)
  | ["setRegion", l, tp, w, h] => mutS m (m.setRegion (nat! l) (nat! tp) (nat! w) (nat! h))
  | ["getRow", y, lit] =>
    let r := m.getRow (nat! y) (parseArrLit lit).bits
    .next (sArrState r) m
  | ["setRow", y, lit] =>
    match (parseArrLit lit).bits with
    | some row => .next "ok" (m.setRow (nat! y) row)
    | none => .stop "bad-literal"
  | ["toStr", a, b, sep] => .next (showHexS (m.toStr (hex! a) (hex! b) (hex! sep))) m
  | _ => .stop "bad-op"

/-! ### array, word model -/

def waCtor (t : List String) : Res WArr :=
  match t with
  | ["empty"] => .ok WArr.empty
  | ["new", n] => .ok (WArr.new (nat! n))
  | _ => .error .format

def waStep (a : WArr) (t : List String) : Step WArr :=
  match t with
  | ["get", i] => qryS a b01 (a.get (nat! i))
  | ["set", i] => mutS a (a.set (nat! i))
  | ["flip", i] => mutS a (a.flip (nat! i))
  | ["nextSet", f] => qryS a toString (a.getNextSet (nat! f))
  | ["nextUnset", f] => qryS a toString (a.getNextUnset (nat! f))
  | ["setBulk", i, v] => mutS a (a.setBulk (nat! i) (nat! v))
  | ["setRange", s, e] => mutS a (a.setRange (nat! s) (nat! e))
  | ["clear"] => .next "ok" a.clear
  | ["isRange", s, e, v] => qryS a b01 (a.isRange (nat! s) (nat! e) (v == "1"))
  | ["appendBit", b] => mutS a (a.appendBit (b == "1"))
  | ["appendBits", v, n] => mutS a (a.appendBits (nat! v) (nat! n))
  | ["appendArr", lit] =>
    match wArrOfLit (parseArrLit lit) with
    | .ok (some o) => mutS a (a.appendBitArray o)
    | _ => .stop "bad-literal"
  | ["appendSelf"] => mutS a (a.appendBitArray a)
  | ["xor", lit] =>
    match wArrOfLit (parseArrLit lit) with
    | .ok (some o) => mutS a (a.xor o)
    | _ => .stop "bad-literal"
  | ["xorSelf"] => mutS a (a.xor a)
  | ["toBytes", bo, arr, off, n] => qryS a showHexS (a.toBytes (nat! bo) (hex! arr) (nat! off) (nat! n))
  | ["reverse"] => mutS a a.reverse
  | ["str"] => qryS a showHexS a.toStr
  | _ => .stop "bad-op"

/-! ### array, spec model -/

def saCtor (t : List String) : Res SArr :=
  match t with
  | ["empty"] => .ok []
  | ["new", n] => .ok (List.replicate (nat! n) false)
  | _ => .error .format

def saStep (a : SArr) (t : List String) : Step SArr :=
  match t with
  | ["get", i] => .next (b01 (SArr.get a (nat! i))) a
  | ["set", i] => .next "ok" (SArr.set a (nat! i))
  | ["flip", i] => .next "ok" (SArr.flip a (nat! i))
  | ["nextSet", f] => .next (toString (SArr.nextSet a (nat! f))) a
  | ["nextUnset", f] => .next (toString (SArr.nextUnset a (nat! f))) a
  | ["setBulk", i, v] => .next "ok" (SArr.setBulk a (nat! i) (nat! v))
  | ["setRange", s, e] => mutS a (SArr.setRange a (nat! s) (nat! e))
  | ["clear"] => .next "ok" (SArr.clear a)
  | ["isRange", s, e, v] => qryS a b01 (SArr.isRange a (nat! s) (nat! e) (v == "1"))
  | ["appendBit", b] => .next "ok" (SArr.appendBit a (b == "1"))
  | ["appendBits", v, n] => mutS a (SArr.appendBits a (nat! v) (nat! n))
  | ["appendArr", lit] =>
    match (parseArrLit lit).bits with
    | some o => .next "ok" (SArr.appendBitArray a o)
    | none => .stop "bad-literal"
  | ["appendSelf"] => .next "ok" (SArr.appendBitArray a a)
  | ["xor", lit] =>
    match (parseArrLit lit).bits with
    | some o => mutS a (SArr.xor a o)
    | none => .stop "bad-literal"
  | ["xorSelf"] => mutS a (SArr.xor a a)
  | ["toBytes", bo, arr, off, n] => .next (showHexS (SArr.toBytes a (nat! bo) (hex! arr) (nat! off) (nat! n))) a
  | ["reverse"] => .next "ok" (SArr.reverse a)
  | ["str"] => .next (showHexS (SArr.toStr a)) a
  | _ => .stop "bad-op"

/-! ### sequence runner -/

def runSeq {σ} (step : σ → List String → Step σ) (showSt : σ → String) :
    List String → σ → List String → List String
  | [], _, acc => acc.reverse
  | t :: ts, s, acc =>
    match step s (t.splitOn ",") with
    | .next ans s' => runSeq step showSt ts s' ((ans ++ "@" ++ showSt s') :: acc)
    | .stop ans => (ans :: acc).reverse

def runAll {σ} (ctor : List String → Res σ) (step : σ → List String → Step σ) (showSt : σ → String)
    (seq : String) : String :=
  match seq.splitOn ";" with
  | [] => "bad-op"
  | c :: ops =>
    match ctor (c.splitOn ",") with
    | .error (.panic _) => "PANIC"
    | .error e => "ERR:" ++ e.tag
    | .ok s => "|".intercalate (runSeq step showSt ops s ["ok@" ++ showSt s])

/-- line-protocol handler of suite `c16` (arguments after the suite name) -/
def handle : List String → String
  | ["wm", seq] => runAll wmCtor wmStep wMatState seq
  | ["sm", seq] => runAll smCtor smStep sMatState seq
  | ["wa", seq] => runAll waCtor waStep wArrState seq
  | ["sa", seq] => runAll saCtor saStep sArrState seq
  | _ => "bad-op"

end Gzx.Driver.C16
