import Gzx.Util
namespace Gzx.Driver.C17
open Gzx

/-- line-protocol handler of suite `c17` (arguments after the suite name) -/
def handle : List String → String
  | _ => "bad-op"

end Gzx.Driver.C17
