import Gzx.Model.Luminance
import Gzx.Model.Binarizer
namespace Gzx.Driver.C17
open Gzx Gzx.Luminance Gzx.Binarizer

def showV {α} (f : α → String) : VRes α → String
  | .ok a => f a
  | .error (.fault (.panic _)) => "PANIC"
  | .error e => "ERR:" ++ e.tag

def showR {α} (f : α → String) : Res α → String
  | .ok a => f a
  | .error (.panic _) => "PANIC"
  | .error e => "ERR:" ++ e.tag

def checksum (bs : List Nat) : Nat :=
  bs.foldl (fun acc v => (acc * 31 + v + 1) % 1000000007) 0

def flag (b : Bool) : String := if b then "1" else "0"

/-- executes the op tokens of one `seq` line, returns the output tokens (reversed) -/
def runOps : View → List String → List String → List String
  | _, [], acc => acc
  | v, tok :: rest, acc =>
    match tok.splitOn ":" with
    | ["s"] => runOps v rest (("c" ++ flag (isCropSupported v) ++ "r" ++ flag (isRotateSupported v)) :: acc)
    | ["m"] =>
      let out := showV (fun m => s!"{v.w}x{v.h}=" ++ showHex (m.take (v.w * v.h))) (getMatrix v)
      runOps v rest (out :: acc)
    | ["k"] =>
      let out := showV (fun m => s!"{v.w}x{v.h}#{checksum (m.take (v.w * v.h))}") (getMatrix v)
      runOps v rest (out :: acc)
    | ["g", y, n] =>
      match parseInt? y, parseInt? n with
      | some y, some n =>
        let buf := if n < 0 then none else some (List.replicate n.toNat 170)
        runOps v rest (showV showHex (getRow v y buf) :: acc)
      | _, _ => "bad-op" :: acc
    | ["c", l, t, w, h] =>
      match parseInt? l, parseInt? t, parseInt? w, parseInt? h with
      | some l, some t, some w, some h =>
        match cropI v l t w h with
        | .ok v' => runOps v' rest ("ok" :: acc)
        | e => runOps v rest (showV (fun _ => "ok") e :: acc)
      | _, _, _, _ => "bad-op" :: acc
    | ["i"] => runOps (invert v) rest ("ok" :: acc)
    | ["r"] =>
      match rotateCCW v with
      | .ok v' => runOps v' rest ("ok" :: acc)
      | e => runOps v rest (showV (fun _ => "ok") e :: acc)
    | ["r45"] =>
      match rotateCCW45 v with
      | .ok v' => runOps v' rest ("ok" :: acc)
      | e => runOps v rest (showV (fun _ => "ok") e :: acc)
    | _ => "bad-op" :: acc

def parseQuad? (s : String) : Option (Nat × Nat × Nat × Nat) :=
  match (s.splitOn ":").mapM parseNat? with
  | some [r, g, b, a] => some (r, g, b, a)
  | _ => none

def showBitRows (w h : Nat) (sets : List (Nat × Nat)) : String :=
  let a := render w h sets
  "/".intercalate ((List.range h).map (fun y =>
    String.ofList ((List.range w).map (fun x => if a.getD (y * w + x) false then '1' else '0'))))

def handle : List String → String
  | "seq" :: kind :: dw :: dh :: left :: top :: w :: h :: rev :: data :: ops =>
    match parseNat? dw, parseNat? dh, parseInt? left, parseInt? top, parseNat? w, parseNat? h, parseHex? data with
    | some dw, some dh, some left, some top, some w, some h, some data =>
      let start : VRes View :=
        if kind == "rgb" then .ok (ofLuminances .rgb w h data)
        else if kind == "img" then .ok (ofLuminances .img w h data)
        else newYUV data dw dh left top w h (rev == "1")
      match start with
      | .ok v => ";".intercalate (runOps v ops []).reverse
      | e => showV (fun _ => "ok") e
    | _, _, _, _, _, _, _ => "bad-op"
  | ["conv", "rgb", ps] =>
    match parseIntList? ps with
    | some ps => showHex (ps.map lumOfRGBInt)
    | none => "bad-op"
  | ["conv", "gray", ps] =>
    match parseNatList? ps with
    | some ps => showHex ps
    | none => "bad-op"
  | ["conv", "rgba16", qs] =>
    match (qs.splitOn ",").mapM parseQuad? with
    | some qs => showHex (qs.map (fun (r, g, b, a) => lumOfRGBA16 r g b a))
    | none => "bad-op"
  | ["ebp", bs] =>
    match parseNatList? bs with
    | some bs => showR toString (estimateBlackPoint bs)
    | none => "bad-op"
  | ["brow", row] =>
    match parseHex? row with
    | some row => showR showBits (blackRow row)
    | none => "bad-op"
  | ["glob", w, h, data] =>
    match parseNat? w, parseNat? h, parseHex? data with
    | some w, some h, some data => showR (showBitRows w h) (globalSets data.toArray w h)
    | _, _, _ => "bad-op"
  | ["hyb", w, h, data] =>
    match parseNat? w, parseNat? h, parseHex? data with
    | some w, some h, some data => showR (showBitRows w h) (hybridSets data.toArray w h)
    | _, _, _ => "bad-op"
  | ["hbp", w, h, data] =>
    match parseNat? w, parseNat? h, parseHex? data with
    | some w, some h, some data =>
      showR (fun rows => "/".intercalate (rows.map showNatList)) (calculateBlackPoints data.toArray w h)
    | _, _, _ => "bad-op"
  | _ => "bad-op"

end Gzx.Driver.C17
