import Gzx.Util
import Gzx.Model.Interference
namespace Gzx.Driver.C18
open Gzx Gzx.Interference

def splitList (s : String) : List String :=
  if s == "-" || s.isEmpty then [] else s.splitOn ";"

/-- a tiny step language for `run`: `r<reg>.<loc>` read, `w<loc>.<reg>.<k>` write reg+k to loc -/
def parseStep (t : String) : Option Step :=
  match t.toList with
  | 'r' :: rest =>
    match (String.ofList rest).splitOn "." with
    | [a, b] => match a.toNat?, b.toNat? with
      | some r, some l => some (.read r l)
      | _, _ => none
    | _ => none
  | 'w' :: rest =>
    match (String.ofList rest).splitOn "." with
    | [a, b, c] => match a.toNat?, b.toNat?, c.toNat? with
      | some l, some r, some k => some (.write l (fun p => p r + (k : Int)))
      | _, _, _ => none
    | _ => none
  | _ => none

def parseProg (s : String) : Option (List Step) := (splitList s).mapM parseStep

/-- line-protocol handler of suite `c18` -/
def handle : List String → String
  | ["premise", writes, allowed] =>
    -- the effect summary of the scanner against the reviewed allow-list: the decidable form of
    -- `Independent.noSharedWrite` for the functions reachable outside init
    match premiseViolations (splitList writes) (splitList allowed) with
    | [] => "ok"
    | vs => "violated:" ++ ";".intercalate vs
  | ["run", p0, p1, sched, regs] =>
    -- two goroutines, schedule of 0/1 digits; prints registers 0..regs-1 of both and G[0..7]
    match parseProg p0, parseProg p1, regs.toNat? with
    | some a, some b, some n =>
      let prog : Gid → List Step := fun g => if g = 0 then a else if g = 1 then b else []
      let sc := sched.toList.filterMap (fun c => if c = '0' then some 0 else if c = '1' then some 1 else none)
      let st := run prog sc (init (fun _ _ => 0) (fun _ => 0))
      let show1 (g : Nat) := ",".intercalate ((List.range n).map (fun r => toString (st.P g r)))
      s!"{show1 0}|{show1 1}|" ++ ",".intercalate ((List.range 8).map (fun l => toString (st.G l)))
    | _, _, _ => "bad-op"
  | _ => "bad-op"

end Gzx.Driver.C18
