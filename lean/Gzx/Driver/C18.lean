import Gzx.Util
namespace Gzx.Driver.C18
open Gzx

/-- line-protocol handler of suite `c18` (arguments after the suite name) -/
def handle : List String → String
  | _ => "bad-op"

end Gzx.Driver.C18
