/-
  Driver commands of work package c18gen (suite prefix `c18g`): the generated effect summary and the reviewed
  lists decoded back to text (so that the harness can compare the kernel-visible Nat codes with its own scan and
  with the corpus text files), the decidable coverage check on them, and the merge checkers on arbitrary lists.
-/
import Gzx.Util
import Gzx.Model.EffectSummary
import Gzx.Model.EffectLink
import Gzx.Model.LazyInit
import Gzx.Gen.C18Effects
import Gzx.Ref.C18Allowed
namespace Gzx.Driver.C18Gen
open Gzx Gzx.EffectSummary Gzx.EffectLink Gzx.Interference Gzx.LazyInit

def showCodes (xs : List Nat) : String :=
  if xs.isEmpty then "-" else ";".intercalate (xs.map decodeName)

def showPairs (xs : List (Nat × Nat)) : String :=
  if xs.isEmpty then "-" else ";".intercalate (xs.map (fun p => decodeName p.1 ++ ">" ++ decodeName p.2))

def parseCodes (s : String) : Option (List Nat) :=
  if s == "-" || s.isEmpty then some [] else (s.splitOn ",").mapM (·.toNat?)

def parsePairs (s : String) : Option (List (Nat × Nat)) :=
  if s == "-" || s.isEmpty then some [] else
    (s.splitOn ",").mapM (fun t => match t.splitOn ":" with
      | [a, b] => match a.toNat?, b.toNat? with
        | some x, some y => some (x, y)
        | _, _ => none
      | _ => none)

def libSummary : Summary :=
  ⟨Gen.C18Effects.vars, Gen.C18Effects.sharedWrites, Gen.C18Effects.escapes, Gen.C18Effects.sharedTypeWrites⟩
def reviewed : Summary :=
  ⟨[], Ref.C18Allowed.sharedWrites, Ref.C18Allowed.escapes, Ref.C18Allowed.sharedTypeWrites⟩

def listByName : String → Option String
  | "vars" => some (showCodes Gen.C18Effects.vars)
  | "runtimeWrittenVars" => some (showCodes Gen.C18Effects.runtimeWrittenVars)
  | "sharedWrites" => some (showPairs Gen.C18Effects.sharedWrites)
  | "initWrites" => some (showPairs Gen.C18Effects.initWrites)
  | "escapes" => some (showPairs Gen.C18Effects.escapes)
  | "instanceWrites" => some (showCodes Gen.C18Effects.instanceWrites)
  | "sharedTypes" => some (showCodes Gen.C18Effects.sharedTypes)
  | "sharedTypeWrites" => some (showPairs Gen.C18Effects.sharedTypeWrites)
  | "aliasFieldWrites" => some (showPairs Gen.C18Effects.aliasFieldWrites)
  | "syncUses" => some (showPairs Gen.C18Effects.syncUses)
  | "goStmts" => some (showCodes Gen.C18Effects.goStmts)
  | "chanOps" => some (showCodes Gen.C18Effects.chanOps)
  | "functions" => some (showCodes Gen.C18Effects.functions)
  | "initFunctions" => some (showCodes Gen.C18Effects.initFunctions)
  | "corpus.sharedWrites" => some (showPairs Gen.C18Effects.corpusSharedWrites)
  | "corpus.escapes" => some (showPairs Gen.C18Effects.corpusEscapes)
  | "corpus.sharedTypeWrites" => some (showPairs Gen.C18Effects.corpusSharedTypeWrites)
  | "corpus.syncUses" => some (showPairs Gen.C18Effects.corpusSyncUses)
  | "corpus.goStmts" => some (showCodes Gen.C18Effects.corpusGoStmts)
  | "corpus.chanOps" => some (showCodes Gen.C18Effects.corpusChanOps)
  | "corpus.instanceWrites" => some (showCodes Gen.C18Effects.corpusInstanceWrites)
  | "ref.sharedWrites" => some (showPairs Ref.C18Allowed.sharedWrites)
  | "ref.escapes" => some (showPairs Ref.C18Allowed.escapes)
  | "ref.sharedTypeWrites" => some (showPairs Ref.C18Allowed.sharedTypeWrites)
  | "ref.syncUses" => some (showPairs Ref.C18Allowed.syncUses)
  | "ref.goStmts" => some (showCodes Ref.C18Allowed.goStmts)
  | "ref.chanOps" => some (showCodes Ref.C18Allowed.chanOps)
  | "ref.instanceWrites" => some (showCodes Ref.C18Allowed.instanceWrites)
  | _ => none

def b (x : Bool) : String := if x then "1" else "0"

/-- the lazy structure the `lrun` command runs over: groups 0 and 1 with flags at locations 0 and 1 (group 2 has its
    "flag" at location 2, which is also a cell — malformed on purpose), cells 2 ↦ (0,7), 3 ↦ (0,9), 4 ↦ (1,11) -/
def drvL : Lazy := ⟨fun k => k, fun loc =>
  if loc = 2 then some (0, 7) else if loc = 3 then some (0, 9) else if loc = 4 then some (1, 11) else none⟩

/-- step language of `lrun`: `r<reg>.<loc>` read, `w<loc>.<reg>.<k>` G[loc] := p[reg]+k, `g<greg>.<loc>.<reg>.<k>`
    the same guarded by p[greg] = 0, `o<k>` once -/
def parseLStep (t : String) : Option LStep :=
  let nums (rest : List Char) : Option (List Nat) := ((String.ofList rest).splitOn ".").mapM (·.toNat?)
  match t.toList with
  | 'r' :: rest => match nums rest with
    | some [r, l] => some (.read r l)
    | _ => none
  | 'w' :: rest => match nums rest with
    | some [l, r, k] => some (.write (fun _ => true) l (fun p => p r + (k : Int)))
    | _ => none
  | 'g' :: rest => match nums rest with
    | some [gr, l, r, k] => some (.write (fun p => p gr == 0) l (fun p => p r + (k : Int)))
    | _ => none
  | 'o' :: rest => match nums rest with
    | some [k] => some (.once k)
    | _ => none
  | _ => none

def parseLProg (s : String) : Option (List LStep) :=
  if s == "-" || s.isEmpty then some [] else (s.splitOn ";").mapM parseLStep

def handle : List String → String
  | ["list", name] => (listByName name).getD "bad-list"
  | ["uncovered"] =>
    -- the decidable form of `Covered libSummary reviewed` (what Obligations.C18.library_covered proves), plus the
    -- remaining reviewed lists, evaluated by compiled code so that the harness can print the offending names
    let u := (uncovered libSummary reviewed).map (fun p => decodeName p.1 ++ ">" ++ decodeName p.2) ++
      (missingPairs Gen.C18Effects.syncUses Ref.C18Allowed.syncUses).map (fun p => decodeName p.1 ++ ">" ++ decodeName p.2) ++
      (missingCodes Gen.C18Effects.goStmts Ref.C18Allowed.goStmts).map decodeName ++
      (missingCodes Gen.C18Effects.chanOps Ref.C18Allowed.chanOps).map decodeName ++
      (missingCodes Gen.C18Effects.instanceWrites Ref.C18Allowed.instanceWrites).map decodeName
    if u.isEmpty then "ok" else "violated:" ++ ";".intercalate u
  | ["checks", xs, ys] =>
    -- subCodes / eqCodes / sortedCodes on arbitrary lists of naturals
    match parseCodes xs, parseCodes ys with
    | some a, some c => s!"{b (subCodes a c)}{b (eqCodes a c)}{b (sortedCodes a)}{b (sortedCodes c)}|" ++ showNatList (missingCodes a c)
    | _, _ => "bad-op"
  | ["checksp", xs, ys] =>
    match parsePairs xs, parsePairs ys with
    | some a, some c => s!"{b (subPairs a c)}{b (eqPairs a c)}{b (sortedPairs a)}{b (sortedPairs c)}|{(missingPairs a c).length}"
    | _, _ => "bad-op"
  | ["lrun", p0, p1, p2, sched, regs] =>
    -- three goroutines, schedule of digits 0/1/2; prints registers 0..regs-1 of each and G[0..7]
    match parseLProg p0, parseLProg p1, parseLProg p2, regs.toNat? with
    | some a, some c, some d, some n =>
      let prog : Gid → List LStep := fun g => if g = 0 then a else if g = 1 then c else if g = 2 then d else []
      let sc := sched.toList.filterMap (fun ch => if ch = '0' then some 0 else if ch = '1' then some 1 else if ch = '2' then some 2 else none)
      let st := lrun drvL prog sc (init (fun _ _ => 0) (fun _ => 0))
      let show1 (g : Nat) := ",".intercalate ((List.range n).map (fun r => toString (st.P g r)))
      s!"{show1 0}|{show1 1}|{show1 2}|" ++ ",".intercalate ((List.range 8).map (fun l => toString (st.G l)))
    | _, _, _, _ => "bad-op"
  | ["enc", hex] =>
    -- text given as hex bytes (names may contain any character)
    match (Gzx.parseHex? hex) with
    | some bs => match String.fromUTF8? (ByteArray.mk (bs.map UInt8.ofNat).toArray) with
      | some s => toString (encodeName s)
      | none => "not-utf8"
    | none => "bad-op"
  | ["dec", n] =>
    match n.toNat? with
    | some k => decodeName k
    | none => "bad-op"
  | _ => "bad-op"

end Gzx.Driver.C18Gen
