/-
  Driver commands of work package c18gen (suite prefix `c18g`): the generated effect summary and the reviewed
  lists decoded back to text (so that the harness can compare the kernel-visible Nat codes with its own scan and
  with the corpus text files), the decidable coverage check on them, and the merge checkers on arbitrary lists.
-/
import Gzx.Util
import Gzx.Model.EffectSummary
import Gzx.Model.EffectLink
import Gzx.Gen.C18Effects
import Gzx.Ref.C18Allowed
namespace Gzx.Driver.C18Gen
open Gzx Gzx.EffectSummary Gzx.EffectLink

def showCodes (xs : List Nat) : String :=
  if xs.isEmpty then "-" else ";".intercalate (xs.map decodeName)

def showPairs (xs : List (Nat × Nat)) : String :=
  if xs.isEmpty then "-" else ";".intercalate (xs.map (fun p => decodeName p.1 ++ ">" ++ decodeName p.2))

def parseCodes (s : String) : Option (List Nat) :=
  if s == "-" || s.isEmpty then some [] else (s.splitOn ",").mapM (·.toNat?)

def parsePairs (s : String) : Option (List (Nat × Nat)) :=
  if s == "-" || s.isEmpty then some [] else
    (s.splitOn ",").mapM (fun t => match t.splitOn ":" with
      | [a, b] => match a.toNat?, b.toNat? with
        | some x, some y => some (x, y)
        | _, _ => none
      | _ => none)

def libSummary : Summary :=
  ⟨Gen.C18Effects.vars, Gen.C18Effects.sharedWrites, Gen.C18Effects.escapes, Gen.C18Effects.sharedTypeWrites⟩
def reviewed : Summary :=
  ⟨[], Ref.C18Allowed.sharedWrites, Ref.C18Allowed.escapes, Ref.C18Allowed.sharedTypeWrites⟩

def listByName : String → Option String
  | "vars" => some (showCodes Gen.C18Effects.vars)
  | "runtimeWrittenVars" => some (showCodes Gen.C18Effects.runtimeWrittenVars)
  | "sharedWrites" => some (showPairs Gen.C18Effects.sharedWrites)
  | "initWrites" => some (showPairs Gen.C18Effects.initWrites)
  | "escapes" => some (showPairs Gen.C18Effects.escapes)
  | "instanceWrites" => some (showCodes Gen.C18Effects.instanceWrites)
  | "sharedTypes" => some (showCodes Gen.C18Effects.sharedTypes)
  | "sharedTypeWrites" => some (showPairs Gen.C18Effects.sharedTypeWrites)
  | "syncUses" => some (showPairs Gen.C18Effects.syncUses)
  | "goStmts" => some (showCodes Gen.C18Effects.goStmts)
  | "chanOps" => some (showCodes Gen.C18Effects.chanOps)
  | "functions" => some (showCodes Gen.C18Effects.functions)
  | "initFunctions" => some (showCodes Gen.C18Effects.initFunctions)
  | "corpus.sharedWrites" => some (showPairs Gen.C18Effects.corpusSharedWrites)
  | "corpus.escapes" => some (showPairs Gen.C18Effects.corpusEscapes)
  | "corpus.sharedTypeWrites" => some (showPairs Gen.C18Effects.corpusSharedTypeWrites)
  | "corpus.syncUses" => some (showPairs Gen.C18Effects.corpusSyncUses)
  | "corpus.goStmts" => some (showCodes Gen.C18Effects.corpusGoStmts)
  | "corpus.chanOps" => some (showCodes Gen.C18Effects.corpusChanOps)
  | "corpus.instanceWrites" => some (showCodes Gen.C18Effects.corpusInstanceWrites)
  | "ref.sharedWrites" => some (showPairs Ref.C18Allowed.sharedWrites)
  | "ref.escapes" => some (showPairs Ref.C18Allowed.escapes)
  | "ref.sharedTypeWrites" => some (showPairs Ref.C18Allowed.sharedTypeWrites)
  | "ref.syncUses" => some (showPairs Ref.C18Allowed.syncUses)
  | "ref.goStmts" => some (showCodes Ref.C18Allowed.goStmts)
  | "ref.chanOps" => some (showCodes Ref.C18Allowed.chanOps)
  | "ref.instanceWrites" => some (showCodes Ref.C18Allowed.instanceWrites)
  | _ => none

def b (x : Bool) : String := if x then "1" else "0"

def handle : List String → String
  | ["list", name] => (listByName name).getD "bad-list"
  | ["uncovered"] =>
    -- the decidable form of `Covered libSummary reviewed` (what Obligations.C18.library_covered proves), plus the
    -- remaining reviewed lists, evaluated by compiled code so that the harness can print the offending names
    let u := (uncovered libSummary reviewed).map (fun p => decodeName p.1 ++ ">" ++ decodeName p.2) ++
      (missingPairs Gen.C18Effects.syncUses Ref.C18Allowed.syncUses).map (fun p => decodeName p.1 ++ ">" ++ decodeName p.2) ++
      (missingCodes Gen.C18Effects.goStmts Ref.C18Allowed.goStmts).map decodeName ++
      (missingCodes Gen.C18Effects.chanOps Ref.C18Allowed.chanOps).map decodeName ++
      (missingCodes Gen.C18Effects.instanceWrites Ref.C18Allowed.instanceWrites).map decodeName
    if u.isEmpty then "ok" else "violated:" ++ ";".intercalate u
  | ["checks", xs, ys] =>
    -- subCodes / eqCodes / sortedCodes on arbitrary lists of naturals
    match parseCodes xs, parseCodes ys with
    | some a, some c => s!"{b (subCodes a c)}{b (eqCodes a c)}{b (sortedCodes a)}{b (sortedCodes c)}|" ++ showNatList (missingCodes a c)
    | _, _ => "bad-op"
  | ["checksp", xs, ys] =>
    match parsePairs xs, parsePairs ys with
    | some a, some c => s!"{b (subPairs a c)}{b (eqPairs a c)}{b (sortedPairs a)}{b (sortedPairs c)}|{(missingPairs a c).length}"
    | _, _ => "bad-op"
  | ["enc", hex] =>
    -- text given as hex bytes (names may contain any character)
    match (Gzx.parseHex? hex) with
    | some bs => match String.fromUTF8? (ByteArray.mk (bs.map UInt8.ofNat).toArray) with
      | some s => toString (encodeName s)
      | none => "not-utf8"
    | none => "bad-op"
  | ["dec", n] =>
    match n.toNat? with
    | some k => decodeName k
    | none => "bad-op"
  | _ => "bad-op"

end Gzx.Driver.C18Gen
