import Gzx.Util
namespace Gzx.Driver.C19
open Gzx

/-- line-protocol handler of suite `c19` (arguments after the suite name) -/
def handle : List String → String
  | _ => "bad-op"

end Gzx.Driver.C19
