import Gzx.Model.GridSampler
namespace Gzx.Driver.C19
open Gzx Gzx.Perspective Gzx.GridSampler

/-- "n/d" or "n" -> Rat -/
def parseRat? (s : String) : Option Rat :=
  match s.splitOn "/" with
  | [n] => (parseInt? n).map (fun n => (n : Rat))
  | [n, d] =>
    match parseInt? n, parseNat? d with
    | some n, some d => if d = 0 then none else some (mkRat n d)
    | _, _ => none
  | _ => none

def parseRatList? (s : String) : Option (List Rat) :=
  if s.isEmpty || s == "-" then some [] else (s.splitOn ",").mapM parseRat?

def showRat (q : Rat) : String := toString q.num ++ "/" ++ toString q.den

def showRatList (qs : List Rat) : String :=
  if qs.isEmpty then "-" else ",".intercalate (qs.map showRat)

/-- comparison policy: a quadrilateral is skipped ("nonfinite") when SquareToQuadrilateral would divide
    by zero, or when it has zero area / a singular coefficient matrix — there float64 rounding decides
    which branch Go takes (e.g. `dx3` rounds to 1e-17 instead of 0 and the non-affine branch divides 0/0),
    and the property only speaks about non-degenerate quadrilaterals. -/
def degenerateQuad (x0 y0 x1 y1 x2 y2 x3 y3 : Rat) : Bool :=
  sqDegenerate x0 y0 x1 y1 x2 y2 x3 y3 || sqDenominator x1 y1 x2 y2 x3 y3 == 0 ||
    (squareToQuadrilateral x0 y0 x1 y1 x2 y2 x3 y3).det == 0

/-- builds the transform named by `kind` from its coordinate list; `some none` = skipped (degenerate) -/
def mkTransform? (kind : String) (cs : List Rat) : Option (Option (PT Rat)) :=
  match kind, cs with
  | "s2q", [x0, y0, x1, y1, x2, y2, x3, y3] =>
    some (if degenerateQuad x0 y0 x1 y1 x2 y2 x3 y3 then none
          else some (squareToQuadrilateral x0 y0 x1 y1 x2 y2 x3 y3))
  | "q2s", [x0, y0, x1, y1, x2, y2, x3, y3] =>
    some (if degenerateQuad x0 y0 x1 y1 x2 y2 x3 y3 then none
          else some (quadrilateralToSquare x0 y0 x1 y1 x2 y2 x3 y3))
  | "q2q", [x0, y0, x1, y1, x2, y2, x3, y3, x0p, y0p, x1p, y1p, x2p, y2p, x3p, y3p] =>
    some (if degenerateQuad x0 y0 x1 y1 x2 y2 x3 y3 || degenerateQuad x0p y0p x1p y1p x2p y2p x3p y3p then none
          else some (quadrilateralToQuadrilateral x0 y0 x1 y1 x2 y2 x3 y3 x0p y0p x1p y1p x2p y2p x3p y3p))
  | _, _ => none

def eps : Rat := mkRat 1 1000000

def nearest (x : Rat) : Int := (x + 1/2).floor

def near (x : Rat) : Bool :=
  let d := x - (nearest x : Rat)
  decide (d < eps) && decide (-eps < d)

/-- `near` and the integer concerned is one where the accept / nudge / NotFound decision changes -/
def crit (n : Int) (x : Rat) : Bool :=
  near x && (let k := nearest x; k == -2 || k == -1 || k == 0 || k == n || k == n + 1)

def parseRows (w : Nat) (s : String) : List (List Bool) :=
  if w = 0 then [] else (s.splitOn "/").map parseBits

/-- annotated sampling: the model's result, with cells whose transformed centre lies within 1e-6
    of a pixel boundary printed as `?`, and `b=1` when such a cell sits at a decision boundary -/
def sampleShow (img : Image) (dimX dimY : Int) (t : PT Rat) : String :=
  let rows := (List.range dimY.toNat).map (fun y => transformRow t (rowCentres dimX.toNat y))
  if rows.any (fun r => r.isNone) then "nonfinite"
  else
    let pts := rows.map (fun r => r.getD [])
    let b := pts.any (fun r => r.any (fun p => crit img.w p.1 || crit img.h p.2))
    let bs := if b then " b=1" else " b=0"
    match sampleGridWithTransform img dimX dimY t with
    | .error e => (if e.isPanic then "PANIC" else "ERR:" ++ e.tag) ++ bs
    | .ok bits =>
      let showRow (r : List Bool × List Pt) : String :=
        String.ofList ((r.1.zip r.2).map (fun (bit, p) =>
          if near p.1 || near p.2 then '?' else if bit then '1' else '0'))
      "ok " ++ "/".intercalate ((bits.zip pts).map showRow) ++ bs

def showResP {α} (f : α → String) : Res α → String
  | .ok a => f a
  | .error e => if e.isPanic then "PANIC" else "ERR:" ++ e.tag

/-- line-protocol handler of suite `c19` (arguments after the suite name) -/
def handle : List String → String
  | ["tp", kind, cs, pts] =>
    match parseRatList? cs, parseRatList? pts with
    | some cs, some pts =>
      match mkTransform? kind cs with
      | none => "bad-op"
      | some none => "nonfinite"
      | some (some t) =>
        match t.transformPoints? pts with
        | none => "nonfinite"
        | some r => showRatList r
    | _, _ => "bad-op"
  | ["tpxy", kind, cs, xs, ys] =>
    match parseRatList? cs, parseRatList? xs, parseRatList? ys with
    | some cs, some xs, some ys =>
      match mkTransform? kind cs with
      | none => "bad-op"
      | some none => "nonfinite"
      | some (some t) =>
        if (xs.zip ys).any (fun (x, y) => t.denom x y == 0) then "nonfinite"
        else showResP (fun (r : List Rat × List Rat) => showRatList r.1 ++ ";" ++ showRatList r.2)
               (t.transformPointsXY xs ys)
    | _, _, _ => "bad-op"
  | ["nudge", w, h, pts] =>
    match parseInt? w, parseInt? h, parseRatList? pts with
    | some w, some h, some pts => showResP (fun r => "ok " ++ showRatList r) (checkAndNudgePoints w h pts)
    | _, _, _ => "bad-op"
  | ["sg", w, h, dimX, dimY, rows, cs] =>
    match parseNat? w, parseNat? h, parseInt? dimX, parseInt? dimY, parseRatList? cs with
    | some w, some h, some dimX, some dimY, some cs =>
      match mkTransform? "q2q" cs with
      | none => "bad-op"
      | some none => "nonfinite"
      | some (some t) => sampleShow (Image.ofRows w h (parseRows w rows)) dimX dimY t
    | _, _, _, _, _ => "bad-op"
  | _ => "bad-op"

end Gzx.Driver.C19
