import Gzx.Model.RunLength
namespace Gzx.Driver.C20
open Gzx Gzx.RunLength

def showCounters : Res (List Nat) → String
  | .ok cs => "ok " ++ showNatList cs
  | .error e => "ERR:" ++ e.tag

def handle : List String → String
  | ["rp", bits, start, n] =>
    match parseNat? start, parseNat? n with
    | some s, some n => showCounters (recordPattern (parseBits bits) s n)
    | _, _ => "bad-op"
  | ["rpr", bits, start, n] =>
    match parseNat? start, parseNat? n with
    | some s, some n => showCounters (recordPatternInReverse (parseBits bits) s n)
    | _, _ => "bad-op"
  | ["runs", bits] => showNatList (runs (parseBits bits))
  | ["pmv", cs, ps, a, b] =>
    match parseNatList? cs, parseNatList? ps, parseNat? a, parseNat? b with
    | some cs, some ps, some a, some b =>
      let (mn, md) := decisionMargin cs ps a b
      match patternMatchVariance cs ps a b with
      | .ok none => s!"inf m={mn}/{md}"
      | .ok (some (n, d)) => s!"{n}/{d} m={mn}/{md}"
      | .error e => "ERR:" ++ e.tag
    | _, _, _, _ => "bad-op"
  | _ => "bad-op"

end Gzx.Driver.C20
