/-
  Driver commands of work package imgpath2d (suite prefix `img2d`), used by harness/zz_imgpath2d_*.go:
  the composed PURE-BARCODE image path (Gzx/Model/ImagePath2D.lean) with every intermediate layer printed.

    * `dm <mw> <mh> <bits> <reqW> <reqH>`            module matrix → convertByteMatrixToBitMatrix → image → bitmap → DataMatrixReader
    * `dmpic <w> <h> <bits>`                          ANY bit picture handed to the bitmap → DataMatrixReader (PURE_BARCODE)
    * `qr <mw> <mh> <bits> <quiet> <reqW> <reqH> hint=<h>`   module matrix → renderResult → image → bitmap → QRCodeReader
    * `qrpic <w> <h> <bits> hint=<h>`                 ANY bit picture → QRCodeReader (PURE_BARCODE)
    * `qrfloat <s> <n>`                               the three quantities of `QRFloatExact` under IEEE binary64 (Lean `Float`):
                                                      `<Round(float64(n*s)/ms)> <int(ms/2.0)> <number of a < n with int(float64(a)*ms) ≠ a*s>`, ms = float64(7s)/7.0
  answer: `img=<W>x<H>:<hash> black=<W>x<H>:<hash>|ERR:k bits=<w>x<h>:<rows>|ERR:k out=<…>|ERR:k`
  (`img=` only for the rendered commands; stages after a failed one print `-`).
-/
import Gzx.Model.ImagePath2D
import Gzx.Driver.C01
import Gzx.Driver.C02
import Gzx.Driver.C14
namespace Gzx.Driver.ImagePath2D
open Gzx Gzx.Det Gzx.Det.Pure Gzx.ImagePath

def showFault (e : Fault) : String :=
  match e with
  | .panic _ => "PANIC"
  | e => "ERR:" ++ e.tag

def imgRows (bm : Img) : List (List Bool) :=
  (List.range bm.h.toNat).map fun (y : Nat) => (List.range bm.w.toNat).map fun (x : Nat) => bm.pix x y

def showPic (w h : Int) (rows : List (List Bool)) : String := s!"{w}x{h}:{(Render.hashRows rows).toNat}"

def showBlack : Res Img → String
  | .ok bm => showPic bm.w bm.h (imgRows bm)
  | .error e => showFault e

def showBits? : Option (Res Bits) → String
  | none => "-"
  | some (.ok b) => s!"{b.w}x{b.h}:" ++ String.join (b.rows.map showBits)
  | some (.error e) => showFault e

def showOut {α : Type} (f : α → String) : Except ReadFault α → String
  | .ok a => f a
  | .error (.reader (.panic _)) => "PANIC"
  | .error (.other (.panic _)) => "PANIC"
  | .error e => "ERR:" ++ e.tag

/-- `Decoder.Decode(bits)` of the Data Matrix reader on the matrix read off (tables regenerated from /repo): the text
    and the symbology modifier (`]d<m>` in the Result's metadata) -/
def dmDecode (T : DMHighLevel.Tables) (b : Bits) : Res (List Nat × Nat) :=
  match DMDec.decodeMatrixBytes ⟨b.w.toNat, b.h.toNat, b.rows.flatten.toArray⟩ with
  | .ok bytes => DMHighLevel.decodeFull T bytes
  | .error e => .error e

def showDM (r : List Nat × Nat) : String := s!"{showHex r.1}|m={r.2}"

/-- `Decoder.Decode(bits, hints)` of the QR reader on the (square) matrix read off -/
def qrDecode (h : ECI.Hint) (b : Bits) : Res QRDec.Decoded :=
  QRDec.decode C01.T C01.rs h ⟨b.w.toNat, fun x y => match (b.rows[y]?).bind (·[x]?) with | some v => v | none => false⟩

def showQR (d : QRDec.Decoded) : String :=
  s!"ok ec={d.ec.name} data={showHex d.data} {C01.showParsed d.parsed}"

def dmLayers (black : Res Img) : String :=
  match C02.genTables with
  | none => "ERR:gen-tables"
  | some T =>
    let bits := match black with
      | .ok bm => some (DM.extractPureBits bm.rdGo bm)
      | .error _ => none
    s!"black={showBlack black} bits={showBits? bits} out={showOut showDM (dmRead black (dmDecode T))}"

def qrLayers (h : ECI.Hint) (black : Res Img) : String :=
  let bits := match black with
    | .ok bm => some (QR.extractPureBits FOps.float bm.rdGo bm)
    | .error _ => none
  s!"black={showBlack black} bits={showBits? bits} out={showOut showQR (qrRead FOps.float black (qrDecode h))}"

def picRows (w : Nat) (bits : String) : List (List Bool) :=
  let all := parseBits bits
  (List.range (if w = 0 then 0 else all.length / w)).map fun r => (all.drop (r * w)).take w

/-- the quantities of `Gzx.Image2D.QRFloatExact` evaluated with IEEE binary64 -/
def qrFloat (s n : Int) : String :=
  let o := FOps.float
  let ms := o.div (o.ofInt (7 * s)) (o.ofInt 7)
  let bad := ((List.range n.toNat).filter fun (a : Nat) => o.toInt (o.mul (o.ofInt a) ms) != (a : Int) * s).length
  s!"{o.round (o.div (o.ofInt (n * s)) ms)} {o.toInt (o.div ms (o.ofInt 2))} {bad}"

def handle : List String → String
  | ["qrfloat", s, n] =>
    match parseInt? s, parseInt? n with
    | some s, some n => qrFloat s n
    | _, _ => "bad-op"
  | ["dm", mw, mh, bits, w, h] =>
    match parseNat? mw, parseNat? mh, parseInt? w, parseInt? h with
    | some mw, some mh, some w, some h =>
      let arr := C14.bitArray bits
      match Render.renderDM mw mh (C14.gridOf mw arr) w h with
      | .error e => s!"img={showFault e} black=- bits=- out={showFault e}"
      | .ok img => s!"img={showPic img.w img.h img.rows} " ++ dmLayers (blackMatrix img)
    | _, _, _, _ => "bad-op"
  | ["dmpic", w, h, bits] =>
    match parseNat? w, parseNat? h with
    | some w, some h => dmLayers (blackMatrixOfRows w h (picRows w bits))
    | _, _ => "bad-op"
  | ["qr", mw, mh, bits, q, w, h, hint] =>
    match parseNat? mw, parseNat? mh, parseInt? q, parseInt? w, parseInt? h, (argOf [hint] "hint").bind C01.parseHint with
    | some mw, some mh, some q, some w, some h, some hint =>
      let arr := C14.bitArray bits
      match Render.renderQR mw mh (C14.gridOf mw arr) q w h with
      | .error e => s!"img={showFault e} black=- bits=- out={showFault e}"
      | .ok img => s!"img={showPic img.w img.h img.rows} " ++ qrLayers hint (blackMatrix img)
    | _, _, _, _, _, _ => "bad-op"
  | ["qrpic", w, h, bits, hint] =>
    match parseNat? w, parseNat? h, (argOf [hint] "hint").bind C01.parseHint with
    | some w, some h, some hint => qrLayers hint (blackMatrixOfRows w h (picRows w bits))
    | _, _, _ => "bad-op"
  | _ => "bad-op"

end Gzx.Driver.ImagePath2D
