/-
  Instantiation of the QR decoder model's table parameters with the tables regenerated from /repo
  (shared by the drivers of C01/C05/C15 and by the per-run obligations).  A table that no longer
  has the expected shape decodes to the empty table, which the obligations and the correspondence
  suites then report.
-/
import Gzx.Model.QRDecTablesView
import Gzx.Gen.QRVersion
import Gzx.Gen.C05Format
import Gzx.Gen.C15ECI
import Gzx.Gen.C01Mode
import Gzx.Gen.QRMask
namespace Gzx.QRTables
open Gzx Gzx.QRDec

def eciGoVals : List GoVal :=
  [Gen.C15ECI.Cp437, Gen.C15ECI.ISO8859_1, Gen.C15ECI.ISO8859_2, Gen.C15ECI.ISO8859_3,
   Gen.C15ECI.ISO8859_4, Gen.C15ECI.ISO8859_5, Gen.C15ECI.ISO8859_7, Gen.C15ECI.ISO8859_9,
   Gen.C15ECI.ISO8859_13, Gen.C15ECI.ISO8859_15, Gen.C15ECI.ISO8859_16, Gen.C15ECI.SJIS,
   Gen.C15ECI.Cp1250, Gen.C15ECI.Cp1251, Gen.C15ECI.Cp1252, Gen.C15ECI.Cp1256,
   Gen.C15ECI.UnicodeBigUnmarked, Gen.C15ECI.UTF8, Gen.C15ECI.ASCII, Gen.C15ECI.Big5,
   Gen.C15ECI.GB18030, Gen.C15ECI.EUC_KR]

def registry? : Option ECI.Registry := ECI.registryOfGoVals eciGoVals
def registry : ECI.Registry := registry?.getD []

def versions? : Option (List VersionInfo) := versionsOfGoVal Gen.QRVersion.VERSIONS
def versions : List VersionInfo := versions?.getD []

def vdi? : Option (List Nat) := Gen.QRVersion.VERSION_DECODE_INFO.asNatList?
def vdi : List Nat := vdi?.getD []

def fmt? : Option (List (Nat × Nat)) := formatLookupOfGoVal Gen.C05Format.formatInfoDecodeLookup
def fmt : List (Nat × Nat) := fmt?.getD []

def fmtMask? : Option Nat := Gen.C05Format.formatInfoMaskQR.asNat?
def fmtMask : Nat := fmtMask?.getD 0

def tables : Tables := ⟨fmt, fmtMask, vdi, versions, registry⟩

/-- the mode table of mode.go in the order of `Mode`'s constructors used by the model -/
def genModes : List (Mode × GoVal) :=
  [(.terminator, Gen.C01Mode.TERMINATOR), (.numeric, Gen.C01Mode.NUMERIC),
   (.alphanumeric, Gen.C01Mode.ALPHANUMERIC), (.structuredAppend, Gen.C01Mode.STRUCTURED_APPEND),
   (.byte, Gen.C01Mode.BYTE), (.eci, Gen.C01Mode.ECI), (.kanji, Gen.C01Mode.KANJI),
   (.fnc1First, Gen.C01Mode.FNC1_FIRST_POSITION), (.fnc1Second, Gen.C01Mode.FNC1_SECOND_POSITION),
   (.hanzi, Gen.C01Mode.HANZI)]

end Gzx.QRTables
