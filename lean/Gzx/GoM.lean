/-
  Run-time library of the translator's MONADIC target (kinds `funcm` / `region`, see
  /verif/translator/monadic.go): Go functions with counted loops, slice / string reads, local
  slices, checked division and shifts are translated into `Res α = Except Fault α` definitions in
  which every Go operation that can panic is an explicit checked operation yielding
  `.error (.panic _)` (DESIGN §5.1: never a silently defaulted read).

  * slices and strings are `List Int` (bytes as 0..255),
  * a counted `for` loop is `loop body d n i₀ st₀`: structural recursion over the trip count `n`
    (computed from the loop header), loop variable `i₀, i₀+d, …`, the locals the body assigns as the
    state `st`, and the body's outcome a `Ctl`: next iteration / `break` / early `return` / panic,
  (`Gzx/KernelGuard.lean` has the `when_kernel C in <command>` guard used by the obligation files.)
-/
import Gzx.GoVal
import Gzx.Util
namespace Gzx.GoM

def oob : Fault := .panic "index out of range"

/-- `xs[i]` -/
def idx (xs : List Int) (i : Int) : Res Int :=
  if i < 0 then .error oob else
  match xs[i.toNat]? with
  | some v => .ok v
  | none => .error oob

/-- `xs[i] = v` on a local slice -/
def setIdx (xs : List Int) (i v : Int) : Res (List Int) :=
  if i < 0 then .error oob else
  if i.toNat < xs.length then .ok (xs.set i.toNat v) else .error oob

/-- `make([]T, n)` -/
def mk (n : Int) : Res (List Int) :=
  if n < 0 then .error (.panic "makeslice: len out of range") else .ok (List.replicate n.toNat 0)

/-- `len(xs)` -/
def len (xs : List Int) : Int := (xs.length : Nat)

/-- `s[a:b]` of a string (for slices Go allows `b ≤ cap`; the translator only emits this for strings) -/
def slice (xs : List Int) (a b : Int) : Res (List Int) :=
  if 0 ≤ a ∧ a ≤ b ∧ b ≤ (xs.length : Nat) then .ok ((xs.take b.toNat).drop a.toNat)
  else .error (.panic "slice bounds out of range")

def div (a b : Int) : Res Int :=
  if b = 0 then .error (.panic "integer divide by zero") else .ok (Int.tdiv a b)

def mod (a b : Int) : Res Int :=
  if b = 0 then .error (.panic "integer divide by zero") else .ok (Int.tmod a b)

/-- `a << b`, `b` of signed type: a negative count panics -/
def shl (a b : Int) : Res Int :=
  if b < 0 then .error (.panic "negative shift amount") else .ok (GoVal.ishl a b)

def shr (a b : Int) : Res Int :=
  if b < 0 then .error (.panic "negative shift amount") else .ok (GoVal.ishr a b)

/-- value of an unsigned `bits`-bit Go integer after arithmetic (wrap-around) -/
def wrap (bits : Nat) (a : Int) : Int := a % ((2 : Int) ^ bits)

/-- index of the first element equal to `b`, or -1 -/
def indexOf (b : Int) : List Int → Int
  | [] => -1
  | c :: cs => if c = b then 0 else
    let r := indexOf b cs
    if r < 0 then -1 else r + 1

/-- `strings.Index(C, string(b))` for an ASCII-only constant `C` and a byte `b`: `string(b)` of a byte
    ≥ 0x80 is a two-byte UTF-8 sequence, which cannot occur in `C` -/
def strIndexByte (alphabet : List Int) (b : Int) : Int :=
  if b ≥ 128 then -1 else indexOf b alphabet

/-- outcome of a loop body / of a loop -/
inductive Ctl (σ ρ : Type) where
  | next (s : σ)
  | brk (s : σ)
  | ret (r : ρ)
  | panic (f : Fault)

/-- counted loop: at most `n` iterations, loop variable `i, i+d, i+2d, …` -/
def loop {σ ρ : Type} (body : Int → σ → Ctl σ ρ) (d : Int) : Nat → Int → σ → Ctl σ ρ
  | 0, _, st => .next st
  | n + 1, i, st =>
    match body i st with
    | .next st' => loop body d n (i + d) st'
    | .brk st' => .brk st'
    | .ret r => .ret r
    | .panic f => .panic f

/-- what follows a loop, at function level -/
def Ctl.thenR {σ ρ : Type} (c : Ctl σ ρ) (k : σ → Res ρ) : Res ρ :=
  match c with
  | .next s => k s
  | .brk s => k s
  | .ret r => .ok r
  | .panic f => .error f

/-- what follows an inner loop, inside a loop body -/
def Ctl.thenC {σ' σ ρ : Type} (c : Ctl σ' ρ) (k : σ' → Ctl σ ρ) : Ctl σ ρ :=
  match c with
  | .next s => k s
  | .brk s => k s
  | .ret r => .ret r
  | .panic f => .panic f

/-- a checked operation at function level -/
def tryR {α ρ : Type} (r : Res α) (k : α → Res ρ) : Res ρ :=
  match r with
  | .ok a => k a
  | .error f => .error f

/-- a checked operation inside a loop body -/
def tryC {α σ ρ : Type} (r : Res α) (k : α → Ctl σ ρ) : Ctl σ ρ :=
  match r with
  | .ok a => k a
  | .error f => .panic f

/-! ### trip counts (the translator emits these from the loop header; `k ≥ 1` a literal) -/

/-- `for i := a; i < b; i += k` -/
def tripUp (a b k : Int) : Nat := (Int.tdiv (b - a + (k - 1)) k).toNat
/-- `for i := a; i > b; i -= k` -/
def tripDown (a b k : Int) : Nat := (Int.tdiv (a - b + (k - 1)) k).toNat

end Gzx.GoM
