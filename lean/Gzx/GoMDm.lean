/-
  Run-time library of the translator subset added by work package dmmirror (translator/ext_dmmirror.go): what the
  Data Matrix encoder / decoder loops need beyond Gzx.GoM / Gzx.GoMTie.

  * `idxL t i`: a checked read of a row of an inlined two-level constant table (`factors[table]`).
  * slices whose CAPACITY the Go function observes (`cap(x)`, `x = x[:n]`): the translation carries, next to the
    visible contents `x : List Int`, the cells of the backing array behind them, `x_bk : List Int`
    (`cap x = len x + len x_bk`).  `mk3 n c` is `make([]T, n, c)`; `appendT x bk ys` is `x = append(x, ys...)` as long
    as the hidden cells suffice — appending beyond the capacity makes Go allocate a new array whose capacity is
    implementation-defined (runtime.growslice), so for a slice whose capacity is observed the translation stops with the
    fault `capGrow` (no theorem about a kernel may need that case); `reslice x bk a b` is `x = x[a:b]`
    (`0 ≤ a ≤ b ≤ cap x`, otherwise Go's slice-bounds panic).
  * `mk3u n c`: `make([]T, n, c)` of a slice whose capacity is NOT observed: the two makeslice checks, `n` zeros.
  * `mkLL`, `setIdxLL` (with `idxL`): two-level local lists.
  Core Lean only.
-/
import Gzx.GoM
namespace Gzx.GoM

/-- `t[i]` of a two-level table -/
def idxL (t : List (List Int)) (i : Int) : Res (List Int) :=
  if i < 0 then .error oob else
  match t[i.toNat]? with
  | some r => .ok r
  | none => .error oob

/-- appending beyond an observed capacity: Go's new capacity is implementation-defined -/
def capGrow : Fault := .panic "append beyond an observed capacity (implementation-defined growth)"

/-- `make([]T, n, c)`, capacity observed: visible zeros and hidden zeros -/
def mk3 (n c : Int) : Res (List Int × List Int) :=
  if n < 0 then .error (.panic "makeslice: len out of range")
  else if c < n then .error (.panic "makeslice: cap out of range")
  else .ok (List.replicate n.toNat 0, List.replicate (c - n).toNat 0)

/-- `make([]T, n, c)`, capacity not observed -/
def mk3u (n c : Int) : Res (List Int) :=
  if n < 0 then .error (.panic "makeslice: len out of range")
  else if c < n then .error (.panic "makeslice: cap out of range")
  else .ok (List.replicate n.toNat 0)

/-- `x = append(x, ys...)` within the capacity -/
def appendT (x bk ys : List Int) : Res (List Int × List Int) :=
  if ys.length ≤ bk.length then .ok (x ++ ys, bk.drop ys.length) else .error capGrow

/-- `x = x[a:b]` (`b` may exceed `len x` up to `cap x`) -/
def reslice (x bk : List Int) (a b : Int) : Res (List Int × List Int) :=
  if 0 ≤ a ∧ a ≤ b ∧ b ≤ ((x.length + bk.length : Nat) : Int) then
    .ok (((x ++ bk).take b.toNat).drop a.toNat, (x ++ bk).drop b.toNat)
  else .error (.panic "slice bounds out of range")

/-! two-level local lists (`[][]byte`; the byte-slice field of a flattened local slice of structs) -/

/-- `make([][]T, n)`: `n` nil slices -/
def mkLL (n : Int) : Res (List (List Int)) :=
  if n < 0 then .error (.panic "makeslice: len out of range") else .ok (List.replicate n.toNat [])

/-- `t[i] = r` -/
def setIdxLL (t : List (List Int)) (i : Int) (r : List Int) : Res (List (List Int)) :=
  if i < 0 then .error oob else
  if i.toNat < t.length then .ok (t.set i.toNat r) else .error oob

end Gzx.GoM
