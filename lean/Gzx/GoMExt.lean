/-
  Run-time library of the translator's k17k20 extension (see /verif/translator/ext_k17k20.go):
  two-dimensional integer slices (`[][]int`, Lean `List (List Int)`) with CHECKED row / element access.
  A row read `m[i]` yields the row VALUE; Go rows alias their backing arrays, which the translator keeps
  sound by only admitting element writes through the matrix itself (`m[i][j] = v` is: read row `i`, write
  element `j`, store the row back).  Core Lean only.
-/
import Gzx.GoM
namespace Gzx.GoM

/-- `make([][]int, n)`: `n` nil rows -/
def mk2 (n : Int) : Res (List (List Int)) :=
  if n < 0 then .error (.panic "makeslice: len out of range") else .ok (List.replicate n.toNat [])

/-- `m[i]` -/
def idxRow (m : List (List Int)) (i : Int) : Res (List Int) :=
  if i < 0 then .error oob else
  match m[i.toNat]? with
  | some r => .ok r
  | none => .error oob

/-- `m[i] = row` -/
def setRow (m : List (List Int)) (i : Int) (row : List Int) : Res (List (List Int)) :=
  if i < 0 then .error oob else
  if i.toNat < m.length then .ok (m.set i.toNat row) else .error oob

/-- `xs[a:b]` of an integer slice as a value.  Go checks `b ≤ cap(xs)`; the translator's slices have `cap = len`
    (every slice the modelled code slices comes from `make([]T, n)` or from the caller as a whole array) -/
def sliceL (xs : List Int) (a b : Int) : Res (List Int) :=
  if 0 ≤ a ∧ a ≤ b ∧ b ≤ (xs.length : Nat) then .ok ((xs.take b.toNat).drop a.toNat)
  else .error (.panic "slice bounds out of range")

end Gzx.GoM
