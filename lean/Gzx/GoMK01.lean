/-
  Run-time library of the translator subset added by work package k01dec (translator/ext_k01dec.go, kind `funcq`,
  generated module `Gzx.Gen.K01d`: the QR decoder).

  * `onesCount64`: `bits.OnesCount` of a Go `uint` (64 bits) by its SPECIFICATION (number of one bits), not the library code.
  * `MatOps M`: `*gozxing.BitMatrix` is an ABSTRACT type `M` in the regenerated decoder; the BitMatrix methods it calls are the
    fields of `ops`.  The link between these operations and the Go methods is C16's: `Obligations/K16b*.lean` prove the
    regenerated `BitMatrix.Get/Flip/SetRegion/…` equal to the word model.  `Obligations/K01d*.lean` state every decoder theorem
    for ALL `ops` that satisfy the laws of a bit matrix (`Proofs/K01d.lean: Lawful`).
      - `get` is total (`BitMatrix.Get` answers false outside the matrix), `flip` / `setRegion` may fail (index panic /
        the returned error), `newSquare d` is `NewSquareBitMatrix(d)` (matrix, error).
      - `nilM` is the nil pointer (only ever returned next to an error).
  * `rowIdx n i`: the checked index `T[i]` into a package-level table of `n` objects, yielding the ROW HANDLE `i`
    (`*Version` values are handles into `VERSIONS`; nil is -1).
  Core Lean only.
-/
import Gzx.GoM
namespace Gzx.GoM

/-- number of one bits among the low `k` bits -/
def popc : Nat → Nat → Nat
  | 0, _ => 0
  | k + 1, n => n % 2 + popc k (n / 2)

/-- `bits.OnesCount(x)` of a uint (the translator passes the value of the uint, `0 ≤ x < 2^64`) -/
def onesCount64 (a : Int) : Int := (popc 64 a.toNat : Nat)

/-- the BitMatrix operations the QR decoder uses -/
structure MatOps (M : Type) where
  nilM : M
  width : M → Int
  height : M → Int
  get : M → Int → Int → Bool
  flip : M → Int → Int → Res M
  setRegion : M → Int → Int → Int → Int → Res (M × Bool)
  newSquare : Int → Res (M × Bool)

/-- `T[i]` of a package-level table of `n` objects: the row handle -/
def rowIdx (n : Int) (i : Int) : Res Int :=
  if 0 ≤ i ∧ i < n then .ok i else .error oob

end Gzx.GoM
