/-
  Run-time library of the translator subset added by work package k01dec2 (translator/ext_k01dec2.go, generated module
  `Gzx.Gen.K01de`: the QR bit-stream parser over a BitSource state).

  * `delAt xs i`: Go's `xs = append(xs[:i], xs[i+1:]...)` — element `i` removed; the two slice expressions are bounds-checked
    (`0 ≤ i`, `i + 1 ≤ len xs`).
  Core Lean only.
-/
import Gzx.GoM
namespace Gzx.GoM

/-- `xs = append(xs[:i], xs[i+1:]...)` -/
def delAt (xs : List Int) (i : Int) : Res (List Int) :=
  if 0 ≤ i ∧ i + 1 ≤ (xs.length : Nat) then .ok (xs.take i.toNat ++ xs.drop (i.toNat + 1))
  else .error (.panic "slice bounds out of range")

end Gzx.GoM
