/-
  Run-time library of the translator extension of work package k03w (translator/ext_k03w.go): the 1-D writers.

  * `[]bool` is a `List Int` of 0/1 (`b2i`),
  * `strconv.Itoa` as the SPECIFIED function `itoa` (decimal digits, '-' for negatives),
  * `for _, c := range s` of a string ranges over `runes s`: Go's UTF-8 decoding of a byte string, an invalid or
    truncated sequence yielding U+FFFD for ONE byte (Go spec, "For statements with range clause"),
  * `string(r)` of an integer is `utf8Enc r` (U+FFFD encoded for surrogates / out of range values),
  * `append` on integer slices is list concatenation (the translation never observes capacity).
  Core Lean only.
-/
import Gzx.GoM
namespace Gzx.GoM

def b2i (b : Bool) : Int := if b then 1 else 0

/-- decimal digits of a natural number, most significant first (fuel = an upper bound of the digit count) -/
def natDigits : Nat → Nat → List Int
  | 0, _ => []
  | fuel + 1, n => if n < 10 then [(48 + n : Nat)] else natDigits fuel (n / 10) ++ [((48 + n % 10 : Nat) : Int)]

/-- `strconv.Itoa` -/
def itoa (n : Int) : List Int :=
  if n < 0 then 45 :: natDigits (n.natAbs + 1) n.natAbs else natDigits (n.toNat + 1) n.toNat

def isCont (b : Int) : Bool := decide (128 ≤ b) && decide (b < 192)

/-- one step of Go's UTF-8 decoder on a byte list: (rune, width); invalid → (0xFFFD, 1) -/
def decodeRune : List Int → Int × Nat
  | [] => (0xFFFD, 1)
  | b0 :: rest =>
    if b0 < 128 then (b0, 1)
    else if b0 < 0xC2 then (0xFFFD, 1)
    else if b0 < 0xE0 then
      match rest with
      | b1 :: _ => if isCont b1 then ((b0 - 0xC0) * 64 + (b1 - 128), 2) else (0xFFFD, 1)
      | _ => (0xFFFD, 1)
    else if b0 < 0xF0 then
      match rest with
      | b1 :: b2 :: _ =>
        let lo : Int := if b0 = 0xE0 then 0xA0 else 0x80
        let hi : Int := if b0 = 0xED then 0x9F else 0xBF
        if decide (lo ≤ b1) && decide (b1 ≤ hi) && isCont b2 then
          ((b0 - 0xE0) * 4096 + (b1 - 128) * 64 + (b2 - 128), 3)
        else (0xFFFD, 1)
      | _ => (0xFFFD, 1)
    else if b0 < 0xF5 then
      match rest with
      | b1 :: b2 :: b3 :: _ =>
        let lo : Int := if b0 = 0xF0 then 0x90 else 0x80
        let hi : Int := if b0 = 0xF4 then 0x8F else 0xBF
        if decide (lo ≤ b1) && decide (b1 ≤ hi) && isCont b2 && isCont b3 then
          ((b0 - 0xF0) * 262144 + (b1 - 128) * 4096 + (b2 - 128) * 64 + (b3 - 128), 4)
        else (0xFFFD, 1)
      | _ => (0xFFFD, 1)
    else (0xFFFD, 1)

/-- the runes `for _, c := range s` yields (fuel = number of bytes) -/
def runesF : Nat → List Int → List Int
  | 0, _ => []
  | _, [] => []
  | fuel + 1, b :: rest =>
    let d := decodeRune (b :: rest)
    d.1 :: runesF fuel (rest.drop (d.2 - 1))

def runes (s : List Int) : List Int := runesF s.length s

/-- `string(rune(r))`: the UTF-8 encoding, U+FFFD for invalid code points -/
def utf8Enc (r : Int) : List Int :=
  if 0 ≤ r ∧ r < 128 then [r]
  else if 128 ≤ r ∧ r < 2048 then [0xC0 + r / 64, 128 + r % 64]
  else if (2048 ≤ r ∧ r < 0xD800) ∨ (0xE000 ≤ r ∧ r < 65536) then [0xE0 + r / 4096, 128 + (r / 64) % 64, 128 + r % 64]
  else if 65536 ≤ r ∧ r < 0x110000 then [0xF0 + r / 262144, 128 + (r / 4096) % 64, 128 + (r / 64) % 64, 128 + r % 64]
  else [0xEF, 0xBF, 0xBD]

end Gzx.GoM
