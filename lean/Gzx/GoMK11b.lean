/-
  Run-time library of the translator extension of work package k11b (translator/ext_k11b.go): Go `[]bool` values are
  `List Int` holding 0 / 1 (a read is `x != 0`, a write stores `b2i v`).  Core Lean only.
-/
import Gzx.GoM
namespace Gzx.GoM

/-- a Go `bool` stored in a `[]bool` element -/
def b2i (b : Bool) : Int := if b then 1 else 0

end Gzx.GoM
