/-
  Run-time library of the translator extension of work package k11b2 (translator/ext_k11b2.go; generated modules
  `Gzx.Gen.K02e` — the Data Matrix bit-stream parser — and `Gzx.Gen.K11c` — the Aztec high-level decoder).

  * `itoa v`: `[]byte(strconv.Itoa(v))` by its SPECIFICATION (decimal digits, most significant first, `-` for negatives),
    not the library code.
  * `mk3n n c`: `make([]T, n, c)` when the capacity is never observed; `setContains`: membership in an `intSet`.
  * `idxLL`: a checked read of a `[]string`; `hasPrefix`: `strings.HasPrefix`.
  * `utf8Byte c`: `string(rune(c))` of a byte by its specification.
  * `latin1Utf8 bs`: `charmap.ISO8859_1.NewDecoder().Bytes(bs)` by its specification: every byte is the code point of the
    same value, encoded as UTF-8 (one byte below 0x80, two bytes otherwise); the decoder never fails.
  Core Lean only.
-/
import Gzx.GoM
namespace Gzx.GoM

/-- decimal digits of a natural number, most significant first (ASCII), at most `fuel` of them -/
def natDigits : Nat → Nat → List Int
  | 0, _ => []
  | fuel + 1, n => if n < 10 then [48 + (n : Int)] else natDigits fuel (n / 10) ++ [48 + ((n % 10 : Nat) : Int)]

/-- `[]byte(strconv.Itoa(v))` -/
def itoa (v : Int) : List Int :=
  if v < 0 then 45 :: natDigits ((-v).toNat + 1) (-v).toNat else natDigits (v.toNat + 1) v.toNat

/-- `make([]T, n, c)` of a slice whose capacity the function never observes: the two makeslice checks, `n` zeros -/
def mk3n (n c : Int) : Res (List Int) :=
  if n < 0 then .error (.panic "makeslice: len out of range")
  else if c < n then .error (.panic "makeslice: cap out of range")
  else .ok (List.replicate n.toNat 0)

/-- `s.contains(n)` of an intSet (the list of the keys added) -/
def setContains (s : List Int) (n : Int) : Bool := s.contains n

/-- `tbl[i]` of a list of byte lists (a `[]string`), checked -/
def idxLL (t : List (List Int)) (i : Int) : Res (List Int) :=
  if i < 0 then .error oob else
  match t[i.toNat]? with
  | some r => .ok r
  | none => .error oob

/-- `strings.HasPrefix(s, p)` -/
def hasPrefix (s p : List Int) : Bool := p.isPrefixOf s

/-- `string(rune(c))` of a byte `c`: the UTF-8 encoding of the code point U+00cc -/
def utf8Byte (b : Int) : List Int := if b < 128 then [b] else [192 + b / 64, 128 + b % 64]

/-- `charmap.ISO8859_1.NewDecoder().Bytes(bs)`: ISO-8859-1 bytes as UTF-8 -/
def latin1Utf8 (bs : List Int) : List Int :=
  bs.flatMap utf8Byte

end Gzx.GoM
