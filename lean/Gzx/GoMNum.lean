/-
  Run-time library of the translator's NUMBER-POLYMORPHIC kind `funcn` (work package k19; see
  /verif/translator/ext_k19.go): Go functions that compute with float64 are regenerated over an ABSTRACT number type
  `F` with a structure of operations `ops : NumOps F`, in the source's operand order and association.

  * `floatOps` — Lean `Float` (IEEE binary64, the operations the Go code executes; `toInt` = `floatToInt`);
  * `ratOps`   — exact rationals, `toInt` = truncation toward zero (what the hand-written models of C19 compute);
  * `GzxM` instantiates the same definitions with an arbitrary field (algebra theorems).
  Slices of numbers are `List F` with the same CHECKED accessors as `List Int` slices (`idxA`, `setIdxA`, `mkA`).
  Core Lean only.
-/
import Gzx.GoM
import Gzx.GoMTie
namespace Gzx.GoM

/-- the float64 operations a number-polymorphic kernel may use -/
structure NumOps (F : Type) where
  add : F → F → F
  sub : F → F → F
  mul : F → F → F
  div : F → F → F
  neg : F → F
  /-- `float64(i)` -/
  ofInt : Int → F
  /-- `int(f)` -/
  toInt : F → Int
  eq : F → F → Bool
  lt : F → F → Bool
  le : F → F → Bool

/-- `xs[i]` -/
def idxA {α : Type} (xs : List α) (i : Int) : Res α :=
  if i < 0 then .error oob else
  match xs[i.toNat]? with
  | some v => .ok v
  | none => .error oob

/-- `xs[i] = v` -/
def setIdxA {α : Type} (xs : List α) (i : Int) (v : α) : Res (List α) :=
  if i < 0 then .error oob else
  if i.toNat < xs.length then .ok (xs.set i.toNat v) else .error oob

/-- `make([]float64, n)` (`z` = the zero value) -/
def mkA {α : Type} (z : α) (n : Int) : Res (List α) :=
  if n < 0 then .error (.panic "makeslice: len out of range") else .ok (List.replicate n.toNat z)

/-- `len(xs)` -/
def lenA {α : Type} (xs : List α) : Int := (xs.length : Nat)

/-- IEEE binary64: what the Go code computes -/
def floatOps : NumOps Float where
  add := (· + ·)
  sub := (· - ·)
  mul := (· * ·)
  div := (· / ·)
  neg := fun a => -a
  ofInt := Float.ofInt
  toInt := floatToInt
  eq := (· == ·)
  lt := fun a b => decide (a < b)
  le := fun a b => decide (a ≤ b)

/-- Go `int(f)` on an exact rational: truncation toward zero -/
def truncRat (x : Rat) : Int := Int.tdiv x.num x.den

/-- exact rationals (division by zero is `0`: the theorems carry the guards, see Model/Perspective.lean) -/
def ratOps : NumOps Rat where
  add := (· + ·)
  sub := (· - ·)
  mul := (· * ·)
  div := (· / ·)
  neg := fun a => -a
  ofInt := fun i => (i : Rat)
  toInt := truncRat
  eq := fun a b => decide (a = b)
  lt := fun a b => decide (a < b)
  le := fun a b => decide (a ≤ b)

end Gzx.GoM
