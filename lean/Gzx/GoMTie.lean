/-
  Run-time library of the translator's round-4 subset (work package c16tie; see the header of
  /verif/translator/monadic.go): kernels that carry the slice-typed state of a struct parameter
  (`b.bits`, `b.size` … become locals that a write rebinds; the written fields are returned after the
  Go results), `for cond { … }` loops, `copy`, and the two `math/bits` functions the bit containers
  use, as SPECIFIED functions (not the Go library code).

  * `whileLoop body fuel st`: `body` tests the loop condition itself and yields `.brk st` when it is
    false; `fuel` bounds the number of iterations (`.panic .fuel` when it runs out).  A definition that
    contains such a loop takes `(fuel : Nat)` as its first parameter; the kernel theorems are stated
    for every `fuel` above an explicit bound.
  * `copyL dst src`: Go's `copy(dst, src)` on a whole slice; `copySeg dst lo hi src`:
    `copy(dst[lo:hi], src)` with the slice-bounds check (`hi ≤ len dst`: the translator's slices have
    `cap = len`, every slice in the bit containers comes from `make([]T, n)`).
  * `rev32` / `tz32`: `bits.Reverse32` / `bits.TrailingZeros32` by their specification on the
    low 32 bits.
  * `floatToInt`: `int(<float64>)`; float64 arithmetic inside an integer kernel is translated to Lean `Float`
    (IEEE binary64), about which nothing can be proved: the kernel keeps a definition and its theorem fails by name.
  Core Lean only.
-/
import Gzx.GoM
namespace Gzx.GoM

/-- `for cond { body }`: the body definition tests the condition and yields `.brk` when it fails -/
def whileLoop {σ ρ : Type} (body : σ → Ctl σ ρ) : Nat → σ → Ctl σ ρ
  | 0, _ => .panic .fuel
  | n + 1, st =>
    match body st with
    | .next st' => whileLoop body n st'
    | .brk st' => .brk st'
    | .ret r => .ret r
    | .panic f => .panic f

/-- Go `copy(dst, src)`: the first `min(len dst, len src)` elements of `dst` are replaced -/
def copyL (dst src : List Int) : List Int := src.take dst.length ++ dst.drop src.length

/-- Go `copy(dst[lo:hi], src)` -/
def copySeg (dst : List Int) (lo hi : Int) (src : List Int) : Res (List Int) :=
  if 0 ≤ lo ∧ lo ≤ hi ∧ hi ≤ (dst.length : Nat) then
    .ok (dst.take lo.toNat ++ copyL ((dst.drop lo.toNat).take (hi.toNat - lo.toNat)) src ++ dst.drop hi.toNat)
  else .error (.panic "slice bounds out of range")

/-- reverse the low `n` bits of `w` -/
def revBits : Nat → Nat → Nat
  | 0, _ => 0
  | n + 1, w => (w % 2) * 2 ^ n + revBits n (w / 2)

/-- `bits.Reverse32` (on the value of a uint32) -/
def rev32 (a : Int) : Int := (revBits 32 a.toNat : Nat)

/-- number of trailing zero bits, at most `fuel` -/
def ctz : Nat → Nat → Nat
  | 0, _ => 0
  | fuel + 1, w => if w % 2 = 1 then 0 else 1 + ctz fuel (w / 2)

/-- `bits.TrailingZeros32` (32 for 0) -/
def tz32 (a : Int) : Int := (ctz 32 a.toNat : Nat)

/-- `int(f)` of a float64 (truncation toward zero; Go leaves values outside int64 implementation-defined) -/
def floatToInt (f : Float) : Int := f.toInt64.toInt

end Gzx.GoM
