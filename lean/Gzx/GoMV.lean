/-
  Run-time library of the translator's VALUE-PASSING target (work package c04tie; kinds `ambient` / `funcv`,
  see /verif/translator/ext_c04tie.go): on top of `Gzx.GoM` / `Gzx.GoMTie`
  * `forRange body xs i st`: `for i, x := range xs { body }` over a slice the body does not write
    (structural recursion over the list; the body's outcome is a `Ctl` as in `GoM.loop`),
  * `idxL` / `lenL`: checked index / length of a slice of slices (`[]*GenericGFPoly` as `List (List Int)`).
  Core Lean only.
-/
import Gzx.GoMTie
namespace Gzx.GoM

/-- `for i, x := range xs { body }` (`i` counts from the given start) -/
def forRange {σ ρ : Type} (body : Int → Int → σ → Ctl σ ρ) : List Int → Int → σ → Ctl σ ρ
  | [], _, st => .next st
  | x :: xs, i, st =>
    match body i x st with
    | .next st' => forRange body xs (i + 1) st'
    | .brk st' => .brk st'
    | .ret r => .ret r
    | .panic f => .panic f

/-- `xs[i]` on a slice of slices -/
def idxL (xs : List (List Int)) (i : Int) : Res (List Int) :=
  if i < 0 then .error oob else
  match xs[i.toNat]? with
  | some v => .ok v
  | none => .error oob

/-- `len(xs)` on a slice of slices -/
def lenL (xs : List (List Int)) : Int := (xs.length : Nat)

end Gzx.GoM
