/-
  Target language of the translator (/verif/translator): a symbolic tree for Go initialiser
  expressions, and the integer operators used by translated kernels.
-/
namespace Gzx

inductive GoVal where
  | int (n : Int)
  | str (s : String)
  | bool (b : Bool)
  | list (xs : List GoVal)
  | app (f : String) (args : List GoVal)
  deriving Inhabited

namespace GoVal

/-- decoders used by the typed views of generated tables (non-recursive pattern matches) -/
def asInt? : GoVal → Option Int
  | .int n => some n
  | _ => none

def asNat? : GoVal → Option Nat
  | .int n => if n ≥ 0 then some n.toNat else none
  | _ => none

def asBool? : GoVal → Option Bool
  | .bool b => some b
  | _ => none

def asStr? : GoVal → Option String
  | .str s => some s
  | _ => none

def asList? : GoVal → Option (List GoVal)
  | .list xs => some xs
  | _ => none

def asIntList? (v : GoVal) : Option (List Int) := v.asList?.bind (·.mapM asInt?)
def asNatList? (v : GoVal) : Option (List Nat) := v.asList?.bind (·.mapM asNat?)
def asStrList? (v : GoVal) : Option (List String) := v.asList?.bind (·.mapM asStr?)
def asNatListList? (v : GoVal) : Option (List (List Nat)) := v.asList?.bind (·.mapM asNatList?)
def asIntListList? (v : GoVal) : Option (List (List Int)) := v.asList?.bind (·.mapM asIntList?)

/-- `.app f args` with the expected head -/
def asApp? (f : String) : GoVal → Option (List GoVal)
  | .app g args => if g = f then some args else none
  | _ => none

/-! integer operators of translated kernels (Go `int`, values stay far from 2^63) -/
/-- two's-complement AND on unbounded integers (Go semantics for `int`) -/
def iand (a b : Int) : Int :=
  if a ≥ 0 then
    if b ≥ 0 then Int.ofNat (a.toNat &&& b.toNat)
    else a - Int.ofNat (a.toNat &&& (-b - 1).toNat)              -- a & ~nb = a - (a & nb)
  else
    if b ≥ 0 then b - Int.ofNat (b.toNat &&& (-a - 1).toNat)
    else - Int.ofNat ((-a - 1).toNat ||| (-b - 1).toNat) - 1        -- ~(na | nb)
def inot (a : Int) : Int := -a - 1
def ior (a b : Int) : Int := inot (iand (inot a) (inot b))
def ixor (a b : Int) : Int := ior a b - iand a b
def ishl (a b : Int) : Int := a <<< b.toNat
def ishr (a b : Int) : Int := a >>> b.toNat

end GoVal
end Gzx
