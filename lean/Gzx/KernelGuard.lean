/-
  `when_kernel C in <command>`: elaborate the command only when the constant `C` exists, so that an
  obligation file still builds when a kernel left the translatable subset (the translator then emits
  NO definition, records `untranslatable` in gen-manifest.json and sets `Gen.<Module>.has_<f> := false`).
  `bin/check` reports a theorem guarded this way as skipped (note in the evidence), not as broken.
  Imported by obligation files only (needs `import Lean`; the driver never links it).
-/
import Lean
namespace Gzx.GoM

open Lean Elab Command in
/-- `when_kernel C in cmd`: elaborate `cmd` only if the constant `C` exists (the translator emits no
    definition for a function that left its subset and records `untranslatable`; `bin/check` then
    reports the guarded theorem as skipped, not as broken). -/
elab "when_kernel " c:ident " in " cmd:command : command => do
  let env ← getEnv
  let n := c.getId
  let ns ← getCurrNamespace
  let opens := (← getOpenDecls)
  let cands : List Name := [n, ns ++ n, `Gzx ++ n] ++ opens.filterMap (fun
    | OpenDecl.simple o _ => some (o ++ n)
    | _ => none)
  if cands.any env.contains then elabCommand cmd
  else logInfo m!"kernel {n} absent (untranslatable): guarded command skipped"

end Gzx.GoM
