/-
  Model of aztec/decoder/decoder.go (the Aztec decoder as coded) and of the integer tail of
  aztec/detector/detector.go (orientation + mode message).  Hand-written mirror of the Go control
  flow; tied to /repo by the `c11` correspondence suite.  Core Lean only.

    §1 bits, readCode, totalBitsInLayer, convertBoolArrayToByteArray
    §2 (file Gzx/Model/AztecExtract.lean) extractBits (alignmentMap, layer spiral read order)
    §3 Reed-Solomon decoder (mirror of common/reedsolomon, used by the executable model; the
       theorems take the decoder as a parameter)
    §4 correctBits (codeword size / field by layer count, RS, un-stuffing, format errors)
    §5 getEncodedData / HighLevelDecode (latch/shift tables, binary shift, FLG(n), end of data)
    §6 Decode
    §7 detector tail: getRotation, parameter bits, getCorrectedParameterData, field extraction

  Panics are values (`Fault.panic`).  The model mirrors the code AFTER the two repairs
  `fix: aztec getEncodedData capacity` (D10) and `fix: aztec unregistered ECI` (D11).
-/
import Gzx.Util
import Gzx.Model.AztecExtract
namespace Gzx.AztecDecoder

/-! ## §1 bits -/

/-- Go `readCode(rawbits, start, length)` on the already extracted slice `rawbits[start:start+length]` -/
def readCode (bs : List Bool) : Nat := bs.foldl (fun acc b => 2 * acc + (if b then 1 else 0)) 0

/-- first `k` elements and the rest; `none` if there are fewer than `k` -/
def splitN? {α} : Nat → List α → Option (List α × List α)
  | 0, bs => some ([], bs)
  | _ + 1, [] => none
  | k + 1, b :: bs => (splitN? k bs).map (fun p => (b :: p.1, p.2))

/-- Go `totalBitsInLayer(layers, compact)` -/
def totalBitsInLayer (layers : Nat) (compact : Bool) : Nat :=
  ((if compact then 88 else 112) + 16 * layers) * layers

/-- Go `readByte` + `convertBoolArrayToByteArray`: pack MSB first, last byte zero-padded -/
def convertBoolArrayToByteArray : Nat → List Bool → List Nat
  | 0, _ => []
  | _, [] => []
  | fuel + 1, bs =>
    let h := bs.take 8
    (readCode h * 2 ^ (8 - h.length)) :: convertBoolArrayToByteArray fuel (bs.drop 8)

def toByteArray (bs : List Bool) : List Nat := convertBoolArrayToByteArray (bs.length + 1) bs

/-! ## §3 Reed-Solomon decoder mirror (ReedSolomonDecoder.Decode over GenericGF, generator base 1)

Polynomials are coefficient lists, highest degree first, normalised as `NewGenericGFPoly` does. -/

/-- GF(2^w) with its exp/log tables (as `NewGenericGF` builds them; the tables are an executable
    device only — nothing is proved about this mirror) -/
structure Field where
  w : Nat          -- size = 2^w
  prim : Nat
  exp : Array Nat  -- alpha^0 .. alpha^(size-1) (`expTable`, `size` entries)
  log : Array Nat
  deriving Repr

def Field.size (f : Field) : Nat := 2 ^ f.w

/-- `NewGenericGF(prim, 2^w, 1)` -/
def Field.make (w prim : Nat) : Field :=
  let size := 2 ^ w
  let exp := ((List.range size).foldl (fun (p : Array Nat × Nat) _ =>
      (p.1.push p.2, (let x := p.2 * 2; if x ≥ size then (x ^^^ prim) % size else x))) (#[], 1)).1
  let log := (List.range (size - 1)).foldl (fun (l : Array Nat) i => l.setIfInBounds (exp.getD i 0) i)
      (Array.replicate size 0)
  ⟨w, prim, exp, log⟩

/-- `field.Multiply` -/
def Field.mul (f : Field) (a b : Nat) : Nat :=
  if a = 0 ∨ b = 0 then 0
  else f.exp.getD ((f.log.getD a 0 + f.log.getD b 0) % (f.size - 1)) 0

/-- `field.Inverse(a)`; Go returns IllegalArgumentException for 0 -/
def Field.inv (f : Field) (a : Nat) : Res Nat :=
  if a = 0 then .error .illegalArg else .ok (f.exp.getD (f.size - f.log.getD a 0 - 1) 0)

/-- alpha^0 .. alpha^(size-2) -/
def Field.expList (f : Field) : List Nat := f.exp.toList.take (f.size - 1)

abbrev Poly := List Nat

def polyNorm (cs : List Nat) : Poly :=
  match cs.dropWhile (· == 0) with
  | [] => [0]
  | p => p

def polyDeg (p : Poly) : Nat := p.length - 1
def polyIsZero (p : Poly) : Bool := p.headD 0 == 0
def polyCoeff (p : Poly) (deg : Nat) : Nat := if deg < p.length then p.getD (p.length - 1 - deg) 0 else 0
def polyLead (p : Poly) : Nat := p.headD 0

def polyEval (f : Field) (p : Poly) (a : Nat) : Nat :=
  p.foldl (fun acc c => f.mul a acc ^^^ c) 0

def polyAdd (p q : Poly) : Poly :=
  let n := max p.length q.length
  let p' := List.replicate (n - p.length) 0 ++ p
  let q' := List.replicate (n - q.length) 0 ++ q
  polyNorm (List.zipWith (· ^^^ ·) p' q')

def polyScale (f : Field) (p : Poly) (s : Nat) : Poly :=
  if s = 0 then [0] else polyNorm (p.map (f.mul · s))

def polyMulMonomial (f : Field) (p : Poly) (deg coef : Nat) : Poly :=
  if coef = 0 then [0] else polyNorm (p.map (f.mul · coef) ++ List.replicate deg 0)

def polyMul (f : Field) (p q : Poly) : Poly :=
  if polyIsZero p || polyIsZero q then [0]
  else
    let terms := p.zipIdx.map (fun (c, i) => polyMulMonomial f q (p.length - 1 - i) c)
    terms.foldl polyAdd [0]

/-- inner division loop of runEuclideanAlgorithm -/
def euclidDiv (f : Field) (rLast : Poly) (dltInv : Nat) : Nat → Poly → Poly → Poly × Poly
  | 0, r, q => (r, q)
  | fuel + 1, r, q =>
    if polyDeg r ≥ polyDeg rLast && !polyIsZero r then
      let dd := polyDeg r - polyDeg rLast
      let scale := f.mul (polyLead r) dltInv
      let q := polyAdd q (polyMulMonomial f [1] dd scale)
      let r := polyAdd r (polyMulMonomial f rLast dd scale)
      euclidDiv f rLast dltInv fuel r q
    else (r, q)

def euclidLoop (f : Field) (R : Nat) : Nat → Poly → Poly → Poly → Poly → Res (Poly × Poly)
  | 0, _, _, _, _ => .error .fuel
  | fuel + 1, rLast, r, tLast, t =>
    if 2 * polyDeg r ≥ R then
      let rLastLast := rLast
      let tLastLast := tLast
      let rLast := r
      let tLast := t
      if polyIsZero rLast then .error .checksum
      else do
        let dltInv ← f.inv (polyLead rLast)
        let (r, q) := euclidDiv f rLast dltInv (polyDeg rLastLast + 2) rLastLast [0]
        let t := polyAdd (polyMul f q tLast) tLastLast
        if polyDeg r ≥ polyDeg rLast then .error .illegalArg
        else euclidLoop f R fuel rLast r tLast t
    else
      let s0 := polyCoeff t 0
      if s0 = 0 then .error .checksum
      else do
        let inv ← f.inv s0
        pure (polyScale f t inv, polyScale f r inv)

def findErrorLocations (f : Field) (sigma : Poly) : Res (List Nat) :=
  let numErrors := polyDeg sigma
  if numErrors = 1 then .ok [polyCoeff sigma 1]
  else
    let roots := ((List.range (f.size - 1)).map (· + 1)).filter (fun i => polyEval f sigma i == 0)
    -- Go stops after numErrors roots; a polynomial of that degree cannot have more
    if roots.length ≠ numErrors then .error .checksum
    else roots.mapM f.inv

def findErrorMagnitudes (f : Field) (omega : Poly) (locs : List Nat) : Res (List Nat) :=
  locs.zipIdx.mapM (fun (xi, i) => do
    let xiInv ← f.inv xi
    let denom := locs.zipIdx.foldl (fun d (xj, j) =>
      if i ≠ j then
        let term := f.mul xj xiInv
        let termPlus1 := if term % 2 == 0 then term ||| 1 else term - 1
        f.mul d termPlus1
      else d) 1
    let dInv ← f.inv denom
    pure (f.mul (f.mul (polyEval f omega xiInv) dInv) xiInv))

def applyErrors (f : Field) (exps : List Nat) : List Nat → List (Nat × Nat) → Res (List Nat)
  | rec, [] => .ok rec
  | rec, (loc, mag) :: rest =>
    if loc = 0 then .error .illegalArg
    else
      let log := f.log.getD loc 0
      if rec.length < 1 + log then .error .checksum       -- position < 0
      else
        let pos := rec.length - 1 - log
        applyErrors f exps (rec.set pos (rec.getD pos 0 ^^^ mag)) rest

/-- `ReedSolomonDecoder.Decode(received, twoS)`: corrected words or an error -/
def rsDecode (f : Field) (received : List Nat) (twoS : Nat) : Res (List Nat) :=
  if received.isEmpty then .error .illegalArg
  else
    let poly := polyNorm received
    let exps := f.expList
    let synd := (List.range twoS).map (fun i => polyEval f poly (f.exp.getD ((i + 1) % (f.size - 1)) 1))
    if synd.all (· == 0) then .ok received
    else do
      let syndrome := polyNorm synd.reverse
      let monomial := 1 :: List.replicate twoS 0
      let (a, b) := if polyDeg monomial < polyDeg syndrome then (syndrome, monomial) else (monomial, syndrome)
      let (sigma, omega) ← euclidLoop f twoS (twoS + 2) a b [0] [1]
      let locs ← findErrorLocations f sigma
      let mags ← findErrorMagnitudes f omega locs
      applyErrors f exps received (locs.zip mags)

/-! ## §4 correctBits -/

/-- codeword size and field by layer count -/
def codewordSize (layers : Nat) : Nat :=
  if layers ≤ 2 then 6 else if layers ≤ 8 then 8 else if layers ≤ 22 then 10 else 12

/-- GenericGF_AZTEC_DATA_6/8/10/12 and AZTEC_PARAM -/
def fieldOf (w : Nat) : Field :=
  Field.make w (if w = 4 then 0x13 else if w = 6 then 0x43 else if w = 8 then 0x12D
      else if w = 10 then 0x409 else 0x1069)

/-- the type of an RS decoder: field word size, received words, number of check words -/
abbrev RSDecoder := Nat → List Nat → Nat → Res (List Nat)

def rsMirror : RSDecoder := fun w rec twoS => rsDecode (fieldOf w) rec twoS

/-- cut into `w`-bit words -/
def chunkWords (w : Nat) : Nat → List Bool → List Nat
  | 0, _ => []
  | n + 1, bs => readCode (bs.take w) :: chunkWords w n (bs.drop w)

/-- `w` bits of `n`, most significant first (the inner loop of the un-stuffing) -/
def wordBits : Nat → Nat → List Bool
  | 0, _ => []
  | w + 1, n => wordBits w (n / 2) ++ [n % 2 == 1]

/-- the un-stuffing loop over the data words; `mask = 2^w - 1` -/
def unstuff (w : Nat) : List Nat → Res (List Bool)
  | [] => .ok []
  | d :: ds =>
    let mask := 2 ^ w - 1
    if d = 0 ∨ d = mask then .error .format
    else do
      let rest ← unstuff w ds
      if d = 1 ∨ d = mask - 1 then pure (List.replicate (w - 1) (decide (d > 1)) ++ rest)
      else pure (wordBits w d ++ rest)

structure Corrected where
  bits : List Bool
  ecLevel : Nat
  deriving Repr, DecidableEq

/-- Go `correctBits(rawbits)` with `ddata = (layers, numDataCodewords)` -/
def correctBits (rs : RSDecoder) (rawbits : List Bool) (layers numDataCodewords : Nat) : Res Corrected :=
  let w := codewordSize layers
  let numCodewords := rawbits.length / w
  if numCodewords < numDataCodewords then .error .format
  else
    let offset := rawbits.length % w
    let dataWords := chunkWords w numCodewords (rawbits.drop offset)
    match rs w dataWords (numCodewords - numDataCodewords) with
    | .error _ => .error .format
    | .ok corrected => do
      let bits ← unstuff w (corrected.take numDataCodewords)
      if numCodewords = 0 then .error (.panic "integer divide by zero")
      else pure ⟨bits, 100 * (numCodewords - numDataCodewords) / numCodewords⟩

/-! ## §5 getEncodedData -/

inductive Table where
  | upper | lower | mixed | digit | punct | binary
  deriving DecidableEq, Repr, Inhabited

/-- a table string as the code uses it -/
inductive DEntry where
  | flg                                   -- str == "FLG(n)"
  | ctrl (t : Table) (latch : Bool)       -- "CTRL_xy": getTable(str[5]), str[6] == 'L'
  | lit (bytes : List Nat)                -- anything else: its bytes
  deriving DecidableEq, Repr, Inhabited

/-- Go `getTable(t byte)` -/
def getTable (c : Char) : Table :=
  if c = 'L' then .lower else if c = 'P' then .punct else if c = 'M' then .mixed
  else if c = 'D' then .digit else if c = 'B' then .binary else .upper

/-- UTF-8 bytes of a code point (`[]byte(str)`) -/
def charUtf8 (c : Nat) : List Nat :=
  if c < 0x80 then [c]
  else if c < 0x800 then [0xC0 + c / 64, 0x80 + c % 64]
  else if c < 0x10000 then [0xE0 + c / 4096, 0x80 + c / 64 % 64, 0x80 + c % 64]
  else [0xF0 + c / 262144, 0x80 + c / 4096 % 64, 0x80 + c / 64 % 64, 0x80 + c % 64]

/-- how `getEncodedData` classifies a table string; `none` where Go would index past the end of
    a too-short "CTRL_" string -/
def classify (s : String) : Option DEntry :=
  let cs := s.toList
  if s = "FLG(n)" then some .flg
  else if cs.take 5 = ['C', 'T', 'R', 'L', '_'] then
    match cs.drop 5 with
    | t :: l :: _ => some (.ctrl (getTable t) (l == 'L'))
    | _ => none
  else some (.lit (cs.flatMap (fun c => charUtf8 c.toNat)))

structure Tables where
  upper : List DEntry
  lower : List DEntry
  mixed : List DEntry
  punct : List DEntry
  digit : List DEntry
  deriving DecidableEq, Repr

/-- Go `getCharacter(table, code)` -/
def getCharacter (T : Tables) (t : Table) (code : Nat) : Res DEntry :=
  let tbl? : Option (List DEntry) := match t with
    | .upper => some T.upper | .lower => some T.lower | .mixed => some T.mixed
    | .punct => some T.punct | .digit => some T.digit | .binary => none
  match tbl? with
  | none => .error .format
  | some tbl =>
    match tbl[code]? with
    | none => .error .format       -- code >= len(tbl)
    | some e => .ok e

/-- decoded output: byte runs under a character set (none = the default ISO-8859-1; some n = ECI n)
    and raw bytes appended to the result directly (FNC1 -> 0x1D) -/
inductive Seg where
  | enc (eci : Option Nat) (bytes : List Nat)
  | raw (bytes : List Nat)
  deriving DecidableEq, Repr, Inhabited

/-! The Go loop keeps control state (`latchTable`, `shiftTable`, `index`) and data state (`result`,
`decodedBytes`, `encoding`).  The data never influences the control flow, so the mirror is split:
`step`/`loop` mirror the control flow and emit *events* (bytes appended to `decodedBytes`, FNC1,
ECI switch); `segments` mirrors what the data state does with them (flush on FLG, final flush). -/

inductive Event where
  | bytes (bs : List Nat)     -- `decodedBytes = append(decodedBytes, ...)`
  | fnc1                      -- FLG(0): flush, then `result = append(result, 29)`
  | eci (n : Nat)             -- FLG(1..6): flush, then `encoding = charsetECI.GetCharset()`
  | flush                     -- FLG(1..6) without enough digit bits: only the flush happened
  deriving DecidableEq, Repr, Inhabited

structure Ctl where
  latch : Table              -- table most recently latched to
  shift : Table              -- table to use for the next read
  deriving DecidableEq, Repr, Inhabited

def Ctl.init : Ctl := ⟨.upper, .upper⟩

inductive Step where
  | next (c : Ctl) (rest : List Bool) (ev : List Event)   -- continue the `for index < endIndex` loop
  | stop                                                  -- `break` out of it
  | fail (e : Fault)                                      -- `return ..., err`
  deriving DecidableEq, Repr

/-- the byte loop of a binary shift: `length` bytes, or stop everything when the bits run out -/
def takeBytes : Nat → List Bool → List Nat → (List Nat × List Bool)
  | 0, bits, acc => (acc, bits)
  | n + 1, bits, acc =>
    match splitN? 8 bits with
    | none => (acc, [])                      -- index = endIndex
    | some (b, rest) => takeBytes n rest (acc ++ [readCode b])

/-- the ECI digits of FLG(n) -/
def readDigits : Nat → List Bool → Nat → Res (Nat × List Bool)
  | 0, bits, eci => .ok (eci, bits)
  | n + 1, bits, eci =>
    match splitN? 4 bits with
    | none => .error (.panic "readCode out of range")      -- excluded by the length test before the loop
    | some (d, rest) =>
      let nextDigit := readCode d
      if nextDigit < 2 ∨ nextDigit > 11 then .error .format
      else readDigits n rest (eci * 10 + (nextDigit - 2))

/-- one iteration of the main loop.  `registered eci` says whether `GetCharacterSetECIByValue`
    knows the value (`eci < 900` and in the registry). -/
def step (T : Tables) (registered : Nat → Bool) (c : Ctl) (bits : List Bool) : Step :=
  if c.shift = .binary then
    match splitN? 5 bits with
    | none => .stop
    | some (l5, bits1) =>
      let length := readCode l5
      let afterLen : Option (Nat × List Bool) :=
        if length = 0 then
          match splitN? 11 bits1 with
          | none => none
          | some (l11, bits2) => some (readCode l11 + 31, bits2)
        else some (length, bits1)
      match afterLen with
      | none => .stop
      | some (length, bits2) =>
        let (bytes, rest) := takeBytes length bits2 []
        -- appending no bytes (the bits ran out at once) is not an event
        .next ⟨c.latch, c.latch⟩ rest (if bytes.isEmpty then [] else [.bytes bytes])
  else
    let size := if c.shift = .digit then 4 else 5
    match splitN? size bits with
    | none => .stop
    | some (cb, bits1) =>
      match getCharacter T c.shift (readCode cb) with
      | .error e => .fail e
      | .ok .flg =>
        match splitN? 3 bits1 with
        | none => .stop
        | some (nb, bits2) =>
          let n := readCode nb
          if n = 0 then .next ⟨c.latch, c.latch⟩ bits2 [.fnc1]
          else if n = 7 then .fail .format
          else if bits2.length < 4 * n then
            .next ⟨c.latch, c.latch⟩ bits2 [.flush]             -- `break` leaves the switch only
          else
            match readDigits n bits2 0 with
            | .error e => .fail e
            | .ok (eci, bits3) =>
              if eci ≥ 900 then .fail .format
              else if !registered eci then .fail .format           -- after `fix: aztec unregistered ECI`
              else .next ⟨c.latch, c.latch⟩ bits3 [.eci eci]
      | .ok (.ctrl t isLatch) =>
        -- latchTable = shiftTable; shiftTable = getTable(str[5]); if str[6]=='L' { latchTable = shiftTable }
        .next ⟨if isLatch then t else c.shift, t⟩ bits1 []
      | .ok (.lit bytes) => .next ⟨c.latch, c.latch⟩ bits1 [.bytes bytes]

def loop (T : Tables) (registered : Nat → Bool) : Nat → Ctl → List Bool → Res (List Event)
  | 0, _, _ => .error .fuel
  | fuel + 1, c, bits =>
    if bits.isEmpty then .ok []                 -- `index < endIndex` fails
    else
      match step T registered c bits with
      | .next c' rest ev => (loop T registered fuel c' rest).map (ev ++ ·)
      | .stop => .ok []
      | .fail e => .error e

/-- data state of the Go loop: `result` (segments already transformed), `decodedBytes`, `encoding` -/
structure Data where
  result : List Seg
  decoded : List Nat
  enc : Option Nat
  deriving DecidableEq, Repr, Inhabited

/-- `transform.Append(encoding.NewDecoder(), result, decodedBytes)` (the text codecs are not modelled:
    the segment is recorded with its character set) -/
def Data.flush (d : Data) : Data :=
  if d.decoded.isEmpty then d
  else { d with result := d.result ++ [.enc d.enc d.decoded], decoded := [] }

def Data.apply (d : Data) : Event → Data
  | .bytes bs => { d with decoded := d.decoded ++ bs }
  | .fnc1 => let d := d.flush; { d with result := d.result ++ [.raw [29]] }
  | .eci n => { d.flush with enc := some n }
  | .flush => d.flush

/-- what the events leave in `result` after the final flush -/
def segments (evs : List Event) : List Seg :=
  (evs.foldl Data.apply ⟨[], [], none⟩).flush.result

/-- Go `getEncodedData(correctedBits)` = `HighLevelDecode` -/
def getEncodedData (T : Tables) (registered : Nat → Bool) (bits : List Bool) : Res (List Seg) :=
  (loop T registered (bits.length + 1) Ctl.init bits).map segments

/-- ISO-8859-1 bytes to UTF-8 (what Go's `string(result)` holds for the default character set) -/
def latin1ToUtf8 (bs : List Nat) : List Nat :=
  bs.flatMap (fun b => if b < 128 then [b] else [192 + b / 64, 128 + b % 64])

/-- UTF-8 rendering when only the default character set occurs -/
def renderDefault : List Seg → Option (List Nat)
  | [] => some []
  | .enc none bs :: r => (renderDefault r).map (latin1ToUtf8 bs ++ ·)
  | .raw bs :: r => (renderDefault r).map (bs ++ ·)
  | .enc (some _) _ :: _ => none

/-! ## §6 Decode -/

structure Decoded where
  segs : List Seg
  rawBytes : List Nat
  numBits : Nat
  ecLevel : Nat
  deriving Repr, DecidableEq

/-- Go `Decoder.Decode(AztecDetectorResult{bits, compact, nbDatablocks, nbLayers})` -/
def decode (T : Tables) (registered : Nat → Bool) (rs : RSDecoder)
    (m : Matrix) (compact : Bool) (nbDatablocks nbLayers : Nat) : Res Decoded := do
  let rawbits ← extractBits m nbLayers compact
  let c ← correctBits rs rawbits nbLayers nbDatablocks
  let segs ← getEncodedData T registered c.bits
  pure ⟨segs, toByteArray c.bits, c.bits.length, c.ecLevel⟩

/-! ## §7 detector tail (integer part of extractParameters) -/

/-- Go `getRotation(sides, length)`; `expected` = EXPECTED_CORNER_BITS -/
def getRotation (expected : List Nat) (sides : List Nat) (length : Nat) : Res Nat :=
  let cornerBits := sides.foldl (fun cb side =>
    let t := ((side >>> (length - 2)) <<< 1) + (side &&& 1)
    (cb <<< 3) + t) 0
  let cornerBits := ((cornerBits &&& 1) <<< 11) + (cornerBits >>> 1)
  let popcount (n : Nat) : Nat := ((List.range 16).filter (fun i => n.testBit i)).length
  match (List.range 4).find? (fun shift =>
      match expected[shift]? with
      | some e => popcount ((cornerBits ^^^ e) % 65536) ≤ 2
      | none => false) with
  | some s => .ok s
  | none => .error .notFound

/-- flatten the four sides (starting at `shift`) into the 28- or 40-bit parameter word -/
def parameterData (compact : Bool) (sides : List Nat) (shift : Nat) : Nat :=
  (List.range 4).foldl (fun pd i =>
    let side := sides.getD ((shift + i) % 4) 0
    if compact then (pd <<< 7) + ((side >>> 1) &&& 0x7F)
    else (pd <<< 10) + (((side >>> 2) &&& (0x1f <<< 5)) + ((side >>> 1) &&& 0x1F))) 0

/-- Go `getCorrectedParameterData` followed by the field split: (nbLayers, nbDataBlocks) -/
def correctedParameters (rs : RSDecoder) (compact : Bool) (pd : Nat) : Res (Nat × Nat) :=
  let numCodewords := if compact then 7 else 10
  let numDataCodewords := if compact then 2 else 4
  let words := (List.range numCodewords).map (fun i => (pd >>> (4 * (numCodewords - 1 - i))) &&& 0xF)
  match rs 4 words (numCodewords - numDataCodewords) with
  | .error _ => .error .notFound
  | .ok ws =>
    let r := (ws.take numDataCodewords).foldl (fun r w => (r <<< 4) + w) 0
    if compact then .ok ((r >>> 6) + 1, (r &&& 0x3F) + 1)
    else .ok ((r >>> 11) + 1, (r &&& 0x7FF) + 1)

end Gzx.AztecDecoder
