/-
  Model of aztec/decoder/decoder.go `extractBits` (part of the decoder model Gzx.AztecDecoder; a
  separate file so that the per-size kernel checks of the layout only depend on it).
-/
import Gzx.Util
namespace Gzx.AztecDecoder

/-! ## §2 extractBits -/

abbrev Matrix := List (List Bool)   -- rows; `m[y][x]`

/-- `matrix.Get(x, y)`; the model is only specified for in-range coordinates -/
def getBit (m : Matrix) (x y : Nat) : Res Bool :=
  match m[y]? with
  | none => .error (.panic "matrix.Get: y out of range")
  | some row =>
    match row[x]? with
    | none => .error (.panic "matrix.Get: x out of range")
    | some b => .ok b

def baseMatrixSize (layers : Nat) (compact : Bool) : Nat :=
  layers * 4 + (if compact then 11 else 14)

/-- Go: `matrixSize := baseMatrixSize + 1 + 2*((baseMatrixSize/2-1)/15)` (full-range only) -/
def matrixSize (layers : Nat) (compact : Bool) : Nat :=
  let b := baseMatrixSize layers compact
  if compact then b else b + 1 + 2 * ((b / 2 - 1) / 15)

/-- `alignmentMap[idx]` as the closed form of the two assignments in the Go loop
      alignmentMap[origCenter-i-1] = center - (i + i/15) - 1
      alignmentMap[origCenter+i]   = center + (i + i/15) + 1        (0 ≤ i < origCenter) -/
def alignmentMap (layers : Nat) (compact : Bool) (idx : Nat) : Nat :=
  if compact then idx
  else
    let b := baseMatrixSize layers compact
    let origCenter := b / 2
    let center := matrixSize layers compact / 2
    if idx < origCenter then
      let i := origCenter - 1 - idx
      center - (i + i / 15) - 1
    else
      let i := idx - origCenter
      center + (i + i / 15) + 1

/-- read coordinates (x, y) of one layer, in the order of the rawbits indices it fills:
    four sides of `rowSize` dominoes, each domino k = 0,1 -/
def layerPositions (layers : Nat) (compact : Bool) (i : Nat) : List (Nat × Nat) :=
  let am := alignmentMap layers compact
  let rowSize := (layers - i) * 4 + (if compact then 9 else 12)
  let low := i * 2
  let high := baseMatrixSize layers compact - 1 - low
  let jk := (List.range rowSize).flatMap (fun j => [(j, 0), (j, 1)])
  jk.map (fun (j, k) => (am (low + k), am (low + j)))          -- left column
  ++ jk.map (fun (j, k) => (am (low + j), am (high - k)))      -- bottom row
  ++ jk.map (fun (j, k) => (am (high - k), am (high - j)))     -- right column
  ++ jk.map (fun (j, k) => (am (high - j), am (low + k)))      -- top row

/-- all read coordinates in rawbits order -/
def readPositions (layers : Nat) (compact : Bool) : List (Nat × Nat) :=
  (List.range layers).flatMap (layerPositions layers compact)

/-- read the modules at the given coordinates, in order; the first out-of-range read fails -/
def readAll (m : Matrix) : List (Nat × Nat) → Res (List Bool)
  | [] => .ok []
  | p :: ps =>
    match getBit m p.1 p.2 with
    | .error e => .error e
    | .ok b =>
      match readAll m ps with
      | .error e => .error e
      | .ok bs => .ok (b :: bs)

/-- Go `extractBits` -/
def extractBits (m : Matrix) (layers : Nat) (compact : Bool) : Res (List Bool) :=
  readAll m (readPositions layers compact)

end Gzx.AztecDecoder
