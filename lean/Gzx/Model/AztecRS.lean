/-
  The Aztec decoder model with the Reed-Solomon decoder of property C04 plugged in.

  `Gzx.AztecDecoder.correctBits` / `correctedParameters` take the Reed-Solomon decoder as a parameter of type
  `RSDecoder` (codeword size, received words, number of check words).  `rsModel` is the instance the Go code
  uses: `reedsolomon.NewReedSolomonDecoder(field).Decode(words, numEC)` — the model `Gzx.RS.decode` of
  common/reedsolomon (Model/RS.lean, all of whose theorems are in Properties/C04.lean) over the field that
  `correctBits` selects by layer count (codeword size 6/8/10/12 -> GenericGF_AZTEC_DATA_6/8/10/12) and that
  `getCorrectedParameterData` uses for the mode message (GenericGF_AZTEC_PARAM, 4-bit words).
  Core Lean only.
-/
import Gzx.Model.RS
import Gzx.Model.AztecDecoder
namespace Gzx.AztecDecoder
open Gzx Gzx.GF

/-- the `GenericGF` instance by codeword size, as `correctBits` (6, 8, 10, otherwise 12) and
    `getCorrectedParameterData` (4) choose it -/
def gfOf (w : Nat) : GF :=
  if w = 4 then aztecParam else if w = 6 then aztecData6 else if w = 8 then aztecData8
  else if w = 10 then aztecData10 else aztecData12

/-- `ReedSolomonDecoder.Decode` over that field (model of property C04) -/
def rsModel : RSDecoder := fun w received twoS => Gzx.RS.decode (gfOf w) received twoS

/-- the codewords `correctBits` hands to the Reed-Solomon decoder: `rawbits` without its leading
    `len % w` pad bits, cut into `len / w` words of `w` bits (the `dataWords` array of the Go code) -/
def receivedWords (layers : Nat) (rawbits : List Bool) : List Nat :=
  let w := codewordSize layers
  chunkWords w (rawbits.length / w) (rawbits.drop (rawbits.length % w))

/-- Go `Decoder.Decode` with the library's own Reed-Solomon decoder -/
def decodeFull (T : Tables) (registered : Nat → Bool) (m : Matrix) (compact : Bool)
    (nbDatablocks nbLayers : Nat) : Res Decoded :=
  decode T registered rsModel m compact nbDatablocks nbLayers

end Gzx.AztecDecoder
