/-
  Model of global_histogram_binarizer.go and hybrid_binarizer.go (root package of gozxing).
  Hand-written mirror of the Go control flow; tied to /repo by the `c17 ebp / brow / glob / hyb / hbp`
  correspondence suites.  Luminances are a flat row-major `Array Nat` (bytes) exactly as
  `LuminanceSource.GetMatrix()` returns them; every index expression that can panic in Go is an explicit
  `.error (.panic _)`.  A black matrix is represented by the list of `BitMatrix.Set(x, y)` calls the Go code
  performs (bits are only ever set); `render` turns that list into a bit picture.
-/
import Gzx.Util
import Gzx.Model.ExceptList
namespace Gzx.Binarizer

/-- `luminances[i]` -/
def rd (lum : Array Nat) (i : Nat) : Res Nat :=
  match lum[i]? with
  | some v => .ok v
  | none => .error (.panic "luminances index out of range")

/-- one pixel of a rectangle scan: `luminances[offset+xx] & 0xff` with `offset = (y0+yy)*w + x0` -/
def scanCell (lum : Array Nat) (w x0 y0 : Nat) (test : Nat → Bool) (yy xx : Nat) : Res (Nat × Nat × Bool) :=
  match rd lum ((y0 + yy) * w + x0 + xx) with
  | .error e => .error e
  | .ok p => .ok (x0 + xx, y0 + yy, test (p % 256))

def scanCells (lum : Array Nat) (w x0 y0 nx : Nat) (test : Nat → Bool) (yy : Nat) : Res (List (Nat × Nat × Bool)) :=
  mapME (scanCell lum w x0 y0 test yy) (List.range nx)

def keepSet : (Nat × Nat × Bool) → Option (Nat × Nat)
  | (x, y, b) => if b then some (x, y) else none

/-- visits the `nx x ny` rectangle at `(x0, y0)` of a `w`-wide image row by row and collects the
    `Set(x, y)` calls for the pixels that pass `test`.  Shared by `thresholdBlock` (8x8, `≤ threshold`) and
    the global method (whole image, `< blackPoint`). -/
def scanRect (lum : Array Nat) (w x0 y0 nx ny : Nat) (test : Nat → Bool) : Res (List (Nat × Nat)) :=
  match mapME (scanCells lum w x0 y0 nx test) (List.range ny) with
  | .error e => .error e
  | .ok rows => .ok (rows.flatten.filterMap keepSet)

/-! ## GlobalHistogramBinarizer -/

def LUMINANCE_BUCKETS : Nat := 32

/-- `(pixel & 0xff) >> LUMINANCE_SHIFT` -/
def bucketOf (p : Nat) : Nat := (p % 256) / 8

/-- `localBuckets[bucketOf p]++` over the sampled pixels (the index is always < 32) -/
def histogram (ps : List Nat) : List Nat :=
  (List.range LUMINANCE_BUCKETS).map (fun b => ps.countP (fun p => bucketOf p == b))

/-- a loop of the shape `if score(x) > best { bestX = x; best = score(x) }`: the first strictly greater
    candidate wins -/
def argmaxStrict : (Nat × Int) → List (Nat × Int) → (Nat × Int)
  | best, [] => best
  | best, (x, s) :: rest => if s > best.2 then argmaxStrict (x, s) rest else argmaxStrict best rest

/-- buckets with their indices -/
def indexed (bs : List Nat) : List (Nat × Nat) := (List.range bs.length).zip bs

def sqDist (x p : Nat) : Nat := if x ≥ p then (x - p) * (x - p) else (p - x) * (p - x)

/-- `estimateBlackPoint(buckets)`: tallest peak, second peak weighted by squared distance, swap so that
    first < second, contrast test `second - first ≤ numBuckets/16` → NotFound, then the valley that maximises
    `fromFirst² · (second - x) · (maxBucketCount - buckets[x])` scanning from the right; result `valley << 3`.
    No indexing: all loops run over the bucket list itself. -/
def estimateBlackPoint (buckets : List Nat) : Res Nat :=
  let numBuckets := buckets.length
  let ib := indexed buckets
  -- firstPeak / firstPeakSize and maxBucketCount are updated by the same strict comparison
  let first := argmaxStrict (0, 0) (ib.map (fun (x, c) => (x, (c : Int))))
  let firstPeak := first.1
  let maxBucketCount := first.2
  let second := argmaxStrict (0, 0) (ib.map (fun (x, c) => (x, ((c * sqDist x firstPeak : Nat) : Int))))
  let fp := min firstPeak second.1
  let sp := max firstPeak second.1
  if sp - fp ≤ numBuckets / 16 then .error .notFound
  else
    -- x = secondPeak-1 downto firstPeak+1
    let cands := (ib.filter (fun (x, _) => decide (fp < x ∧ x < sp))).reverse
    let best := argmaxStrict (sp - 1, -1)
      (cands.map (fun (x, c) => (x, ((x - fp) * (x - fp) * (sp - x) : Nat) * (maxBucketCount - (c : Int)))))
    .ok (best.1 * 8)

/-- the `-1 4 -1` box filter of `GetBlackRow` for `width ≥ 3`: bit `x` (1 ≤ x ≤ width-2) is set iff
    `((center*4) - left - right) / 2 < blackPoint` (Go's `/` truncates toward zero) -/
def sharpen (bp : Nat) : List Nat → List Bool
  | l :: c :: r :: rest =>
    decide (Int.tdiv ((c : Int) * 4 - l - r) 2 < bp) :: sharpen bp (c :: r :: rest)
  | _ => []

/-- `GetBlackRow` on the luminances of one row (`width = row.length`): the returned bits 0..width-1 -/
def blackRow (row : List Nat) : Res (List Bool) :=
  match estimateBlackPoint (histogram row) with
  | .error e => .error e
  | .ok bp =>
    if row.length < 3 then .ok (row.map (fun p => decide (p % 256 < bp)))
    else .ok (false :: sharpen bp (row.map (· % 256)) ++ [false])

/-- the pixels `GetBlackMatrix` samples: rows `h*y/5` (y = 1..4), columns `w/5 .. w*4/5 - 1` -/
def sampleRow (lum : Array Nat) (w row : Nat) : Res (List Nat) :=
  mapME (fun x => rd lum (row * w + x)) ((List.range (w * 4 / 5)).drop (w / 5))

def sampleRowAt (lum : Array Nat) (w h y : Nat) : Res (List Nat) := sampleRow lum w (h * y / 5)

def samples (lum : Array Nat) (w h : Nat) : Res (List Nat) :=
  match mapME (sampleRowAt lum w h) [1, 2, 3, 4] with
  | .error e => .error e
  | .ok rows => .ok rows.flatten

/-- `GlobalHistogramBinarizer.GetBlackMatrix()` on a `w x h` luminance array: the list of set bits
    (`pixel < blackPoint`).  `NewBitMatrix` rejects empty images with an IllegalArgumentException. -/
def globalSets (lum : Array Nat) (w h : Nat) : Res (List (Nat × Nat)) :=
  if w < 1 ∨ h < 1 then .error .illegalArg
  else
    match samples lum w h with
    | .error e => .error e
    | .ok ps =>
      match estimateBlackPoint (histogram ps) with
      | .error e => .error e
      | .ok bp => scanRect lum w 0 0 w h (fun p => decide (p < bp))

/-! ## HybridBinarizer -/

def MINIMUM_DIMENSION : Nat := 40
def MIN_DYNAMIC_RANGE : Nat := 24

/-- number of 8-pixel blocks: `n >> 3`, plus one if `n & 7 ≠ 0` -/
def subDim (n : Nat) : Nat := if n % 8 ≠ 0 then n / 8 + 1 else n / 8

/-- `xoffset := x << 3; if xoffset > maxXOffset { xoffset = maxXOffset }` with `maxXOffset = dim - 8`
    (`dim ≥ 8` in the hybrid branch) -/
def blockOffset (i dim : Nat) : Nat := if i * 8 > dim - 8 then dim - 8 else i * 8

/-- `cap(value, min, max)` -/
def cap (value lo hi : Nat) : Nat := if value < lo then lo else if value > hi then hi else value

/-- the 8 pixels of block row `yy` -/
def blockPixel (lum : Array Nat) (w xo yo yy xx : Nat) : Res Nat :=
  match rd lum ((yo + yy) * w + xo + xx) with
  | .error e => .error e
  | .ok p => .ok (p % 256)

def blockRow (lum : Array Nat) (w xo yo yy : Nat) : Res (List Nat) :=
  mapME (blockPixel lum w xo yo yy) (List.range 8)

/-- state of the pixel scan of one block: `sum`, `min`, `max`, and whether the dynamic range was already
    met (after which Go only sums the remaining rows and stops updating min/max) -/
structure Scan where
  sum : Nat
  mn : Nat
  mx : Nat
  met : Bool
  deriving Repr, DecidableEq

def scanPixel (a : Scan) (p : Nat) : Scan := { a with sum := a.sum + p, mn := min a.mn p, mx := max a.mx p }

def scanRow (s : Scan) (ps : List Nat) : Scan :=
  if s.met then { s with sum := ps.foldl (· + ·) s.sum }
  else
    let s' : Scan := ps.foldl scanPixel s
    { s' with met := decide (s'.mx - s'.mn > MIN_DYNAMIC_RANGE) }

def scanInit : Scan := { sum := 0, mn := 255, mx := 0, met := false }

def scanBlock (lum : Array Nat) (w xo yo : Nat) : Res Scan :=
  match mapME (blockRow lum w xo yo) (List.range 8) with
  | .error e => .error e
  | .ok rows => .ok (rows.foldl scanRow scanInit)

/-- black point of one block given the already computed neighbours
    (`up = blackPoints[y-1][x]`, `lft = blackPoints[y][x-1]`, `upl = blackPoints[y-1][x-1]`, present iff `y>0 ∧ x>0`) -/
def blockBlackPoint (s : Scan) (nb : Option (Nat × Nat × Nat)) : Nat :=
  if s.mx - s.mn ≤ MIN_DYNAMIC_RANGE then
    let average := s.mn / 2
    match nb with
    | some (up, lft, upl) =>
      let avgNb := (up + 2 * lft + upl) / 4
      if s.mn < avgNb then avgNb else average
    | none => average
  else s.sum / 64

/-- the three neighbours of block `x` (`x > 0`) in the row above `pr` and the current row `acc` -/
def neighbours (pr acc : List Nat) (x : Nat) : Res (Option (Nat × Nat × Nat)) :=
  if x = 0 then .ok none
  else match pr[x]?, acc[x - 1]?, pr[x - 1]? with
    | some up, some lft, some upl => .ok (some (up, lft, upl))
    | _, _, _ => .error (.panic "blackPoints index out of range")

/-- no neighbours in the first row of blocks (`y = 0`) -/
def neighboursOf (prev : Option (List Nat)) (acc : List Nat) (x : Nat) : Res (Option (Nat × Nat × Nat)) :=
  match prev with
  | none => .ok none
  | some pr => neighbours pr acc x

/-- one row of black points; `prev` is the row above (`none` for y = 0).  `acc` is the part of the current
    row computed so far. -/
def bpRow (lum : Array Nat) (w h y : Nat) (prev : Option (List Nat)) : List Nat → List Nat → Res (List Nat)
  | [], acc => .ok acc
  | x :: xs, acc =>
    match scanBlock lum w (blockOffset x w) (blockOffset y h) with
    | .error e => .error e
    | .ok s =>
      match neighboursOf prev acc x with
      | .error e => .error e
      | .ok nb => bpRow lum w h y prev xs (acc ++ [blockBlackPoint s nb])

/-- `calculateBlackPoints`, row by row -/
def bpRows (lum : Array Nat) (w h subW : Nat) : List Nat → Option (List Nat) → List (List Nat) → Res (List (List Nat))
  | [], _, acc => .ok acc
  | y :: ys, prev, acc =>
    match bpRow lum w h y prev (List.range subW) [] with
    | .error e => .error e
    | .ok row => bpRows lum w h subW ys (some row) (acc ++ [row])

def calculateBlackPoints (lum : Array Nat) (w h : Nat) : Res (List (List Nat)) :=
  bpRows lum w h (subDim w) (List.range (subDim h)) none []

/-- `blackRow[left-2] + … + blackRow[left+2]` -/
def sum5 (row : List Nat) (left : Nat) : Res Nat :=
  if left < 2 then .error (.panic "blackRow[left-2]")
  else match row[left - 2]?, row[left - 1]?, row[left]?, row[left + 1]?, row[left + 2]? with
    | some a, some b, some c, some d, some e => .ok (a + b + c + d + e)
    | _, _, _, _, _ => .error (.panic "blackRow index out of range")

/-- `blackPoints[r]` summed over the five columns around `left` -/
def rowSum5 (bps : List (List Nat)) (left r : Nat) : Res Nat :=
  match bps[r]? with
  | some row => sum5 row left
  | none => .error (.panic "blackPoints row out of range")

/-- the 5x5 average around block `(x, y)` with the window centre clamped to `[2, sub-3]` -/
def blockThreshold (bps : List (List Nat)) (subW subH x y : Nat) : Res Nat :=
  let top := cap y 2 (subH - 3)
  let left := cap x 2 (subW - 3)
  if top < 2 then .error (.panic "blackPoints[top-2]")
  else
    match mapME (rowSum5 bps left) [top - 2, top - 1, top, top + 1, top + 2] with
    | .error e => .error e
    | .ok sums => .ok (sums.foldl (· + ·) 0 / 25)

/-- `thresholdBlock`: the `Set` calls for `pixel ≤ threshold` in the 8x8 block at `(xo, yo)` -/
def thresholdBlock (lum : Array Nat) (w xo yo thr : Nat) : Res (List (Nat × Nat)) :=
  scanRect lum w xo yo 8 8 (fun p => decide (p ≤ thr))

/-- one block of `calculateThresholdForBlock` -/
def hybridBlock (lum : Array Nat) (w h : Nat) (bps : List (List Nat)) (x y : Nat) : Res (List (Nat × Nat)) :=
  match blockThreshold bps (subDim w) (subDim h) x y with
  | .error e => .error e
  | .ok thr => thresholdBlock lum w (blockOffset x w) (blockOffset y h) thr

/-- one row of blocks of `calculateThresholdForBlock` -/
def hybridRow (lum : Array Nat) (w h : Nat) (bps : List (List Nat)) (y : Nat) : Res (List (Nat × Nat)) :=
  match mapME (fun x => hybridBlock lum w h bps x y) (List.range (subDim w)) with
  | .error e => .error e
  | .ok bl => .ok bl.flatten

/-- `calculateThresholdForBlock`: all `Set` calls, block by block -/
def hybridBlocks (lum : Array Nat) (w h : Nat) (bps : List (List Nat)) : Res (List (Nat × Nat)) :=
  match mapME (hybridRow lum w h bps) (List.range (subDim h)) with
  | .error e => .error e
  | .ok perRow => .ok perRow.flatten

/-- `HybridBinarizer.GetBlackMatrix()`: local method from 40x40 up, else the global histogram -/
def hybridSets (lum : Array Nat) (w h : Nat) : Res (List (Nat × Nat)) :=
  if w ≥ MINIMUM_DIMENSION ∧ h ≥ MINIMUM_DIMENSION then
    match calculateBlackPoints lum w h with
    | .error e => .error e
    | .ok bps => hybridBlocks lum w h bps
  else globalSets lum w h

/-! ## rendering a list of `Set(x, y)` calls as a `w x h` bit picture -/

/-- `BitMatrix.Set` on a flat `w*h` array of booleans; a call outside the matrix is ignored here
    (the theorems show the binarisers never make one) -/
def render (w h : Nat) (sets : List (Nat × Nat)) : Array Bool :=
  sets.foldl (fun a (p : Nat × Nat) => if p.1 < w then a.setIfInBounds (p.2 * w + p.1) true else a)
    (Array.replicate (w * h) false)

end Gzx.Binarizer
