/-
  Model of common/bit_source.go : BitSource (ReadBits / Available) and of
  qrcode/decoder/decoded_bit_stream_parser.go : DecodedBitStreamParser_parseECIValue.
  Hand-written mirror of the Go control flow; tied to /repo by the `c06` correspondence suite.

  Panics are values (DESIGN §5.1): every `this.bytes[this.byteOffset]` is an index operation that
  returns `.error (.panic …)` when out of range.  "ReadBits never panics" is a theorem
  (Properties/C06.lean), not a modelling decision.
-/
import Gzx.Util
namespace Gzx.BitSource

structure BitSource where
  bytes : List Nat        -- Go `[]byte`; every element < 256 (masks below make the model independent of it)
  byteOffset : Nat
  bitOffset : Nat
  deriving Repr, DecidableEq

def new (bytes : List Nat) : BitSource := ⟨bytes, 0, 0⟩

/-- `Available()` = `8*(len(bytes)-byteOffset) - bitOffset` in Go `int` arithmetic -/
def available (s : BitSource) : Int :=
  8 * ((s.bytes.length : Int) - (s.byteOffset : Int)) - (s.bitOffset : Int)

/-- the position in bits from the start of the buffer -/
def position (s : BitSource) : Nat := 8 * s.byteOffset + s.bitOffset

/-- Go `this.bytes[i]` -/
def byteAt (s : BitSource) (i : Nat) : Res Nat :=
  match s.bytes[i]? with
  | some b => .ok b
  | none => .error (.panic "index out of range: bytes[byteOffset]")

/-- the `for numBits >= 8` loop: `k` whole bytes -/
def readWhole (s : BitSource) : Nat → Nat → Nat → Res (Nat × Nat)
  | 0, off, acc => .ok (acc, off)
  | k + 1, off, acc =>
    match byteAt s off with
    | .error e => .error e
    | .ok b => readWhole s k (off + 1) ((acc <<< 8) ||| (b &&& 0xFF))

/-- phase 1 of `ReadBits`: "First, read remainder from current byte".
    Returns (result, numBits still to read, byteOffset, bitOffset).

    Go's `(bytes[o] & mask) >> bitsToNotRead` with `mask = (0xFF >> (8-toRead)) << bitsToNotRead`
    selects the `toRead` bits above the lowest `bitsToNotRead` bits: `(b >>> bitsToNotRead) % 2^toRead`. -/
def readFirst (s : BitSource) (n : Nat) : Res (Nat × Nat × Nat × Nat) :=
  if s.bitOffset > 0 then
    let bitsLeft := 8 - s.bitOffset
    let toRead := if n < bitsLeft then n else bitsLeft
    let bitsToNotRead := bitsLeft - toRead
    match byteAt s s.byteOffset with
    | .error e => .error e
    | .ok b =>
      let r := (b >>> bitsToNotRead) % 2 ^ toRead
      let bo := s.bitOffset + toRead
      if bo = 8 then .ok (r, n - toRead, s.byteOffset + 1, 0)
      else .ok (r, n - toRead, s.byteOffset, bo)
  else .ok (0, n, s.byteOffset, 0)

/-- phases 2 and 3: "Next read whole bytes", "Finally read a partial byte" -/
def readRest (s : BitSource) (r n1 byo bio : Nat) : Res (Nat × BitSource) :=
  if n1 > 0 then
    match readWhole s (n1 / 8) byo r with
    | .error e => .error e
    | .ok (r2, byo2) =>
      let n2 := n1 % 8
      if n2 > 0 then
        match byteAt s byo2 with
        | .error e => .error e
        | .ok b =>
          let bitsToNotRead := 8 - n2
          .ok ((r2 <<< n2) ||| ((b >>> bitsToNotRead) % 2 ^ n2), { s with byteOffset := byo2, bitOffset := bio + n2 })
      else .ok (r2, { s with byteOffset := byo2, bitOffset := bio })
  else .ok (r, { s with byteOffset := byo, bitOffset := bio })

/-- `ReadBits(numBits)`: value and the advanced source, or the checked IllegalArgumentException. -/
def readBits (s : BitSource) (numBits : Int) : Res (Nat × BitSource) :=
  if numBits < 1 ∨ numBits > 32 ∨ numBits > available s then .error .illegalArg
  else
    match readFirst s numBits.toNat with
    | .error e => .error e
    | .ok (r, n1, byo, bio) => readRest s r n1 byo bio

/-- representation invariant of every BitSource the library can construct
    (fields are private; `NewBitSource` starts at 0/0 and only `ReadBits` moves them) -/
def WF (s : BitSource) : Prop :=
  s.bitOffset < 8 ∧ s.byteOffset ≤ s.bytes.length ∧ (s.bitOffset > 0 → s.byteOffset < s.bytes.length)

/-! ## parseECIValue (QR) -/

/-- the three ReadBits errors are wrapped into FormatException by the parser -/
def readBitsF (s : BitSource) (n : Int) : Res (Nat × BitSource) :=
  match readBits s n with
  | .ok r => .ok r
  | .error (.panic w) => .error (.panic w)
  | .error _ => .error .format

/-- `DecodedBitStreamParser_parseECIValue(bits)` -/
def parseECIValue (s : BitSource) : Res (Nat × BitSource) :=
  match readBitsF s 8 with
  | .error e => .error e
  | .ok (firstByte, s1) =>
    if firstByte &&& 0x80 = 0 then .ok (firstByte &&& 0x7F, s1)
    else if firstByte &&& 0xC0 = 0x80 then
      match readBitsF s1 8 with
      | .error e => .error e
      | .ok (second, s2) => .ok (((firstByte &&& 0x3F) <<< 8) ||| second, s2)
    else if firstByte &&& 0xE0 = 0xC0 then
      match readBitsF s1 16 with
      | .error e => .error e
      | .ok (st, s2) => .ok (((firstByte &&& 0x1F) <<< 16) ||| st, s2)
    else .error .format

end Gzx.BitSource
