/-
  C16 — models of bit_array.go / bit_matrix.go / go_image_bit_matrix.go.

  Two layers (DESIGN §7 C16):
  * SPEC layer  (`SArr`, `SMat`): the naive containers the property talks about — a `List Bool`
    and a `width × height` grid `List (List Bool)` — with the obvious list programs for the whole
    exported API.
  * WORD layer (`WArr`, `WMat`): the Go representation (`[]uint32` as `List Nat`, every word
    `< 2^32`, `size` / `width,height,rowSize`), each exported Go method transcribed on words:
    `/32`, `%32`, `1<<k`, `^x`, `-x`, shifts truncated to 32 bits, `bits.Reverse32`,
    `bits.TrailingZeros32`, the realignment shifts of `Reverse` / `Rotate180`,
    `ensureCapacity` growth, the row-reuse rule of `GetRow`.  Index/slice panics of Go are
    `.error (.panic _)`, Go's checked errors are `.error .illegalArg`.
  * `absA`, `absM`, `InvA`, `InvM`: abstraction functions and representation invariants.

  The word layer mirrors the code of branch wp-c16 of /repo, i.e. WITH the three repairs
  D1 (Rotate180 reverses bits also for width%32==0), D2 (FlipAll masks the padding of each row),
  D3 (Reverse returns early for size 0, Xor walks the words that hold bits).
  Arguments are natural numbers: negative Go ints are outside the model (and outside the
  property, which speaks about in-range arguments).

  Loop conventions: loops that walk a slice once with carried state are structural recursion
  over the remaining words; loops with random access use `foldlM` over the index range with
  `wordAt` / `setWord` / `updWord` (which carry the index panics).
-/
import Gzx.Util
namespace Gzx.Bits
open Gzx

/-! ## 32-bit word primitives -/

/-- 2^32 -/
def W32 : Nat := 4294967296

/-- Go `^x` on uint32 -/
def not32 (v : Nat) : Nat := v ^^^ 4294967295

/-- Go `-x` on uint32 -/
def neg32 (v : Nat) : Nat := (W32 - v % W32) % W32

/-- Go `x << k` on uint32 (bits shifted out are lost; `k ≥ 32` gives 0) -/
def shl32 (v k : Nat) : Nat := (v <<< k) % W32

/-- reverse the low `n` bits of `w` -/
def revBits : Nat → Nat → Nat
  | 0, _ => 0
  | n + 1, w => (w % 2) * 2 ^ n + revBits n (w / 2)

/-- `bits.Reverse32` -/
def rev32 (w : Nat) : Nat := revBits 32 w

/-- count trailing zeros, at most `fuel` -/
def ctz : Nat → Nat → Nat
  | 0, _ => 0
  | fuel + 1, w => if w % 2 = 1 then 0 else 1 + ctz fuel (w / 2)

/-- `bits.TrailingZeros32` (32 for 0) -/
def tz32 (w : Nat) : Nat := ctz 32 w

/-- `bit := 0; for (theBits << (31-bit)) == 0 { bit++ }` (uint32 shift) -/
def lowBitLoop : Nat → Nat → Nat → Nat
  | 0, bit, _ => bit
  | fuel + 1, bit, w => if shl32 w (31 - bit) = 0 then lowBitLoop fuel (bit + 1) w else bit

def lowBit (w : Nat) : Nat := lowBitLoop 32 0 w

/-- `bit := 31; for (theBits >> bit) == 0 { bit-- }` -/
def highBitLoop : Nat → Nat → Nat → Nat
  | 0, bit, _ => bit
  | fuel + 1, bit, w => if w >>> bit = 0 then highBitLoop fuel (bit - 1) w else bit

def highBit (w : Nat) : Nat := highBitLoop 32 31 w

/-- `ws[i]` with Go's index panic -/
def wordAt (ws : List Nat) (i : Nat) : Res Nat :=
  match ws[i]? with
  | some w => .ok w
  | none => .error (.panic "index out of range")

/-- `ws[i] = v` -/
def setWord (ws : List Nat) (i v : Nat) : Res (List Nat) :=
  if i < ws.length then .ok (ws.set i v) else .error (.panic "index out of range")

/-- `ws[i] = f(ws[i])`  (`|=`, `^=`, `&=`) -/
def updWord (ws : List Nat) (i : Nat) (f : Nat → Nat) : Res (List Nat) :=
  match ws[i]? with
  | some w => .ok (ws.set i (f w))
  | none => .error (.panic "index out of range")

/-- Go `copy(dst, src)`: the first `min(len dst, len src)` elements -/
def copyInto (dst src : List Nat) : List Nat := src.take dst.length ++ dst.drop src.length

/-- `makeArray(size)` -/
def makeArray (size : Nat) : List Nat := List.replicate ((size + 31) / 32) 0

/-- bit `g` of a word list read as one little-endian bit stream (false outside) -/
def bitAt (ws : List Nat) (g : Nat) : Bool := (ws[g / 32]?.getD 0).testBit (g % 32)

/-! ## SPEC layer: BitArray = List Bool -/

abbrev SArr := List Bool

namespace SArr

def get (a : SArr) (i : Nat) : Bool := a[i]?.getD false
def set (a : SArr) (i : Nat) : SArr := List.set a i true
def flip (a : SArr) (i : Nat) : SArr := a.modify i (fun b => !b)

/-- index of the first `true` at or after `from`, `size` if none -/
def nextSet (a : SArr) (frm : Nat) : Nat :=
  if frm ≥ a.length then a.length else frm + (a.drop frm).findIdx (fun b => b)

def nextUnset (a : SArr) (frm : Nat) : Nat :=
  if frm ≥ a.length then a.length else frm + (a.drop frm).findIdx (fun b => !b)

/-- the 32 positions of the word containing `i` take the bits of `v` -/
def setBulk (a : SArr) (i v : Nat) : SArr :=
  a.mapIdx (fun k b => if k / 32 = i / 32 then v.testBit (k % 32) else b)

def setRange (a : SArr) (s e : Nat) : Res SArr :=
  if e < s ∨ e > a.length then .error .illegalArg
  else .ok (a.mapIdx (fun k b => b || (decide (s ≤ k) && decide (k < e))))

def clear (a : SArr) : SArr := List.replicate a.length false

def isRange (a : SArr) (s e : Nat) (v : Bool) : Res Bool :=
  if e < s ∨ e > a.length then .error .illegalArg
  else .ok (((a.take e).drop s).all (fun b => b == v))

def appendBit (a : SArr) (b : Bool) : SArr := a ++ [b]

/-- the `n` low bits of `value`, most significant first -/
def appendBits (a : SArr) (value n : Nat) : Res SArr :=
  if n > 32 then .error .illegalArg
  else .ok (a ++ (List.range n).map (fun k => value.testBit (n - 1 - k)))

def appendBitArray (a o : SArr) : SArr := a ++ o

def xor (a o : SArr) : Res SArr :=
  if a.length ≠ o.length then .error .illegalArg else .ok (List.zipWith (fun x y => x ^^ y) a o)

/-- big-endian value of a bit list -/
def byteOf (bs : List Bool) : Nat := bs.foldl (fun acc b => 2 * acc + b.toNat) 0

/-- `numBytes` bytes starting at bit `bitOffset`, first bit = most significant, written at `offset` -/
def toBytes (a : SArr) (bitOffset : Nat) (array : List Nat) (offset numBytes : Nat) : List Nat :=
  array.take offset ++
    (List.range numBytes).map (fun i => byteOf ((a.drop (bitOffset + 8 * i)).take 8)) ++
    array.drop (offset + numBytes)

def reverse (a : SArr) : SArr := List.reverse a
def size (a : SArr) : Nat := a.length
def sizeInBytes (a : SArr) : Nat := (a.length + 7) / 8

/-- `String()`: ' ' before every 8th bit, 'X' / '.' -/
def toStr (a : SArr) : List Nat :=
  (a.zipIdx).flatMap (fun (b, i) =>
    (if i % 8 = 0 then [32] else []) ++ [if b then 88 else 46])

end SArr

/-! ## SPEC layer: BitMatrix = grid of Bool -/

structure SMat where
  width : Nat
  height : Nat
  rows : List (List Bool)
  deriving DecidableEq, Repr

namespace SMat

/-- well-formed grid: `height` rows of `width` cells -/
def WF (m : SMat) : Prop := m.rows.length = m.height ∧ ∀ r ∈ m.rows, r.length = m.width

instance (m : SMat) : Decidable m.WF := by unfold WF; exact inferInstance

def new (w h : Nat) : Res SMat :=
  if w < 1 ∨ h < 1 then .error .illegalArg
  else .ok ⟨w, h, List.replicate h (List.replicate w false)⟩

/-- `ParseBoolMapToBitMatrix` on a rectangular image -/
def ofBoolMap (image : List (List Bool)) : Res SMat :=
  let h := image.length
  let w := match image with | [] => 0 | r :: _ => r.length
  if w < 1 ∨ h < 1 then .error .illegalArg
  else .ok ⟨w, h, image.map (fun r => r.take w)⟩

def get (m : SMat) (x y : Nat) : Bool := ((m.rows[y]?.getD [])[x]?.getD false)
def set (m : SMat) (x y : Nat) : SMat := { m with rows := m.rows.modify y (fun r => r.set x true) }
def unset (m : SMat) (x y : Nat) : SMat := { m with rows := m.rows.modify y (fun r => r.set x false) }
def flip (m : SMat) (x y : Nat) : SMat :=
  { m with rows := m.rows.modify y (fun r => r.modify x (fun b => !b)) }
def flipAll (m : SMat) : SMat := { m with rows := m.rows.map (fun r => r.map (fun b => !b)) }

def xor (m mask : SMat) : Res SMat :=
  if m.width ≠ mask.width ∨ m.height ≠ mask.height then .error .illegalArg
  else .ok { m with rows := List.zipWith (fun r s => List.zipWith (fun x y => x ^^ y) r s) m.rows mask.rows }

def clear (m : SMat) : SMat := { m with rows := m.rows.map (fun r => r.map (fun _ => false)) }

def setRegion (m : SMat) (left top width height : Nat) : Res SMat :=
  if height < 1 ∨ width < 1 then .error .illegalArg
  else if top + height > m.height ∨ left + width > m.width then .error .illegalArg
  else .ok { m with rows := m.rows.mapIdx (fun y r =>
      if top ≤ y ∧ y < top + height then
        r.mapIdx (fun x b => b || (decide (left ≤ x) && decide (x < left + width)))
      else r) }

/-- `GetRow(y, row)`: the row as an array; a supplied array that is large enough is reused, so the
    answer keeps its size and is false beyond `width` -/
def getRow (m : SMat) (y : Nat) (row : Option SArr) : SArr :=
  let r := m.rows[y]?.getD []
  match row with
  | some old => if old.length < m.width then r else r ++ List.replicate (old.length - m.width) false
  | none => r

/-- `SetRow(y, row)` for a row of `width` bits -/
def setRow (m : SMat) (y : Nat) (row : SArr) : SMat := { m with rows := m.rows.set y (row.take m.width) }

def rotate180 (m : SMat) : SMat := { m with rows := m.rows.reverse.map List.reverse }

/-- columns of a grid of `w` columns, left to right -/
def columns : Nat → List (List Bool) → List (List Bool)
  | 0, _ => []
  | w + 1, rows => rows.map (fun r => r.headD false) :: columns w (rows.map List.tail)

/-- 90° counter-clockwise: new row `y'` is old column `width-1-y'` read top to bottom -/
def rotate90 (m : SMat) : SMat := ⟨m.height, m.width, (columns m.width m.rows).reverse⟩

/-- coordinates `(x, y)` of the set cells in row-major order -/
def onCells (m : SMat) : List (Nat × Nat) :=
  (m.rows.zipIdx).flatMap (fun (r, y) =>
    (r.zipIdx).filterMap (fun (b, x) => if b then some (x, y) else none))

def minL : List Nat → Nat → Nat
  | [], d => d
  | x :: xs, d => minL xs (if x < d then x else d)

def maxL : List Nat → Nat → Nat
  | [], d => d
  | x :: xs, d => maxL xs (if x > d then x else d)

/-- `[left, top, width, height]` of the smallest rectangle holding all set cells -/
def enclosingRectangle (m : SMat) : Option (List Nat) :=
  match onCells m with
  | [] => none
  | (x, y) :: cs =>
    let xs := cs.map (·.1)
    let ys := cs.map (·.2)
    let l := minL xs x; let r := maxL xs x
    let t := minL ys y; let b := maxL ys y
    some [l, t, r - l + 1, b - t + 1]

/-- first set cell in row-major order, rows numbered from `y` -/
def firstOn : List (List Bool) → Nat → Option (List Nat)
  | [], _ => none
  | r :: rs, y =>
    let x := r.findIdx (fun b => b)
    if x < r.length then some [x, y] else firstOn rs (y + 1)

/-- last set cell in row-major order, rows numbered from `y` -/
def lastOn : List (List Bool) → Nat → Option (List Nat)
  | [], _ => none
  | r :: rs, y =>
    match lastOn rs (y + 1) with
    | some p => some p
    | none =>
      let k := r.reverse.findIdx (fun b => b)
      if k < r.length then some [r.length - 1 - k, y] else none

def topLeftOnBit (m : SMat) : Option (List Nat) := firstOn m.rows 0
def bottomRightOnBit (m : SMat) : Option (List Nat) := lastOn m.rows 0

/-- `ToStringWithLineSeparator` -/
def toStr (m : SMat) (set unset sep : List Nat) : List Nat :=
  m.rows.flatMap (fun r => r.flatMap (fun b => if b then set else unset) ++ sep)

/-- image view `At(x,y)`: gray 0 for a set cell, 255 otherwise -/
def atGray (m : SMat) (x y : Nat) : Nat := if m.get x y then 0 else 255

end SMat

/-! ## ParseStringToBitMatrix: tokenising front end (shared by both layers; no word arithmetic)

Go keeps `bits []bool` (length `len(s)`), `bitsPos`, `rowStartPos`, `rowLength` (−1 = unknown),
`nRows`, `pos`.  `bitsRev` is `bits[0:bitsPos]` reversed. -/

structure ParseSt where
  bitsRev : List Bool
  bitsPos : Nat
  rowStartPos : Nat
  rowLength : Option Nat
  nRows : Nat

/-- end of a row (at a line break or at the end of the text) -/
def parseEndRow (st : ParseSt) : Res ParseSt :=
  if st.bitsPos > st.rowStartPos then
    match st.rowLength with
    | none => .ok { st with rowLength := some (st.bitsPos - st.rowStartPos),
                            rowStartPos := st.bitsPos, nRows := st.nRows + 1 }
    | some rl =>
      if st.bitsPos - st.rowStartPos ≠ rl then .error .illegalArg
      else .ok { st with rowStartPos := st.bitsPos, nRows := st.nRows + 1 }
  else .ok st

def parseLoop (set unset : List Nat) (total : Nat) : Nat → List Nat → ParseSt → Res ParseSt
  | 0, _, _ => .error .fuel
  | _ + 1, [], st => .ok st
  | fuel + 1, c :: rest, st =>
    if c = 10 ∨ c = 13 then
      match parseEndRow st with
      | .ok st' => parseLoop set unset total fuel rest st'
      | .error e => .error e
    else if set.isPrefixOf (c :: rest) then
      if st.bitsPos ≥ total then .error (.panic "index out of range")
      else parseLoop set unset total fuel ((c :: rest).drop set.length)
            { st with bitsRev := true :: st.bitsRev, bitsPos := st.bitsPos + 1 }
    else if unset.isPrefixOf (c :: rest) then
      if st.bitsPos ≥ total then .error (.panic "index out of range")
      else parseLoop set unset total fuel ((c :: rest).drop unset.length)
            { st with bitsRev := false :: st.bitsRev, bitsPos := st.bitsPos + 1 }
    else .error .illegalArg

/-- `(rowLength, nRows, bits)`; the errors are those of the Go function up to `NewBitMatrix` -/
def parseGrid (s set unset : List Nat) : Res (Nat × Nat × List Bool) :=
  if s.isEmpty then .error .illegalArg else
  match parseLoop set unset s.length (2 * s.length + 2) s ⟨[], 0, 0, none, 0⟩ with
  | .error e => .error e
  | .ok st =>
    match parseEndRow st with
    | .error e => .error e
    | .ok st' =>
      match st'.rowLength with
      | none => .error .illegalArg          -- NewBitMatrix(-1, 0)
      | some rl => if rl < 1 ∨ st'.nRows < 1 then .error .illegalArg
                   else .ok (rl, st'.nRows, st'.bitsRev.reverse)

def SMat.parse (s set unset : List Nat) : Res SMat :=
  match parseGrid s set unset with
  | .error e => .error e
  | .ok (rl, n, bits) => .ok ⟨rl, n, (List.range n).map (fun y => (bits.drop (y * rl)).take rl)⟩

/-! ## WORD layer: BitArray -/

structure WArr where
  words : List Nat
  size : Nat
  deriving DecidableEq, Repr

namespace WArr

/-- `NewEmptyBitArray()` -/
def empty : WArr := ⟨makeArray 1, 0⟩

/-- `NewBitArray(size)` -/
def new (size : Nat) : WArr := ⟨makeArray size, size⟩

def getSize (a : WArr) : Nat := a.size
def getSizeInBytes (a : WArr) : Nat := (a.size + 7) / 8

def ensureCapacity (a : WArr) (size : Nat) : WArr :=
  if size > a.words.length * 32 then { a with words := copyInto (makeArray size) a.words } else a

def get (a : WArr) (i : Nat) : Res Bool := do
  let w ← wordAt a.words (i / 32)
  pure ((w &&& (1 <<< (i % 32))) != 0)

def set (a : WArr) (i : Nat) : Res WArr := do
  let ws ← updWord a.words (i / 32) (fun w => w ||| (1 <<< (i % 32)))
  pure { a with words := ws }

def flip (a : WArr) (i : Nat) : Res WArr := do
  let ws ← updWord a.words (i / 32) (fun w => w ^^^ (1 <<< (i % 32)))
  pure { a with words := ws }

/-- the `for currentBits == 0 { bitsOffset++; … }` loop over the following words -/
def scanNonzero (inv : Bool) : Nat → List Nat → Nat → Option (Nat × Nat)
  | cur, rest, off =>
    if cur ≠ 0 then some (off, cur)
    else match rest with
      | [] => none
      | w :: r => scanNonzero inv (if inv then not32 w else w) r (off + 1)

def nextGeneric (inv : Bool) (a : WArr) (frm : Nat) : Res Nat :=
  if frm ≥ a.size then .ok a.size else
  match a.words[frm / 32]? with
  | none => .error (.panic "index out of range")
  | some w0 =>
    let cur := (if inv then not32 w0 else w0) &&& neg32 (1 <<< (frm % 32))
    match scanNonzero inv cur (a.words.drop (frm / 32 + 1)) (frm / 32) with
    | none => .ok a.size
    | some (off, w) =>
      let result := off * 32 + tz32 w
      .ok (if result > a.size then a.size else result)

def getNextSet (a : WArr) (frm : Nat) : Res Nat := nextGeneric false a frm
def getNextUnset (a : WArr) (frm : Nat) : Res Nat := nextGeneric true a frm

def setBulk (a : WArr) (i newBits : Nat) : Res WArr := do
  let ws ← setWord a.words (i / 32) newBits
  pure { a with words := ws }

/-- `uint32((2 << lastBit) - (1 << firstBit))` of iteration `i` -/
def rangeMask (start e firstInt lastInt i : Nat) : Nat :=
  let firstBit := if i = firstInt then start % 32 else 0
  let lastBit := if i = lastInt then e % 32 else 31
  ((2 <<< lastBit) - (1 <<< firstBit)) % W32

def setRange (a : WArr) (start end_ : Nat) : Res WArr :=
  if end_ < start ∨ end_ > a.size then .error .illegalArg
  else if end_ = start then .ok a
  else
    let e := end_ - 1
    let firstInt := start / 32
    let lastInt := e / 32
    match (List.range' firstInt (lastInt + 1 - firstInt)).foldlM
        (fun ws i => updWord ws i (fun w => w ||| rangeMask start e firstInt lastInt i)) a.words with
    | .ok ws => .ok { a with words := ws }
    | .error e => .error e

def clear (a : WArr) : WArr := { a with words := a.words.map (fun _ => 0) }

/-- loop of `IsRange`: `false` at the first word whose masked bits differ from what is expected -/
def isRangeLoop (ws : List Nat) (start e firstInt lastInt : Nat) (value : Bool) : List Nat → Res Bool
  | [] => .ok true
  | i :: is =>
    match ws[i]? with
    | none => .error (.panic "index out of range")
    | some w =>
      let mask := rangeMask start e firstInt lastInt i
      let expect := if value then mask else 0
      if (w &&& mask) ≠ expect then .ok false else isRangeLoop ws start e firstInt lastInt value is

def isRange (a : WArr) (start end_ : Nat) (value : Bool) : Res Bool :=
  if end_ < start ∨ end_ > a.size then .error .illegalArg
  else if end_ = start then .ok true
  else
    let e := end_ - 1
    let firstInt := start / 32
    let lastInt := e / 32
    isRangeLoop a.words start e firstInt lastInt value (List.range' firstInt (lastInt + 1 - firstInt))

def appendBit (a : WArr) (bit : Bool) : Res WArr :=
  let a1 := ensureCapacity a (a.size + 1)
  if bit then
    match updWord a1.words (a1.size / 32) (fun w => w ||| (1 <<< (a1.size % 32))) with
    | .ok ws => .ok ⟨ws, a1.size + 1⟩
    | .error e => .error e
  else .ok ⟨a1.words, a1.size + 1⟩

/-- body of the `AppendBits` loop for one `numBitsLeft` -/
def appendBitsStep (value : Nat) (st : List Nat × Nat) (numBitsLeft : Nat) : Res (List Nat × Nat) :=
  if (value &&& (1 <<< numBitsLeft)) != 0 then
    match updWord st.1 (st.2 / 32) (fun w => w ||| (1 <<< (st.2 % 32))) with
    | .ok ws => .ok (ws, st.2 + 1)
    | .error e => .error e
  else .ok (st.1, st.2 + 1)

def appendBits (a : WArr) (value numBits : Nat) : Res WArr :=
  if numBits > 32 then .error .illegalArg else
  let a1 := ensureCapacity a (a.size + numBits)
  match (List.range numBits).reverse.foldlM (appendBitsStep value) (a1.words, a1.size) with
  | .ok (ws, nextSize) => .ok ⟨ws, nextSize⟩
  | .error e => .error e

def appendBitArray (a other : WArr) : Res WArr :=
  let a1 := ensureCapacity a (a.size + other.size)
  (List.range other.size).foldlM (fun b i => do
    let bit ← other.get i
    b.appendBit bit) a1

/-- repaired (D3): only the words that hold bits are combined -/
def xor (a other : WArr) : Res WArr :=
  if a.size ≠ other.size then .error .illegalArg else
  match (List.range ((a.size + 31) / 32)).foldlM (fun ws i => do
      let o ← wordAt other.words i
      updWord ws i (fun w => w ^^^ o)) a.words with
  | .ok ws => .ok { a with words := ws }
  | .error e => .error e

/-- one output byte: 8 × `Get(bitOffset)` -/
def toBytesByte (a : WArr) (bitOffset : Nat) : Res Nat :=
  (List.range 8).foldlM (fun theByte j => do
    let bit ← a.get (bitOffset + j)
    pure (if bit then theByte ||| (1 <<< (7 - j)) else theByte)) 0

def toBytes (a : WArr) (bitOffset : Nat) (array : List Nat) (offset numBytes : Nat) : Res (List Nat) :=
  (List.range numBytes).foldlM (fun arr i => do
    let theByte ← toBytesByte a (bitOffset + 8 * i)
    if offset + i < arr.length then pure (arr.set (offset + i) theByte)
    else .error (.panic "index out of range")) array

/-- the realignment loop of `Reverse`: `cur` is `currentInt`, the list holds `newBits[i..oldBitsLen)` -/
def shiftLoop (leftOffset : Nat) : List Nat → Nat → List Nat
  | [], cur => [cur]
  | next :: rest, cur =>
    (cur ||| shl32 next (32 - leftOffset)) :: shiftLoop leftOffset rest (next >>> leftOffset)

/-- repaired (D3): `if b.size == 0 { return }` -/
def reverse (a : WArr) : Res WArr :=
  if a.size = 0 then .ok a else
  let newBits0 := List.replicate a.words.length 0
  let len := (a.size - 1) / 32
  let oldBitsLen := len + 1
  match (List.range oldBitsLen).foldlM (fun nb i => do
      let w ← wordAt a.words i
      setWord nb (len - i) (rev32 w)) newBits0 with
  | .error e => .error e
  | .ok newBits1 =>
    if a.size ≠ oldBitsLen * 32 then
      let leftOffset := oldBitsLen * 32 - a.size
      match newBits1.take oldBitsLen with
      | [] => .error (.panic "index out of range")
      | w0 :: rest =>
        .ok { a with words := shiftLoop leftOffset rest (w0 >>> leftOffset) ++ newBits1.drop oldBitsLen }
    else .ok { a with words := newBits1 }

def toStr (a : WArr) : Res (List Nat) :=
  (List.range a.size).foldlM (fun result i => do
    let bit ← a.get i
    let result := if i % 8 = 0 then 32 :: result else result
    pure ((if bit then 88 else 46) :: result)) [] |>.map List.reverse

end WArr

/-! ## WORD layer: BitMatrix -/

structure WMat where
  width : Nat
  height : Nat
  rowSize : Nat
  words : List Nat
  deriving DecidableEq, Repr

namespace WMat

def new (width height : Nat) : Res WMat :=
  if width < 1 ∨ height < 1 then .error .illegalArg
  else
    let rowSize := (width + 31) / 32
    .ok ⟨width, height, rowSize, List.replicate (rowSize * height) 0⟩

def get (m : WMat) (x y : Nat) : Res Bool :=
  if x ≥ m.width ∨ y ≥ m.height then .ok false else do
  let offset := y * m.rowSize + x / 32
  let w ← wordAt m.words offset
  pure (((w >>> (x % 32)) &&& 1) != 0)

def set (m : WMat) (x y : Nat) : Res WMat := do
  let offset := y * m.rowSize + x / 32
  let ws ← updWord m.words offset (fun w => w ||| (1 <<< (x % 32)))
  pure { m with words := ws }

def unset (m : WMat) (x y : Nat) : Res WMat := do
  let offset := y * m.rowSize + x / 32
  let ws ← updWord m.words offset (fun w => w &&& not32 (1 <<< (x % 32)))
  pure { m with words := ws }

def flip (m : WMat) (x y : Nat) : Res WMat := do
  let offset := y * m.rowSize + x / 32
  let ws ← updWord m.words offset (fun w => w ^^^ (1 <<< (x % 32)))
  pure { m with words := ws }

/-- repaired (D2): after complementing, the unused high bits of the last word of every row are
    cleared again -/
def flipAll (m : WMat) : Res WMat :=
  let ws1 := m.words.map not32
  let shift := m.width % 32
  if shift ≠ 0 then
    let mask := (1 <<< shift) - 1
    match (List.range m.height).foldlM
        (fun ws y => updWord ws (y * m.rowSize + (m.rowSize - 1)) (fun w => w &&& mask)) ws1 with
    | .ok ws => .ok { m with words := ws }
    | .error e => .error e
  else .ok { m with words := ws1 }

def xor (m mask : WMat) : Res WMat :=
  if m.width ≠ mask.width ∨ m.height ≠ mask.height ∨ m.rowSize ≠ mask.rowSize then .error .illegalArg
  else
    match (List.range m.height).foldlM (fun ws y =>
        let bOffset := y * m.rowSize
        let mOffset := y * mask.rowSize
        (List.range m.rowSize).foldlM (fun ws x => do
          let o ← wordAt mask.words (mOffset + x)
          updWord ws (bOffset + x) (fun w => w ^^^ o)) ws) m.words with
    | .ok ws => .ok { m with words := ws }
    | .error e => .error e

def clear (m : WMat) : WMat := { m with words := m.words.map (fun _ => 0) }

def setRegion (m : WMat) (left top width height : Nat) : Res WMat :=
  if height < 1 ∨ width < 1 then .error .illegalArg
  else
    let right := left + width
    let bottom := top + height
    if bottom > m.height ∨ right > m.width then .error .illegalArg
    else
      match (List.range' top height).foldlM (fun ws y =>
          let offset := y * m.rowSize
          (List.range' left width).foldlM (fun ws x =>
            updWord ws (offset + x / 32) (fun w => w ||| (1 <<< (x % 32)))) ws) m.words with
      | .ok ws => .ok { m with words := ws }
      | .error e => .error e

/-- `GetRow(y, row)`; `row = none` is Go's `nil` -/
def getRow (m : WMat) (y : Nat) (row : Option WArr) : Res WArr :=
  let row0 := match row with
    | some r => if r.size < m.width then WArr.new m.width else r.clear
    | none => WArr.new m.width
  let offset := y * m.rowSize
  (List.range m.rowSize).foldlM (fun r x => do
    let w ← wordAt m.words (offset + x)
    r.setBulk (x * 32) w) row0

/-- `copy(b.bits[offset:offset+rowSize], row.bits)` -/
def setRow (m : WMat) (y : Nat) (row : WArr) : Res WMat :=
  let offset := y * m.rowSize
  if offset + m.rowSize > m.words.length then .error (.panic "slice bounds out of range")
  else
    let dst := (m.words.drop offset).take m.rowSize
    .ok { m with words := m.words.take offset ++ copyInto dst row.words ++ m.words.drop (offset + m.rowSize) }

def swapWords (ws : List Nat) (i j : Nat) : Res (List Nat) := do
  let a ← wordAt ws i
  let b ← wordAt ws j
  let ws1 ← setWord ws i b
  setWord ws1 j a

/-- the fused reverse-and-realign loop of one row (`shift = width % 32 ≠ 0`):
    `prev` is the already shifted-down word `bits[offset+j-1]`, the list holds `bits[offset+j..]` -/
def realignLoop (shift : Nat) : List Nat → Nat → List Nat
  | [], prev => [prev]
  | w :: rest, prev =>
    let curbits := rev32 w
    (prev ||| shl32 curbits shift) :: realignLoop shift rest (curbits >>> (32 - shift))

def realignRow (shift : Nat) : List Nat → List Nat
  | [] => []
  | w0 :: rest => realignLoop shift rest (rev32 w0 >>> (32 - shift))

/-- `for i := 0; i < height; i++ { row i := f(row i) }` on the flat word list -/
def mapRows (rowSize : Nat) (f : List Nat → List Nat) : Nat → List Nat → List Nat
  | 0, ws => ws
  | h + 1, ws => f (ws.take rowSize) ++ mapRows rowSize f h (ws.drop rowSize)

/-- the word-swapping loops of `Rotate180` (row pairs, then the middle row when `height` is odd) -/
def rotate180Swap (rowSize height : Nat) (ws : List Nat) : Res (List Nat) :=
  match (List.range (height / 2)).foldlM (fun ws i =>
      let topOffset := i * rowSize
      let bottomOffset := (height - i) * rowSize - 1
      (List.range rowSize).foldlM (fun ws j => swapWords ws (topOffset + j) (bottomOffset - j)) ws)
      ws with
  | .error e => .error e
  | .ok ws1 =>
    if height % 2 ≠ 0 then
      let offset := rowSize * (height - 1) / 2
      (List.range (rowSize / 2)).foldlM
        (fun ws j => swapWords ws (offset + j) (offset + rowSize - 1 - j)) ws1
    else .ok ws1

/-- repaired (D1): words are bit-reversed also when `width % 32 == 0` -/
def rotate180 (m : WMat) : Res WMat :=
  match rotate180Swap m.rowSize m.height m.words with
  | .error e => .error e
  | .ok ws2 =>
    let shift := m.width % 32
    if shift ≠ 0 then .ok { m with words := mapRows m.rowSize (realignRow shift) m.height ws2 }
    else .ok { m with words := ws2.map rev32 }

def rotate90 (m : WMat) : Res WMat :=
  let newWidth := m.height
  let newHeight := m.width
  let newRowSize := (newWidth + 31) / 32
  let newBits := List.replicate (newRowSize * newHeight) 0
  match (List.range m.height).foldlM (fun nb y =>
      (List.range m.width).foldlM (fun nb x => do
        let offset := y * m.rowSize + x / 32
        let w ← wordAt m.words offset
        if ((w >>> (x % 32)) &&& 1) != 0 then
          let newOffset := (newHeight - 1 - x) * newRowSize + y / 32
          updWord nb newOffset (fun v => v ||| (1 <<< (y % 32)))
        else pure nb) nb) newBits with
  | .error e => .error e
  | .ok nb => .ok ⟨newWidth, newHeight, newRowSize, nb⟩

/-- state of the `GetEnclosingRectangle` scan; `right`/`bottom` start at −1 -/
structure Encl where
  left : Nat
  top : Nat
  right : Int
  bottom : Int

def enclStep (y x32 theBits : Nat) (e : Encl) : Encl :=
  if theBits ≠ 0 then
    let top := if y < e.top then y else e.top
    let bottom := if (y : Int) > e.bottom then (y : Int) else e.bottom
    let left :=
      if x32 * 32 < e.left then
        let bit := lowBit theBits
        if x32 * 32 + bit < e.left then x32 * 32 + bit else e.left
      else e.left
    let right :=
      if ((x32 * 32 + 31 : Nat) : Int) > e.right then
        let bit := highBit theBits
        if ((x32 * 32 + bit : Nat) : Int) > e.right then ((x32 * 32 + bit : Nat) : Int) else e.right
      else e.right
    ⟨left, top, right, bottom⟩
  else e

def getEnclosingRectangle (m : WMat) : Res (Option (List Nat)) :=
  match (List.range m.height).foldlM (fun e y =>
      (List.range m.rowSize).foldlM (fun e x32 => do
        let theBits ← wordAt m.words (y * m.rowSize + x32)
        pure (enclStep y x32 theBits e)) e) (⟨m.width, m.height, -1, -1⟩ : Encl) with
  | .error e => .error e
  | .ok e =>
    if e.right < (e.left : Int) ∨ e.bottom < (e.top : Int) then .ok none
    else .ok (some [e.left, e.top, (e.right - e.left + 1).toNat, (e.bottom - e.top + 1).toNat])

def getTopLeftOnBit (m : WMat) : Res (Option (List Nat)) :=
  let bitsOffset := m.words.findIdx (fun w => w != 0)
  match m.words[bitsOffset]? with
  | none => .ok none                       -- bitsOffset == len(bits)
  | some theBits =>
    if m.rowSize = 0 then .error (.panic "integer divide by zero") else
    let y := bitsOffset / m.rowSize
    let x := (bitsOffset % m.rowSize) * 32
    .ok (some [x + lowBit theBits, y])

/-- index of the last non-zero word (scan from the end), `none` if all are zero -/
def lastNonzero : List Nat → Nat → Option (Nat × Nat)
  | [], _ => none
  | w :: rest, i =>
    match lastNonzero rest (i + 1) with
    | some r => some r
    | none => if w != 0 then some (i, w) else none

def getBottomRightOnBit (m : WMat) : Res (Option (List Nat)) :=
  match lastNonzero m.words 0 with
  | none => .ok none
  | some (bitsOffset, theBits) =>
    if m.rowSize = 0 then .error (.panic "integer divide by zero") else
    let y := bitsOffset / m.rowSize
    let x := (bitsOffset % m.rowSize) * 32
    .ok (some [x + highBit theBits, y])

/-- one row of `ToStringWithLineSeparator` (every cell through `Get`), prepended reversed to `acc` -/
def toStrRow (m : WMat) (set unset : List Nat) (y : Nat) (acc : List Nat) : Res (List Nat) :=
  (List.range m.width).foldlM (fun acc x => do
    let b ← m.get x y
    pure ((if b then set else unset).reverse ++ acc)) acc

/-- `ToStringWithLineSeparator` -/
def toStr (m : WMat) (set unset sep : List Nat) : Res (List Nat) :=
  (List.range m.height).foldlM (fun acc y => do
    let row ← m.toStrRow set unset y acc
    pure (sep.reverse ++ row)) [] |>.map List.reverse

/-- `At(x, y)` of the image view: `Gray{0}` for a set cell, `Gray{255}` otherwise -/
def atGray (m : WMat) (x y : Nat) : Res Nat := do
  let b ← m.get x y
  pure (if b then 0 else 255)

/-- one cell of `ParseBoolMapToBitMatrix`: `if imageI[j] { bits.Set(j, i) }` -/
def ofBoolMapCell (m : WMat) (imageI : List Bool) (i j : Nat) : Res WMat :=
  match imageI[j]? with
  | none => .error (.panic "index out of range")
  | some true => m.set j i
  | some false => pure m

/-- `ParseBoolMapToBitMatrix`; a row shorter than the first one is an index panic -/
def ofBoolMap (image : List (List Bool)) : Res WMat :=
  let height := image.length
  let width := match image with | [] => 0 | r :: _ => r.length
  match WMat.new width height with
  | .error e => .error e
  | .ok m0 =>
    (image.zipIdx).foldlM (fun m p =>
      (List.range width).foldlM (fun m j => ofBoolMapCell m p.1 p.2 j) m) m0

/-- `ParseStringToBitMatrix` -/
def parse (s set unset : List Nat) : Res WMat :=
  match parseGrid s set unset with
  | .error e => .error e
  | .ok (rowLength, nRows, bits) =>
    match WMat.new rowLength nRows with
    | .error e => .error e
    | .ok m0 =>
      (bits.zipIdx).foldlM (fun m p =>
        if p.1 then m.set (p.2 % rowLength) (p.2 / rowLength) else pure m) m0

end WMat

/-! ## Abstraction and invariants -/

/-- the bits an array holds: positions `< size` of the word stream -/
def absA (a : WArr) : SArr := (List.range a.size).map (fun i => bitAt a.words i)

/-- representation invariant of a BitArray: enough words, every word 32-bit, padding zero -/
def InvA (a : WArr) : Prop :=
  a.size ≤ a.words.length * 32 ∧ (∀ w ∈ a.words, w < W32) ∧
  ∀ g, a.size ≤ g → bitAt a.words g = false

/-- cell `(x, y)` read from the words -/
def mbit (m : WMat) (x y : Nat) : Bool := bitAt m.words ((y * m.rowSize) * 32 + x)

def absM (m : WMat) : SMat :=
  ⟨m.width, m.height,
   (List.range m.height).map (fun y => (List.range m.width).map (fun x => mbit m x y))⟩

/-- representation invariant of a BitMatrix -/
def InvM (m : WMat) : Prop :=
  1 ≤ m.width ∧ 1 ≤ m.height ∧ m.rowSize = (m.width + 31) / 32 ∧
  m.words.length = m.rowSize * m.height ∧ (∀ w ∈ m.words, w < W32) ∧
  ∀ x y, m.width ≤ x → x < m.rowSize * 32 → mbit m x y = false

end Gzx.Bits
