/-
  C10 — check digits and checksums of the 1-D symbologies (package oned).

  Hand-written mirror of
    upcean_reader.go   upceanReader_getStandardUPCEANChecksum / checkStandardUPCEANChecksum
    upce_reader.go     convertUPCEtoUPCA, determineNumSysAndCheckDigit
    ean13_reader.go    ean13Reader_determineFirstDigit
    ean13/ean8/upca/upce_writer.go   the check-digit part of encodeWithHints
    code128_writer.go / code128_reader.go   mod-103 running checksum
    code93_writer.go code93ComputeChecksumIndex / code93_reader.go code93CheckChecksums
    upcean_extension{2,5}_support.go   add-on parity rules
  Contents are byte lists (`List Nat`, ASCII codes); symbol characters are index values.
  Tied to /repo by the `c10` correspondence suite; parity tables come from `Gzx.Gen.C10Tables`
  through `Obligations/C10.lean`.
-/
import Gzx.Util
namespace Gzx.CheckDigit

/-! ## bytes and digits -/

/-- Go `s[i] - '0'` on a `byte`: wraps modulo 256 -/
def byteMinus0 (b : Nat) : Nat := (b + 208) % 256

def isDigitByte (b : Nat) : Bool := 48 ≤ b && b ≤ 57

/-- all bytes are ASCII digits (`onedWriter_checkNumeric`) -/
def allDigits (bs : List Nat) : Bool := bs.all isDigitByte

/-- digit values of a digit string; `none` if some byte is not '0'..'9' -/
def digits? : List Nat → Option (List Nat)
  | [] => some []
  | b :: bs => if isDigitByte b then (digits? bs).map (fun ds => (b - 48) :: ds) else none

def digitBytes (ds : List Nat) : List Nat := ds.map (· + 48)

/-! ## UPC/EAN mod-10 -/

/-- weighted sum of a digit list, the RIGHT-most digit has weight 3, then 1, 3, 1 ... to the left.
    Returns the sum and whether the next digit to the left gets weight 3. -/
def eanSumAux : List Nat → Nat × Bool
  | [] => (0, true)
  | d :: ds =>
    let r := eanSumAux ds
    (r.1 + (if r.2 then 3 else 1) * d, !r.2)

def eanSum (ds : List Nat) : Nat := (eanSumAux ds).1

/-- Go's `(1000 - sum) % 10` (truncated remainder: negative when `sum > 1000`) -/
def goCheckOf (sum : Nat) : Int :=
  if sum ≤ 1000 then (((1000 - sum) % 10 : Nat) : Int) else - (((sum - 1000) % 10 : Nat) : Int)

/-- the check digit of a digit-value list -/
def eanCheckDigit (ds : List Nat) : Int := goCheckOf (eanSum ds)

/-- `upceanReader_getStandardUPCEANChecksum(s)`: FormatException on a non-digit byte -/
def eanChecksumB (s : List Nat) : Res Int :=
  match digits? s with
  | some ds => .ok (eanCheckDigit ds)
  | none => .error .format

/-- `upceanReader_checkStandardUPCEANChecksum(s)`: the last byte is converted with `s[n-1]-'0'`
    WITHOUT a digit test (0..255), the rest must be digits. -/
def checkStandardB (s : List Nat) : Res Bool :=
  match s.getLast? with
  | none => .ok false
  | some last =>
    match eanChecksumB s.dropLast with
    | .ok sum => .ok (sum == ((byteMinus0 last : Nat) : Int))
    | .error e => .error e

/-- digit-level validity of a complete number (body ++ [check]) -/
def eanValid (ds : List Nat) : Bool :=
  match ds.getLast? with
  | none => false
  | some c => eanCheckDigit ds.dropLast == ((c : Nat) : Int)

/-! ## UPC-E ↔ UPC-A -/

/-- `convertUPCEtoUPCA(upce)`: bytes in, bytes out; slicing `upce[1:7]` panics on fewer than 7 bytes.
    A check digit (`upce[7]`) is copied when present. -/
def convertUPCEtoUPCA (upce : List Nat) : Res (List Nat) :=
  match upce with
  | n :: a :: b :: c :: d :: e :: l :: rest =>
    let body :=
      if l = 48 ∨ l = 49 ∨ l = 50 then [a, b, l, 48, 48, 48, 48, c, d, e]
      else if l = 51 then [a, b, c, 48, 48, 48, 48, 48, d, e]
      else if l = 52 then [a, b, c, d, 48, 48, 48, 48, 48, e]
      else [a, b, c, d, e, 48, 48, 48, 48, l]
    .ok (n :: body ++ rest.take 1)
  | _ => .error (.panic "slice bounds out of range [1:7]")

/-- Zero suppression (GS1 General Specifications, UPC-E): the inverse of the expansion.
    Input: UPC-A number as bytes, 11 digits (or 12 with check digit); output UPC-E 7 (8) bytes.
    The four rules are tried in the standard's order, each only when the previous do not apply. -/
def suppress : List Nat → Option (List Nat)
  | n :: m1 :: m2 :: m3 :: m4 :: m5 :: p1 :: p2 :: p3 :: p4 :: p5 :: rest =>
    if rest.length > 1 then none
    else if m3 ≤ 50 ∧ m4 = 48 ∧ m5 = 48 ∧ p1 = 48 ∧ p2 = 48 then
      some ([n, m1, m2, p3, p4, p5, m3] ++ rest)
    else if m4 = 48 ∧ m5 = 48 ∧ p1 = 48 ∧ p2 = 48 ∧ p3 = 48 then
      some ([n, m1, m2, m3, p4, p5, 51] ++ rest)
    else if m5 = 48 ∧ p1 = 48 ∧ p2 = 48 ∧ p3 = 48 ∧ p4 = 48 then
      some ([n, m1, m2, m3, m4, p5, 52] ++ rest)
    else if p1 = 48 ∧ p2 = 48 ∧ p3 = 48 ∧ p4 = 48 ∧ p5 ≥ 53 then
      some ([n, m1, m2, m3, m4, m5, p5] ++ rest)
    else none
  | _ => none

/-- a UPC-E number is canonical when it is what zero suppression produces: the standard reserves
    last digit 3 for manufacturer numbers whose third digit is 3..9, 4 for a non-zero fourth digit,
    5..9 for a non-zero fifth digit.  (Other 6-digit bodies also expand, but to a UPC-A number that
    suppresses to a different UPC-E body.) -/
def canonicalUPCE : List Nat → Bool
  | _ :: _ :: _ :: c :: d :: e :: l :: _ =>
    if l = 51 then c ≥ 51 else if l = 52 then d ≠ 48 else if l ≥ 53 then e ≠ 48 else true
  | _ => false

/-! ## parity tables -/

def indexOf? (x : Nat) : List Nat → Option Nat
  | [] => none
  | y :: ys => if y = x then some 0 else (indexOf? x ys).map (· + 1)

def distinct : List Nat → Bool
  | [] => true
  | x :: xs => !xs.contains x && distinct xs

/-- Go: `for d := 0; d < 10; d++ { if lg == T[d] {return d} }; NotFound` — index panic only if the
    table is shorter than 10 and no earlier entry matched. -/
def scan10 (T : List Nat) (lg : Nat) : Res Nat :=
  match indexOf? lg (T.take 10) with
  | some d => .ok d
  | none => if T.length < 10 then .error (.panic "index out of range") else .error .notFound

/-- `ean13Reader_determineFirstDigit` -/
def determineFirstDigit (T : List Nat) (lg : Nat) : Res Nat := scan10 T lg

/-- `UPCEANExtension5Support.determineCheckDigit` -/
def determineCheckDigit5 (T : List Nat) (lg : Nat) : Res Nat := scan10 T lg

/-- `determineNumSysAndCheckDigit`: numSys 0 then 1, d 0..9; returns (numSys, checkDigit) -/
def determineNumSysAndCheckDigit (T : List (List Nat)) (lg : Nat) : Res (Nat × Nat) :=
  match T with
  | [] => .error (.panic "index out of range")
  | r0 :: rest =>
    match scan10 r0 lg with
    | .ok d => .ok (0, d)
    | .error .notFound =>
      match rest with
      | [] => .error (.panic "index out of range")
      | r1 :: _ =>
        match scan10 r1 lg with
        | .ok d => .ok (1, d)
        | .error e => .error e
    | .error e => .error e

/-- parity bits (MSB first, G/even = 1) of a list of L/G flags, as the readers accumulate them:
    `lgPatternFound |= 1 << (n-1-x)` -/
def parityBits : List Bool → Nat
  | [] => 0
  | g :: gs => (if g then 2 ^ gs.length else 0) + parityBits gs

/-- writer side: is digit `i` (1-based, of 6) drawn with the G set?  `(parities >> (6-i)) & 1 == 1` -/
def parityFlags (n : Nat) (parities : Nat) : List Bool :=
  (List.range n).map (fun x => (parities / 2 ^ (n - 1 - x)) % 2 = 1)

/-! ## the writers' check-digit handling -/

inductive EanKind where
  | ean13 | ean8 | upca | upce
  deriving DecidableEq, Repr

/-- `strconv.Itoa(check)` for the values `(1000-sum)%10` can take -/
def itoaSmall (c : Int) : List Nat :=
  if c < 0 then [45, 48 + c.natAbs] else [48 + c.toNat]

/-- head of `encodeWithHints` of ean13Encoder / ean8Encoder (full length `n`): length switch,
    compute-or-verify the check digit, then `onedWriter_checkNumeric`.  Every failure is a
    WriterException. -/
def stdWriterContents (n : Nat) (contents : List Nat) : Res (List Nat) :=
  if contents.length + 1 = n then
    match eanChecksumB contents with
    | .error _ => .error .writer
    | .ok c =>
      let full := contents ++ itoaSmall c
      if allDigits full then .ok full else .error .writer
  else if contents.length = n then
    match checkStandardB contents with
    | .error _ => .error .writer
    | .ok false => .error .writer
    | .ok true => if allDigits contents then .ok contents else .error .writer
  else .error .writer

/-- head of upcEEncoder.encodeWithHints AFTER the D9 repair: the check digit of a 7-digit input is
    computed on the expanded UPC-A number (as the 8-digit branch, the reader and ZXing do). -/
def upceWriterContents (contents : List Nat) : Res (List Nat) :=
  let checked : Res (List Nat) :=
    if contents.length = 7 then
      match convertUPCEtoUPCA contents with
      | .error e => .error e
      | .ok a =>
        match eanChecksumB a with
        | .error _ => .error .writer
        | .ok c => .ok (contents ++ itoaSmall c)
    else if contents.length = 8 then
      match convertUPCEtoUPCA contents with
      | .error e => .error e
      | .ok a =>
        match checkStandardB a with
        | .error _ => .error .writer
        | .ok false => .error .writer
        | .ok true => .ok contents
    else .error .writer
  match checked with
  | .error e => .error e
  | .ok full =>
    if !allDigits full then .error .writer
    else match full with
      | f :: _ => if f = 48 ∨ f = 49 then .ok full else .error .writer
      | [] => .error (.panic "index out of range")

/-- the digit string a UPC/EAN writer draws (UPC-A is EAN-13 of "0"+contents) -/
def writerContents (k : EanKind) (contents : List Nat) : Res (List Nat) :=
  match k with
  | .ean13 => stdWriterContents 13 contents
  | .ean8 => stdWriterContents 8 contents
  | .upca => stdWriterContents 13 (48 :: contents)
  | .upce => upceWriterContents contents

/-! ## readers: acceptance of a decoded digit string -/

/-- tail of `decodeRowWithStartRange`: `len < 8` is a FormatException, then `checkChecksum`
    (UPC-E: on the expansion); a failed check is a ChecksumException -/
def readerAccept (k : EanKind) (s : List Nat) : Res Unit :=
  if s.length < 8 then .error .format
  else
    let r := match k with
      | .upce => (match convertUPCEtoUPCA s with
                  | .ok a => checkStandardB a
                  | .error e => .error e)
      | _ => checkStandardB s
    match r with
    | .ok true => .ok ()
    | .ok false => .error .checksum
    | .error (.panic w) => .error (.panic w)
    | .error _ => .error .checksum

/-- symbol-level UPC-E read: six (digit, isG) pairs → 8-byte text or error -/
def upceSymbolRead (T : List (List Nat)) (sym : List (Nat × Bool)) : Res (List Nat) :=
  match determineNumSysAndCheckDigit T (parityBits (sym.map (·.2))) with
  | .error e => .error e
  | .ok (ns, chk) =>
    let s := (48 + ns) :: (sym.map (fun p => 48 + p.1)) ++ [48 + chk]
    match readerAccept .upce s with
    | .ok () => .ok s
    | .error e => .error e

/-- symbol-level EAN-13 read: six (digit, isG) pairs of the left half, six right digits -/
def ean13SymbolRead (T : List Nat) (left : List (Nat × Bool)) (right : List Nat) : Res (List Nat) :=
  match determineFirstDigit T (parityBits (left.map (·.2))) with
  | .error e => .error e
  | .ok f =>
    let s := (48 + f) :: (left.map (fun p => 48 + p.1)) ++ right.map (48 + ·)
    match readerAccept .ean13 s with
    | .ok () => .ok s
    | .error e => .error e

/-- symbol-level UPC-A read: the EAN-13 reading with its leading '0' removed (`maybeReturnResult`),
    FormatException when the EAN-13 number does not start with '0' -/
def upcaSymbolRead (T : List Nat) (left : List (Nat × Bool)) (right : List Nat) : Res (List Nat) :=
  match ean13SymbolRead T left right with
  | .error e => .error e
  | .ok [] => .error (.panic "index out of range")
  | .ok (f :: rest) => if f = 48 then .ok rest else .error .format

/-- symbol-level EAN-8 read -/
def ean8SymbolRead (ds : List Nat) : Res (List Nat) :=
  let s := ds.map (48 + ·)
  match readerAccept .ean8 s with
  | .ok () => .ok s
  | .error e => .error e

/-! ## Code 128 -/

/-- Σ wᵢ·cᵢ with weights w, w+1, … -/
def wsumFrom (w : Nat) : List Nat → Nat
  | [] => 0
  | c :: cs => w * c + wsumFrom (w + 1) cs

/-- check character of a Code 128 symbol: start code (weight 1) then data codes with weights 1, 2, … -/
def c128Check (start : Nat) (data : List Nat) : Nat := (start + wsumFrom 1 data) % 103

/-- the writer's loop: `checkSum += patternIndex * checkWeight; if position != 0 {checkWeight++}`
    — `moved i` says whether `position != 0` after emitting the i-th symbol character.
    (The first symbol character is always the start code, emitted with `position == 0`.) -/
def c128WriterSum : List (Nat × Bool) → Nat → Nat → Nat
  | [], sum, _ => sum % 103
  | (idx, moved) :: rest, sum, w => c128WriterSum rest (sum + idx * w) (if moved then w + 1 else w)

/-- the reader's arithmetic over the decoded codes `start :: cs` where `cs` ends with the check
    character (STOP excluded): `checksumTotal = start + Σ mult·code`, then `-= mult·lastCode`,
    accepted iff `checksumTotal % 103 == lastCode`. -/
def c128ReaderAccept (start : Nat) (cs : List Nat) : Bool :=
  match cs.getLast? with
  | none => start % 103 == 0   -- STOP right after the start code: `lastCode = 0`, `multiplier = 0`
  | some last =>
    let total := start + wsumFrom 1 cs
    (total - cs.length * last) % 103 == last

/-! ## Code 93 -/

/-- next weight: `weight++; if weight > maxWeight {weight = 1}` -/
def c93Next (maxW w : Nat) : Nat := if w + 1 > maxW then 1 else w + 1

/-- Σ over the characters from RIGHT to LEFT (argument is the reversed list) -/
def c93SumRev (maxW : Nat) : Nat → List Nat → Nat
  | _, [] => 0
  | w, c :: cs => c * w + c93SumRev maxW (c93Next maxW w) cs

/-- `code93ComputeChecksumIndex(contents, maxWeight)` on alphabet indices -/
def c93Check (maxW : Nat) (vals : List Nat) : Nat := c93SumRev maxW 1 vals.reverse % 47

/-- the two check characters the writer appends -/
def c93Checks (vals : List Nat) : Nat × Nat :=
  let c := c93Check 20 vals
  (c, c93Check 15 (vals ++ [c]))

/-- `code93CheckChecksums(result)`: `result = data ++ [C, K]`; Go indexes `result[len-2]`, the caller
    guarantees `len ≥ 2` -/
def c93ReaderAccept (vals : List Nat) : Res Bool :=
  if vals.length < 2 then .error (.panic "index out of range")
  else
    let data := vals.take (vals.length - 2)
    let withC := vals.take (vals.length - 1)
    match vals.drop (vals.length - 2) with
    | [c, k] => .ok (c93Check 20 data == c && c93Check 15 withC == k)
    | _ => .error (.panic "unreachable")

/-! ## Code 39 optional mod-43 check (reader with usingCheckDigit) -/

def sumL (xs : List Nat) : Nat := xs.foldr (· + ·) 0

def c39Check (vals : List Nat) : Nat := sumL vals % 43

/-! ## EAN-2 / EAN-5 add-ons -/

/-- `extensionChecksum`: from the right, weights 3, 9, 3, 9 … (sum·3 of the alternate digits, then ·3 again) -/
def ext5SumAux : List Nat → Nat × Bool
  | [] => (0, true)
  | d :: ds =>
    let r := ext5SumAux ds
    (r.1 + (if r.2 then 3 else 9) * d, !r.2)

def ext5Checksum (ds : List Nat) : Nat := (ext5SumAux ds).1 % 10

/-- five-digit add-on accepted?  (digit, isG) pairs as decoded -/
def ext5Accept (T : List Nat) (sym : List (Nat × Bool)) : Res Unit :=
  if sym.length ≠ 5 then .error .notFound
  else
    match determineCheckDigit5 T (parityBits (sym.map (·.2))) with
    | .error e => .error e
    | .ok d => if ext5Checksum (sym.map (·.1)) = d then .ok () else .error .checksum

/-- two-digit add-on accepted?  parity value must equal `(10a+b) % 4` -/
def ext2Accept (sym : List (Nat × Bool)) : Res Unit :=
  match sym with
  | [(a, ga), (b, gb)] =>
    if (10 * a + b) % 4 = parityBits [ga, gb] then .ok () else .error .checksum
  | _ => .error .notFound

/-- `UPCEANExtensionSupport.decodeRow` at symbol level: the add-on has `sym.length` digits (2 or 5).
    The 5-digit support is tried first; on any ReaderException the 2-digit support reads the first
    two digits.  Result: the extension text (digit values). -/
def extDecode (T : List Nat) (sym : List (Nat × Bool)) : Res (List Nat) :=
  match ext5Accept T (sym.take 5) with
  | .ok () => .ok ((sym.take 5).map (·.1))
  | .error (.panic w) => .error (.panic w)
  | .error _ =>
    match ext2Accept (sym.take 2) with
    | .ok () => .ok ((sym.take 2).map (·.1))
    | .error e => .error e

end Gzx.CheckDigit
