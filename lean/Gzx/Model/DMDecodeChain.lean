/-
  Gzx.DMDec (part) — the glue of datamatrix/decoder/decoder.go: `Decoder.Decode` = NewBitMatrixParser →
  readCodewords → DataBlocks_getDataBlocks → correctErrors per block (Reed-Solomon over GF(256)/0x12D, model of
  C04) → de-interlacing copy → DecodedBitStreamParser_decode (model of C02).
  Tied to the code by the `c02` correspondence suite dm-sym (clean and damaged symbols of all 30 sizes).
  Core Lean only.
-/
import Gzx.Model.DMDecoder
import Gzx.Model.RS
import Gzx.Model.DMHighLevel
namespace Gzx.DMDec
open Gzx

/-- `Decoder.correctErrors(codewordBytes, numDataCodewords)`: Reed-Solomon decoding with
    `len(codewordBytes) - numDataCodewords` parity symbols; only the DATA bytes are copied back; every decoder
    error is wrapped as a ChecksumException.  (`len - numData` cannot be negative for blocks built by
    getDataBlocks: their length is `numData + ecCodewords`.) -/
def correctErrors (nb : Nat × List Nat) : Res (Nat × List Nat) :=
  match RS.decode GF.dataMatrix256 nb.2 (nb.2.length - nb.1) with
  | .ok w => .ok (nb.1, w.take nb.1 ++ nb.2.drop nb.1)
  | .error (.panic w) => .error (.panic w)
  | .error .fuel => .error .fuel
  | .error _ => .error .checksum

/-- the block loop of `Decoder.Decode`: correct every block, then de-interlace the data bytes -/
def decodeCodewordBlocks (blocks : List (Nat × List Nat)) : Res (List Nat) :=
  match blocks.mapM correctErrors with
  | .ok corrected => resultBytes corrected
  | .error e => .error e

/-- `Decoder.Decode(bits)` up to the byte stream handed to DecodedBitStreamParser_decode -/
def decodeMatrixBytes (g : BitGrid) : Res (List Nat) :=
  match newBitMatrixParser versions g with
  | .error e => .error e
  | .ok (v, m) =>
    match readCodewords v m with
    | .error e => .error e
    | .ok raw =>
      match getDataBlocks raw v with
      | .error e => .error e
      | .ok blocks => decodeCodewordBlocks blocks

/-- `Decoder.Decode(bits)`: the text (ISO-8859-1 code points) -/
def decodeMatrix (T : DMHighLevel.Tables) (g : BitGrid) : Res (List Nat) :=
  match decodeMatrixBytes g with
  | .ok bytes => DMHighLevel.decodeText T bytes
  | .error e => .error e

end Gzx.DMDec
