/-
  Gzx.DMDec — executable model of the low-level Data Matrix DECODER of gozxing, mirroring the Go code:
    datamatrix/decoder/version.go             versions, getVersionForDimensions
    datamatrix/decoder/bit_matrix_parser.go   NewBitMatrixParser, readVersion, extractDataRegion,
                                              readCodewords (+ readModule/readUtah/readCorner1..4 and the
                                              readMappingMatrix bookkeeping)
    datamatrix/decoder/data_block.go          DataBlocks_getDataBlocks (incl. the special version 24)
    datamatrix/decoder/decoder.go             the "de-interlace" copy of Decode (error correction is C04/C05)
    datamatrix/decoder/decoded_bit_stream_parser.go   unrandomize255State
  Core Lean only.
-/
import Gzx.Util
import Gzx.Ref.DM
namespace Gzx.DMDec
open Gzx

/-! ## version.go -/

structure ECB where
  count : Nat
  dataCodewords : Nat
  deriving DecidableEq, Repr, Inhabited

structure Version where
  versionNumber : Nat
  symbolSizeRows : Nat
  symbolSizeColumns : Nat
  dataRegionSizeRows : Nat
  dataRegionSizeColumns : Nat
  ecCodewords : Nat
  ecBlocks : List ECB
  deriving DecidableEq, Repr, Inhabited

/-- `NewVersion`: total += count * (dataCodewords + ecCodewords) -/
def Version.totalCodewords (v : Version) : Nat :=
  v.ecBlocks.foldl (fun t b => t + b.count * (b.dataCodewords + v.ecCodewords)) 0

/-- the version entry the standard prescribes for a row of Table 7 (version number = 1-based row index):
    the blocks grouped by data length, longer blocks first -/
def ofSym (num : Nat) (s : DMRef.Sym) : Version :=
  let longer := (s.dataLens.filter (· == s.blkData)).length
  let shorter := s.blocks - longer
  { versionNumber := num, symbolSizeRows := s.rows, symbolSizeColumns := s.cols,
    dataRegionSizeRows := s.regRows, dataRegionSizeColumns := s.regCols, ecCodewords := s.blkErr,
    ecBlocks := if shorter = 0 then [⟨longer, s.blkData⟩] else [⟨longer, s.blkData⟩, ⟨shorter, s.blkData - 1⟩] }

def numberFrom : Nat → List DMRef.Sym → List Version
  | _, [] => []
  | n, s :: ss => ofSym n s :: numberFrom (n + 1) ss

/-- versions 1..30: ISO/IEC 16022 Table 7 in the standard's order -/
def isoVersions : List Version := numberFrom 1 DMRef.table7

/-- versions 31..48: the DMRE extension (ISO/IEC 21471) as the library holds it — transcribed from
    version.go (outside ISO 16022; tied to the code by `Obligations.C08.gen_versions_eq`) -/
def dmreVersions : List Version := [
  ⟨31, 8, 48, 6, 22, 15, [⟨1, 18⟩]⟩, ⟨32, 8, 64, 6, 14, 18, [⟨1, 24⟩]⟩, ⟨33, 8, 80, 6, 18, 22, [⟨1, 32⟩]⟩,
  ⟨34, 8, 96, 6, 22, 28, [⟨1, 38⟩]⟩, ⟨35, 8, 120, 6, 18, 32, [⟨1, 49⟩]⟩, ⟨36, 8, 144, 6, 22, 36, [⟨1, 63⟩]⟩,
  ⟨37, 12, 64, 10, 14, 27, [⟨1, 43⟩]⟩, ⟨38, 12, 88, 10, 20, 36, [⟨1, 64⟩]⟩, ⟨39, 16, 64, 14, 14, 36, [⟨1, 62⟩]⟩,
  ⟨40, 20, 36, 18, 16, 28, [⟨1, 44⟩]⟩, ⟨41, 20, 44, 18, 20, 34, [⟨1, 56⟩]⟩, ⟨42, 20, 64, 18, 14, 42, [⟨1, 84⟩]⟩,
  ⟨43, 22, 48, 20, 22, 38, [⟨1, 72⟩]⟩, ⟨44, 24, 48, 22, 22, 41, [⟨1, 80⟩]⟩, ⟨45, 24, 64, 22, 14, 46, [⟨1, 108⟩]⟩,
  ⟨46, 26, 40, 24, 18, 38, [⟨1, 70⟩]⟩, ⟨47, 26, 48, 24, 22, 42, [⟨1, 90⟩]⟩, ⟨48, 26, 64, 24, 14, 50, [⟨1, 118⟩]⟩]

def versions : List Version := isoVersions ++ dmreVersions

/-- `getVersionForDimensions(numRows, numColumns)` over a version table -/
def getVersionForDimensions (tbl : List Version) (numRows numColumns : Nat) : Res Version :=
  if numRows % 2 ≠ 0 ∨ numColumns % 2 ≠ 0 then .error .format
  else match tbl.find? (fun v => v.symbolSizeRows == numRows && v.symbolSizeColumns == numColumns) with
    | some v => .ok v
    | none => .error .format

/-! ## bit matrices -/

/-- a `gozxing.BitMatrix` seen through `Get`: row-major bits -/
structure BitGrid where
  width : Nat
  height : Nat
  bits : Array Bool
  deriving Inhabited

/-- `Get(x, y)`; the model is strict: coordinates outside the matrix are a panic
    (`readCodewords_inrange`: never happens for a table version) -/
def BitGrid.get (g : BitGrid) (x y : Nat) : Res Bool :=
  if x < g.width ∧ y < g.height then
    match g.bits[y * g.width + x]? with
    | some b => .ok b
    | none => .error (.panic "index out of range: bits")
  else .error (.panic "BitMatrix.Get outside the matrix")

/-! ## bit_matrix_parser.go -/

/-- `extractDataRegion(version, bitMatrix)`: the cells of the mapping matrix, row-major, as (x, y) reads of
    the symbol.  `symbolSizeRows / dataRegionSizeRows` is Go's integer division (panics on 0). -/
def extractCoords (v : Version) : Res (Nat × Nat × List (Nat × Nat)) :=
  if v.dataRegionSizeRows = 0 ∨ v.dataRegionSizeColumns = 0 then .error (.panic "integer divide by zero")
  else
    let numDataRegionsRow := v.symbolSizeRows / v.dataRegionSizeRows
    let numDataRegionsColumn := v.symbolSizeColumns / v.dataRegionSizeColumns
    let sizeRow := numDataRegionsRow * v.dataRegionSizeRows
    let sizeColumn := numDataRegionsColumn * v.dataRegionSizeColumns
    -- write position (wx, wy) of the result receives the symbol module at (rx, ry)
    let coords := (List.range sizeRow).flatMap (fun wy =>
      (List.range sizeColumn).map (fun wx =>
        let rr := wy / v.dataRegionSizeRows
        let i := wy % v.dataRegionSizeRows
        let rc := wx / v.dataRegionSizeColumns
        let j := wx % v.dataRegionSizeColumns
        (rc * (v.dataRegionSizeColumns + 2) + 1 + j, rr * (v.dataRegionSizeRows + 2) + 1 + i)))
    .ok (sizeColumn, sizeRow, coords)

def extractDataRegion (v : Version) (g : BitGrid) : Res BitGrid :=
  if g.height ≠ v.symbolSizeRows then .error .format
  else match extractCoords v with
    | .error e => .error e
    | .ok (w, h, coords) =>
      match coords.mapM (fun (xy : Nat × Nat) => g.get xy.1 xy.2) with
      | .error e => .error e
      | .ok bits => .ok ⟨w, h, bits.toArray⟩

/-- `NewBitMatrixParser(bitMatrix)`: dimension check on the HEIGHT only, version by dimensions,
    mapping matrix -/
def newBitMatrixParser (tbl : List Version) (g : BitGrid) : Res (Version × BitGrid) :=
  if g.height < 8 ∨ g.height > 144 ∨ g.height % 2 ≠ 0 then .error .format
  else match getVersionForDimensions tbl g.height g.width with
    | .error e => .error e
    | .ok v => match extractDataRegion v g with
      | .error e => .error e
      | .ok m => .ok (v, m)

/-- state of `readCodewords`: the cells read so far (most recent first; 8 per codeword), the
    `readMappingMatrix` bit set, and a fault flag for coordinates that leave the matrix -/
structure RState where
  read : Nat := 0
  cells : List Nat := []
  oob : Bool := false
  deriving Inhabited

/-- `readModule(row, column, numRows, numColumns)`: wrap, mark as read, yield the cell -/
def readModule (numRows numColumns : Nat) (st : RState) (row column : Int) : RState :=
  let rc : Int × Int :=
    if row < 0 then (row + numRows, column + (4 - (((numRows + 4) % 8 : Nat) : Int))) else (row, column)
  let rc : Int × Int :=
    if rc.2 < 0 then (rc.1 + (4 - (((numColumns + 4) % 8 : Nat) : Int)), rc.2 + numColumns) else rc
  let rc : Int × Int := if rc.1 ≥ numRows then (rc.1 - numRows, rc.2) else rc
  if 0 ≤ rc.1 ∧ rc.1 < numRows ∧ 0 ≤ rc.2 ∧ rc.2 < numColumns then
    let c := rc.1.toNat * numColumns + rc.2.toNat
    { st with read := st.read ||| (1 <<< c), cells := c :: st.cells }
  else { st with oob := true }

def readModules (numRows numColumns : Nat) (st : RState) : List (Int × Int) → RState
  | [] => st
  | (r, c) :: rest => readModules numRows numColumns (readModule numRows numColumns st r c) rest

def utahReads (row column : Int) : List (Int × Int) :=
  [(row-2, column-2), (row-2, column-1), (row-1, column-2), (row-1, column-1), (row-1, column),
   (row, column-2), (row, column-1), (row, column)]
def corner1Reads (numRows numColumns : Nat) : List (Int × Int) :=
  let r : Int := numRows; let c : Int := numColumns
  [(r-1, 0), (r-1, 1), (r-1, 2), (0, c-2), (0, c-1), (1, c-1), (2, c-1), (3, c-1)]
def corner2Reads (numRows numColumns : Nat) : List (Int × Int) :=
  let r : Int := numRows; let c : Int := numColumns
  [(r-3, 0), (r-2, 0), (r-1, 0), (0, c-4), (0, c-3), (0, c-2), (0, c-1), (1, c-1)]
def corner3Reads (numRows numColumns : Nat) : List (Int × Int) :=
  let r : Int := numRows; let c : Int := numColumns
  [(r-1, 0), (r-1, c-1), (0, c-3), (0, c-2), (0, c-1), (1, c-3), (1, c-2), (1, c-1)]
def corner4Reads (numRows numColumns : Nat) : List (Int × Int) :=
  let r : Int := numRows; let c : Int := numColumns
  [(r-3, 0), (r-2, 0), (r-1, 0), (0, c-2), (0, c-1), (1, c-1), (2, c-1), (3, c-1)]

/-- `!p.readMappingMatrix.Get(column, row)` guarded as in the sweeps, then `readUtah` -/
def tryReadUtah (numRows numColumns : Nat) (st : RState) (row column : Int) : RState :=
  if 0 ≤ row ∧ row < numRows ∧ 0 ≤ column ∧ column < numColumns then
    if st.read.testBit (row.toNat * numColumns + column.toNat) then st
    else readModules numRows numColumns st (utahReads row column)
  else { st with oob := true }

def readSweepUp (numRows numColumns : Nat) : Nat → RState → Int → Int → RState × Int × Int
  | 0, st, r, c => ({ st with oob := true }, r, c)
  | f + 1, st, r, c =>
    let st := if r < numRows ∧ c ≥ 0 then tryReadUtah numRows numColumns st r c else st
    let r := r - 2
    let c := c + 2
    if r ≥ 0 ∧ c < numColumns then readSweepUp numRows numColumns f st r c else (st, r, c)

def readSweepDown (numRows numColumns : Nat) : Nat → RState → Int → Int → RState × Int × Int
  | 0, st, r, c => ({ st with oob := true }, r, c)
  | f + 1, st, r, c =>
    let st := if r ≥ 0 ∧ c < numColumns then tryReadUtah numRows numColumns st r c else st
    let r := r + 2
    let c := c - 2
    if r < numRows ∧ c ≥ 0 then readSweepDown numRows numColumns f st r c else (st, r, c)

structure Corners where
  c1 : Bool := false
  c2 : Bool := false
  c3 : Bool := false
  c4 : Bool := false

/-- the outer `for` of readCodewords (fuel: every iteration advances row+column) -/
def readLoop (numRows numColumns : Nat) : Nat → RState → Corners → Int → Int → RState
  | 0, st, _, _, _ => { st with oob := true }
  | f + 1, st, cs, row, column =>
    let nr : Int := numRows
    let next : RState × Corners × Int × Int :=
      if row = nr ∧ column = 0 ∧ !cs.c1 then
        (readModules numRows numColumns st (corner1Reads numRows numColumns), { cs with c1 := true }, row - 2, column + 2)
      else if row = nr - 2 ∧ column = 0 ∧ numColumns % 4 ≠ 0 ∧ !cs.c2 then
        (readModules numRows numColumns st (corner2Reads numRows numColumns), { cs with c2 := true }, row - 2, column + 2)
      else if row = nr + 4 ∧ column = 2 ∧ numColumns % 8 = 0 ∧ !cs.c3 then
        (readModules numRows numColumns st (corner3Reads numRows numColumns), { cs with c3 := true }, row - 2, column + 2)
      else if row = nr - 2 ∧ column = 0 ∧ numColumns % 8 = 4 ∧ !cs.c4 then
        (readModules numRows numColumns st (corner4Reads numRows numColumns), { cs with c4 := true }, row - 2, column + 2)
      else
        let (st, r, c) := readSweepUp numRows numColumns (numRows + numColumns) st row column
        let (st, r, c) := readSweepDown numRows numColumns (numRows + numColumns) st (r + 1) (c + 3)
        (st, cs, r + 3, c + 1)
    let (st, cs, row, column) := next
    if row < nr ∨ column < (numColumns : Int) then readLoop numRows numColumns f st cs row column else st

def readState (numRows numColumns : Nat) : RState :=
  readLoop numRows numColumns (2 * (numRows + numColumns) + 8) {} {} 4 0

/-- cells of the mapping matrix in the order `readCodewords` reads them (8 per codeword, msb first) -/
def readSeq (numRows numColumns : Nat) : List Nat := (readState numRows numColumns).cells.reverse

def packByte : List Bool → Nat
  | bs => bs.foldl (fun acc b => acc * 2 + (if b then 1 else 0)) 0

def packBytes : Nat → List Bool → List Nat
  | 0, _ => []
  | f + 1, bs => if bs.isEmpty then [] else packByte (bs.take 8) :: packBytes f (bs.drop 8)

/-- `readCodewords()` on the mapping matrix `m` of version `v`:
    `result[resultOffset]` beyond `totalCodewords` is an index panic, fewer is a FormatException -/
def readCodewords (v : Version) (m : BitGrid) : Res (List Nat) :=
  let st := readState m.height m.width
  if st.oob then .error (.panic "readModule outside the mapping matrix")
  else
    let n := st.cells.length / 8
    if n > v.totalCodewords then .error (.panic "index out of range: result[resultOffset]")
    else match st.cells.reverse.mapM (fun c => m.get (c % m.width) (c / m.width)) with
      | .error e => .error e
      | .ok bits => if n ≠ v.totalCodewords then .error .format else .ok (packBytes n bits)

/-! ## data_block.go -/

/-- where the raw codewords go: `(block j, index i)` in raw-stream order, for a list of blocks given by
    their (numDataCodewords, total length).  Mirrors the three fill loops of DataBlocks_getDataBlocks. -/
def blockShapes (v : Version) : List (Nat × Nat) :=
  v.ecBlocks.flatMap (fun b => List.replicate b.count (b.dataCodewords, v.ecCodewords + b.dataCodewords))

def dbTargets (v : Version) : Res (List (Nat × Nat)) :=
  let shapes := blockShapes v
  let numResultBlocks := shapes.length
  match shapes with
  | [] => .error (.panic "index out of range: result[0]")
  | (_, longerBlocksTotalCodewords) :: _ =>
    if longerBlocksTotalCodewords < v.ecCodewords + 1 then .error (.panic "negative loop bound / index -1")
    else
      let longerBlocksNumDataCodewords := longerBlocksTotalCodewords - v.ecCodewords
      let shorterBlocksNumDataCodewords := longerBlocksNumDataCodewords - 1
      let specialVersion := v.versionNumber == 24
      let numLongerBlocks := if specialVersion then 8 else numResultBlocks
      let part1 := (List.range shorterBlocksNumDataCodewords).flatMap (fun i =>
        (List.range numResultBlocks).map (fun j => (j, i)))
      let part2 := (List.range numLongerBlocks).map (fun j => (j, longerBlocksNumDataCodewords - 1))
      let part3 := (List.range (longerBlocksTotalCodewords - longerBlocksNumDataCodewords)).flatMap (fun di =>
        let i := longerBlocksNumDataCodewords + di
        (List.range numResultBlocks).map (fun j =>
          if specialVersion then
            let jOffset := (j + 8) % numResultBlocks
            (jOffset, if jOffset > 7 then i - 1 else i)
          else (j, i)))
      .ok (part1 ++ part2 ++ part3)

def set2 (blocks : List (List Nat)) (j i x : Nat) : Option (List (List Nat)) :=
  match blocks[j]? with
  | none => none
  | some b => if i < b.length then some (blocks.set j (b.set i x)) else none

def fillBlocks : List (Nat × Nat) → List Nat → List (List Nat) → Res (List (List Nat))
  | [], [], blocks => .ok blocks
  | [], _ :: _, _ => .error .format       -- rawCodewordsOffset != len(rawCodewords)
  | _ :: _, [], _ => .error (.panic "index out of range: rawCodewords[rawCodewordsOffset]")
  | (j, i) :: ts, x :: xs, blocks =>
    match set2 blocks j i x with
    | none => .error (.panic "index out of range: result[j].codewords[i]")
    | some blocks => fillBlocks ts xs blocks

/-- `DataBlocks_getDataBlocks(rawCodewords, version)`: (numDataCodewords, codewords) per block -/
def getDataBlocks (raw : List Nat) (v : Version) : Res (List (Nat × List Nat)) :=
  match dbTargets v with
  | .error e => .error e
  | .ok ts =>
    let shapes := blockShapes v
    match fillBlocks ts raw (shapes.map (fun s => List.replicate s.2 0)) with
    | .error e => .error e
    | .ok blocks => .ok ((shapes.map (·.1)).zip blocks)

/-! ## decoder.go: the de-interlace copy `resultBytes[i*dataBlocksCount+j] = codewordBytes[i]` -/

/-- (target index, value) pairs of the copy loop, or a panic when a block is shorter than its data count -/
def deinterlaceTargets (blocks : List (Nat × List Nat)) : Res (List (Nat × Nat)) :=
  if blocks.any (fun b => b.2.length < b.1) then .error (.panic "index out of range: codewordBytes[i]")
  else .ok (blocks.zipIdx.flatMap (fun (bj : (Nat × List Nat) × Nat) =>
    (bj.1.2.take bj.1.1).zipIdx.map (fun (xi : Nat × Nat) => (xi.2 * blocks.length + bj.2, xi.1))))

/-- data bytes of the symbol from its (already corrected) blocks -/
def resultBytes (blocks : List (Nat × List Nat)) : Res (List Nat) :=
  match deinterlaceTargets blocks with
  | .error e => .error e
  | .ok ts =>
    ts.foldlM (fun (acc : List Nat) (t : Nat × Nat) =>
      if t.1 < acc.length then .ok (acc.set t.1 t.2) else .error (.panic "index out of range: resultBytes"))
      (List.replicate (blocks.map (·.1)).sum 0)

/-! ## decoded_bit_stream_parser.go -/

/-- `unrandomize255State(randomizedBase256Codeword, base256CodewordPosition)` -/
def unrandomize255State (w pos : Int) : Int :=
  let pseudoRandomNumber := Int.tmod (149 * pos) 255 + 1
  let tempVariable := w - pseudoRandomNumber
  if tempVariable ≥ 0 then tempVariable else tempVariable + 256

end Gzx.DMDec
