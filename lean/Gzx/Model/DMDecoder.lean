/-
  Gzx.DMDec — executable model of the low-level Data Matrix DECODER of gozxing, mirroring the Go code:
    datamatrix/decoder/version.go             versions, getVersionForDimensions
    datamatrix/decoder/bit_matrix_parser.go   NewBitMatrixParser, readVersion, extractDataRegion,
                                              readCodewords (+ readModule/readUtah/readCorner1..4 and the
                                              readMappingMatrix bookkeeping)
    datamatrix/decoder/data_block.go          DataBlocks_getDataBlocks (incl. the special version 24)
    datamatrix/decoder/decoder.go             the "de-interlace" copy of Decode (error correction is C04/C05)
    datamatrix/decoder/decoded_bit_stream_parser.go   unrandomize255State
  Core Lean only.
-/
import Gzx.Util
import Gzx.Ref.DM
import Gzx.Model.DMRead
namespace Gzx.DMDec
open Gzx

/-! ## version.go -/

/-- the version entry the standard prescribes for a row of Table 7 (version number = 1-based row index):
    the blocks grouped by data length, longer blocks first -/
def ofSym (num : Nat) (s : DMRef.Sym) : Version :=
  let longer := (s.dataLens.filter (· == s.blkData)).length
  let shorter := s.blocks - longer
  { versionNumber := num, symbolSizeRows := s.rows, symbolSizeColumns := s.cols,
    dataRegionSizeRows := s.regRows, dataRegionSizeColumns := s.regCols, ecCodewords := s.blkErr,
    ecBlocks := if shorter = 0 then [⟨longer, s.blkData⟩] else [⟨longer, s.blkData⟩, ⟨shorter, s.blkData - 1⟩] }

def numberFrom : Nat → List DMRef.Sym → List Version
  | _, [] => []
  | n, s :: ss => ofSym n s :: numberFrom (n + 1) ss

/-- versions 1..30: ISO/IEC 16022 Table 7 in the standard's order -/
def isoVersions : List Version := numberFrom 1 DMRef.table7

/-- versions 31..48: the DMRE extension (ISO/IEC 21471) as the library holds it — transcribed from
    version.go (outside ISO 16022; tied to the code by `Obligations.C08.gen_versions_eq`) -/
def dmreVersions : List Version := [
  ⟨31, 8, 48, 6, 22, 15, [⟨1, 18⟩]⟩, ⟨32, 8, 64, 6, 14, 18, [⟨1, 24⟩]⟩, ⟨33, 8, 80, 6, 18, 22, [⟨1, 32⟩]⟩,
  ⟨34, 8, 96, 6, 22, 28, [⟨1, 38⟩]⟩, ⟨35, 8, 120, 6, 18, 32, [⟨1, 49⟩]⟩, ⟨36, 8, 144, 6, 22, 36, [⟨1, 63⟩]⟩,
  ⟨37, 12, 64, 10, 14, 27, [⟨1, 43⟩]⟩, ⟨38, 12, 88, 10, 20, 36, [⟨1, 64⟩]⟩, ⟨39, 16, 64, 14, 14, 36, [⟨1, 62⟩]⟩,
  ⟨40, 20, 36, 18, 16, 28, [⟨1, 44⟩]⟩, ⟨41, 20, 44, 18, 20, 34, [⟨1, 56⟩]⟩, ⟨42, 20, 64, 18, 14, 42, [⟨1, 84⟩]⟩,
  ⟨43, 22, 48, 20, 22, 38, [⟨1, 72⟩]⟩, ⟨44, 24, 48, 22, 22, 41, [⟨1, 80⟩]⟩, ⟨45, 24, 64, 22, 14, 46, [⟨1, 108⟩]⟩,
  ⟨46, 26, 40, 24, 18, 38, [⟨1, 70⟩]⟩, ⟨47, 26, 48, 24, 22, 42, [⟨1, 90⟩]⟩, ⟨48, 26, 64, 24, 14, 50, [⟨1, 118⟩]⟩]

def versions : List Version := isoVersions ++ dmreVersions

/-- `getVersionForDimensions(numRows, numColumns)` over a version table -/
def getVersionForDimensions (tbl : List Version) (numRows numColumns : Nat) : Res Version :=
  if numRows % 2 ≠ 0 ∨ numColumns % 2 ≠ 0 then .error .format
  else match tbl.find? (fun v => v.symbolSizeRows == numRows && v.symbolSizeColumns == numColumns) with
    | some v => .ok v
    | none => .error .format

/-! ## bit_matrix_parser.go -/

/-- `extractDataRegion(version, bitMatrix)`: the cells of the mapping matrix, row-major, as (x, y) reads of
    the symbol.  `symbolSizeRows / dataRegionSizeRows` is Go's integer division (panics on 0). -/
def extractCoords (v : Version) : Res (Nat × Nat × List (Nat × Nat)) :=
  if v.dataRegionSizeRows = 0 ∨ v.dataRegionSizeColumns = 0 then .error (.panic "integer divide by zero")
  else
    let numDataRegionsRow := v.symbolSizeRows / v.dataRegionSizeRows
    let numDataRegionsColumn := v.symbolSizeColumns / v.dataRegionSizeColumns
    let sizeRow := numDataRegionsRow * v.dataRegionSizeRows
    let sizeColumn := numDataRegionsColumn * v.dataRegionSizeColumns
    -- write position (wx, wy) of the result receives the symbol module at (rx, ry)
    let coords := (List.range sizeRow).flatMap (fun wy =>
      (List.range sizeColumn).map (fun wx =>
        let rr := wy / v.dataRegionSizeRows
        let i := wy % v.dataRegionSizeRows
        let rc := wx / v.dataRegionSizeColumns
        let j := wx % v.dataRegionSizeColumns
        (rc * (v.dataRegionSizeColumns + 2) + 1 + j, rr * (v.dataRegionSizeRows + 2) + 1 + i)))
    .ok (sizeColumn, sizeRow, coords)

def extractDataRegion (v : Version) (g : BitGrid) : Res BitGrid :=
  if g.height ≠ v.symbolSizeRows then .error .format
  else match extractCoords v with
    | .error e => .error e
    | .ok (w, h, coords) =>
      match coords.mapM (fun (xy : Nat × Nat) => g.get xy.1 xy.2) with
      | .error e => .error e
      | .ok bits => .ok ⟨w, h, bits.toArray⟩

/-- `NewBitMatrixParser(bitMatrix)`: dimension check on the HEIGHT only, version by dimensions,
    mapping matrix -/
def newBitMatrixParser (tbl : List Version) (g : BitGrid) : Res (Version × BitGrid) :=
  if g.height < 8 ∨ g.height > 144 ∨ g.height % 2 ≠ 0 then .error .format
  else match getVersionForDimensions tbl g.height g.width with
    | .error e => .error e
    | .ok v => match extractDataRegion v g with
      | .error e => .error e
      | .ok m => .ok (v, m)

/-! ## data_block.go -/

/-- where the raw codewords go: `(block j, index i)` in raw-stream order, for a list of blocks given by
    their (numDataCodewords, total length).  Mirrors the three fill loops of DataBlocks_getDataBlocks. -/
def blockShapes (v : Version) : List (Nat × Nat) :=
  v.ecBlocks.flatMap (fun b => List.replicate b.count (b.dataCodewords, v.ecCodewords + b.dataCodewords))

def dbTargets (v : Version) : Res (List (Nat × Nat)) :=
  let shapes := blockShapes v
  let numResultBlocks := shapes.length
  match shapes with
  | [] => .error (.panic "index out of range: result[0]")
  | (_, longerBlocksTotalCodewords) :: _ =>
    if longerBlocksTotalCodewords < v.ecCodewords + 1 then .error (.panic "negative loop bound / index -1")
    else
      let longerBlocksNumDataCodewords := longerBlocksTotalCodewords - v.ecCodewords
      let shorterBlocksNumDataCodewords := longerBlocksNumDataCodewords - 1
      let specialVersion := v.versionNumber == 24
      let numLongerBlocks := if specialVersion then 8 else numResultBlocks
      let part1 := (List.range shorterBlocksNumDataCodewords).flatMap (fun i =>
        (List.range numResultBlocks).map (fun j => (j, i)))
      let part2 := (List.range numLongerBlocks).map (fun j => (j, longerBlocksNumDataCodewords - 1))
      let part3 := (List.range (longerBlocksTotalCodewords - longerBlocksNumDataCodewords)).flatMap (fun di =>
        let i := longerBlocksNumDataCodewords + di
        (List.range numResultBlocks).map (fun j =>
          if specialVersion then
            let jOffset := (j + 8) % numResultBlocks
            (jOffset, if jOffset > 7 then i - 1 else i)
          else (j, i)))
      .ok (part1 ++ part2 ++ part3)

def set2 (blocks : List (List Nat)) (j i x : Nat) : Option (List (List Nat)) :=
  match blocks[j]? with
  | none => none
  | some b => if i < b.length then some (blocks.set j (b.set i x)) else none

def fillBlocks : List (Nat × Nat) → List Nat → List (List Nat) → Res (List (List Nat))
  | [], [], blocks => .ok blocks
  | [], _ :: _, _ => .error .format       -- rawCodewordsOffset != len(rawCodewords)
  | _ :: _, [], _ => .error (.panic "index out of range: rawCodewords[rawCodewordsOffset]")
  | (j, i) :: ts, x :: xs, blocks =>
    match set2 blocks j i x with
    | none => .error (.panic "index out of range: result[j].codewords[i]")
    | some blocks => fillBlocks ts xs blocks

/-- `DataBlocks_getDataBlocks(rawCodewords, version)`: (numDataCodewords, codewords) per block -/
def getDataBlocks (raw : List Nat) (v : Version) : Res (List (Nat × List Nat)) :=
  match dbTargets v with
  | .error e => .error e
  | .ok ts =>
    let shapes := blockShapes v
    match fillBlocks ts raw (shapes.map (fun s => List.replicate s.2 0)) with
    | .error e => .error e
    | .ok blocks => .ok ((shapes.map (·.1)).zip blocks)

/-! ## decoder.go: the de-interlace copy `resultBytes[i*dataBlocksCount+j] = codewordBytes[i]` -/

/-- (target index, value) pairs of the copy loop `resultBytes[i*dataBlocksCount+j] = codewordBytes[i]`,
    `j` outer, `i < numDataCodewords` inner -/
def deinterlacePairs (blocks : List (Nat × List Nat)) : List (Nat × Nat) :=
  blocks.zipIdx.flatMap (fun (bj : (Nat × List Nat) × Nat) =>
    (bj.1.2.take bj.1.1).zipIdx.map (fun (xi : Nat × Nat) => (xi.2 * blocks.length + bj.2, xi.1)))

def storeAll : List (Nat × Nat) → List Nat → Res (List Nat)
  | [], acc => .ok acc
  | (p, x) :: ts, acc =>
    if p < acc.length then storeAll ts (acc.set p x) else .error (.panic "index out of range: resultBytes")

/-- data bytes of the symbol from its (already corrected) blocks; a block shorter than its data count is
    an index panic at `codewordBytes[i]` -/
def resultBytes (blocks : List (Nat × List Nat)) : Res (List Nat) :=
  if blocks.any (fun b => b.2.length < b.1) then .error (.panic "index out of range: codewordBytes[i]")
  else storeAll (deinterlacePairs blocks) (List.replicate (blocks.map (·.1)).sum 0)

/-! ## decoded_bit_stream_parser.go -/

/-- `unrandomize255State(randomizedBase256Codeword, base256CodewordPosition)` -/
def unrandomize255State (w pos : Int) : Int :=
  let pseudoRandomNumber := Int.tmod (149 * pos) 255 + 1
  let tempVariable := w - pseudoRandomNumber
  if tempVariable ≥ 0 then tempVariable else tempVariable + 256

end Gzx.DMDec
