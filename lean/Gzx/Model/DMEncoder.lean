/-
  Gzx.DMEnc — executable model of the low-level Data Matrix ENCODER of gozxing, mirroring the Go code:
    datamatrix/encoder/symbol_info.go            SymbolInfo accessors
    datamatrix/encoder/datamatrix_symbol_info_144.go
    datamatrix/encoder/error_correction.go       init() log/alog, createECCBlock, ErrorCorrection_EncodeECC200
    datamatrix/datamatrix_writer.go              encodeLowLevel (+ convertByteMatrixToBitMatrix for a 0x0 request)
    datamatrix/encoder/high_level_encoder.go     randomize253State
    datamatrix/encoder/base256_encoder.go        base256Randomize255State
  DefaultPlacement.Place is a transliteration of the Annex F program; its model is `Gzx.DMRef.mappingBits`
  (tied to the Go code by the `place` correspondence suite).
  Core Lean only.
-/
import Gzx.Util
import Gzx.Ref.DM
namespace Gzx.DMEnc
open Gzx

/-! ## SymbolInfo -/

structure SymbolInfo where
  rectangular : Bool
  dataCapacity : Nat
  errorCodewords : Nat
  matrixWidth : Nat
  matrixHeight : Nat
  dataRegions : Nat
  rsBlockData : Int          -- -1 for the 144x144 symbol (unused there: the two functions are overridden)
  rsBlockError : Nat
  special144 : Bool          -- DataMatrixSymbolInfo144: block count / block data length overridden
  deriving DecidableEq, Repr, Inhabited

/-- `getHorizontalDataRegions`: `switch this.dataRegions` -/
def hRegionsOf (dataRegions : Nat) : Nat :=
  if dataRegions = 1 then 1 else if dataRegions = 2 ∨ dataRegions = 4 then 2
  else if dataRegions = 16 then 4 else if dataRegions = 36 then 6 else 0
/-- `getVerticalDataRegions` -/
def vRegionsOf (dataRegions : Nat) : Nat :=
  if dataRegions = 1 ∨ dataRegions = 2 then 1 else if dataRegions = 4 then 2
  else if dataRegions = 16 then 4 else if dataRegions = 36 then 6 else 0

namespace SymbolInfo
def horizontalDataRegions (s : SymbolInfo) : Nat := hRegionsOf s.dataRegions
def verticalDataRegions (s : SymbolInfo) : Nat := vRegionsOf s.dataRegions
def symbolDataWidth (s : SymbolInfo) : Nat := s.horizontalDataRegions * s.matrixWidth
def symbolDataHeight (s : SymbolInfo) : Nat := s.verticalDataRegions * s.matrixHeight
def symbolWidth (s : SymbolInfo) : Nat := s.symbolDataWidth + s.horizontalDataRegions * 2
def symbolHeight (s : SymbolInfo) : Nat := s.symbolDataHeight + s.verticalDataRegions * 2
/-- `GetInterleavedBlockCount`: `dataCapacity / rsBlockData` (Go integer division; panics on 0) or 10 -/
def interleavedBlockCount (s : SymbolInfo) : Res Int :=
  if s.special144 then .ok 10
  else if s.rsBlockData = 0 then .error (.panic "integer divide by zero")
  else .ok (Int.tdiv s.dataCapacity s.rsBlockData)
/-- `GetDataLengthForInterleavedBlock(index)`, `index` 1-based -/
def dataLengthForInterleavedBlock (s : SymbolInfo) (index : Nat) : Int :=
  if s.special144 then (if index ≤ 8 then 156 else 155) else s.rsBlockData
def errorLengthForInterleavedBlock (s : SymbolInfo) (_index : Nat) : Nat := s.rsBlockError
end SymbolInfo

/-- the SymbolInfo the library should hold for a row of the standard's table -/
def ofSym (s : DMRef.Sym) : SymbolInfo :=
  let uneven := s.nData % s.blocks != 0
  { rectangular := s.rect, dataCapacity := s.nData, errorCodewords := s.nErr,
    matrixWidth := s.regCols, matrixHeight := s.regRows, dataRegions := s.regions,
    rsBlockData := if uneven then -1 else s.blkData, rsBlockError := s.blkErr, special144 := uneven }

/-- model of the package variable `symbols` (lookup order) as the standard prescribes it -/
def symbols : List SymbolInfo := DMRef.symbols.map ofSym

/-! ## error_correction.go -/

/-- `init()`: `p := 1; for i<255 { alog[i]=p; log[p]=i; p*=2; if p>=256 {p ^= 0x12d} }` — alog -/
def alogLoop : Nat → Nat → List Nat
  | 0, _ => []
  | k + 1, p => p :: alogLoop k (let q := p * 2; if q ≥ 256 then q ^^^ 0x12d else q)
def alog : List Nat := alogLoop 255 1

/-- `log[p] = i` written in the same loop (log[0] stays 0) -/
def logLoop : List Nat → Nat → List Nat → List Nat
  | [], _, lg => lg
  | p :: ps, i, lg => logLoop ps (i + 1) (lg.set p i)
def log : List Nat := logLoop alog 0 (List.replicate 256 0)

/-- `alog[(log[m]+log[p])%255]` guarded by `m != 0 && p != 0`, for byte operands.
    The lookups are in range for `m, p < 256` (`tabMul_inrange` in Proofs/DM). -/
def tabMul (m p : Nat) : Nat :=
  if m ≠ 0 ∧ p ≠ 0 then alog.getD ((log.getD m 0 + log.getD p 0) % 255) 0 else 0

def xorZip : List Nat → List Nat → List Nat
  | x :: xs, y :: ys => (x ^^^ y) :: xorZip xs ys
  | _, _ => []

/-- one iteration of the outer loop of createECCBlock on the register `ecc` (index 0 first):
    `m := ecc[n-1]^cw; for k=n-1..1 {ecc[k] = ecc[k-1] ^ m·poly[k]}; ecc[0] = m·poly[0]` -/
def eccStep (mul : Nat → Nat → Nat) (poly : List Nat) (ecc : List Nat) (cw : Nat) : List Nat :=
  let m := ecc.getLastD 0 ^^^ cw
  xorZip (0 :: ecc.dropLast) (poly.map (mul m))

def lfsr (mul : Nat → Nat → Nat) (poly : List Nat) (n : Nat) (cws : List Nat) : List Nat :=
  cws.foldl (eccStep mul poly) (List.replicate n 0)

def findTable (n : Nat) : List Nat → Nat → Option Nat
  | [], _ => none
  | f :: fs, i => if f = n then some i else findTable n fs (i + 1)

/-- `createECCBlock(codewords, numECWords)` over explicit `factorSets` / `factors` tables.
    Bytes are `< 256` by type in Go; a table row shorter than `numECWords` or holding a value ≥ 256
    would panic on the first codeword. -/
def createECCBlock (factorSets : List Nat) (factors : List (List Nat)) (cws : List Nat) (n : Nat) : Res (List Nat) :=
  match findTable n factorSets 0 with
  | none => .error .writer
  | some t =>
    match factors[t]? with
    | none => .error (.panic "index out of range: factors[table]")
    | some poly =>
      if cws.isEmpty then .ok (List.replicate n 0)
      else if n = 0 then .error (.panic "index out of range: ecc[-1]")
      else if poly.length < n then .error (.panic "index out of range: poly[k]")
      else if !(poly.all (· < 256)) then .error (.panic "index out of range: log[poly[k]]")
      else .ok (lfsr tabMul (poly.take n) n cws).reverse

/-- `for d := block; d < cap; d += blockCount { temp = append(temp, codewords[d]) }` -/
def strideFrom (B : Nat) (xs : List Nat) (b : Nat) : List Nat := DMRef.everyNth B (xs.drop b)

/-- writes `ecc[pos]` at `sb[cap + e]` for `e = start, start+B, …` while `e < errSize*B` -/
def putEcc (B limit base : Nat) : Nat → List Nat → List Nat → Nat → Res (List Nat)
  | 0, sb, _, _ => .ok sb
  | fuel + 1, sb, ecc, e =>
    if e < limit then
      match ecc with
      | [] => .error (.panic "index out of range: ecc[pos]")
      | x :: rest =>
        if base + e < sb.length then putEcc B limit base fuel (sb.set (base + e) x) rest (e + B)
        else .error (.panic "index out of range: sb[cap+e]")
    else .ok sb

/-- the `for block := 0; block < blockCount; block++` loop of the multi-block branch.
    `rotate = false` is the code before the D17 repair (`e := block`). -/
def blocksLoop (factorSets : List Nat) (factors : List (List Nat)) (cws : List Nat) (s : SymbolInfo)
    (rotate : Bool) (B : Nat) : Nat → Nat → List Nat → Res (List Nat)
  | 0, _, sb => .ok sb
  | fuel + 1, block, sb =>
    if block < B then
      if s.dataLengthForInterleavedBlock (block + 1) < 0 then .error (.panic "makeslice: cap out of range")
      else
        let temp := strideFrom B cws block
        let errSize := s.errorLengthForInterleavedBlock (block + 1)
        -- `ecc, _ := createECCBlock(...)`: on a (checked) error Go continues with ecc = temp
        let eccR : Res (List Nat) := match createECCBlock factorSets factors temp errSize with
          | .ok e => .ok e
          | .error .writer => .ok temp
          | .error e => .error e
        match eccR with
        | .error e => .error e
        | .ok ecc =>
          let limit := errSize * B
          let start := if rotate then (block + B - s.dataCapacity % B) % B else block
          match putEcc B limit s.dataCapacity (limit + 1) sb ecc start with
          | .error e => .error e
          | .ok sb => blocksLoop factorSets factors cws s rotate B fuel (block + 1) sb
    else .ok sb

/-- `ErrorCorrection_EncodeECC200(codewords, symbolInfo)`.  After the D17 repair the interleaving of the
    error codewords continues where the data codewords stopped, so block `b` starts at
    `e = (b - cap mod B) mod B`; for every symbol but 144x144 that is `e = b`. -/
def encodeECC200 (factorSets : List Nat) (factors : List (List Nat)) (cws : List Nat) (s : SymbolInfo)
    (rotate : Bool := true) : Res (List Nat) :=
  if cws.length ≠ s.dataCapacity then .error .writer
  else match s.interleavedBlockCount with
  | .error e => .error e
  | .ok blockCount =>
    if blockCount = 1 then
      match createECCBlock factorSets factors cws s.errorCodewords with
      | .ok ecc => .ok (cws ++ ecc)
      | .error e => .error e
    else if blockCount < 0 then .error (.panic "makeslice: len out of range")
    else
      let B := blockCount.toNat
      blocksLoop factorSets factors cws s rotate B B 0 (cws ++ List.replicate s.errorCodewords 0)

/-! ## datamatrix_writer.go: encodeLowLevel for a 0x0 request -/

/-- one data row `y` of the mapping matrix → the symbol rows it produces (top clock row before it when it
    opens a region, the row itself with left solid / right alternating modules, bottom solid row after it
    when it closes a region) -/
def lowLevelRows (s : SymbolInfo) (getBit : Nat → Nat → Bool) (y : Nat) : List (List Bool) :=
  let top : List (List Bool) :=
    if y % s.matrixHeight = 0 then [(List.range s.symbolWidth).map (fun x => x % 2 == 0)] else []
  let body : List Bool := (List.range s.symbolDataWidth).flatMap (fun x =>
    (if x % s.matrixWidth = 0 then [true] else []) ++ [getBit x y] ++
    (if x % s.matrixWidth = s.matrixWidth - 1 then [y % 2 == 0] else []))
  let bottom : List (List Bool) :=
    if y % s.matrixHeight = s.matrixHeight - 1 then [List.replicate s.symbolWidth true] else []
  top ++ [body] ++ bottom

/-- `encodeLowLevel(placement, symbolInfo, 0, 0)`; `x % 0` panics in Go -/
def encodeLowLevel (s : SymbolInfo) (getBit : Nat → Nat → Bool) : Res (List (List Bool)) :=
  if s.symbolDataHeight > 0 ∧ (s.matrixHeight = 0 ∨ (s.symbolDataWidth > 0 ∧ s.matrixWidth = 0)) then
    .error (.panic "integer divide by zero")
  else .ok ((List.range s.symbolDataHeight).flatMap (lowLevelRows s getBit))

/-! ## randomisers -/

/-- `randomize253State(codewordPosition)` (result before the `byte` conversion) -/
def randomize253State (pos : Int) : Int :=
  let pseudoRandom := Int.tmod (149 * pos) 253 + 1
  let tempVariable := 129 + pseudoRandom
  if tempVariable ≤ 254 then tempVariable else tempVariable - 254

/-- `base256Randomize255State(ch, codewordPosition)` -/
def randomize255State (ch pos : Int) : Int :=
  let pseudoRandom := Int.tmod (149 * pos) 255 + 1
  let tempVariable := ch + pseudoRandom
  if tempVariable ≤ 255 then tempVariable else tempVariable - 256

end Gzx.DMEnc
