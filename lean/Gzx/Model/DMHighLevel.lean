/-
  C02 — Data Matrix, codeword level.
  Hand-written mirror of
    datamatrix/decoder/decoded_bit_stream_parser.go   (DecodedBitStreamParser_decode and its segment decoders)
    datamatrix/encoder/{high_level_encoder,encoder_context,ascii_encoder,c40_encoder,text_encoder,
                        x12_encoder,edifact_encoder,base256_encoder,symbol_info}.go   (EncodeHighLevel)
  as of the repaired tree (fix commits 77c3aba cc1d359 fd97a8d 5410cf9 917cf98 f81c894 047a87f).
  Tied to the code by the `c02` correspondence suites (dm-dec, dm-hl, dm-la) and, for the character tables and
  the randomisation kernels, by per-run obligations over `Gzx.Gen.C02DM` (Obligations/C02.lean).

  Conventions: codewords and characters are `Nat` (0..255); Go panics are `.error (.panic _)`;
  every checked error of these files is a WriterException (`.writer`) or FormatException (`.format`).
-/
import Gzx.Util
import Gzx.GoVal
namespace Gzx.DMHighLevel

/-! # Part 0 — tables and kernels -/

/-- the decoder's character tables (`C40_BASIC_SET_CHARS` ...) -/
structure Tables where
  c40Basic : List Nat
  c40Shift2 : List Nat
  textBasic : List Nat
  textShift2 : List Nat
  textShift3 : List Nat
  deriving Repr, DecidableEq

def upTo (lo n : Nat) : List Nat := (List.range n).map (· + lo)

/-- ISO/IEC 16022 Annex C, tables C.1 / C.2 ('*' = 42 stands for the three shift values) -/
def refTables : Tables where
  c40Basic := [42, 42, 42, 32] ++ upTo 48 10 ++ upTo 65 26
  c40Shift2 := upTo 33 15 ++ upTo 58 7 ++ upTo 91 5
  textBasic := [42, 42, 42, 32] ++ upTo 48 10 ++ upTo 97 26
  textShift2 := upTo 33 15 ++ upTo 58 7 ++ upTo 91 5
  textShift3 := [96] ++ upTo 65 26 ++ upTo 123 5

/-- typed view of the regenerated tables -/
def decodeTables (a b c d e : GoVal) : Option Tables := do
  let a ← a.asNatList?
  let b ← b.asNatList?
  let c ← c.asNatList?
  let d ← d.asNatList?
  let e ← e.asNatList?
  pure ⟨a, b, c, d, e⟩

/-- `randomize253State(codewordPosition)` (high_level_encoder.go) -/
def rand253 (pos : Nat) : Nat :=
  let t := 129 + ((149 * pos) % 253 + 1)
  if t ≤ 254 then t else t - 254

/-- `base256Randomize255State(ch, codewordPosition)` (base256_encoder.go) -/
def rand255 (ch pos : Nat) : Nat :=
  let t := ch + ((149 * pos) % 255 + 1)
  if t ≤ 255 then t else t - 256

/-- `unrandomize255State(codeword, position)` (decoded_bit_stream_parser.go) -/
def unrand255 (cw pos : Nat) : Nat :=
  let r := (149 * pos) % 255 + 1
  if cw ≥ r then cw - r else cw + 256 - r

/-- Go's `byte(x)` for an `int` x -/
def toByte (x : Int) : Nat := (x % 256).toNat

/-! # Part 1 — the decoder -/

/-- decoder accumulator.  `rev` is the text so far, reversed (ISO-8859-1 code points).
    `ulen` is what Go's `len(result)` is at this moment: UTF-8 bytes of the finished segments plus one byte per
    character of the current segment; `pend` counts the extended characters of the current (non Base-256)
    segment, which grow by one byte each when the segment is re-encoded as UTF-8 at its end. -/
structure Acc where
  rev : List Nat := []
  trailer : List Nat := []
  ulen : Nat := 0
  pend : Nat := 0
  fnc1 : List Nat := []
  eci : Bool := false
  deriving Repr, DecidableEq

def Acc.push (a : Acc) (c : Nat) : Acc :=
  { a with rev := c :: a.rev, ulen := a.ulen + 1, pend := a.pend + (if c ≥ 128 then 1 else 0) }

def Acc.pushAll (a : Acc) : List Nat → Acc
  | [] => a
  | c :: cs => (a.push c).pushAll cs

/-- a character appended by the Base-256 segment (already UTF-8 in Go) -/
def Acc.push256 (a : Acc) (c : Nat) : Acc :=
  { a with rev := c :: a.rev, ulen := a.ulen + (if c ≥ 128 then 2 else 1) }

def Acc.endSeg (a : Acc) : Acc := { a with ulen := a.ulen + a.pend, pend := 0 }

/-- FNC1: remember the position, emit GS (29) -/
def Acc.fnc (a : Acc) : Acc := ({ a with fnc1 := a.fnc1 ++ [a.ulen] }).push 29

def Acc.text (a : Acc) : List Nat := a.rev.reverse ++ a.trailer

def macroHeader (n : Nat) : List Nat := [91, 41, 62, 30, 48, 48 + n, 29]   -- "[)>" RS "05"/"06" GS
def macroTrailer : List Nat := [30, 4]

/-- `strconv.Itoa(v)` for 0 ≤ v < 100 -/
def itoa2 (v : Nat) : List Nat := if v < 10 then [48 + v] else [48 + v / 10, 48 + v % 10]

/-- the two digits of an ASCII digit-pair codeword value (0..99), as `decodeAsciiSegment` appends them -/
def digitPair (v : Nat) : List Nat := (if v < 10 then [48] else []) ++ itoa2 v

/-- `parseTwoBytes(firstByte, secondByte, result)`; Go's `/` truncates, so (0,0) gives (0,0,-1) -/
def parseTwoBytes (b1 b2 : Nat) : Int × Int × Int :=
  let full : Int := (b1 : Int) * 256 + b2 - 1
  let t1 := Int.tdiv full 1600
  let full2 := full - t1 * 1600
  let t2 := Int.tdiv full2 40
  (t1, t2, full2 - t2 * 40)

/-- shift / upper-shift state of a C40 or Text segment -/
structure CState where
  shift : Int := 0
  upper : Bool := false
  deriving Repr, DecidableEq

/-- `tbl[v]` with Go's index check -/
def idx (tbl : List Nat) (v : Int) : Res Nat :=
  if v < 0 then .error (.panic "index out of range (negative)")
  else match tbl[v.toNat]? with
    | some c => .ok c
    | none => .error (.panic "index out of range")

/-- what one C40 / Text value makes the decoder append -/
inductive Emit where
  | none
  | char (c : Nat)
  | fnc1
  deriving Repr, DecidableEq

def Acc.emit (a : Acc) : Emit → Acc
  | .none => a
  | .char c => a.push c
  | .fnc1 => a.fnc

/-- append a character honouring a pending upper shift (byte arithmetic: `c + 128` wraps) -/
def emitUp (st : CState) (c : Int) : CState × Emit :=
  if st.upper then ({ upper := false, shift := 0 }, .char (toByte (c + 128)))
  else ({ st with shift := 0 }, .char (toByte c))

/-- one C40 (`text = false`) or Text (`text = true`) value: the body of `for i := 0; i < 3; i++` in
    decodeC40Segment / decodeTextSegment, as a function of the shift state only -/
def cValueCore (T : Tables) (text : Bool) (v : Int) (st : CState) : Res (CState × Emit) :=
  let basic := if text then T.textBasic else T.c40Basic
  let shift2 := if text then T.textShift2 else T.c40Shift2
  if st.shift = 0 then
    if v < 3 then .ok ({ st with shift := v + 1 }, .none)
    else if v < basic.length then
      match idx basic v with
      | .ok c => .ok (emitUp st c)
      | .error e => .error e
    else .error .format
  else if st.shift = 1 then .ok (emitUp st v)
  else if st.shift = 2 then
    if v < shift2.length then
      match idx shift2 v with
      | .ok c => .ok (emitUp st c)
      | .error e => .error e
    else if v = 27 then .ok ({ st with shift := 0 }, .fnc1)
    else if v = 30 then .ok ({ shift := 0, upper := true }, .none)
    else .error .format
  else if st.shift = 3 then
    if text then
      if v < T.textShift3.length then
        match idx T.textShift3 v with
        | .ok c => .ok (emitUp st c)
        | .error e => .error e
      else .error .format
    else
      -- C40: byte(cValue+224) / byte(cValue+96)
      if st.upper then .ok ({ upper := false, shift := 0 }, .char (toByte (v + 224)))
      else .ok ({ st with shift := 0 }, .char (toByte (v + 96)))
  else .error .format

def cValue (T : Tables) (text : Bool) (v : Int) (st : CState) (a : Acc) : Res (CState × Acc) :=
  match cValueCore T text v st with
  | .ok (st', e) => .ok (st', a.emit e)
  | .error e => .error e

/-- decodeC40Segment / decodeTextSegment on the bytes after the latch; returns the accumulator and the
    number of bytes consumed -/
def cSeg (T : Tables) (text : Bool) : List Nat → CState → Acc → Nat → Res (Acc × Nat)
  | [], _, a, n => .ok (a, n)
  | [_], _, a, n => .ok (a, n)                 -- "If there is only one byte left then it will be encoded as ASCII"
  | b1 :: b2 :: rest, st, a, n =>
    if b1 = 254 then .ok (a, n + 1)            -- unlatch
    else
      let (c1, c2, c3) := parseTwoBytes b1 b2
      match cValue T text c1 st a with
      | .error e => .error e
      | .ok (st1, a1) =>
        match cValue T text c2 st1 a1 with
        | .error e => .error e
        | .ok (st2, a2) =>
          match cValue T text c3 st2 a2 with
          | .error e => .error e
          | .ok (st3, a3) => cSeg T text rest st3 a3 (n + 2)

/-- one ANSI X12 value -/
def x12Value (v : Int) : Res Nat :=
  if v = 0 then .ok 13 else if v = 1 then .ok 42 else if v = 2 then .ok 62 else if v = 3 then .ok 32
  else if v < 14 then .ok (toByte (v + 44))
  else if v < 40 then .ok (toByte (v + 51))
  else .error .format

def x12Seg : List Nat → Acc → Nat → Res (Acc × Nat)
  | [], a, n => .ok (a, n)
  | [_], a, n => .ok (a, n)
  | b1 :: b2 :: rest, a, n =>
    if b1 = 254 then .ok (a, n + 1)
    else
      let (c1, c2, c3) := parseTwoBytes b1 b2
      match x12Value c1 with
      | .error e => .error e
      | .ok x1 =>
        match x12Value c2 with
        | .error e => .error e
        | .ok x2 =>
          match x12Value c3 with
          | .error e => .error e
          | .ok x3 => x12Seg rest (((a.push x1).push x2).push x3) (n + 2)

/-- the four 6-bit values of three bytes -/
def edifactUnpack (b1 b2 b3 : Nat) : List Nat :=
  let v := b1 * 65536 + b2 * 256 + b3
  [(v / 262144) % 64, (v / 4096) % 64, (v / 64) % 64, v % 64]

def edifactChar (v : Nat) : Nat := if v &&& 32 = 0 then v ||| 64 else v

/-- the inner `for i := 0; i < 4; i++`: `some k` = unlatch met at value `k` -/
def edifactVals : List Nat → Nat → Acc → Acc × Option Nat
  | [], _, a => (a, none)
  | v :: vs, i, a => if v = 31 then (a, some i) else edifactVals vs (i + 1) (a.push (edifactChar v))

/-- decodeEdifactSegment -/
def edifactSeg : List Nat → Acc → Nat → Acc × Nat
  | b1 :: b2 :: b3 :: rest, a, n =>
    match edifactVals (edifactUnpack b1 b2 b3) 0 a with
    | (a', some i) => (a', n + (if i = 0 then 1 else if i = 1 then 2 else 3))   -- rest of the byte is skipped
    | (a', none) => edifactSeg rest a' (n + 3)
  | _, a, n => (a, n)                         -- "only two or less bytes left then it will be encoded as ASCII"

/-- un-randomise `count` data bytes starting at codeword position `pos` -/
def b256Data : Nat → List Nat → Nat → Acc → Res Acc
  | 0, _, _, a => .ok a
  | _ + 1, [], _, _ => .error .format          -- bits.Available() < 8
  | k + 1, b :: bs, pos, a => b256Data k bs (pos + 1) (a.push256 (unrand255 b pos))

/-- decodeBase256Segment; `off` is the byte offset of the first byte after the latch -/
def b256Seg (rest : List Nat) (off : Nat) (a : Acc) : Res (Acc × Nat) :=
  match rest with
  | [] => .ok (a, 0)     -- not reachable: the main loop enters a segment only when bytes remain
  | b :: r1 =>
    let d1 := unrand255 b (off + 1)
    if d1 = 0 then
      match b256Data r1.length r1 (off + 2) a with
      | .ok a' => .ok (a', 1 + r1.length)
      | .error e => .error e
    else if d1 < 250 then
      match b256Data d1 r1 (off + 2) a with
      | .ok a' => .ok (a', 1 + d1)
      | .error e => .error e
    else
      match r1 with
      | [] => .error .format     -- ReadBits fails (ignored), count ≥ 250 > 0, first data read finds no bits
      | b2 :: r2 =>
        let count := 250 * (d1 - 249) + unrand255 b2 (off + 2)
        match b256Data count r2 (off + 3) a with
        | .ok a' => .ok (a', 2 + count)
        | .error e => .error e

/-- The main loop of DecodedBitStreamParser_decode fused with decodeAsciiSegment.
    `skip` = bytes still to be skipped because a non-ASCII segment has consumed them,
    `up` = decodeAsciiSegment's local `upperShift`, `off` = byte offset of the head of the list. -/
def decLoop (T : Tables) : List Nat → Nat → Bool → Nat → Acc → Res Acc
  | [], _, _, _, a => .ok a
  | _ :: rest, skip + 1, up, off, a => decLoop T rest skip up (off + 1) a
  | b :: rest, 0, up, off, a =>
    if b = 0 then .error .format
    else if b ≤ 128 then
      decLoop T rest 0 false (off + 1) ((a.push ((if up then b + 128 else b) - 1)).endSeg)
    else if b = 129 then .ok a                                       -- pad: Mode_PDA_ENCODE
    else if b ≤ 229 then decLoop T rest 0 up (off + 1) (a.pushAll (digitPair (b - 130)))
    else if b = 230 then
      match cSeg T false rest {} a 0 with
      | .ok (a', n) => decLoop T rest n false (off + 1) a'.endSeg
      | .error e => .error e
    else if b = 231 then
      if rest.isEmpty then .ok a
      else match b256Seg rest (off + 1) a with
        | .ok (a', n) => decLoop T rest n false (off + 1) a'
        | .error e => .error e
    else if b = 232 then decLoop T rest 0 up (off + 1) a.fnc
    else if b = 233 ∨ b = 234 then decLoop T rest 0 up (off + 1) a
    else if b = 235 then decLoop T rest 0 true (off + 1) a
    else if b = 236 then
      decLoop T rest 0 up (off + 1) { a.pushAll (macroHeader 5) with trailer := macroTrailer ++ a.trailer }
    else if b = 237 then
      decLoop T rest 0 up (off + 1) { a.pushAll (macroHeader 6) with trailer := macroTrailer ++ a.trailer }
    else if b = 238 then
      match x12Seg rest a 0 with
      | .ok (a', n) => decLoop T rest n false (off + 1) a'.endSeg
      | .error e => .error e
    else if b = 239 then
      match cSeg T true rest {} a 0 with
      | .ok (a', n) => decLoop T rest n false (off + 1) a'.endSeg
      | .error e => .error e
    else if b = 240 then
      let (a', n) := edifactSeg rest a 0
      decLoop T rest n false (off + 1) a'.endSeg
    else if b = 241 then
      decLoop T rest 0 false (off + 1) (if rest.isEmpty then a else { a with eci := true })
    else
      -- "Not to be used in ASCII encodation, but work around encoders that end with 254, latch back to ASCII"
      if b ≠ 254 ∨ !rest.isEmpty then .error .format
      else decLoop T rest 0 up (off + 1) a

/-- symbology modifier from the FNC1 positions -/
def modifier (a : Acc) : Nat :=
  let has (p : Nat) := a.fnc1.contains p
  if a.eci then (if has 0 || has 4 then 5 else if has 1 || has 5 then 6 else 4)
  else (if has 0 || has 4 then 2 else if has 1 || has 5 then 3 else 1)

/-- DecodedBitStreamParser_decode: the text (ISO-8859-1 code points) -/
def decodeText (T : Tables) (cw : List Nat) : Res (List Nat) :=
  (decLoop T cw 0 false 0 {}).map Acc.text

/-- text and symbology modifier -/
def decodeFull (T : Tables) (cw : List Nat) : Res (List Nat × Nat) :=
  (decLoop T cw 0 false 0 {}).map (fun a => (a.text, modifier a))

/-! # Part 2 — symbol table -/

structure SymbolInfo where
  rect : Bool
  cap : Nat
  err : Nat
  mw : Nat
  mh : Nat
  regions : Nat
  deriving Repr, DecidableEq

def hRegions (r : Nat) : Nat :=
  if r = 1 then 1 else if r = 2 ∨ r = 4 then 2 else if r = 16 then 4 else if r = 36 then 6 else 0
def vRegions (r : Nat) : Nat :=
  if r = 1 ∨ r = 2 then 1 else if r = 4 then 2 else if r = 16 then 4 else if r = 36 then 6 else 0

def SymbolInfo.width (s : SymbolInfo) : Nat := hRegions s.regions * s.mw + hRegions s.regions * 2
def SymbolInfo.height (s : SymbolInfo) : Nat := vRegions s.regions * s.mh + vRegions s.regions * 2

/-- one entry of `symbols` (symbol_info.go); `NewDataMatrixSymbolInfo144()` is 144x144 (1558 + 620) -/
def decodeSymbol (v : GoVal) : Option SymbolInfo :=
  match v with
  | .app "NewSymbolInfo" [r, c, e, w, h, d] => do
    pure ⟨← r.asBool?, ← c.asNat?, ← e.asNat?, ← w.asNat?, ← h.asNat?, ← d.asNat?⟩
  | .app "NewSymbolInfoRS" [r, c, e, w, h, d, _, _] => do
    pure ⟨← r.asBool?, ← c.asNat?, ← e.asNat?, ← w.asNat?, ← h.asNat?, ← d.asNat?⟩
  | .app "NewDataMatrixSymbolInfo144" [] => some ⟨false, 1558, 620, 22, 22, 36⟩
  | _ => none

def decodeSymbols (v : GoVal) : Option (List SymbolInfo) := v.asList?.bind (·.mapM decodeSymbol)

/-- shape hint 0 none / 1 square / 2 rectangle; min / max Dimension (width, height) -/
structure Cfg where
  shape : Nat := 0
  minSize : Option (Nat × Nat) := none
  maxSize : Option (Nat × Nat) := none
  deriving Repr, DecidableEq

def admissible (cfg : Cfg) (s : SymbolInfo) : Bool :=
  !(cfg.shape = 1 && s.rect) && !(cfg.shape = 2 && !s.rect) &&
  (match cfg.minSize with
   | some (w, h) => !(s.width < w || s.height < h)
   | none => true) &&
  (match cfg.maxSize with
   | some (w, h) => !(s.width > w || s.height > h)
   | none => true)

/-- SymbolInfo_Lookup(dataCodewords, shape, minSize, maxSize, fail=true) -/
def lookup (syms : List SymbolInfo) (cfg : Cfg) (n : Nat) : Option SymbolInfo :=
  syms.find? (fun s => admissible cfg s && decide (n ≤ s.cap))

/-! # Part 3 — the encoder -/

/-- encodation modes -/
abbrev ASCII : Nat := 0
abbrev C40 : Nat := 1
abbrev TEXT : Nat := 2
abbrev X12 : Nat := 3
abbrev EDIFACT : Nat := 4
abbrev BASE256 : Nat := 5

/-- look-ahead oracle: message, start position, current mode ↦ mode -/
abbrev LookAhead := List Nat → Nat → Nat → Nat

def isDigit (c : Nat) : Bool := 48 ≤ c && c ≤ 57
def isExtended (c : Nat) : Bool := 128 ≤ c && c ≤ 255
def isNativeC40 (c : Nat) : Bool := c = 32 || (48 ≤ c && c ≤ 57) || (65 ≤ c && c ≤ 90)
def isNativeText (c : Nat) : Bool := c = 32 || (48 ≤ c && c ≤ 57) || (97 ≤ c && c ≤ 122)
def isX12TermSep (c : Nat) : Bool := c = 13 || c = 42 || c = 62
def isNativeX12 (c : Nat) : Bool := isX12TermSep c || c = 32 || (48 ≤ c && c ≤ 57) || (65 ≤ c && c ≤ 90)
def isNativeEDIFACT (c : Nat) : Bool := 32 ≤ c && c ≤ 94

/-- EncoderContext -/
structure Ctx where
  msg : List Nat
  cfg : Cfg
  cw : List Nat := []
  pos : Nat := 0
  newEnc : Option Nat := none
  sym : Option SymbolInfo := none
  skipAtEnd : Nat := 0
  deriving Repr

def Ctx.total (c : Ctx) : Nat := c.msg.length - c.skipAtEnd
def Ctx.hasMore (c : Ctx) : Bool := c.pos < c.total
def Ctx.remaining (c : Ctx) : Nat := c.total - c.pos
def Ctx.write (c : Ctx) (x : Nat) : Ctx := { c with cw := c.cw ++ [x] }
def Ctx.writeAll (c : Ctx) (xs : List Nat) : Ctx := { c with cw := c.cw ++ xs }
def Ctx.signal (c : Ctx) (m : Nat) : Ctx := { c with newEnc := some m }
def Ctx.count (c : Ctx) : Nat := c.cw.length

/-- `msg[pos]` -/
def Ctx.cur (c : Ctx) : Res Nat :=
  match c.msg[c.pos]? with
  | some x => .ok x
  | none => .error (.panic "msg[pos] out of range")

/-- UpdateSymbolInfoByLength -/
def Ctx.update (syms : List SymbolInfo) (c : Ctx) (n : Nat) : Res Ctx :=
  let relook : Res Ctx :=
    match lookup syms c.cfg n with
    | some s => .ok { c with sym := some s }
    | none => .error .writer
  match c.sym with
  | none => relook
  | some s => if n > s.cap then relook else .ok c

/-- `context.GetSymbolInfo().GetDataCapacity()` (nil dereference if no symbol was ever looked up) -/
def Ctx.capacity (c : Ctx) : Res Nat :=
  match c.sym with
  | some s => .ok s.cap
  | none => .error (.panic "nil symbolInfo")

/-- `pos--` (an index below zero panics at the next access; modelled at the decrement) -/
def Ctx.back (c : Ctx) (k : Nat) : Res Ctx :=
  if k ≤ c.pos then .ok { c with pos := c.pos - k } else .error (.panic "pos below zero")

/-! ## ASCII -/

/-- HighLevelEncoder_determineConsecutiveDigitCount -/
def digitRun : List Nat → Nat
  | [] => 0
  | c :: cs => if isDigit c then digitRun cs + 1 else 0

def asciiEncode (la : LookAhead) (c : Ctx) : Res Ctx :=
  let n := digitRun (c.msg.drop c.pos)
  if n ≥ 2 then
    match c.msg[c.pos]?, c.msg[c.pos + 1]? with
    | some d1, some d2 => .ok { c.write ((d1 - 48) * 10 + (d2 - 48) + 130) with pos := c.pos + 2 }
    | _, _ => .error (.panic "msg[pos+1] out of range")
  else do
    let ch ← c.cur
    let newMode := la c.msg c.pos ASCII
    if newMode ≠ ASCII then
      if newMode = BASE256 then .ok ((c.write 231).signal BASE256)
      else if newMode = C40 then .ok ((c.write 230).signal C40)
      else if newMode = X12 then .ok ((c.write 238).signal X12)
      else if newMode = TEXT then .ok ((c.write 239).signal TEXT)
      else if newMode = EDIFACT then .ok ((c.write 240).signal EDIFACT)
      else .error .writer
    else if isExtended ch then .ok { (c.write 235).write (ch - 128 + 1) with pos := c.pos + 1 }
    else .ok { c.write (ch + 1) with pos := c.pos + 1 }

/-! ## C40 / Text -/

def c40Base (c : Nat) : List Nat :=
  if c = 32 then [3]
  else if 48 ≤ c ∧ c ≤ 57 then [c - 48 + 4]
  else if 65 ≤ c ∧ c ≤ 90 then [c - 65 + 14]
  else if c < 32 then [0, c]
  else if c ≤ 47 then [1, c - 33]
  else if c ≤ 64 then [1, c - 58 + 15]
  else if c ≤ 95 then [1, c - 91 + 22]
  else [2, c - 96]

def textBase (c : Nat) : List Nat :=
  if c = 32 then [3]
  else if 48 ≤ c ∧ c ≤ 57 then [c - 48 + 4]
  else if 97 ≤ c ∧ c ≤ 122 then [c - 97 + 14]
  else if c < 32 then [0, c]
  else if c ≤ 47 then [1, c - 33]
  else if c ≤ 64 then [1, c - 58 + 15]
  else if 91 ≤ c ∧ c ≤ 95 then [1, c - 91 + 22]
  else if c = 96 then [2, 0]
  else if c ≤ 90 then [2, c - 65 + 1]
  else [2, c - 123 + 27]

/-- c40EncodeChar / textEncodeChar: the values appended for one character (`lastCharSize` is the length) -/
def cEncodeChar (text : Bool) (c : Nat) : List Nat :=
  let base := fun x => if text then textBase x else c40Base x
  if c ≤ 127 then base c else [1, 30] ++ base (c - 128)

/-- c40EncodeToCodewords for one triplet -/
def packTriplet (a b c : Nat) : List Nat :=
  let v := 1600 * a + 40 * b + c + 1
  [(v / 256) % 256, v % 256]

/-- `for len(buffer) >= 3 { buffer = c40WriteNextTriplet(context, buffer) }`: codewords and the left-over values -/
def writeTriplets : List Nat → List Nat × List Nat
  | a :: b :: c :: rest =>
    let (cws, left) := writeTriplets rest
    (packTriplet a b c ++ cws, left)
  | left => ([], left)

/-- c40Available (the values after backtracking) / the `available` computation of encode and c40HandleEOD -/
def c40Available (syms : List SymbolInfo) (c : Ctx) (buf : List Nat) : Res (Ctx × Nat) := do
  let cur := c.count + buf.length / 3 * 2
  let c ← c.update syms cur
  let cap ← c.capacity
  .ok (c, cap - cur)

/-- backtrackOneCharacter: drop the last character's values, step back, forget the symbol; returns the size of
    the character that now ends the buffer -/
def backtrackOne (text : Bool) (c : Ctx) (buf : List Nat) (lastSize : Nat) : Res (Ctx × List Nat × Nat) :=
  if lastSize > buf.length then .error (.panic "slice bounds out of range")
  else do
    let buf := buf.take (buf.length - lastSize)
    let c ← c.back 1
    let _ ← c.cur
    let c : Ctx := { c with sym := none }
    if buf.length > 0 then
      if c.pos = 0 then .error (.panic "msg[pos-1] out of range")
      else match c.msg[c.pos - 1]? with
        | some p => .ok (c, buf, (cEncodeChar text p).length)
        | none => .error (.panic "msg[pos-1] out of range")
    else .ok (c, buf, 0)

/-- `for (len(buffer)%3) == 1 && (lastCharSize > 2 || available != 1)` -/
def backtrackLoop (syms : List SymbolInfo) (text : Bool) :
    Nat → Ctx → List Nat → Nat → Nat → Res (Ctx × List Nat)
  | 0, _, _, _, _ => .error .fuel
  | fuel + 1, c, buf, lastSize, available =>
    if buf.length % 3 = 1 ∧ (lastSize > 2 ∨ available ≠ 1) then do
      let (c, buf, lastSize) ← backtrackOne text c buf lastSize
      let (c, available) ← c40Available syms c buf
      backtrackLoop syms text fuel c buf lastSize available
    else .ok (c, buf)

/-- c40HandleEOD -/
def c40HandleEOD (syms : List SymbolInfo) (c : Ctx) (buf : List Nat) : Res Ctx := do
  let rest := buf.length % 3
  let (c, available) ← c40Available syms c buf
  if rest = 2 then
    let (cws, _) := writeTriplets (buf ++ [0])
    let c := c.writeAll cws
    let c := if c.hasMore then c.write 254 else c
    .ok (c.signal ASCII)
  else if available = 1 ∧ rest = 1 then
    let (cws, _) := writeTriplets buf
    let c := c.writeAll cws
    let c := if c.hasMore then c.write 254 else c
    let c ← c.back 1
    .ok (c.signal ASCII)
  else if rest = 0 then
    let (cws, _) := writeTriplets buf
    let c := c.writeAll cws
    let c := if available > 0 ∨ c.hasMore then c.write 254 else c
    .ok (c.signal ASCII)
  else .error .writer

/-- the `for context.HasMoreCharacters()` loop of C40Encoder.encode; returns the context and the buffer -/
def c40Loop (syms : List SymbolInfo) (la : LookAhead) (text : Bool) :
    Nat → Ctx → List Nat → Res (Ctx × List Nat)
  | 0, c, buf => if c.hasMore then .error .fuel else .ok (c, buf)
  | fuel + 1, c, buf =>
    if !c.hasMore then .ok (c, buf)
    else do
      let ch ← c.cur
      let c := { c with pos := c.pos + 1 }
      let vals := cEncodeChar text ch
      let buf := buf ++ vals
      let (c, available) ← c40Available syms c buf
      if !c.hasMore then
        -- Avoid having a single C40 value in the last triplet
        if buf.length % 3 = 2 ∧ available ≠ 2 then do
          let (c, buf, lastSize) ← backtrackOne text c buf vals.length
          let (c, available) ← c40Available syms c buf
          backtrackLoop syms text (buf.length + 1) c buf lastSize available
        else backtrackLoop syms text (buf.length + 1) c buf vals.length available
      else if buf.length % 3 = 0 then
        let mode := if text then TEXT else C40
        if la c.msg c.pos mode ≠ mode then .ok (c.signal ASCII, buf)
        else c40Loop syms la text fuel c buf
      else c40Loop syms la text fuel c buf

def c40Encode (syms : List SymbolInfo) (la : LookAhead) (text : Bool) (c : Ctx) : Res Ctx := do
  let (c, buf) ← c40Loop syms la text c.remaining c []
  c40HandleEOD syms c buf

/-! ## X12 -/

def x12EncodeChar (c : Nat) : Res Nat :=
  if c = 13 then .ok 0 else if c = 42 then .ok 1 else if c = 62 then .ok 2 else if c = 32 then .ok 3
  else if 48 ≤ c ∧ c ≤ 57 then .ok (c - 48 + 4)
  else if 65 ≤ c ∧ c ≤ 90 then .ok (c - 65 + 14)
  else .error .writer

def x12Loop (la : LookAhead) : Nat → Ctx → List Nat → Res (Ctx × List Nat)
  | 0, c, buf => if c.hasMore then .error .fuel else .ok (c, buf)
  | fuel + 1, c, buf =>
    if !c.hasMore then .ok (c, buf)
    else do
      let ch ← c.cur
      let c := { c with pos := c.pos + 1 }
      let v ← x12EncodeChar ch
      let buf := buf ++ [v]
      if buf.length % 3 = 0 then
        let (cws, buf) := match buf with
          | a :: b :: d :: rest => (packTriplet a b d, rest)
          | other => ([], other)
        let c := c.writeAll cws
        if la c.msg c.pos X12 ≠ X12 then .ok (c.signal ASCII, buf)
        else x12Loop la fuel c buf
      else x12Loop la fuel c buf

def x12HandleEOD (syms : List SymbolInfo) (c : Ctx) (buf : List Nat) : Res Ctx := do
  let c ← c.update syms c.count
  let cap ← c.capacity
  let available := cap - c.count
  let c ← c.back buf.length
  let c := if c.remaining > 1 ∨ available > 1 ∨ c.remaining ≠ available then c.write 254 else c
  .ok (if c.newEnc.isNone then c.signal ASCII else c)

def x12Encode (syms : List SymbolInfo) (la : LookAhead) (c : Ctx) : Res Ctx := do
  let (c, buf) ← x12Loop la c.remaining c []
  x12HandleEOD syms c buf

/-! ## EDIFACT -/

def edifactEncodeChar (c : Nat) : Res Nat :=
  if 32 ≤ c ∧ c ≤ 63 then .ok c
  else if 64 ≤ c ∧ c ≤ 94 then .ok (c - 64)
  else .error .writer

/-- the three bytes of four 6-bit values -/
def edifactWord (c1 c2 c3 c4 : Nat) : List Nat :=
  let v := c1 * 262144 + c2 * 4096 + c3 * 64 + c4
  [(v / 65536) % 256, (v / 256) % 256, v % 256]

/-- edifactEncodeToCodewords: 1, 2 or 3 codewords for a buffer of 1, 2 or ≥ 3 values
    (an empty buffer is an error in Go; the callers never pass one) -/
def edifactPack : List Nat → List Nat
  | [] => []
  | [c1] => (edifactWord c1 0 0 0).take 1
  | [c1, c2] => (edifactWord c1 c2 0 0).take 2
  | [c1, c2, c3] => edifactWord c1 c2 c3 0
  | c1 :: c2 :: c3 :: c4 :: _ => edifactWord c1 c2 c3 c4

def edifactLoop (la : LookAhead) : Nat → Ctx → List Nat → Res (Ctx × List Nat)
  | 0, c, buf => if c.hasMore then .error .fuel else .ok (c, buf)
  | fuel + 1, c, buf =>
    if !c.hasMore then .ok (c, buf)
    else do
      let ch ← c.cur
      let v ← edifactEncodeChar ch
      let buf := buf ++ [v]
      let c := { c with pos := c.pos + 1 }
      if buf.length ≥ 4 then
        let c := c.writeAll (edifactPack buf)
        let buf := buf.drop 4
        if la c.msg c.pos EDIFACT ≠ EDIFACT then .ok (c.signal ASCII, buf)
        else edifactLoop la fuel c buf
      else edifactLoop la fuel c buf

/-- codewords the rest of the message needs in ASCII encodation as edifactHandleEOD counts them:
    one per character, two for an extended one (looked at only when at most two characters remain) -/
def edifactRestNeed (c : Ctx) : Res Nat :=
  let remaining := c.remaining
  if remaining ≤ 2 then
    if c.pos + remaining ≤ c.msg.length then
      .ok (remaining + (((c.msg.drop c.pos).take remaining).filter isExtended).length)
    else .error (.panic "slice bounds out of range")
  else .ok remaining

/-- edifactHandleEOD (buffer already holds the unlatch value 31) -/
def edifactHandleEOD (syms : List SymbolInfo) (c : Ctx) (buf : List Nat) : Res Ctx := do
  let count := buf.length
  if count = 0 then .ok (c.signal ASCII)
  else
    -- `count == 1`: only an unlatch at the end
    let early : Res (Ctx × Bool) :=
      if count = 1 then do
        let c ← c.update syms c.count
        let cap ← c.capacity
        let available := cap - c.count
        let remaining ← edifactRestNeed c
        let (c, available) ←
          (if remaining > available then do
            let c ← c.update syms (c.count + 1)
            let cap ← c.capacity
            pure (c, cap - c.count)
           else pure (c, available) : Res (Ctx × Nat))
        .ok (c, decide (remaining ≤ available ∧ available ≤ 2))
      else .ok (c, false)
    let (c, noUnlatch) ← early
    if noUnlatch then .ok (c.signal ASCII)
    else if count > 4 then .error .writer
    else
      let restChars := count - 1
      let encoded := edifactPack buf
      let endOfSymbolReached := !c.hasMore
      let restInAscii := endOfSymbolReached && decide (restChars ≤ 2)
      let step : Res (Ctx × Bool) :=
        if restChars ≤ 2 then do
          let c ← c.update syms (c.count + restChars)
          let cap ← c.capacity
          let available := cap - c.count
          if available ≥ 3 then do
            let c ← c.update syms (c.count + encoded.length)
            .ok (c, false)
          else .ok (c, restInAscii)
        else .ok (c, restInAscii)
      let (c, restInAscii) ← step
      if restInAscii then do
        let c ← ({ c with sym := none } : Ctx).back restChars
        .ok (c.signal ASCII)
      else .ok ((c.writeAll encoded).signal ASCII)

def edifactEncode (syms : List SymbolInfo) (la : LookAhead) (c : Ctx) : Res Ctx := do
  let (c, buf) ← edifactLoop la c.remaining c []
  edifactHandleEOD syms c (buf ++ [31])

/-! ## Base 256 -/

def b256Loop (la : LookAhead) : Nat → Ctx → List Nat → Res (Ctx × List Nat)
  | 0, c, data => if c.hasMore then .error .fuel else .ok (c, data)
  | fuel + 1, c, data =>
    if !c.hasMore then .ok (c, data)
    else do
      let ch ← c.cur
      let data := data ++ [ch]
      let c := { c with pos := c.pos + 1 }
      if la c.msg c.pos BASE256 ≠ BASE256 then .ok (c.signal ASCII, data)
      else b256Loop la fuel c data

/-- randomise `xs`, the first one landing at codeword position `pos` -/
def rand255All : List Nat → Nat → List Nat
  | [], _ => []
  | x :: xs, pos => rand255 x pos :: rand255All xs (pos + 1)

def b256Encode (syms : List SymbolInfo) (la : LookAhead) (c : Ctx) : Res Ctx := do
  let (c, data) ← b256Loop la c.remaining c []
  let dataCount := data.length
  let currentSize := c.count + dataCount + 1
  let c ← c.update syms currentSize
  let cap ← c.capacity
  let mustPad := cap - currentSize > 0
  let header ←
    (if c.hasMore ∨ mustPad then
      if dataCount ≤ 249 then .ok [dataCount]
      else if dataCount ≤ 1555 then .ok [dataCount / 250 + 249, dataCount % 250]
      else .error .writer
     else .ok [0] : Res (List Nat))          -- the run fills the symbol: 0 = until the end of the symbol
  .ok (c.writeAll (rand255All (header ++ data) (c.count + 1)))

/-! ## EncodeHighLevel -/

def encodeMode (syms : List SymbolInfo) (la : LookAhead) (mode : Nat) (c : Ctx) : Res Ctx :=
  if mode = ASCII then asciiEncode la c
  else if mode = C40 then c40Encode syms la false c
  else if mode = TEXT then c40Encode syms la true c
  else if mode = X12 then x12Encode syms la c
  else if mode = EDIFACT then edifactEncode syms la c
  else if mode = BASE256 then b256Encode syms la c
  else .error (.panic "encoders[mode] out of range")

/-- `for context.HasMoreCharacters() { ... }`; returns the context and the final mode -/
def dispatch (syms : List SymbolInfo) (la : LookAhead) : Nat → Nat → Ctx → Res (Ctx × Nat)
  | 0, mode, c => if c.hasMore then .error .fuel else .ok (c, mode)
  | fuel + 1, mode, c =>
    if !c.hasMore then .ok (c, mode)
    else do
      let c ← encodeMode syms la mode c
      match c.newEnc with
      | some m => dispatch syms la fuel m { c with newEnc := none }
      | none => dispatch syms la fuel mode c

/-- the pad codewords for a stream of `len` codewords in a symbol of `cap` -/
def padFrom : Nat → Nat → List Nat
  | 0, _ => []
  | k + 1, pos => rand253 pos :: padFrom k (pos + 1)

def padding (len cap : Nat) : List Nat :=
  if len < cap then 129 :: padFrom (cap - len - 1) (len + 2) else []

def macro05 : List Nat := macroHeader 5
def macro06 : List Nat := macroHeader 6

def hasSuffix (xs suf : List Nat) : Bool := suf.length ≤ xs.length && xs.drop (xs.length - suf.length) == suf

/-- the context after the macro-header test -/
def initCtx (msg : List Nat) (cfg : Cfg) : Ctx :=
  let c : Ctx := { msg := msg, cfg := cfg }
  if macro05.isPrefixOf msg && hasSuffix msg macroTrailer then
    { c.write 236 with skipAtEnd := 2, pos := 7 }
  else if macro06.isPrefixOf msg && hasSuffix msg macroTrailer then
    { c.write 237 with skipAtEnd := 2, pos := 7 }
  else c

def dispatchFuel (msg : List Nat) : Nat := 4 * msg.length + 8

/-- EncodeHighLevel(msg, shape, minSize, maxSize) on the ISO-8859-1 bytes of the message -/
def encodeHL (syms : List SymbolInfo) (la : LookAhead) (msg : List Nat) (cfg : Cfg) : Res (List Nat) := do
  let (c, mode) ← dispatch syms la (dispatchFuel msg) ASCII (initCtx msg cfg)
  let len := c.count
  let c ← c.update syms len
  let cap ← c.capacity
  let c := if len < cap ∧ mode ≠ ASCII ∧ mode ≠ BASE256 ∧ mode ≠ EDIFACT then c.write 254 else c
  .ok (c.cw ++ padding c.count cap)

/-! # Part 4 — the look-ahead as the code computes it (float64) -/

structure Counts where
  a : Float   -- ASCII
  c : Float   -- C40
  t : Float   -- Text
  x : Float   -- X12
  e : Float   -- EDIFACT
  b : Float   -- Base 256

def iceil (f : Float) : Nat := f.ceil.toUInt64.toNat

/-- findMinimums: `int(math.Ceil(charCounts[i]))` per mode, and which modes attain the minimum (`mins[i] > 0`) -/
structure IntCounts where
  a : Nat
  c : Nat
  t : Nat
  x : Nat
  e : Nat
  b : Nat
  min : Nat
  deriving Repr

def intCounts (k : Counts) : IntCounts :=
  let a := iceil k.a
  let c := iceil k.c
  let t := iceil k.t
  let x := iceil k.x
  let e := iceil k.e
  let b := iceil k.b
  ⟨a, c, t, x, e, b, Nat.min 2147483647 (Nat.min a (Nat.min c (Nat.min t (Nat.min x (Nat.min e b)))))⟩

def IntCounts.isMin (i : IntCounts) (v : Nat) : Bool := v == i.min
def b2n (b : Bool) : Nat := if b then 1 else 0
/-- getMinimumCount -/
def IntCounts.minCount (i : IntCounts) : Nat :=
  b2n (i.isMin i.a) + b2n (i.isMin i.c) + b2n (i.isMin i.t) + b2n (i.isMin i.x) + b2n (i.isMin i.e) + b2n (i.isMin i.b)

/-- the `for p < len(msg)` scan of step R (C40 vs X12 tie) on the characters from `p` on -/
def x12Scan : List Nat → Nat
  | [] => C40
  | tc :: rest => if isX12TermSep tc then X12 else if !isNativeX12 tc then C40 else x12Scan rest

def stepCounts (k : Counts) (ch : Nat) : Counts :=
  let a :=
    if isDigit ch then k.a + 0.5
    else if isExtended ch then k.a.ceil + 2.0
    else k.a.ceil + 1.0
  let c := if isNativeC40 ch then k.c + 2.0 / 3.0 else if isExtended ch then k.c + 8.0 / 3.0 else k.c + 4.0 / 3.0
  let t := if isNativeText ch then k.t + 2.0 / 3.0 else if isExtended ch then k.t + 8.0 / 3.0 else k.t + 4.0 / 3.0
  let x := if isNativeX12 ch then k.x + 2.0 / 3.0 else if isExtended ch then k.x + 13.0 / 3.0 else k.x + 10.0 / 3.0
  let e := if isNativeEDIFACT ch then k.e + 3.0 / 4.0 else if isExtended ch then k.e + 17.0 / 4.0 else k.e + 13.0 / 4.0
  let b := k.b + 1.0      -- isSpecialB256 is always false
  ⟨a, c, t, x, e, b⟩

/-- the body of lookAheadTest's `for` loop over the characters from `startpos` on -/
def laLoop : List Nat → Nat → Counts → Nat
  | [], _, k =>
    -- step K: end of message
    let i := intCounts k
    let n := i.minCount
    if i.a = i.min then ASCII
    else if n = 1 ∧ i.isMin i.b then BASE256
    else if n = 1 ∧ i.isMin i.e then EDIFACT
    else if n = 1 ∧ i.isMin i.t then TEXT
    else if n = 1 ∧ i.isMin i.x then X12
    else C40
  | ch :: rest, processed, k =>
    let k := stepCounts k ch
    let processed := processed + 1
    if processed ≥ 4 then
      let i := intCounts k
      let n := i.minCount
      if i.a < i.b ∧ i.a < i.c ∧ i.a < i.t ∧ i.a < i.x ∧ i.a < i.e then ASCII
      else if i.b < i.a ∨ (!(i.isMin i.c) && !(i.isMin i.t) && !(i.isMin i.x) && !(i.isMin i.e)) then BASE256
      else if n = 1 ∧ i.isMin i.e then EDIFACT
      else if n = 1 ∧ i.isMin i.t then TEXT
      else if n = 1 ∧ i.isMin i.x then X12
      else if i.c + 1 < i.a ∧ i.c + 1 < i.b ∧ i.c + 1 < i.e ∧ i.c + 1 < i.t then
        if i.c < i.x then C40
        else if i.c = i.x then x12Scan (rest.drop 1)    -- p := startpos + charsProcessed + 1
        else laLoop rest processed k
      else laLoop rest processed k
    else laLoop rest processed k

/-- lookAheadTest (the un-guarded annex-P look-ahead) -/
def laRaw (msg : List Nat) (startpos mode : Nat) : Nat :=
  if startpos ≥ msg.length then mode
  else
    let k : Counts :=
      if mode = ASCII then ⟨0, 1, 1, 1, 1, 1.25⟩
      else
        let z (m : Nat) (v : Float) : Float := if mode = m then 0 else v
        ⟨z 0 1, z 1 2, z 2 2, z 3 2, z 4 2, z 5 2.25⟩
    laLoop (msg.drop startpos) 0 k

/-- nextAre -/
def nextAre (msg : List Nat) (startpos n : Nat) (p : Nat → Bool) : Bool :=
  ((msg.drop startpos).take n).all p

/-- HighLevelEncoder_lookAheadTest -/
def laFloat : LookAhead := fun msg startpos mode =>
  let m := laRaw msg startpos mode
  if m = X12 ∧ !nextAre msg startpos 3 isNativeX12 then ASCII
  else if m = EDIFACT ∧ !nextAre msg startpos 4 isNativeEDIFACT then ASCII
  else m

/-! # Part 5 — the look-ahead in exact arithmetic, with the float rounding made explicit

  All increments of `lookAheadTest` are multiples of 1/12 (1/2, 2/3, 4/3, 8/3, 10/3, 13/3, 3/4, 13/4, 17/4, 1, 2,
  start values 0, 1, 1.25, 2, 2.25): the counts are kept as natural numbers in units of 1/12, `math.Ceil` is
  `(n + 11) / 12`.  The look-ahead depends on a character only through seven predicates (`CharClass`), so it is
  defined on the list of character classes.

  float64 vs exact: the ASCII, EDIFACT and Base-256 counts are sums of dyadic rationals (0.5, 0.75, 3.25, 4.25,
  1, 1.25 …) and are exact in float64.  The C40, Text and X12 counts are sums of thirds; their float64 value can
  exceed an INTEGER exact value by a few ulp (15 x 2/3 → 10.000000000000002), and then `math.Ceil` is one higher
  than in exact arithmetic.  `laExactR ρ` makes this explicit: `ρ n k` says whether the count of mode `k`
  (1 = C40, 2 = Text, 3 = X12) is rounded up at step `n` when its exact value is an integer.
  `laExact = laExactR (no bump)` is plain exact arithmetic.  The `c02` harness (suite dm-la, op `laxr`) recomputes
  the float64 sums next to the exact ones, checks that they differ only in this way, and compares the decision of
  the real `HighLevelEncoder_lookAheadTest` with `laExactR` under the observed bumps. -/

/-- what the look-ahead distinguishes about a character -/
structure CharClass where
  digit : Bool
  ext : Bool
  c40 : Bool
  text : Bool
  x12 : Bool
  edi : Bool
  sep : Bool
  deriving Repr, DecidableEq

def classOf (ch : Nat) : CharClass :=
  ⟨isDigit ch, isExtended ch, isNativeC40 ch, isNativeText ch, isNativeX12 ch, isNativeEDIFACT ch, isX12TermSep ch⟩

/-- counts in units of 1/12 -/
structure ECounts where
  a : Nat
  c : Nat
  t : Nat
  x : Nat
  e : Nat
  b : Nat
  deriving Repr, DecidableEq

/-- `int(math.Ceil(v))` for `v = n/12` -/
def ceil12 (n : Nat) : Nat := (n + 11) / 12

/-- float rounding oracle: step (number of characters processed) → mode (1, 2, 3) → "rounded up at an integer" -/
abbrev Bump := Nat → Nat → Bool

def noBump : Bump := fun _ _ => false

/-- `int(math.Ceil(v))` of a sum of thirds: one higher than exact only if the exact value is an integer and the
    float sum came out above it -/
def ceil12R (bump : Bool) (n : Nat) : Nat := ceil12 n + (if n % 12 = 0 ∧ bump then 1 else 0)

def mkIntCounts (a c t x e b : Nat) : IntCounts :=
  ⟨a, c, t, x, e, b, Nat.min 2147483647 (Nat.min a (Nat.min c (Nat.min t (Nat.min x (Nat.min e b)))))⟩

def eIntCountsR (ρ : Bump) (n : Nat) (k : ECounts) : IntCounts :=
  mkIntCounts (ceil12 k.a) (ceil12R (ρ n 1) k.c) (ceil12R (ρ n 2) k.t) (ceil12R (ρ n 3) k.x) (ceil12 k.e) (ceil12 k.b)

/-- steps L-Q -/
def stepECounts (k : ECounts) (ch : CharClass) : ECounts :=
  let a :=
    if ch.digit then k.a + 6
    else if ch.ext then ceil12 k.a * 12 + 24
    else ceil12 k.a * 12 + 12
  let c := if ch.c40 then k.c + 8 else if ch.ext then k.c + 32 else k.c + 16
  let t := if ch.text then k.t + 8 else if ch.ext then k.t + 32 else k.t + 16
  let x := if ch.x12 then k.x + 8 else if ch.ext then k.x + 52 else k.x + 40
  let e := if ch.edi then k.e + 9 else if ch.ext then k.e + 51 else k.e + 39
  ⟨a, c, t, x, e, k.b + 12⟩

/-- the C40 / X12 tie scan of step R on character classes -/
def x12ScanC : List CharClass → Nat
  | [] => C40
  | tc :: rest => if tc.sep then X12 else if !tc.x12 then C40 else x12ScanC rest

/-- step K: the decision at the end of the message -/
def decideK (i : IntCounts) : Nat :=
  let n := i.minCount
  if i.a = i.min then ASCII
  else if n = 1 ∧ i.isMin i.b then BASE256
  else if n = 1 ∧ i.isMin i.e then EDIFACT
  else if n = 1 ∧ i.isMin i.t then TEXT
  else if n = 1 ∧ i.isMin i.x then X12
  else C40

/-- step R: `some m` = return `m`; `none` = go on.  `scan` is the result of the C40/X12 tie scan. -/
def decideR (i : IntCounts) (scan : Nat) : Option Nat :=
  let n := i.minCount
  if i.a < i.b ∧ i.a < i.c ∧ i.a < i.t ∧ i.a < i.x ∧ i.a < i.e then some ASCII
  else if i.b < i.a ∨ (!(i.isMin i.c) && !(i.isMin i.t) && !(i.isMin i.x) && !(i.isMin i.e)) then some BASE256
  else if n = 1 ∧ i.isMin i.e then some EDIFACT
  else if n = 1 ∧ i.isMin i.t then some TEXT
  else if n = 1 ∧ i.isMin i.x then some X12
  else if i.c + 1 < i.a ∧ i.c + 1 < i.b ∧ i.c + 1 < i.e ∧ i.c + 1 < i.t then
    if i.c < i.x then some C40
    else if i.c = i.x then some scan
    else none
  else none

/-- `laLoop` with exact counts and explicit float rounding -/
def laLoopR (ρ : Bump) : List CharClass → Nat → ECounts → Nat
  | [], processed, k => decideK (eIntCountsR ρ processed k)
  | ch :: rest, processed, k =>
    let k := stepECounts k ch
    let processed := processed + 1
    if processed ≥ 4 then
      match decideR (eIntCountsR ρ processed k) (x12ScanC (rest.drop 1)) with
      | some m => m
      | none => laLoopR ρ rest processed k
    else laLoopR ρ rest processed k

/-- step J: the start values (x 12) -/
def startCounts (mode : Nat) : ECounts :=
  if mode = ASCII then ⟨0, 12, 12, 12, 12, 15⟩
  else
    let z (m : Nat) (v : Nat) : Nat := if mode = m then 0 else v
    ⟨z 0 12, z 1 24, z 2 24, z 3 24, z 4 24, z 5 27⟩

/-- HighLevelEncoder_lookAheadTest on character classes (with the X12 / EDIFACT whole-group guards) -/
def laClsR (ρ : Bump) (cls : List CharClass) (startpos mode : Nat) : Nat :=
  if startpos ≥ cls.length then mode
  else
    let m := laLoopR ρ (cls.drop startpos) 0 (startCounts mode)
    if m = X12 ∧ !(((cls.drop startpos).take 3).all (·.x12)) then ASCII
    else if m = EDIFACT ∧ !(((cls.drop startpos).take 4).all (·.edi)) then ASCII
    else m

/-- HighLevelEncoder_lookAheadTest in exact arithmetic with float rounding `ρ` -/
def laExactR (ρ : Bump) : LookAhead := fun msg startpos mode => laClsR ρ (msg.map classOf) startpos mode

/-- HighLevelEncoder_lookAheadTest in plain exact arithmetic -/
def laExact : LookAhead := laExactR noBump

/-- a look-ahead that decides like exact arithmetic up to float rounding at integer sums of thirds — what
    `HighLevelEncoder_lookAheadTest` (float64) is, by the `laxr` correspondence -/
def LaFloatLike (la : LookAhead) : Prop := ∀ msg p mode, ∃ ρ, la msg p mode = laExactR ρ msg p mode

/-- bumps from a digit string: character `n-1` is the bit mask (1 = C40, 2 = Text, 4 = X12) of step `n` -/
def bumpOfDigits (ds : List Nat) : Bump := fun n k =>
  match ds[n - 1]? with
  | some d => n ≥ 1 && (d / 2 ^ (k - 1)) % 2 = 1
  | none => false

end Gzx.DMHighLevel
