/-
  Gzx.DMDec (part) — model of datamatrix/decoder/bit_matrix_parser.go readCodewords with readModule /
  readUtah / readCorner1..4 and the readMappingMatrix bookkeeping, plus the Version record it consults.
  Kept in its own file because the per-size kernel evaluations (Gzx/Proofs/DMSize*.lean) depend on it.
  Core Lean only.
-/
import Gzx.Util
namespace Gzx.DMDec
open Gzx

/-! ## version.go (records) -/

structure ECB where
  count : Nat
  dataCodewords : Nat
  deriving DecidableEq, Repr, Inhabited

structure Version where
  versionNumber : Nat
  symbolSizeRows : Nat
  symbolSizeColumns : Nat
  dataRegionSizeRows : Nat
  dataRegionSizeColumns : Nat
  ecCodewords : Nat
  ecBlocks : List ECB
  deriving DecidableEq, Repr, Inhabited

/-- `NewVersion`: total += count * (dataCodewords + ecCodewords) -/
def Version.totalCodewords (v : Version) : Nat :=
  v.ecBlocks.foldl (fun t b => t + b.count * (b.dataCodewords + v.ecCodewords)) 0

/-! ## bit matrices -/

/-- a `gozxing.BitMatrix` seen through `Get`: row-major bits -/
structure BitGrid where
  width : Nat
  height : Nat
  bits : Array Bool
  deriving Inhabited

/-- `Get(x, y)`; the model is strict: coordinates outside the matrix are a panic
    (`readCodewords_inrange`: never happens for a table version) -/
def BitGrid.get (g : BitGrid) (x y : Nat) : Res Bool :=
  if x < g.width ∧ y < g.height then
    match g.bits[y * g.width + x]? with
    | some b => .ok b
    | none => .error (.panic "index out of range: bits")
  else .error (.panic "BitMatrix.Get outside the matrix")

/-! ## bit_matrix_parser.go: readCodewords -/

/-- state of `readCodewords`: the cells read so far (most recent first; 8 per codeword), the
    `readMappingMatrix` bit set, and a fault flag for coordinates that leave the matrix -/
structure RState where
  read : Nat := 0
  cells : List Nat := []
  oob : Bool := false
  deriving Inhabited

/-- `readModule(row, column, numRows, numColumns)`: wrap, mark as read, yield the cell -/
def readModule (numRows numColumns : Nat) (st : RState) (row column : Int) : RState :=
  let rc : Int × Int :=
    if row < 0 then (row + numRows, column + (4 - (((numRows + 4) % 8 : Nat) : Int))) else (row, column)
  let rc : Int × Int :=
    if rc.2 < 0 then (rc.1 + (4 - (((numColumns + 4) % 8 : Nat) : Int)), rc.2 + numColumns) else rc
  let rc : Int × Int := if rc.1 ≥ numRows then (rc.1 - numRows, rc.2) else rc
  if 0 ≤ rc.1 ∧ rc.1 < numRows ∧ 0 ≤ rc.2 ∧ rc.2 < numColumns then
    let c := rc.1.toNat * numColumns + rc.2.toNat
    { st with read := st.read ||| (1 <<< c), cells := c :: st.cells }
  else { st with oob := true }

def readModules (numRows numColumns : Nat) (st : RState) : List (Int × Int) → RState
  | [] => st
  | (r, c) :: rest => readModules numRows numColumns (readModule numRows numColumns st r c) rest

def utahReads (row column : Int) : List (Int × Int) :=
  [(row-2, column-2), (row-2, column-1), (row-1, column-2), (row-1, column-1), (row-1, column),
   (row, column-2), (row, column-1), (row, column)]
def corner1Reads (numRows numColumns : Nat) : List (Int × Int) :=
  let r : Int := numRows; let c : Int := numColumns
  [(r-1, 0), (r-1, 1), (r-1, 2), (0, c-2), (0, c-1), (1, c-1), (2, c-1), (3, c-1)]
def corner2Reads (numRows numColumns : Nat) : List (Int × Int) :=
  let r : Int := numRows; let c : Int := numColumns
  [(r-3, 0), (r-2, 0), (r-1, 0), (0, c-4), (0, c-3), (0, c-2), (0, c-1), (1, c-1)]
def corner3Reads (numRows numColumns : Nat) : List (Int × Int) :=
  let r : Int := numRows; let c : Int := numColumns
  [(r-1, 0), (r-1, c-1), (0, c-3), (0, c-2), (0, c-1), (1, c-3), (1, c-2), (1, c-1)]
def corner4Reads (numRows numColumns : Nat) : List (Int × Int) :=
  let r : Int := numRows; let c : Int := numColumns
  [(r-3, 0), (r-2, 0), (r-1, 0), (0, c-2), (0, c-1), (1, c-1), (2, c-1), (3, c-1)]

/-- `!p.readMappingMatrix.Get(column, row)` guarded as in the sweeps, then `readUtah` -/
def tryReadUtah (numRows numColumns : Nat) (st : RState) (row column : Int) : RState :=
  if 0 ≤ row ∧ row < numRows ∧ 0 ≤ column ∧ column < numColumns then
    if st.read.testBit (row.toNat * numColumns + column.toNat) then st
    else readModules numRows numColumns st (utahReads row column)
  else { st with oob := true }

def readSweepUp (numRows numColumns : Nat) : Nat → RState → Int → Int → RState × Int × Int
  | 0, st, r, c => ({ st with oob := true }, r, c)
  | f + 1, st, r, c =>
    let st := if r < numRows ∧ c ≥ 0 then tryReadUtah numRows numColumns st r c else st
    let r := r - 2
    let c := c + 2
    if r ≥ 0 ∧ c < numColumns then readSweepUp numRows numColumns f st r c else (st, r, c)

def readSweepDown (numRows numColumns : Nat) : Nat → RState → Int → Int → RState × Int × Int
  | 0, st, r, c => ({ st with oob := true }, r, c)
  | f + 1, st, r, c =>
    let st := if r ≥ 0 ∧ c < numColumns then tryReadUtah numRows numColumns st r c else st
    let r := r + 2
    let c := c - 2
    if r < numRows ∧ c ≥ 0 then readSweepDown numRows numColumns f st r c else (st, r, c)

structure Corners where
  c1 : Bool := false
  c2 : Bool := false
  c3 : Bool := false
  c4 : Bool := false

/-- the outer `for` of readCodewords (fuel: every iteration advances row+column) -/
def readLoop (numRows numColumns : Nat) : Nat → RState → Corners → Int → Int → RState
  | 0, st, _, _, _ => { st with oob := true }
  | f + 1, st, cs, row, column =>
    let nr : Int := numRows
    let next : RState × Corners × Int × Int :=
      if row = nr ∧ column = 0 ∧ !cs.c1 then
        (readModules numRows numColumns st (corner1Reads numRows numColumns), { cs with c1 := true }, row - 2, column + 2)
      else if row = nr - 2 ∧ column = 0 ∧ numColumns % 4 ≠ 0 ∧ !cs.c2 then
        (readModules numRows numColumns st (corner2Reads numRows numColumns), { cs with c2 := true }, row - 2, column + 2)
      else if row = nr + 4 ∧ column = 2 ∧ numColumns % 8 = 0 ∧ !cs.c3 then
        (readModules numRows numColumns st (corner3Reads numRows numColumns), { cs with c3 := true }, row - 2, column + 2)
      else if row = nr - 2 ∧ column = 0 ∧ numColumns % 8 = 4 ∧ !cs.c4 then
        (readModules numRows numColumns st (corner4Reads numRows numColumns), { cs with c4 := true }, row - 2, column + 2)
      else
        let (st, r, c) := readSweepUp numRows numColumns (numRows + numColumns) st row column
        let (st, r, c) := readSweepDown numRows numColumns (numRows + numColumns) st (r + 1) (c + 3)
        (st, cs, r + 3, c + 1)
    let (st, cs, row, column) := next
    if row < nr ∨ column < (numColumns : Int) then readLoop numRows numColumns f st cs row column else st

def readState (numRows numColumns : Nat) : RState :=
  readLoop numRows numColumns (2 * (numRows + numColumns) + 8) {} {} 4 0

/-- cells of the mapping matrix in the order `readCodewords` reads them (8 per codeword, msb first) -/
def readSeq (numRows numColumns : Nat) : List Nat := (readState numRows numColumns).cells.reverse

def packByte : List Bool → Nat
  | bs => bs.foldl (fun acc b => acc * 2 + (if b then 1 else 0)) 0

def packBytes : Nat → List Bool → List Nat
  | 0, _ => []
  | f + 1, bs => if bs.isEmpty then [] else packByte (bs.take 8) :: packBytes f (bs.drop 8)

/-- `readCodewords()` on the mapping matrix `m` of version `v`:
    `result[resultOffset]` beyond `totalCodewords` is an index panic, fewer is a FormatException -/
def readCodewords (v : Version) (m : BitGrid) : Res (List Nat) :=
  let st := readState m.height m.width
  if st.oob then .error (.panic "readModule outside the mapping matrix")
  else
    let n := st.cells.length / 8
    if n > v.totalCodewords then .error (.panic "index out of range: result[resultOffset]")
    else match st.cells.reverse.mapM (fun c => m.get (c % m.width) (c / m.width)) with
      | .error e => .error e
      | .ok bits => if n ≠ v.totalCodewords then .error .format else .ok (packBytes n bits)

end Gzx.DMDec
