/-
  Gzx.DMEnc (part) — steps 2..4 of DataMatrixWriter.Encode (datamatrix/datamatrix_writer.go) for a 0x0 request,
  composed from the stage models: ErrorCorrection_EncodeECC200, DefaultPlacement (= the Annex F program,
  `DMRef.mappingBits`, tied to default_placement.go by the `place` suite), encodeLowLevel.
  This is what the `mfull` correspondence op compares with the Go writer.  Core Lean only.
-/
import Gzx.Model.DMEncoder
namespace Gzx.DMEnc
open Gzx

/-- ECC + placement + low-level matrix for the data codewords `d` of symbol `s` -/
def encodeSymbol (factorSets : List Nat) (factors : List (List Nat)) (d : List Nat) (s : SymbolInfo) :
    Res (List (List Bool)) :=
  match encodeECC200 factorSets factors d s with
  | .error e => .error e
  | .ok cw =>
    let m := DMRef.mappingBits s.symbolDataHeight s.symbolDataWidth cw
    encodeLowLevel s (fun x y => m.getD (y * s.symbolDataWidth + x) false)

end Gzx.DMEnc
