/-
  C12 / wp dmenc — steps 1-4 of `DataMatrixWriter.Encode` (datamatrix/datamatrix_writer.go) composed from the stage
  models, over the library's symbol table in lookup order (`DMRef.symbols`, tied to `encoder.symbols` by the per-run
  obligations `Obligations.C08.gen_symbols_eq` and `Obligations.C12DM.gen_symbols_hl`):
    1. `encoder.EncodeHighLevel(contents, shape, minSize, maxSize)`               — `DMHighLevel.encodeHL`
       `encoder.SymbolInfo_Lookup(len(encoded), shape, minSize, maxSize, true)`  — `lookupRow` (error IGNORED by the
       writer: a nil symbol is dereferenced by the next step)
    2. `encoder.ErrorCorrection_EncodeECC200(encoded, symbolInfo)` (error ignored: nil codewords are indexed by step 3)
    3. `NewDefaultPlacement(...).Place()`                                         — inside `DMEnc.encodeSymbol`
    4. `encodeLowLevel`                                                           — inside `DMEnc.encodeSymbol`
  The front end (argument checks, hint extraction, rendering) is `WriterFrontend.encodeDM`.  Core Lean only.
  Tied to the real writer by the `c12dm` correspondence suite (harness/zz_dmenc_writer.go).
-/
import Gzx.Model.DMHighLevel
import Gzx.Model.DMWriter
import Gzx.Model.WriterFrontend
namespace Gzx.DMWriterCore
open Gzx

/-- a row of the standard's table as the high-level encoder sees it -/
def hlOf (s : DMRef.Sym) : DMHighLevel.SymbolInfo := ⟨s.rect, s.nData, s.nErr, s.regCols, s.regRows, s.regions⟩

/-- `encoder.symbols` for the high-level encoder -/
def hlSyms : List DMHighLevel.SymbolInfo := DMRef.symbols.map hlOf

/-- `SymbolInfo_Lookup(n, shape, minSize, maxSize, fail)`: the first row in lookup order that passes the filters and
    holds `n` codewords -/
def lookupRow (cfg : DMHighLevel.Cfg) (n : Nat) : Option DMRef.Sym :=
  DMRef.symbols.find? (fun s => DMHighLevel.admissible cfg (hlOf s) && decide (n ≤ s.nData))

/-- Go's `SymbolShapeHint` / `*Dimension` values as the encoder model's configuration -/
def cfgOf (shape : Int) (mn mx : Option (Int × Int)) : DMHighLevel.Cfg :=
  ⟨shape.toNat, mn.map (fun d => (d.1.toNat, d.2.toNat)), mx.map (fun d => (d.1.toNat, d.2.toNat))⟩

/-- the ByteMatrix of `encodeLowLevel` as a module grid -/
def modulesOf (rows : List (List Bool)) : WriterFrontend.Modules :=
  ⟨(rows.headD []).length, rows.length, fun x y => (rows.getD y []).getD x false⟩

/-- steps 1-4 on the ISO-8859-1 bytes of the contents: the module rows -/
def rowsOf (la : DMHighLevel.LookAhead) (msg : List Nat) (cfg : DMHighLevel.Cfg) : Res (List (List Bool)) :=
  match DMHighLevel.encodeHL hlSyms la msg cfg with
  | .error f => .error f
  | .ok cw =>
    match lookupRow cfg cw.length with
    | none => .error (.panic "nil symbolInfo dereferenced")
    | some s =>
      match DMEnc.encodeSymbol DMRef.parityLengths DMRef.factorTable cw (DMEnc.ofSym s) with
      | .error .writer => .error (.panic "nil codewords indexed by the placement")
      | .error f => .error f
      | .ok rows => .ok rows

/-- the encoder core of the Data Matrix writer; `prep` = ISO-8859-1 conversion of the contents (`none`: a character
    outside Latin-1 — an error of the charmap encoder, returned as WriterException) -/
def core (la : DMHighLevel.LookAhead) (prep : List Nat → Option (List Nat)) :
    List Nat → Int → Option (Int × Int) → Option (Int × Int) → Res WriterFrontend.Modules :=
  fun content shape mn mx =>
    match prep content with
    | none => .error .writer
    | some msg => (rowsOf la msg (cfgOf shape mn mx)).map modulesOf

end Gzx.DMWriterCore
