/-
  Model of the first stage of aztec/detector/detector.go — C06, detectors: `getFirstDifferent`,
  `isValid`, and `getMatrixCenter` (two WhiteRectangleDetector runs with their `getFirstDifferent`
  fall-backs).  NOT modelled (exploration only): getBullsEyeCorners / getColor / extractParameters /
  sampleLine / getRotation / getCorrectedParameterData.
-/
import Gzx.Model.DetWhiteRect
import Gzx.Model.DetWalk
namespace Gzx.Det.AZ
open Gzx Gzx.Det

def isValid (w h x y : Int) : Bool := decide (x ≥ 0) && decide (x < w) && decide (y ≥ 0) && decide (y < h)

/-- number of steps a walk from coordinate `c` in direction `d` (±1) can stay inside `[0, n)` -/
def stepBound (n c d : Int) : Int := if d = 1 then n - c else if d = -1 then c + 1 else 0

/-- one loop `for isValid(x, y) && image.Get(x, y) == color { x += dx; y += dy }` from `(x0, y0)`:
    the number of steps taken.  `L` bounds the steps (see `stepBound`). -/
def gfdWalk (rd : Reader) (w h : Int) (color : Bool) (x0 y0 dx dy L : Int) : Res Int := do
  let r ← walk rd (fun k => (x0 + k * dx, y0 + k * dy)) color 1
    (fun k => decide (k < L) && isValid w h (x0 + k * dx) (y0 + k * dy)) (fun _ => true) (fuelTo L 0) 0 0
  return r.1

/-- `getFirstDifferent(init, color, dx, dy)` for `dx, dy ∈ {1, -1}`.
    (The guard `k < L` of `gfdWalk` is implied by `isValid` for these directions — theorem
    `gfd_guard_redundant` — so it does not change the result; it makes the fuel bound syntactic.) -/
def getFirstDifferent (rd : Reader) (w h : Int) (init : Int × Int) (color : Bool) (dx dy : Int) : Res (Int × Int) := do
  let x := init.1 + dx
  let y := init.2 + dy
  let k ← gfdWalk rd w h color x y dx dy (stepBound w x dx)
  let x := x + k * dx - dx
  let y := y + k * dy - dy
  let k ← gfdWalk rd w h color x y dx 0 (stepBound w x dx)
  let x := x + k * dx - dx
  let k ← gfdWalk rd w h color x y 0 dy (stepBound h y dy)
  let y := y + k * dy - dy
  return (x, y)

/-- the four fall-back points around `(cx, cy)` -/
def fallback (rd : Reader) (w h cx cy : Int) : Res (List (Int × Int)) := do
  let a ← getFirstDifferent rd w h (cx + 7, cy - 7) false 1 (-1)
  let b ← getFirstDifferent rd w h (cx + 7, cy + 7) false 1 1
  let c ← getFirstDifferent rd w h (cx - 7, cy + 7) false (-1) 1
  let d ← getFirstDifferent rd w h (cx - 7, cy - 7) false (-1) (-1)
  return [a, b, c, d]

/-- `MathUtils_Round((A + D + B + C) / 4.0)` on integer-valued points -/
def centre {F : Type} (o : FOps F) (ps : List (Int × Int)) (sel : Int × Int → Int) : Res Int :=
  match ps with
  | [a, b, c, d] =>
    .ok (o.round (o.div (o.add (o.add (o.add (o.ofInt (sel a)) (o.ofInt (sel d))) (o.ofInt (sel b))) (o.ofInt (sel c))) (o.ofInt 4)))
  | _ => .error (.panic "cornerPoints index out of range")

/-- WhiteRectangleDetector run, any failure (constructor or Detect: NotFound) replaced by the fall-back -/
def rectOrFallback {F : Type} (o : FOps F) (rd : Reader) (w h : Int) (wr : Res WRD.WR) (cx cy : Int) :
    Res (List (Int × Int)) :=
  match (do let d ← wr; WRD.detect o rd w h d) with
  | .ok ps => .ok ps
  | .error .notFound => fallback rd w h cx cy
  | .error e => .error e

/-- `getMatrixCenter()` -/
def getMatrixCenter {F : Type} (o : FOps F) (rd : Reader) (w h : Int) : Res (Int × Int) := do
  let ps ← rectOrFallback o rd w h (WRD.newFromImage w h) (Int.tdiv w 2) (Int.tdiv h 2)
  let cx ← centre o ps (·.1)
  let cy ← centre o ps (·.2)
  let ps ← rectOrFallback o rd w h (WRD.new w h 15 cx cy) cx cy
  let cx ← centre o ps (·.1)
  let cy ← centre o ps (·.2)
  return (cx, cy)

end Gzx.Det.AZ
