/-
  Model of the remaining stages of aztec/detector/detector.go (C06, work package detrest):
  getColor, isWhiteOrBlackRectangle, getBullsEyeCorners, expandSquare, sampleLine, isValidPoint,
  extractParameters (its integer tail — getRotation, the parameter word, getCorrectedParameterData — is the
  C11 model `Gzx.AztecDecoder`), getDimension, getMatrixCornerPoints and `Detect` up to the call of
  `sampler.SampleGrid` (C19).  Floats through `FOps`, `image.Get` through a `Reader`, as in DetAztec.lean.
-/
import Gzx.Model.DetAztec
import Gzx.Model.AztecDecoder
namespace Gzx.Det.AZ
open Gzx Gzx.Det

abbrev IPt := Int × Int

/-- `distanceP(a, b)` = `MathUtils_DistanceInt` -/
def distanceP {F : Type} (o : FOps F) (a b : IPt) : F := o.distanceInt a.1 a.2 b.1 b.2

/-- `distanceRP(a, b)` = `MathUtils_DistanceFloat` -/
def distanceRP {F : Type} (o : FOps F) (a b : FPt F) : F := o.distanceF a.x a.y b.x b.y

/-! ## getColor / isWhiteOrBlackRectangle -/

/-- `for i := 0; i < iMax; i++ { if image.Get(Round(px), Round(py)) != colorModel { err++ }; px += dx; py += dy }` -/
def colorLoop {F : Type} (o : FOps F) (rd : Reader) (colorModel : Bool) (dx dy : F) : Nat → F → F → Int → Res Int
  | 0, _, _, err => .ok err
  | n + 1, px, py, err => do
    let b ← rd (o.round px) (o.round py)
    colorLoop o rd colorModel dx dy n (o.add px dx) (o.add py dy) (if b != colorModel then err + 1 else err)

/-- `getColor(p1, p2)`: 1 = mostly black, -1 = mostly white, 0 = neither -/
def getColor {F : Type} (o : FOps F) (rd : Reader) (p1 p2 : IPt) : Res Int := do
  let d := distanceP o p1 p2
  if o.eq d (o.ofInt 0) then return 0
  else
    let dx := o.div (o.ofInt (p2.1 - p1.1)) d
    let dy := o.div (o.ofInt (p2.2 - p1.2)) d
    let px := o.ofInt p1.1
    let py := o.ofInt p1.2
    let colorModel ← rd p1.1 p1.2
    let iMax := o.toInt (o.floor d)
    let err ← colorLoop o rd colorModel dx dy iMax.toNat px py 0
    let errRatio := o.div (o.ofInt err) d
    if o.gt errRatio (o.lit 1 10) && o.lt errRatio (o.lit 9 10) then return 0
    else if (o.le errRatio (o.lit 1 10)) == colorModel then return 1
    else return -1

def imax (a b : Int) : Int := if a > b then a else b
def imin (a b : Int) : Int := if a < b then a else b

/-- `isWhiteOrBlackRectangle(p1, p2, p3, p4)` -/
def isWhiteOrBlackRectangle {F : Type} (o : FOps F) (rd : Reader) (w h : Int) (p1 p2 p3 p4 : IPt) : Res Bool := do
  let corr : Int := 3
  let p1 : IPt := (imax 0 (p1.1 - corr), imin (h - 1) (p1.2 + corr))
  let p2 : IPt := (imax 0 (p2.1 - corr), imax 0 (p2.2 - corr))
  let p3 : IPt := (imin (w - 1) (p3.1 + corr), imax 0 (imin (h - 1) (p3.2 - corr)))
  let p4 : IPt := (imin (w - 1) (p4.1 + corr), imin (h - 1) (p4.2 + corr))
  let cInit ← getColor o rd p4 p1
  if cInit = 0 then return false
  else
    let c ← getColor o rd p1 p2
    if c ≠ cInit then return false
    else
      let c ← getColor o rd p2 p3
      if c ≠ cInit then return false
      else
        let c ← getColor o rd p3 p4
        return decide (c = cInit)

/-! ## expandSquare / getBullsEyeCorners -/

/-- four float points `[0], [1], [2], [3]` (the Go slices are built by 4-element literals) -/
structure Quad (F : Type) where
  p0 : FPt F
  p1 : FPt F
  p2 : FPt F
  p3 : FPt F

/-- `s[i]` for a run-time index -/
def Quad.get {F : Type} (q : Quad F) (i : Int) : Res (FPt F) :=
  if i = 0 then .ok q.p0 else if i = 1 then .ok q.p1 else if i = 2 then .ok q.p2 else if i = 3 then .ok q.p3
  else .error (.panic "bullsEyeCorners index out of range")

/-- `expandSquare(cornerPoints, oldSide, newSide)` -/
def expandSquare {F : Type} (o : FOps F) (c : Quad F) (oldSide newSide : Int) : Quad F :=
  let ratio := o.div (o.ofInt newSide) (o.ofInt (2 * oldSide))
  let dx := o.sub c.p0.x c.p2.x
  let dy := o.sub c.p0.y c.p2.y
  let centerx := o.div (o.add c.p0.x c.p2.x) (o.ofInt 2)
  let centery := o.div (o.add c.p0.y c.p2.y) (o.ofInt 2)
  let result0 : FPt F := ⟨o.add centerx (o.mul ratio dx), o.add centery (o.mul ratio dy)⟩
  let result2 : FPt F := ⟨o.sub centerx (o.mul ratio dx), o.sub centery (o.mul ratio dy)⟩
  let dx := o.sub c.p1.x c.p3.x
  let dy := o.sub c.p1.y c.p3.y
  let centerx := o.div (o.add c.p1.x c.p3.x) (o.ofInt 2)
  let centery := o.div (o.add c.p1.y c.p3.y) (o.ofInt 2)
  let result1 : FPt F := ⟨o.add centerx (o.mul ratio dx), o.add centery (o.mul ratio dy)⟩
  let result3 : FPt F := ⟨o.sub centerx (o.mul ratio dx), o.sub centery (o.mul ratio dy)⟩
  ⟨result0, result1, result2, result3⟩

structure Pins where
  a : IPt
  b : IPt
  c : IPt
  d : IPt

/-- the `for this.nbCenterLayers = 1; this.nbCenterLayers < 9; this.nbCenterLayers++` loop; the fuel is
    the number of rounds left (`9 - nbCenterLayers`); returns `nbCenterLayers` at the exit and the pins -/
def bullsLoop {F : Type} (o : FOps F) (rd : Reader) (w h : Int) : Nat → Int → Pins → Bool → Res (Int × Pins)
  | 0, nb, pin, _ => .ok (nb, pin)
  | n + 1, nb, pin, color => do
    let pouta ← getFirstDifferent rd w h pin.a color 1 (-1)
    let poutb ← getFirstDifferent rd w h pin.b color 1 1
    let poutc ← getFirstDifferent rd w h pin.c color (-1) 1
    let poutd ← getFirstDifferent rd w h pin.d color (-1) (-1)
    let stop ←
      (if nb > 2 then do
        let q := o.div (o.mul (distanceP o poutd pouta) (o.ofInt nb)) (o.mul (distanceP o pin.d pin.a) (o.ofInt (nb + 2)))
        if o.lt q (o.lit 3 4) || o.gt q (o.lit 5 4) then pure true
        else do
          let r ← isWhiteOrBlackRectangle o rd w h pouta poutb poutc poutd
          pure (!r)
      else pure false : Res Bool)
    if stop then return (nb, pin)
    else bullsLoop o rd w h n (nb + 1) ⟨pouta, poutb, poutc, poutd⟩ (!color)

structure BullsEye (F : Type) where
  corners : Quad F
  nbCenterLayers : Int
  compact : Bool

/-- `getBullsEyeCorners(pCenter)` -/
def getBullsEyeCorners {F : Type} (o : FOps F) (rd : Reader) (w h : Int) (pCenter : IPt) : Res (BullsEye F) := do
  let (nb, pin) ← bullsLoop o rd w h 8 1 ⟨pCenter, pCenter, pCenter, pCenter⟩ true
  if nb ≠ 5 ∧ nb ≠ 7 then .error .notFound
  else
    let half := o.lit 1 2
    let pinax : FPt F := ⟨o.add (o.ofInt pin.a.1) half, o.sub (o.ofInt pin.a.2) half⟩
    let pinbx : FPt F := ⟨o.add (o.ofInt pin.b.1) half, o.add (o.ofInt pin.b.2) half⟩
    let pincx : FPt F := ⟨o.sub (o.ofInt pin.c.1) half, o.add (o.ofInt pin.c.2) half⟩
    let pindx : FPt F := ⟨o.sub (o.ofInt pin.d.1) half, o.sub (o.ofInt pin.d.2) half⟩
    return { corners := expandSquare o ⟨pinax, pinbx, pincx, pindx⟩ (2 * nb - 3) (2 * nb),
             nbCenterLayers := nb, compact := decide (nb = 5) }

/-! ## sampleLine / extractParameters -/

/-- `1 << k` for a run-time count: a negative count is a panic -/
def shl1 (k : Int) : Res Nat :=
  if k < 0 then .error (.panic "negative shift amount") else .ok (1 <<< k.toNat)

/-- the loop of `sampleLine`, `i = size - n .. size - 1` -/
def sampleLineLoop {F : Type} (o : FOps F) (rd : Reader) (px py dx dy : F) (size : Int) : Nat → Int → Nat → Res Nat
  | 0, _, result => .ok result
  | n + 1, i, result => do
    let b ← rd (o.round (o.add px (o.mul (o.ofInt i) dx))) (o.round (o.add py (o.mul (o.ofInt i) dy)))
    if b then do
      let bit ← shl1 (size - i - 1)
      sampleLineLoop o rd px py dx dy size n (i + 1) (result ||| bit)
    else sampleLineLoop o rd px py dx dy size n (i + 1) result

/-- `sampleLine(p1, p2, size)` -/
def sampleLine {F : Type} (o : FOps F) (rd : Reader) (p1 p2 : FPt F) (size : Int) : Res Nat :=
  let d := distanceRP o p1 p2
  let moduleSize := o.div d (o.ofInt size)
  let dx := o.div (o.mul moduleSize (o.sub p2.x p1.x)) d
  let dy := o.div (o.mul moduleSize (o.sub p2.y p1.y)) d
  sampleLineLoop o rd p1.x p1.y dx dy size size.toNat 0 0

/-- `isValidPoint(point)` -/
def isValidPoint {F : Type} (o : FOps F) (w h : Int) (p : FPt F) : Bool :=
  isValid w h (o.round p.x) (o.round p.y)

structure Params where
  shift : Nat
  nbLayers : Nat
  nbDataBlocks : Nat
  sides : List Nat
  deriving Repr, DecidableEq

/-- `extractParameters(bullsEyeCorners)`; `expected` = EXPECTED_CORNER_BITS, `rs` = the Reed-Solomon decoder
    over GF(16) (both parameters, as in the C11 model whose integer tail this reuses) -/
def extractParameters {F : Type} (o : FOps F) (rd : Reader) (w h : Int) (expected : List Nat)
    (rs : AztecDecoder.RSDecoder) (c : Quad F) (nbCenterLayers : Int) (compact : Bool) : Res Params := do
  if !isValidPoint o w h c.p0 || !isValidPoint o w h c.p1 || !isValidPoint o w h c.p2 || !isValidPoint o w h c.p3 then
    .error .notFound
  else
    let length := 2 * nbCenterLayers
    let s0 ← sampleLine o rd c.p0 c.p1 length
    let s1 ← sampleLine o rd c.p1 c.p2 length
    let s2 ← sampleLine o rd c.p2 c.p3 length
    let s3 ← sampleLine o rd c.p3 c.p0 length
    let sides := [s0, s1, s2, s3]
    -- getRotation: `side >> (length - 2)` with a negative count is a run-time panic
    if length < 2 then .error (.panic "negative shift amount in getRotation") else
    let shift ← AztecDecoder.getRotation expected sides length.toNat
    let parameterData := AztecDecoder.parameterData compact sides shift
    let (nbLayers, nbDataBlocks) ← AztecDecoder.correctedParameters rs compact parameterData
    return { shift := shift, nbLayers := nbLayers, nbDataBlocks := nbDataBlocks, sides := sides }

/-! ## getDimension / getMatrixCornerPoints / Detect up to SampleGrid -/

/-- `getDimension()` -/
def getDimension (compact : Bool) (nbLayers : Int) : Int :=
  if compact then 4 * nbLayers + 11
  else 4 * nbLayers + 2 * Int.tdiv (2 * nbLayers + 6) 15 + 15

/-- `getMatrixCornerPoints(bullsEyeCorners)` -/
def getMatrixCornerPoints {F : Type} (o : FOps F) (c : Quad F) (nbCenterLayers : Int) (compact : Bool) (nbLayers : Int) : Quad F :=
  expandSquare o c (2 * nbCenterLayers) (getDimension compact nbLayers)

/-- everything `Detect` has computed when it calls `sampler.SampleGrid` -/
structure Located (F : Type) where
  compact : Bool
  nbLayers : Nat
  nbDataBlocks : Nat
  shift : Nat
  dimension : Int
  low : F
  high : F
  topLeft : FPt F
  topRight : FPt F
  bottomRight : FPt F
  bottomLeft : FPt F
  corners : Quad F

/-- `Detect(isMirror)` up to (not including) `sampler.SampleGrid` (C19); `corners` is what step 5 returns -/
def detect {F : Type} (o : FOps F) (rd : Reader) (w h : Int) (expected : List Nat) (rs : AztecDecoder.RSDecoder)
    (isMirror : Bool) : Res (Located F) := do
  let pCenter ← getMatrixCenter o rd w h
  let be ← getBullsEyeCorners o rd w h pCenter
  let c : Quad F := if isMirror then ⟨be.corners.p2, be.corners.p1, be.corners.p0, be.corners.p3⟩ else be.corners
  let p ← extractParameters o rd w h expected rs c be.nbCenterLayers be.compact
  let shift : Int := p.shift
  let tl ← c.get (Int.tmod shift 4)
  let tr ← c.get (Int.tmod (shift + 1) 4)
  let br ← c.get (Int.tmod (shift + 2) 4)
  let bl ← c.get (Int.tmod (shift + 3) 4)
  let dimension := getDimension be.compact p.nbLayers
  let low := o.sub (o.div (o.ofInt dimension) (o.ofInt 2)) (o.ofInt be.nbCenterLayers)
  let high := o.add (o.div (o.ofInt dimension) (o.ofInt 2)) (o.ofInt be.nbCenterLayers)
  return { compact := be.compact, nbLayers := p.nbLayers, nbDataBlocks := p.nbDataBlocks, shift := p.shift,
           dimension := dimension, low := low, high := high, topLeft := tl, topRight := tr, bottomRight := br,
           bottomLeft := bl, corners := getMatrixCornerPoints o c be.nbCenterLayers be.compact p.nbLayers }

end Gzx.Det.AZ
