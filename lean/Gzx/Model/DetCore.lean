/-
  Shared vocabulary of the detector models (C06 work package "detectors inside the model").

  * `Img`      — a bit image as the locating code sees it: `GetWidth()`, `GetHeight()` and the pixels.
  * `Reader`   — `image.Get(x, y)` as an operation that may fail (DESIGN §5.1).  Two instances:
      `Img.rdGo`     the `BitMatrix.Get` of THIS tree: bounds-checked, answers `false` outside
                     `[0,w) × [0,h)` (bit_matrix.go: `if x < 0 || x >= b.width || y < 0 || y >= b.height`);
      `Img.rdStrict` an unguarded `Get` (upstream ZXing): any read outside `[0,w) × [0,h)` is a panic.
    Every model is written once, over an arbitrary `Reader`; the totality theorems are stated for
    `rdGo`, the stronger "reads stay inside the image" theorems for `rdStrict`.
  * `FOps F`   — float64 and its operations as an ARBITRARY interpretation (DESIGN §5.4): the models
    mirror every Go float expression through these operations; theorems quantify over every `F` and
    every `FOps F`, so they do not depend on rounding, NaN or ±Inf behaviour.  The executable
    instance `FOps.float` (Lean `Float`, IEEE binary64, Go/amd64 conversion semantics) is what the
    driver runs.
  * `Sat`      — a small Hoare-style predicate on `Res`: which faults are allowed, what holds of a result.
-/
import Gzx.Util
namespace Gzx.Det
open Gzx

/-! ## images and readers -/

structure Img where
  w : Int
  h : Int
  pix : Int → Int → Bool

def Img.outside (img : Img) (x y : Int) : Bool :=
  decide (x < 0) || decide (x ≥ img.w) || decide (y < 0) || decide (y ≥ img.h)

/-- `BitMatrix.Get` as coded in this tree -/
def Img.get (img : Img) (x y : Int) : Bool :=
  if img.outside x y then false else img.pix x y

abbrev Reader := Int → Int → Res Bool

def Img.rdGo (img : Img) : Reader := fun x y => .ok (img.get x y)

def Img.rdStrict (img : Img) : Reader := fun x y =>
  if img.outside x y then .error (.panic "BitMatrix.Get outside the image") else .ok (img.pix x y)

/-- `R x y → the reader answers` : the region on which a reader is total -/
def RdOK (rd : Reader) (R : Int → Int → Prop) : Prop := ∀ x y, R x y → ∃ b, rd x y = .ok b

def Img.inside (img : Img) (x y : Int) : Prop := 0 ≤ x ∧ x < img.w ∧ 0 ≤ y ∧ y < img.h

theorem rdGo_ok (img : Img) : RdOK img.rdGo (fun _ _ => True) := fun _ _ _ => ⟨_, rfl⟩

theorem rdStrict_ok (img : Img) : RdOK img.rdStrict img.inside := by
  intro x y ⟨h1, h2, h3, h4⟩
  have : img.outside x y = false := by
    simp only [Img.outside, Bool.or_eq_false_iff, decide_eq_false_iff_not]
    omega
  exact ⟨img.pix x y, by simp [Img.rdStrict, this]⟩

/-! ## outcome predicates -/

/-- `Sat E P r`: `r` is a result satisfying `P`, or one of the faults allowed by `E` -/
def Sat {α : Type} (E : Fault → Prop) (P : α → Prop) : Res α → Prop
  | .ok a => P a
  | .error e => E e

/-- no fault at all is allowed -/
def NoFault : Fault → Prop := fun _ => False
/-- only the checked NotFoundException -/
def OnlyNotFound : Fault → Prop := fun e => e = .notFound

theorem Sat.bind {α β : Type} {E : Fault → Prop} {P : α → Prop} {Q : β → Prop} {x : Res α} {f : α → Res β}
    (hx : Sat E P x) (hf : ∀ a, P a → Sat E Q (f a)) : Sat E Q (x >>= f) := by
  cases x with
  | ok a => exact hf a hx
  | error e => exact hx

theorem Sat.mono {α : Type} {E E' : Fault → Prop} {P P' : α → Prop} {r : Res α}
    (h : Sat E P r) (hE : ∀ e, E e → E' e) (hP : ∀ a, P a → P' a) : Sat E' P' r := by
  cases r with
  | ok a => exact hP a h
  | error e => exact hE e h

theorem Sat.pure {α : Type} {E : Fault → Prop} {P : α → Prop} {a : α} (h : P a) : Sat E P (pure a : Res α) := h
theorem Sat.ok {α : Type} {E : Fault → Prop} {P : α → Prop} {a : α} (h : P a) : Sat E P (.ok a : Res α) := h

theorem Sat.no_panic {α : Type} {E : Fault → Prop} {P : α → Prop} {r : Res α}
    (h : Sat E P r) (hE : ∀ w, ¬ E (.panic w)) : ∀ w, r ≠ .error (.panic w) := by
  intro w hr; subst hr; exact hE w h

theorem Sat.no_fuel {α : Type} {E : Fault → Prop} {P : α → Prop} {r : Res α}
    (h : Sat E P r) (hE : ¬ E .fuel) : r ≠ .error .fuel := by
  intro hr; subst hr; exact hE h

theorem onlyNotFound_no_panic (w : String) : ¬ OnlyNotFound (.panic w) := by simp [OnlyNotFound]
theorem onlyNotFound_no_fuel : ¬ OnlyNotFound .fuel := by simp [OnlyNotFound]

theorem RdOK.sat {rd : Reader} {R : Int → Int → Prop} (h : RdOK rd R) {x y : Int} (hr : R x y)
    {E : Fault → Prop} : Sat E (fun _ => True) (rd x y) := by
  obtain ⟨b, hb⟩ := h x y hr
  rw [hb]; trivial

/-! ## float64 as an arbitrary interpretation -/

structure FOps (F : Type) where
  ofInt : Int → F            -- float64(i)
  toInt : F → Int            -- int(f)   (Go: truncation; NaN/±Inf/out of range implementation-defined)
  add : F → F → F
  sub : F → F → F
  mul : F → F → F
  div : F → F → F
  abs : F → F                -- math.Abs
  sqrt : F → F               -- math.Sqrt
  floor : F → F              -- math.Floor
  lt : F → F → Bool          -- <
  le : F → F → Bool          -- <=
  eq : F → F → Bool          -- ==
  isNaN : F → Bool           -- math.IsNaN
  nan : F                    -- math.NaN()
  maxFloat : F               -- math.MaxFloat64

namespace FOps
variable {F : Type} (o : FOps F)

/-- a decimal literal `n/d` (e.g. 0.5 = 1/2, 1.333 = 1333/1000): the nearest double to the quotient -/
def lit (n d : Int) : F := o.div (o.ofInt n) (o.ofInt d)
def gt (a b : F) : Bool := o.lt b a
def ge (a b : F) : Bool := o.le b a

/-- common/util MathUtils_Round -/
def round (d : F) : Int :=
  if o.lt d (o.ofInt 0) then o.toInt (o.sub d (o.lit 1 2)) else o.toInt (o.add d (o.lit 1 2))

/-- MathUtils_DistanceInt: `math.Sqrt(float64(xDiff*xDiff + yDiff*yDiff))` -/
def distanceInt (aX aY bX bY : Int) : F :=
  o.sqrt (o.ofInt ((aX - bX) * (aX - bX) + (aY - bY) * (aY - bY)))

/-- MathUtils_DistanceFloat -/
def distanceF (aX aY bX bY : F) : F :=
  let xd := o.sub aX bX
  let yd := o.sub aY bY
  o.sqrt (o.add (o.mul xd xd) (o.mul yd yd))

end FOps

/-- Go on amd64: `int(f)` is CVTTSD2SI — truncation, and the "integer indefinite" value -2^63 for NaN
    and for anything outside the int64 range -/
def goInt (f : Float) : Int :=
  if f.isNaN || f ≥ 9223372036854775808.0 || f < -9223372036854775808.0 then -9223372036854775808
  else f.toInt64.toInt

/-- the executable interpretation: IEEE binary64 -/
def FOps.float : FOps Float where
  ofInt := Float.ofInt
  toInt := goInt
  add := (· + ·)
  sub := (· - ·)
  mul := (· * ·)
  div := (· / ·)
  abs := Float.abs
  sqrt := Float.sqrt
  floor := Float.floor
  lt := fun a b => decide (a < b)
  le := fun a b => decide (a ≤ b)
  eq := fun a b => a == b
  isNaN := Float.isNaN
  nan := 0.0 / 0.0
  maxFloat := 1.7976931348623157e308

/-- a float-valued result point -/
structure FPt (F : Type) where
  x : F
  y : F

end Gzx.Det
