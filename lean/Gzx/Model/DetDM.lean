/-
  Model of datamatrix/detector/detector.go — C06, detectors.  Everything up to the `sampleGrid` call
  (grid sampling is the C19 model).  Points are float pairs (`FPt`); `transitionsBetween` is the only
  image access (a Bresenham walk over `int(x), int(y)`).
-/
import Gzx.Model.DetWhiteRect
namespace Gzx.Det.DM
open Gzx Gzx.Det

/-- the loop of `transitionsBetween`: `for x, y := fromX, fromY; x != toX; x += xstep` — `n` = |toX - fromX| -/
def transLoop (rd : Reader) (steep : Bool) (toY dx dy xstep ystep : Int) :
    Nat → Int → Int → Int → Bool → Int → Res Int
  | 0, _, _, _, _, tr => .ok tr
  | n + 1, x, y, err, inBlack, tr => do
    let isBlack ← rd (if steep then y else x) (if steep then x else y)
    let tr := if isBlack != inBlack then tr + 1 else tr
    let err := err + dy
    if err > 0 then
      if y = toY then return tr
      transLoop rd steep toY dx dy xstep ystep n (x + xstep) (y + ystep) (err - dx) isBlack tr
    else transLoop rd steep toY dx dy xstep ystep n (x + xstep) y err isBlack tr

/-- `transitionsBetween(from, to)` -/
def transitionsBetween {F : Type} (o : FOps F) (rd : Reader) (h : Int) (p q : FPt F) : Res Int := do
  let fromX := o.toInt p.x
  let fromY := o.toInt p.y
  let toX := o.toInt q.x
  let toY := if h - 1 < o.toInt q.y then h - 1 else o.toInt q.y
  let steep := decide ((toY - fromY).natAbs > (toX - fromX).natAbs)
  let (fromX, fromY, toX, toY) := if steep then (fromY, fromX, toY, toX) else (fromX, fromY, toX, toY)
  let dx : Int := (toX - fromX).natAbs
  let dy : Int := (toY - fromY).natAbs
  let ystep : Int := if fromY < toY then 1 else -1
  let xstep : Int := if fromX < toX then 1 else -1
  let inBlack ← rd (if steep then fromY else fromX) (if steep then fromX else fromY)
  transLoop rd steep toY dx dy xstep ystep dx.toNat fromX fromY (Int.tdiv (-dx) 2) inBlack 0

/-- `shiftPoint(point, to, div)` -/
def shiftPoint {F : Type} (o : FOps F) (p t : FPt F) (div : Int) : FPt F :=
  let x := o.div (o.sub t.x p.x) (o.ofInt (div + 1))
  let y := o.div (o.sub t.y p.y) (o.ofInt (div + 1))
  { x := o.add p.x x, y := o.add p.y y }

/-- `moveAway(point, fromX, fromY)` -/
def moveAway {F : Type} (o : FOps F) (p : FPt F) (fromX fromY : F) : FPt F :=
  { x := if o.lt p.x fromX then o.sub p.x (o.ofInt 1) else o.add p.x (o.ofInt 1),
    y := if o.lt p.y fromY then o.sub p.y (o.ofInt 1) else o.add p.y (o.ofInt 1) }

/-- `isValid(p)` -/
def isValid {F : Type} (o : FOps F) (w h : Int) (p : FPt F) : Bool :=
  o.ge p.x (o.ofInt 0) && o.lt p.x (o.ofInt w) && o.gt p.y (o.ofInt 0) && o.lt p.y (o.ofInt h)

structure Quad (F : Type) where
  a : FPt F
  b : FPt F
  c : FPt F
  d : FPt F

/-- `detectSolid1(cornerPoints)`; `cornerPoints` must have four elements (index panic otherwise) -/
def detectSolid1 {F : Type} (o : FOps F) (rd : Reader) (h : Int) (cp : List (FPt F)) : Res (Quad F) := do
  match cp with
  | [p0, p1, p2, p3] =>
    let pointA := p0
    let pointB := p1
    let pointC := p3
    let pointD := p2
    let trAB ← transitionsBetween o rd h pointA pointB
    let trBC ← transitionsBetween o rd h pointB pointC
    let trCD ← transitionsBetween o rd h pointC pointD
    let trDA ← transitionsBetween o rd h pointD pointA
    let min := trAB
    let pts : Quad F := ⟨pointD, pointA, pointB, pointC⟩
    let (min, pts) := if min > trBC then (trBC, (⟨pointA, pointB, pointC, pointD⟩ : Quad F)) else (min, pts)
    let (min, pts) := if min > trCD then (trCD, (⟨pointB, pointC, pointD, pointA⟩ : Quad F)) else (min, pts)
    let pts := if min > trDA then (⟨pointC, pointD, pointA, pointB⟩ : Quad F) else pts
    return pts
  | _ => .error (.panic "cornerPoints index out of range")

/-- `detectSolid2(points)` -/
def detectSolid2 {F : Type} (o : FOps F) (rd : Reader) (h : Int) (p : Quad F) : Res (Quad F) := do
  let tr ← transitionsBetween o rd h p.a p.d
  let pointBs := shiftPoint o p.b p.c ((tr + 1) * 4)
  let pointCs := shiftPoint o p.c p.b ((tr + 1) * 4)
  let trBA ← transitionsBetween o rd h pointBs p.a
  let trCD ← transitionsBetween o rd h pointCs p.d
  if trBA < trCD then return ⟨p.a, p.b, p.c, p.d⟩ else return ⟨p.b, p.c, p.d, p.a⟩

/-- `correctTopRight(points)`; `none` = nil -/
def correctTopRight {F : Type} (o : FOps F) (rd : Reader) (w h : Int) (p : Quad F) : Res (Option (FPt F)) := do
  let trTop ← transitionsBetween o rd h p.a p.d
  let trRight ← transitionsBetween o rd h p.b p.d
  let pointAs := shiftPoint o p.a p.b ((trRight + 1) * 4)
  let pointCs := shiftPoint o p.c p.b ((trTop + 1) * 4)
  let trTop ← transitionsBetween o rd h pointAs p.d
  let trRight ← transitionsBetween o rd h pointCs p.d
  let candidate1 : FPt F :=
    { x := o.add p.d.x (o.div (o.sub p.c.x p.b.x) (o.ofInt (trTop + 1))),
      y := o.add p.d.y (o.div (o.sub p.c.y p.b.y) (o.ofInt (trTop + 1))) }
  let candidate2 : FPt F :=
    { x := o.add p.d.x (o.div (o.sub p.a.x p.b.x) (o.ofInt (trRight + 1))),
      y := o.add p.d.y (o.div (o.sub p.a.y p.b.y) (o.ofInt (trRight + 1))) }
  if !isValid o w h candidate1 then
    if isValid o w h candidate2 then return some candidate2
    return none
  if !isValid o w h candidate2 then return some candidate1
  let s1a ← transitionsBetween o rd h pointAs candidate1
  let s1b ← transitionsBetween o rd h pointCs candidate1
  let s2a ← transitionsBetween o rd h pointAs candidate2
  let s2b ← transitionsBetween o rd h pointCs candidate2
  if s1a + s1b > s2a + s2b then return some candidate1 else return some candidate2

/-- `shiftToModuleCenter(points)` -/
def shiftToModuleCenter {F : Type} (o : FOps F) (rd : Reader) (h : Int) (p : Quad F) : Res (Quad F) := do
  let dimH ← transitionsBetween o rd h p.a p.d
  let dimV ← transitionsBetween o rd h p.c p.d
  let dimH := dimH + 1
  let dimV := dimV + 1
  let pointAs := shiftPoint o p.a p.b (dimV * 4)
  let pointCs := shiftPoint o p.c p.b (dimH * 4)
  let dimH ← transitionsBetween o rd h pointAs p.d
  let dimV ← transitionsBetween o rd h pointCs p.d
  let dimH := dimH + 1
  let dimV := dimV + 1
  let dimH := if dimH % 2 = 1 then dimH + 1 else dimH
  let dimV := if dimV % 2 = 1 then dimV + 1 else dimV
  let four := o.ofInt 4
  let centerX := o.div (o.add (o.add (o.add p.a.x p.b.x) p.c.x) p.d.x) four
  let centerY := o.div (o.add (o.add (o.add p.a.y p.b.y) p.c.y) p.d.y) four
  let pointA := moveAway o p.a centerX centerY
  let pointB := moveAway o p.b centerX centerY
  let pointC := moveAway o p.c centerX centerY
  let pointD := moveAway o p.d centerX centerY
  let pointAs := shiftPoint o (shiftPoint o pointA pointB (dimV * 4)) pointD (dimH * 4)
  let pointBs := shiftPoint o (shiftPoint o pointB pointA (dimV * 4)) pointC (dimH * 4)
  let pointCs := shiftPoint o (shiftPoint o pointC pointD (dimV * 4)) pointB (dimH * 4)
  let pointDs := shiftPoint o (shiftPoint o pointD pointC (dimV * 4)) pointA (dimH * 4)
  return ⟨pointAs, pointBs, pointCs, pointDs⟩

structure Located (F : Type) where
  topLeft : FPt F
  bottomLeft : FPt F
  bottomRight : FPt F
  topRight : FPt F
  dimensionTop : Int
  dimensionRight : Int

/-- `Detect()` after the WhiteRectangleDetector, up to the `sampleGrid` call -/
def locate {F : Type} (o : FOps F) (rd : Reader) (w h : Int) (cornerPoints : List (FPt F)) : Res (Located F) := do
  let p ← detectSolid1 o rd h cornerPoints
  let p ← detectSolid2 o rd h p
  let some d ← correctTopRight o rd w h p | .error .notFound
  let p ← shiftToModuleCenter o rd h ⟨p.a, p.b, p.c, d⟩
  let topLeft := p.a
  let bottomLeft := p.b
  let bottomRight := p.c
  let topRight := p.d
  let dimensionTop ← transitionsBetween o rd h topLeft topRight
  let dimensionRight ← transitionsBetween o rd h bottomRight topRight
  let dimensionTop := dimensionTop + 1
  let dimensionRight := dimensionRight + 1
  let dimensionTop := if dimensionTop % 2 = 1 then dimensionTop + 1 else dimensionTop
  let dimensionRight := if dimensionRight % 2 = 1 then dimensionRight + 1 else dimensionRight
  if 4 * dimensionTop < 6 * dimensionRight ∧ 4 * dimensionRight < 6 * dimensionTop then
    let m := if dimensionTop > dimensionRight then dimensionTop else dimensionRight
    return ⟨topLeft, bottomLeft, bottomRight, topRight, m, m⟩
  return ⟨topLeft, bottomLeft, bottomRight, topRight, dimensionTop, dimensionRight⟩

/-- `NewDetector(image)` + `Detect()` up to the `sampleGrid` call -/
def detect {F : Type} (o : FOps F) (rd : Reader) (w h : Int) : Res (Located F) := do
  let d ← WRD.newFromImage w h
  let pts ← WRD.detect o rd w h d
  locate o rd w h (pts.map (fun p => { x := o.ofInt p.1, y := o.ofInt p.2 }))

end Gzx.Det.DM
