/-
  Model of multi/qrcode/detector (C06, work package detrest):
    MultiFinderPatternFinder.FindMulti            — the row scan without the skip/early-exit logic of the
                                                    single-symbol finder (shares `HandlePossibleCenter`),
    MultiFinderPatternFinder.selectMultipleBestPatterns
                                                  — sort by module size, the three nested INDEX loops with
                                                    their `break` / `continue` tests,
    MultiDetector.DetectMulti                     — `ProcessFinderPatternInfo` per triple, failures ignored,
  and of `processStructuredAppend` of multi/qrcode/qrcode_multi_reader.go.
  `sort.Slice` is a PARAMETER (`sort : List α → List α`): Go's sort is not stable, all the theorems need is
  that it returns a permutation.  Slice accesses are checked (`idx`): an index outside the slice is a panic.
-/
import Gzx.Model.DetQRDetector
namespace Gzx.Det.Multi
open Gzx Gzx.Det Gzx.Det.QR

/-- `s[i]` -/
def idx {α : Type} (l : List α) (i : Int) : Res α :=
  if i < 0 then .error (.panic "index out of range (negative)")
  else match l[i.toNat]? with
    | some a => .ok a
    | none => .error (.panic "index out of range")

/-- `math.Min` (NaN if either is NaN) -/
def fmin {F : Type} (o : FOps F) (a b : F) : F :=
  if o.isNaN a || o.isNaN b then o.nan else if o.lt a b then a else b

/-! ## FindMulti: the scan -/

structure MScan (F : Type) where
  fs : FS F
  sc : SC5
  cur : Int

/-- body of the `for j` loop of `FindMulti` for the pixel `(j, i)` -/
def mPixelStep {F : Type} (o : FOps F) (rd : Reader) (maxI maxJ : Int) (i : Int) (s : MScan F) (j : Int) : Res (MScan F) := do
  if (← rd j i) then
    let cur := if s.cur % 2 = 1 then s.cur + 1 else s.cur
    let sc ← s.sc.inc cur
    return { s with sc := sc, cur := cur }
  else if s.cur % 2 = 0 then
    if s.cur = 4 then
      if foundPatternCross o s.sc then
        let (confirmed, fs) ← handlePossibleCenter o rd maxI maxJ s.fs s.sc i j
        if confirmed then return { fs := fs, cur := 0, sc := SC5.zero }
        else return { fs := fs, sc := s.sc.shift2, cur := 3 }
      else return { s with sc := s.sc.shift2, cur := 3 }
    else
      let sc ← s.sc.inc (s.cur + 1)
      return { s with sc := sc, cur := s.cur + 1 }
  else
    let sc ← s.sc.inc s.cur
    return { s with sc := sc }

def mRowLoop {F : Type} (o : FOps F) (rd : Reader) (maxI maxJ i : Int) : Nat → Int → MScan F → Res (MScan F)
  | 0, _, s => .ok s
  | n + 1, j, s => do
    let s' ← mPixelStep o rd maxI maxJ i s j
    mRowLoop o rd maxI maxJ i n (j + 1) s'

/-- one iteration of the `for i` loop -/
def mScanRow {F : Type} (o : FOps F) (rd : Reader) (maxI maxJ i : Int) (fs : FS F) : Res (FS F) := do
  let s ← mRowLoop o rd maxI maxJ i maxJ.toNat 0 { fs := fs, sc := SC5.zero, cur := 0 }
  if foundPatternCross o s.sc then
    let (_, fs) ← handlePossibleCenter o rd maxI maxJ s.fs s.sc i maxJ
    return fs
  else return s.fs

/-- `for i := iSkip - 1; i < maxI; i += iSkip` -/
def mRowsLoop {F : Type} (o : FOps F) (rd : Reader) (maxI maxJ iSkip : Int) : Nat → Int → FS F → Res (FS F)
  | 0, i, fs => if i < maxI then .error .fuel else .ok fs
  | n + 1, i, fs =>
    if i < maxI then do
      let fs' ← mScanRow o rd maxI maxJ i fs
      mRowsLoop o rd maxI maxJ iSkip n (i + iSkip) fs'
    else .ok fs

/-- `iSkip := (3 * maxI) / (4 * MAX_MODULES); if iSkip < MIN_SKIP || tryHarder { iSkip = MIN_SKIP }`
    (tied to /repo by the regenerated kernel `Gen.KDetrest.multiRowStep`) -/
def rowStep (maxI : Int) (tryHarder : Bool) : Int :=
  let iSkip0 := Int.tdiv (3 * maxI) (4 * 97)
  if iSkip0 < 3 ∨ tryHarder then 3 else iSkip0

/-- the scan part of `FindMulti`: the possible centres -/
def findMultiScan {F : Type} (o : FOps F) (rd : Reader) (maxI maxJ : Int) (tryHarder : Bool) : Res (List (FP F)) := do
  let iSkip := rowStep maxI tryHarder
  let fs ← mRowsLoop o rd maxI maxJ iSkip (maxI.toNat + 1) (iSkip - 1) { centers := [], hasSkipped := false }
  return fs.centers

/-! ## selectMultipleBestPatterns -/

abbrev Triple (F : Type) := FP F × FP F × FP F   -- (bottomLeft, topLeft, topRight)

/-- the `break` test between two neighbours of the size-sorted list -/
def sizeBreak {F : Type} (o : FOps F) (a b : FP F) : Bool :=
  let v := o.div (o.sub a.size b.size) (fmin o a.size b.size)
  let va := o.abs (o.sub a.size b.size)
  o.gt va (o.lit 1 2) && o.ge v (o.lit 5 100)

/-- the geometric tests on an ordered triple: `none` = `continue` -/
def tripleOK {F : Type} (o : FOps F) (p1 p2 p3 : FP F) : Option (Triple F) :=
  let (bl, tl, tr) := orderBestPatterns o p1 p2 p3
  let dist := fun (a b : FP F) => o.distanceF a.x a.y b.x b.y
  let dA := dist tl bl
  let dC := dist tr bl
  let dB := dist tl tr
  let estimatedModuleCount := o.div (o.add dA dB) (o.mul p1.size (o.ofInt 2))
  if o.gt estimatedModuleCount (o.ofInt 180) || o.lt estimatedModuleCount (o.ofInt 9) then none
  else
    let vABBC := o.abs (o.div (o.sub dA dB) (fmin o dA dB))
    if o.ge vABBC (o.lit 1 10) then none
    else
      let dCpy := o.sqrt (o.add (o.mul dA dA) (o.mul dB dB))
      let vPyC := o.abs (o.div (o.sub dC dCpy) (fmin o dC dCpy))
      if o.ge vPyC (o.lit 1 10) then none
      else some (bl, tl, tr)

/-- `for i3 := …; i3 < size; i3++` with `n` rounds left -/
def loop3 {F : Type} (o : FOps F) (cs : List (FP F)) (p1 p2 : FP F) : Nat → Int → List (Triple F) → Res (List (Triple F))
  | 0, _, acc => .ok acc
  | n + 1, i3, acc => do
    let p3 ← idx cs i3
    if sizeBreak o p2 p3 then return acc
    else
      match tripleOK o p1 p2 p3 with
      | some t => loop3 o cs p1 p2 n (i3 + 1) (acc ++ [t])
      | none => loop3 o cs p1 p2 n (i3 + 1) acc

/-- `for i2 := …; i2 < size - 1; i2++` -/
def loop2 {F : Type} (o : FOps F) (cs : List (FP F)) (size : Int) (p1 : FP F) : Nat → Int → List (Triple F) → Res (List (Triple F))
  | 0, _, acc => .ok acc
  | n + 1, i2, acc => do
    let p2 ← idx cs i2
    if sizeBreak o p1 p2 then return acc
    else do
      let acc ← loop3 o cs p1 p2 (size - (i2 + 1)).toNat (i2 + 1) acc
      loop2 o cs size p1 n (i2 + 1) acc

/-- `for i1 := 0; i1 < size - 2; i1++` -/
def loop1 {F : Type} (o : FOps F) (cs : List (FP F)) (size : Int) : Nat → Int → List (Triple F) → Res (List (Triple F))
  | 0, _, acc => .ok acc
  | n + 1, i1, acc => do
    let p1 ← idx cs i1
    let acc ← loop2 o cs size p1 (size - 1 - (i1 + 1)).toNat (i1 + 1) acc
    loop1 o cs size n (i1 + 1) acc

/-- `selectMultipleBestPatterns()`; `sort` = `sort.Slice(possibleCenters, ModuleSizeComparator)` (largest
    module size first).  `size` is taken BEFORE sorting, as in Go. -/
def selectMultipleBestPatterns {F : Type} (o : FOps F) (sort : List (FP F) → List (FP F)) (centers : List (FP F)) :
    Res (List (Triple F)) := do
  let size : Int := centers.length
  if size < 3 then .error .notFound
  else if size = 3 then do
    let a ← idx centers 0
    let b ← idx centers 1
    let c ← idx centers 2
    return [(a, b, c)]
  else do
    let cs := sort centers
    let results ← loop1 o cs size (size - 2).toNat 0 []
    if results.length > 0 then return results else .error .notFound

/-- the part of `FindMulti(hints)` after the scan: selection, then every selected triple ordered once more -/
def selectAndOrder {F : Type} (o : FOps F) (sort : List (FP F) → List (FP F)) (centers : List (FP F)) :
    Res (List (Triple F)) := do
  let patternInfo ← selectMultipleBestPatterns o sort centers
  return patternInfo.map (fun t => orderBestPatterns o t.1 t.2.1 t.2.2)

/-- `FindMulti(hints)` -/
def findMulti {F : Type} (o : FOps F) (sort : List (FP F) → List (FP F)) (rd : Reader) (maxI maxJ : Int) (tryHarder : Bool) :
    Res (List (Triple F)) := do
  let centers ← findMultiScan o rd maxI maxJ tryHarder
  selectAndOrder o sort centers

/-- the insertion sort `sort.Slice` performs on fewer than 12 elements, for `ModuleSizeComparator`
    (`less(i, j) = size[j] - size[i] < 0`): executable instance of `sort` for the driver -/
def insBySize {F : Type} (o : FOps F) (x : FP F) : List (FP F) → List (FP F)
  | [] => [x]
  | y :: ys => if o.lt (o.sub y.size x.size) (o.ofInt 0) then y :: insBySize o x ys else x :: y :: ys

def sortBySizeDesc {F : Type} (o : FOps F) (l : List (FP F)) : List (FP F) :=
  (l.foldl (fun acc x => insBySize o x acc) []).reverse

/-! ## DetectMulti -/

/-- `DetectMulti(hints)` up to the sampling calls: `ProcessFinderPatternInfo` for every triple; a
    NotFound / Format failure of one triple is ignored (`continue`) -/
def detectMultiLoop {F : Type} (o : FOps F) (rd : Reader) (w h : Int) : List (Triple F) → Res (List (Located F))
  | [] => .ok []
  | (bl, tl, tr) :: rest =>
    match locate o rd w h tl tr bl with
    | .ok l => do
      let ls ← detectMultiLoop o rd w h rest
      return l :: ls
    | .error .notFound => detectMultiLoop o rd w h rest
    | .error .format => detectMultiLoop o rd w h rest
    | .error e => .error e

/-- `DetectMulti` from the scanned centres on -/
def detectMultiFrom {F : Type} (o : FOps F) (sort : List (FP F) → List (FP F)) (rd : Reader) (w h : Int)
    (centers : List (FP F)) : Res (List (Located F)) :=
  match selectAndOrder o sort centers with
  | .ok infos => if infos.length = 0 then .error .notFound else detectMultiLoop o rd w h infos
  | .error .notFound => .error .notFound
  | .error e => .error e

def detectMulti {F : Type} (o : FOps F) (sort : List (FP F) → List (FP F)) (rd : Reader) (w h : Int) (tryHarder : Bool) :
    Res (List (Located F)) := do
  let centers ← findMultiScan o rd h w tryHarder
  detectMultiFrom o sort rd w h centers

end Gzx.Det.Multi
