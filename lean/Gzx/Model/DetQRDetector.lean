/-
  Model of qrcode/detector/detector.go (module size estimation, `computeDimension`,
  `findAlignmentInRegion`, `ProcessFinderPatternInfo` up to the sampling call) and
  alignment_pattern_finder.go / alignment_pattern.go — C06, detectors.
  Grid sampling itself (`Detector_sampleGrid`) is the C19 model.
-/
import Gzx.Model.DetQRFinder
namespace Gzx.Det.QR
open Gzx Gzx.Det

/-! ## sizeOfBlackWhiteBlackRun -/

/-- the `for x, y := fromX, fromY; x != xLimit; x += xstep` loop (coordinates already swapped when
    `steep`).  `n` = remaining values of `x`.  `inl d` = returned from inside the loop, `inr state` = fell
    out of the loop (also through `break`). -/
def bwbLoop {F : Type} (o : FOps F) (rd : Reader) (steep : Bool) (fromX fromY toY dx dy xstep ystep : Int) :
    Nat → Int → Int → Int → Int → Res (F ⊕ Int)
  | 0, _, _, _, state => .ok (.inr state)
  | n + 1, x, y, err, state => do
    let b ← rd (if steep then y else x) (if steep then x else y)
    if (decide (state = 1) == b) && decide (state = 2) then
      return .inl (o.distanceInt x y fromX fromY)
    let state := if decide (state = 1) == b then state + 1 else state
    let err := err + dy
    if err > 0 then
      if y = toY then return .inr state
      bwbLoop o rd steep fromX fromY toY dx dy xstep ystep n (x + xstep) (y + ystep) (err - dx) state
    else bwbLoop o rd steep fromX fromY toY dx dy xstep ystep n (x + xstep) y err state

/-- `sizeOfBlackWhiteBlackRun(fromX, fromY, toX, toY)` -/
def sizeOfBlackWhiteBlackRun {F : Type} (o : FOps F) (rd : Reader) (fromX fromY toX toY : Int) : Res F := do
  let adx := (toX - fromX).natAbs
  let ady := (toY - fromY).natAbs
  let steep := decide (ady > adx)
  let (fromX, fromY, toX, toY) := if steep then (fromY, fromX, toY, toX) else (fromX, fromY, toX, toY)
  let dx : Int := if steep then ady else adx
  let dy : Int := if steep then adx else ady
  let xstep : Int := if fromX ≥ toX then -1 else 1
  let ystep : Int := if fromY ≥ toY then -1 else 1
  match ← bwbLoop o rd steep fromX fromY toY dx dy xstep ystep (dx.toNat + 1) fromX fromY (Int.tdiv (-dx) 2) 0 with
  | .inl d => return d
  | .inr state =>
    if state = 2 then return o.distanceInt (toX + xstep) toY fromX fromY
    return o.nan

/-- `sizeOfBlackWhiteBlackRunBothWays(fromX, fromY, toX, toY)` -/
def sizeOfBlackWhiteBlackRunBothWays {F : Type} (o : FOps F) (rd : Reader) (w h : Int)
    (fromX fromY toX toY : Int) : Res F := do
  let result ← sizeOfBlackWhiteBlackRun o rd fromX fromY toX toY
  let otherToX0 := fromX - (toX - fromX)
  let (scale, otherToX) :=
    if otherToX0 < 0 then (o.div (o.ofInt fromX) (o.ofInt (fromX - otherToX0)), (0 : Int))
    else if otherToX0 ≥ w then (o.div (o.ofInt (w - 1 - fromX)) (o.ofInt (otherToX0 - fromX)), w - 1)
    else (o.ofInt 1, otherToX0)
  let otherToY0 := o.toInt (o.sub (o.ofInt fromY) (o.mul (o.ofInt (toY - fromY)) scale))
  let (scale, otherToY) :=
    if otherToY0 < 0 then (o.div (o.ofInt fromY) (o.ofInt (fromY - otherToY0)), (0 : Int))
    else if otherToY0 ≥ h then (o.div (o.ofInt (h - 1 - fromY)) (o.ofInt (otherToY0 - fromY)), h - 1)
    else (o.ofInt 1, otherToY0)
  let otherToX := o.toInt (o.add (o.ofInt fromX) (o.mul (o.ofInt (otherToX - fromX)) scale))
  let r2 ← sizeOfBlackWhiteBlackRun o rd fromX fromY otherToX otherToY
  return o.sub (o.add result r2) (o.ofInt 1)

/-- `calculateModuleSizeOneWay(pattern, otherPattern)` -/
def calculateModuleSizeOneWay {F : Type} (o : FOps F) (rd : Reader) (w h : Int) (p q : FP F) : Res F := do
  let e1 ← sizeOfBlackWhiteBlackRunBothWays o rd w h (o.toInt p.x) (o.toInt p.y) (o.toInt q.x) (o.toInt q.y)
  let e2 ← sizeOfBlackWhiteBlackRunBothWays o rd w h (o.toInt q.x) (o.toInt q.y) (o.toInt p.x) (o.toInt p.y)
  if o.isNaN e1 then return o.div e2 (o.ofInt 7)
  if o.isNaN e2 then return o.div e1 (o.ofInt 7)
  return o.div (o.add e1 e2) (o.ofInt 14)

/-- `calculateModuleSize(topLeft, topRight, bottomLeft)` -/
def calculateModuleSize {F : Type} (o : FOps F) (rd : Reader) (w h : Int) (tl tr bl : FP F) : Res F := do
  let a ← calculateModuleSizeOneWay o rd w h tl tr
  let b ← calculateModuleSizeOneWay o rd w h tl bl
  return o.div (o.add a b) (o.ofInt 2)

/-- Go `int` addition: two's complement wrap-around at 64 bits.  Needed here because `int(NaN)` and
    `int(±Inf)` are -2^63 on amd64 and `computeDimension` adds two of them (NaN module size). -/
def wrap64 (a : Int) : Int := (a + 9223372036854775808) % 18446744073709551616 - 9223372036854775808

/-- the integer tail of `computeDimension`: `((a + b) / 2) + 7`, then the `dimension % 4` switch
    (Go's `/` and `%` truncate toward zero) -/
def adjustDimension (tltr tlbl : Int) : Res Int :=
  let dimension := Int.tdiv (wrap64 (tltr + tlbl)) 2 + 7
  let m := Int.tmod dimension 4
  if m = 0 then .ok (dimension + 1)
  else if m = 2 then .ok (dimension - 1)
  else if m = 3 then .error .notFound
  else .ok dimension

/-- `computeDimension(topLeft, topRight, bottomLeft, moduleSize)` -/
def computeDimension {F : Type} (o : FOps F) (tl tr bl : FP F) (moduleSize : F) : Res Int :=
  adjustDimension (o.round (o.div (o.distanceF tl.x tl.y tr.x tr.y) moduleSize))
    (o.round (o.div (o.distanceF tl.x tl.y bl.x bl.y) moduleSize))

/-! ## AlignmentPatternFinder -/

structure SC3 where
  c0 : Int
  c1 : Int
  c2 : Int
  deriving Repr, DecidableEq

def SC3.inc (s : SC3) (i : Int) : Res SC3 :=
  if i = 0 then .ok { s with c0 := s.c0 + 1 }
  else if i = 1 then .ok { s with c1 := s.c1 + 1 }
  else if i = 2 then .ok { s with c2 := s.c2 + 1 }
  else .error (.panic "stateCount index out of range")

structure AP (F : Type) where
  x : F
  y : F
  size : F

/-- `AlignmentPatternFinder.foundPatternCross` -/
def apFoundPatternCross {F : Type} (o : FOps F) (moduleSize : F) (s : SC3) : Bool :=
  let mv := o.div moduleSize (o.ofInt 2)
  !(o.ge (o.abs (o.sub moduleSize (o.ofInt s.c0))) mv) &&
  !(o.ge (o.abs (o.sub moduleSize (o.ofInt s.c1))) mv) &&
  !(o.ge (o.abs (o.sub moduleSize (o.ofInt s.c2))) mv)

def apCenterFromEnd {F : Type} (o : FOps F) (s : SC3) (e : Int) : F :=
  o.sub (o.ofInt (e - s.c2)) (o.div (o.ofInt s.c1) (o.ofInt 2))

/-- `AlignmentPatternFinder.crossCheckVertical(startI, centerJ, maxCount, originalStateCountTotal)` -/
def apCrossCheckVertical {F : Type} (o : FOps F) (rd : Reader) (maxI : Int) (moduleSize : F)
    (startI centerJ maxCount origTotal : Int) : Res F := do
  let pt : Int → Int × Int := fun p => (centerJ, p)
  let ge0 : Int → Bool := fun p => decide (p ≥ 0)
  let ltM : Int → Bool := fun p => decide (p < maxI)
  let cap : Int → Bool := fun c => decide (c ≤ maxCount)
  let r ← walk rd pt true (-1) ge0 cap (fuelTo0 startI) startI 0
  if r.1 < 0 ∨ r.2 > maxCount then return o.nan
  let c1 := r.2
  let r ← walk rd pt false (-1) ge0 cap (fuelTo0 r.1) r.1 0
  if r.2 > maxCount then return o.nan
  let c0 := r.2
  let r ← walk rd pt true 1 ltM cap (fuelTo maxI (startI + 1)) (startI + 1) c1
  if r.1 = maxI ∨ r.2 > maxCount then return o.nan
  let c1 := r.2
  let r ← walk rd pt false 1 ltM cap (fuelTo maxI r.1) r.1 0
  if r.2 > maxCount then return o.nan
  let sc : SC3 := ⟨c0, c1, r.2⟩
  let total := sc.c0 + sc.c1 + sc.c2
  if 5 * ((total - origTotal).natAbs : Int) ≥ 2 * origTotal then return o.nan
  if apFoundPatternCross o moduleSize sc then return apCenterFromEnd o sc r.1
  return o.nan

def AP.aboutEquals {F : Type} (o : FOps F) (a : AP F) (moduleSize i j : F) : Bool :=
  if o.le (o.abs (o.sub i a.y)) moduleSize && o.le (o.abs (o.sub j a.x)) moduleSize then
    let d := o.abs (o.sub moduleSize a.size)
    o.le d (o.ofInt 1) || o.le d a.size
  else false

def AP.combine {F : Type} (o : FOps F) (a : AP F) (i j newSize : F) : AP F :=
  { x := o.div (o.add a.x j) (o.ofInt 2), y := o.div (o.add a.y i) (o.ofInt 2),
    size := o.div (o.add a.size newSize) (o.ofInt 2) }

/-- `AlignmentPatternFinder.handlePossibleCenter(stateCount, i, j)`: a confirmed pattern, or the
    (possibly extended) list of candidates -/
def apHandlePossibleCenter {F : Type} (o : FOps F) (rd : Reader) (maxI : Int) (moduleSize : F)
    (centers : List (AP F)) (sc : SC3) (i j : Int) : Res (Option (AP F) × List (AP F)) := do
  let total := sc.c0 + sc.c1 + sc.c2
  let centerJ := apCenterFromEnd o sc j
  let centerI ← apCrossCheckVertical o rd maxI moduleSize i (o.toInt centerJ) (2 * sc.c1) total
  if o.isNaN centerI then return (none, centers)
  let size := o.div (o.ofInt total) (o.ofInt 3)
  match centers.find? (fun c => c.aboutEquals o size centerI centerJ) with
  | some c => return (some (c.combine o centerI centerJ size), centers)
  | none => return (none, centers ++ [{ x := centerJ, y := centerI, size := size }])

structure APScan (F : Type) where
  centers : List (AP F)
  sc : SC3
  cur : Int

/-- the `for j < maxJ` loop of `Find` on row `i`; `inl` = a confirmed pattern (returned at once) -/
def apRowLoop {F : Type} (o : FOps F) (rd : Reader) (maxI : Int) (moduleSize : F) (i : Int) :
    Nat → Int → APScan F → Res (AP F ⊕ APScan F)
  | 0, _, s => .ok (.inr s)
  | n + 1, j, s => do
    if (← rd j i) then
      if s.cur = 1 then
        let sc ← s.sc.inc 1
        apRowLoop o rd maxI moduleSize i n (j + 1) { s with sc := sc }
      else if s.cur = 2 then
        let shifted : SC3 := ⟨s.sc.c2, 1, 0⟩
        if apFoundPatternCross o moduleSize s.sc then
          let (confirmed, centers) ← apHandlePossibleCenter o rd maxI moduleSize s.centers s.sc i j
          match confirmed with
          | some a => return .inl a
          | none => apRowLoop o rd maxI moduleSize i n (j + 1) { centers := centers, sc := shifted, cur := 1 }
        else apRowLoop o rd maxI moduleSize i n (j + 1) { s with sc := shifted, cur := 1 }
      else
        let sc ← s.sc.inc (s.cur + 1)
        apRowLoop o rd maxI moduleSize i n (j + 1) { s with sc := sc, cur := s.cur + 1 }
    else
      let cur := if s.cur = 1 then s.cur + 1 else s.cur
      let sc ← s.sc.inc cur
      apRowLoop o rd maxI moduleSize i n (j + 1) { s with sc := sc, cur := cur }

/-- `for iGen := 0; iGen < height; iGen++` — `n` remaining rows -/
def apRowsLoop {F : Type} (o : FOps F) (rd : Reader) (maxI : Int) (moduleSize : F) (startX maxJ middleI : Int) :
    Nat → Int → List (AP F) → Res (AP F ⊕ List (AP F))
  | 0, _, centers => .ok (.inr centers)
  | n + 1, iGen, centers => do
    let half := Int.tdiv (iGen + 1) 2
    let i := if iGen % 2 = 0 then middleI + half else middleI - half
    -- burn off leading white pixels
    let r ← walk rd (fun j => (j, i)) false 1 (fun j => decide (j < maxJ)) (fun _ => true) (fuelTo maxJ startX) startX 0
    let j := r.1
    match ← apRowLoop o rd maxI moduleSize i (maxJ - j).toNat j { centers := centers, sc := ⟨0, 0, 0⟩, cur := 0 } with
    | .inl a => return .inl a
    | .inr s =>
      if apFoundPatternCross o moduleSize s.sc then
        let (confirmed, centers) ← apHandlePossibleCenter o rd maxI moduleSize s.centers s.sc i maxJ
        match confirmed with
        | some a => return .inl a
        | none => apRowsLoop o rd maxI moduleSize startX maxJ middleI n (iGen + 1) centers
      else apRowsLoop o rd maxI moduleSize startX maxJ middleI n (iGen + 1) s.centers

/-- `NewAlignmentPatternFinder(image, startX, startY, width, height, moduleSize, nil).Find()` -/
def apFind {F : Type} (o : FOps F) (rd : Reader) (maxI : Int) (startX startY width height : Int) (moduleSize : F) :
    Res (AP F) := do
  match ← apRowsLoop o rd maxI moduleSize startX (startX + width) (startY + Int.tdiv height 2) height.toNat 0 [] with
  | .inl a => return a
  | .inr centers =>
    match centers with
    | c :: _ => return c
    | [] => .error .notFound

/-- `findAlignmentInRegion(overallEstModuleSize, estAlignmentX, estAlignmentY, allowanceFactor)` -/
def findAlignmentInRegion {F : Type} (o : FOps F) (rd : Reader) (w h : Int) (moduleSize : F)
    (estX estY : Int) (allowanceFactor : F) : Res (AP F) :=
  let allowance := o.toInt (o.mul allowanceFactor moduleSize)
  let leftX := if estX - allowance < 0 then 0 else estX - allowance
  let rightX := if w - 1 < estX + allowance then w - 1 else estX + allowance
  if o.lt (o.ofInt (rightX - leftX)) (o.mul moduleSize (o.ofInt 3)) then .error .notFound
  else
    let topY := if estY - allowance < 0 then 0 else estY - allowance
    let bottomY := if h - 1 < estY + allowance then h - 1 else estY + allowance
    if o.lt (o.ofInt (bottomY - topY)) (o.mul moduleSize (o.ofInt 3)) then .error .notFound
    else apFind o rd h leftX topY (rightX - leftX) (bottomY - topY) moduleSize

/-! ## ProcessFinderPatternInfo (up to the sampling call) -/

/-- `for i := 4; i <= 16; i <<= 1 { findAlignmentInRegion(…, float64(i)) }` — first success wins -/
def alignmentSearch {F : Type} (o : FOps F) (rd : Reader) (w h : Int) (moduleSize : F) (estX estY : Int) :
    List Int → Res (Option (AP F))
  | [] => .ok none
  | i :: is =>
    match findAlignmentInRegion o rd w h moduleSize estX estY (o.ofInt i) with
    | .ok a => .ok (some a)
    | .error .notFound => alignmentSearch o rd w h moduleSize estX estY is
    | .error e => .error e

structure Located (F : Type) where
  moduleSize : F
  dimension : Int
  alignment : Option (AP F)

/-- `ProcessFinderPatternInfo(info)` before `Detector_createTransform` / `Detector_sampleGrid`.
    `Version_GetProvisionalVersionForDimension`: `dimension % 4 == 1` and version `(dimension-17)/4` in
    1..40, else FormatException; versions ≥ 2 have alignment patterns. -/
def locate {F : Type} (o : FOps F) (rd : Reader) (w h : Int) (tl tr bl : FP F) : Res (Located F) := do
  let moduleSize ← calculateModuleSize o rd w h tl tr bl
  if o.lt moduleSize (o.ofInt 1) then .error .notFound
  let dimension ← computeDimension o tl tr bl moduleSize
  if Int.tmod dimension 4 ≠ 1 then .error .format
  let v := Int.tdiv (dimension - 17) 4
  if v < 1 ∨ v > 40 then .error .format
  let modulesBetween := 17 + 4 * v - 7
  if v ≥ 2 then
    let brX := o.add (o.sub tr.x tl.x) bl.x
    let brY := o.add (o.sub tr.y tl.y) bl.y
    let corr := o.sub (o.ofInt 1) (o.div (o.ofInt 3) (o.ofInt modulesBetween))
    let estX := o.toInt (o.add tl.x (o.mul corr (o.sub brX tl.x)))
    let estY := o.toInt (o.add tl.y (o.mul corr (o.sub brY tl.y)))
    let a ← alignmentSearch o rd w h moduleSize estX estY [4, 8, 16]
    return { moduleSize := moduleSize, dimension := dimension, alignment := a }
  else return { moduleSize := moduleSize, dimension := dimension, alignment := none }

/-- `Detector.Detect(hints)` up to the sampling call -/
def detect {F : Type} (o : FOps F) (rd : Reader) (w h : Int) (tryHarder : Bool) : Res (FinderInfo F × Located F) := do
  let info ← find o rd h w tryHarder
  let loc ← locate o rd w h info.topLeft info.topRight info.bottomLeft
  return (info, loc)

end Gzx.Det.QR
