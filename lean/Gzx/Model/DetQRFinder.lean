/-
  Model of qrcode/detector/finder_pattern_finder.go (FinderPatternFinder), finder_pattern.go and
  gozxing.ResultPoint_OrderBestPatterns — C06, detectors.

  Integer logic (row scan state machine, `stateCount[5]` indexing, `iSkip`, row skipping, cross-check
  walks) is exact; every float64 expression goes through `FOps` (arbitrary in the theorems, IEEE in the
  driver).  `stateCount` is a record of five counters; indexing it with a computed index is a
  possible Go index panic and modelled as such.
-/
import Gzx.Model.DetWalk
namespace Gzx.Det.QR
open Gzx Gzx.Det

/-! ## stateCount -/

structure SC5 where
  c0 : Int
  c1 : Int
  c2 : Int
  c3 : Int
  c4 : Int
  deriving Repr, DecidableEq

def SC5.zero : SC5 := ⟨0, 0, 0, 0, 0⟩

/-- `stateCount[i]++` -/
def SC5.inc (s : SC5) (i : Int) : Res SC5 :=
  if i = 0 then .ok { s with c0 := s.c0 + 1 }
  else if i = 1 then .ok { s with c1 := s.c1 + 1 }
  else if i = 2 then .ok { s with c2 := s.c2 + 1 }
  else if i = 3 then .ok { s with c3 := s.c3 + 1 }
  else if i = 4 then .ok { s with c4 := s.c4 + 1 }
  else .error (.panic "stateCount index out of range")

/-- `doShiftCounts2` -/
def SC5.shift2 (s : SC5) : SC5 := ⟨s.c2, s.c3, s.c4, 1, 0⟩

def SC5.total (s : SC5) : Int := s.c0 + s.c1 + s.c2 + s.c3 + s.c4

/-- the integer part of `foundPatternCross` / `foundPatternDiagonal`: no zero count, total ≥ 7 -/
def SC5.plausible (s : SC5) : Bool :=
  !(s.c0 == 0 || s.c1 == 0 || s.c2 == 0 || s.c3 == 0 || s.c4 == 0) && decide (7 ≤ s.total)

/-- the float part: `moduleSize = total/7.0`, `maxVariance = moduleSize/den`, five `math.Abs(…) < …` tests -/
def crossRatio {F : Type} (o : FOps F) (s : SC5) (maxVariance : F → F) : Bool :=
  let moduleSize := o.div (o.ofInt s.total) (o.ofInt 7)
  let mv := maxVariance moduleSize
  o.lt (o.abs (o.sub moduleSize (o.ofInt s.c0))) mv &&
  o.lt (o.abs (o.sub moduleSize (o.ofInt s.c1))) mv &&
  o.lt (o.abs (o.sub (o.mul (o.ofInt 3) moduleSize) (o.ofInt s.c2))) (o.mul (o.ofInt 3) mv) &&
  o.lt (o.abs (o.sub moduleSize (o.ofInt s.c3))) mv &&
  o.lt (o.abs (o.sub moduleSize (o.ofInt s.c4))) mv

/-- `FinderPatternFinder_foundPatternCross` -/
def foundPatternCross {F : Type} (o : FOps F) (s : SC5) : Bool :=
  s.plausible && crossRatio o s (fun m => o.div m (o.ofInt 2))

/-- `FinderPatternFinder_foundPatternDiagonal` (`maxVariance = moduleSize / 1.333`) -/
def foundPatternDiagonal {F : Type} (o : FOps F) (s : SC5) : Bool :=
  s.plausible && crossRatio o s (fun m => o.div m (o.lit 1333 1000))

/-- `FinderPatternFinder_centerFromEnd` -/
def centerFromEnd {F : Type} (o : FOps F) (s : SC5) (e : Int) : F :=
  o.sub (o.ofInt (e - s.c4 - s.c3)) (o.div (o.ofInt s.c2) (o.ofInt 2))

/-! ## cross checks -/

/-- `CrossCheckVertical(startI, centerJ, maxCount, originalStateCountTotal)` (`vertical = true`) and
    `CrossCheckHorizontal(startJ, centerI, …)` (`vertical = false`): `p` runs along the checked line,
    `q` is the fixed coordinate, `maxP` the image extent along the line. -/
def crossCheck {F : Type} (o : FOps F) (rd : Reader) (vertical : Bool) (maxP : Int)
    (start q maxCount origTotal : Int) : Res F := do
  let pt : Int → Int × Int := fun p => if vertical then (q, p) else (p, q)
  let ge0 : Int → Bool := fun p => decide (p ≥ 0)
  let ltM : Int → Bool := fun p => decide (p < maxP)
  let r ← walk rd pt true (-1) ge0 (fun _ => true) (fuelTo0 start) start 0
  if r.1 < 0 then return o.nan
  let c2 := r.2
  let r ← walk rd pt false (-1) ge0 (fun c => decide (c ≤ maxCount)) (fuelTo0 r.1) r.1 0
  if r.1 < 0 ∨ r.2 > maxCount then return o.nan
  let c1 := r.2
  let r ← walk rd pt true (-1) ge0 (fun c => decide (c ≤ maxCount)) (fuelTo0 r.1) r.1 0
  if r.2 > maxCount then return o.nan
  let c0 := r.2
  let r ← walk rd pt true 1 ltM (fun _ => true) (fuelTo maxP (start + 1)) (start + 1) c2
  if r.1 = maxP then return o.nan
  let c2 := r.2
  let r ← walk rd pt false 1 ltM (fun c => decide (c < maxCount)) (fuelTo maxP r.1) r.1 0
  if r.1 = maxP ∨ r.2 ≥ maxCount then return o.nan
  let c3 := r.2
  let r ← walk rd pt true 1 ltM (fun c => decide (c < maxCount)) (fuelTo maxP r.1) r.1 0
  if r.2 ≥ maxCount then return o.nan
  let sc : SC5 := ⟨c0, c1, c2, c3, r.2⟩
  let bound := if vertical then o.ofInt (2 * origTotal) else o.ofInt origTotal
  if o.ge (o.mul (o.ofInt 5) (o.abs (o.ofInt (sc.total - origTotal)))) bound then return o.nan
  if foundPatternCross o sc then return centerFromEnd o sc r.1
  return o.nan

/-- `crossCheckDiagonal(centerI, centerJ)` -/
def crossCheckDiagonal {F : Type} (o : FOps F) (rd : Reader) (maxI maxJ centerI centerJ : Int) : Res Bool := do
  let ptUp : Int → Int × Int := fun i => (centerJ - i, centerI - i)
  let limUp : Int → Bool := fun i => decide (centerI ≥ i) && decide (centerJ ≥ i)
  let fuelUp := fuelTo (centerI + 1) 0
  let r ← walk rd ptUp true 1 limUp (fun _ => true) fuelUp 0 0
  if r.2 = 0 then return false
  let c2 := r.2
  let r ← walk rd ptUp false 1 limUp (fun _ => true) (fuelTo (centerI + 1) r.1) r.1 0
  if r.2 = 0 then return false
  let c1 := r.2
  let r ← walk rd ptUp true 1 limUp (fun _ => true) (fuelTo (centerI + 1) r.1) r.1 0
  if r.2 = 0 then return false
  let c0 := r.2
  let ptDn : Int → Int × Int := fun i => (centerJ + i, centerI + i)
  let limDn : Int → Bool := fun i => decide (centerI + i < maxI) && decide (centerJ + i < maxJ)
  let r ← walk rd ptDn true 1 limDn (fun _ => true) (fuelTo (maxI - centerI) 1) 1 c2
  let c2 := r.2
  let r ← walk rd ptDn false 1 limDn (fun _ => true) (fuelTo (maxI - centerI) r.1) r.1 0
  if r.2 = 0 then return false
  let c3 := r.2
  let r ← walk rd ptDn true 1 limDn (fun _ => true) (fuelTo (maxI - centerI) r.1) r.1 0
  if r.2 = 0 then return false
  return foundPatternDiagonal o ⟨c0, c1, c2, c3, r.2⟩

/-! ## FinderPattern -/

structure FP (F : Type) where
  x : F
  y : F
  size : F
  count : Int

/-- `FinderPattern.AboutEquals(moduleSize, i, j)` -/
def FP.aboutEquals {F : Type} (o : FOps F) (f : FP F) (moduleSize i j : F) : Bool :=
  if o.le (o.abs (o.sub i f.y)) moduleSize && o.le (o.abs (o.sub j f.x)) moduleSize then
    let d := o.abs (o.sub moduleSize f.size)
    o.le d (o.ofInt 1) || o.le d f.size
  else false

/-- `FinderPattern.CombineEstimate(i, j, newModuleSize)` -/
def FP.combine {F : Type} (o : FOps F) (f : FP F) (i j newSize : F) : FP F :=
  let cc := o.ofInt (f.count + 1)
  let cnt := o.ofInt f.count
  { x := o.div (o.add (o.mul cnt f.x) j) cc,
    y := o.div (o.add (o.mul cnt f.y) i) cc,
    size := o.div (o.add (o.mul cnt f.size) newSize) cc,
    count := o.toInt cc }

/-- the mutable part of the finder object -/
structure FS (F : Type) where
  centers : List (FP F)
  hasSkipped : Bool

/-- the `for index := 0; index < len(possibleCenters)` loop of `HandlePossibleCenter`:
    replace the first centre that `AboutEquals`; `none` = none found -/
def combineFirst {F : Type} (o : FOps F) (size ci cj : F) : List (FP F) → Option (List (FP F))
  | [] => none
  | c :: cs =>
    if c.aboutEquals o size ci cj then some (c.combine o ci cj size :: cs)
    else (combineFirst o size ci cj cs).map (c :: ·)

/-- `HandlePossibleCenter(stateCount, i, j)` -/
def handlePossibleCenter {F : Type} (o : FOps F) (rd : Reader) (maxI maxJ : Int) (fs : FS F) (sc : SC5) (i j : Int) :
    Res (Bool × FS F) := do
  let total := sc.total
  let centerJ := centerFromEnd o sc j
  let centerI ← crossCheck o rd true maxI i (o.toInt centerJ) sc.c2 total
  if o.isNaN centerI then return (false, fs)
  let centerJ ← crossCheck o rd false maxJ (o.toInt centerJ) (o.toInt centerI) sc.c2 total
  if o.isNaN centerJ then return (false, fs)
  if !(← crossCheckDiagonal o rd maxI maxJ (o.toInt centerI) (o.toInt centerJ)) then return (false, fs)
  let size := o.div (o.ofInt total) (o.ofInt 7)
  match combineFirst o size centerI centerJ fs.centers with
  | some cs => return (true, { fs with centers := cs })
  | none => return (true, { fs with centers := fs.centers ++ [{ x := centerJ, y := centerI, size := size, count := 1 }] })

/-- the loop of `FindRowSkip` over the centres; `first` = `firstConfirmedCenter` -/
def rowSkipLoop {F : Type} (o : FOps F) : List (FP F) → Option (FP F) → Option Int
  | [], _ => none
  | c :: cs, first =>
    if c.count ≥ 2 then
      match first with
      | none => rowSkipLoop o cs (some c)
      | some f =>
        some (o.toInt (o.div (o.sub (o.abs (o.sub f.x c.x)) (o.abs (o.sub f.y c.y))) (o.ofInt 2)))
    else rowSkipLoop o cs first

/-- `FindRowSkip()`: the skip and the new `hasSkipped` -/
def findRowSkip {F : Type} (o : FOps F) (fs : FS F) : Int × FS F :=
  if fs.centers.length ≤ 1 then (0, fs)
  else match rowSkipLoop o fs.centers none with
    | some k => (k, { fs with hasSkipped := true })
    | none => (0, fs)

/-- `HaveMultiplyConfirmedCenters()` -/
def haveMultiplyConfirmedCenters {F : Type} (o : FOps F) (fs : FS F) : Bool :=
  let conf := fs.centers.filter (fun c => decide (c.count ≥ 2))
  let totalModuleSize := fs.centers.foldl (fun acc c => if c.count ≥ 2 then o.add acc c.size else acc) (o.ofInt 0)
  if conf.length < 3 then false
  else
    let average := o.div totalModuleSize (o.ofInt fs.centers.length)
    let totalDeviation := fs.centers.foldl (fun acc c => o.add acc (o.abs (o.sub c.size average))) (o.ofInt 0)
    o.le totalDeviation (o.mul (o.lit 5 100) totalModuleSize)

/-! ## the row scan of `Find` -/

/-- everything `Find` mutates while scanning -/
structure Scan (F : Type) where
  fs : FS F
  sc : SC5
  cur : Int          -- currentState
  i : Int
  iSkip : Int
  done : Bool

/-- body of the `for j` loop for the pixel `(j, i)`; second component: leave the row (`j = maxJ - 1`) -/
def pixelStep {F : Type} (o : FOps F) (rd : Reader) (maxI maxJ : Int) (s : Scan F) (j : Int) : Res (Scan F × Bool) := do
  if (← rd j s.i) then
    let cur := if s.cur % 2 = 1 then s.cur + 1 else s.cur
    let sc ← s.sc.inc cur
    return ({ s with sc := sc, cur := cur }, false)
  else if s.cur % 2 = 0 then
    if s.cur = 4 then
      if foundPatternCross o s.sc then
        let (confirmed, fs) ← handlePossibleCenter o rd maxI maxJ s.fs s.sc s.i j
        if confirmed then
          if fs.hasSkipped then
            return ({ s with fs := fs, iSkip := 2, done := haveMultiplyConfirmedCenters o fs, cur := 0, sc := SC5.zero }, false)
          else
            let (rowSkip, fs) := findRowSkip o fs
            if rowSkip > s.sc.c2 then
              return ({ s with fs := fs, iSkip := 2, i := s.i + (rowSkip - s.sc.c2 - 2), cur := 0, sc := SC5.zero }, true)
            else
              return ({ s with fs := fs, iSkip := 2, cur := 0, sc := SC5.zero }, false)
        else
          return ({ s with fs := fs, sc := s.sc.shift2, cur := 3 }, false)
      else
        return ({ s with sc := s.sc.shift2, cur := 3 }, false)
    else
      let sc ← s.sc.inc (s.cur + 1)
      return ({ s with sc := sc, cur := s.cur + 1 }, false)
  else
    let sc ← s.sc.inc s.cur
    return ({ s with sc := sc }, false)

/-- `for j := 0; j < maxJ; j++` : `n` remaining pixels -/
def rowLoop {F : Type} (o : FOps F) (rd : Reader) (maxI maxJ : Int) : Nat → Int → Scan F → Res (Scan F)
  | 0, _, s => .ok s
  | n + 1, j, s => do
    let (s', leave) ← pixelStep o rd maxI maxJ s j
    if leave then return s' else rowLoop o rd maxI maxJ n (j + 1) s'

/-- one iteration of the `for i` loop: clear, scan the row, the end-of-row pattern test -/
def scanRow {F : Type} (o : FOps F) (rd : Reader) (maxI maxJ : Int) (s : Scan F) : Res (Scan F) := do
  let s ← rowLoop o rd maxI maxJ maxJ.toNat 0 { s with sc := SC5.zero, cur := 0 }
  if foundPatternCross o s.sc then
    let (confirmed, fs) ← handlePossibleCenter o rd maxI maxJ s.fs s.sc s.i maxJ
    if confirmed then
      if fs.hasSkipped then
        return { s with fs := fs, iSkip := s.sc.c0, done := haveMultiplyConfirmedCenters o fs }
      else return { s with fs := fs, iSkip := s.sc.c0 }
    else return { s with fs := fs }
  else return s

/-- `for i := iSkip - 1; i < maxI && !done; i += iSkip` -/
def rowsLoop {F : Type} (o : FOps F) (rd : Reader) (maxI maxJ : Int) : Nat → Scan F → Res (Scan F)
  | 0, s => if s.i < maxI ∧ !s.done then .error .fuel else .ok s
  | n + 1, s =>
    if s.i < maxI ∧ !s.done then do
      let s' ← scanRow o rd maxI maxJ s
      rowsLoop o rd maxI maxJ n { s' with i := s'.i + s'.iSkip }
    else .ok s

/-! ## SelectBestPatterns -/

/-- one insertion step of `sort.Slice` (insertion sort, which Go uses up to 12 elements), on the
    REVERSED sorted prefix; `less a b = b.size > a.size` -/
def insRev {F : Type} (o : FOps F) (x : FP F) : List (FP F) → List (FP F)
  | [] => [x]
  | y :: ys => if o.gt y.size x.size then y :: insRev o x ys else x :: y :: ys

def sortBySize {F : Type} (o : FOps F) (l : List (FP F)) : List (FP F) :=
  (l.foldl (fun acc x => insRev o x acc) []).reverse

def squaredDistance {F : Type} (o : FOps F) (a b : FP F) : F :=
  let x := o.sub a.x b.x
  let y := o.sub a.y b.y
  o.add (o.mul x x) (o.mul y y)

/-- the inlined three-element sort of `SelectBestPatterns` -/
def sort3 {F : Type} (o : FOps F) (a b c : F) : F × F × F :=
  if o.lt a b then
    if o.gt b c then (if o.lt a c then (a, c, b) else (c, a, b)) else (a, b, c)
  else
    if o.lt b c then (if o.lt a c then (b, a, c) else (b, c, a)) else (c, b, a)

structure Best (F : Type) where
  distortion : F
  pats : Option (FP F × FP F × FP F)

def bestK {F : Type} (o : FOps F) (fpi fpj : FP F) (square0 : F) : List (FP F) → Best F → Best F
  | [], b => b
  | fpk :: ks, b =>
    if o.gt fpk.size (o.mul fpi.size (o.lit 14 10)) then bestK o fpi fpj square0 ks b
    else
      let (a, bb, c) := sort3 o square0 (squaredDistance o fpj fpk) (squaredDistance o fpi fpk)
      let d := o.add (o.abs (o.sub c (o.mul (o.ofInt 2) bb))) (o.abs (o.sub c (o.mul (o.ofInt 2) a)))
      if o.lt d b.distortion then bestK o fpi fpj square0 ks { distortion := d, pats := some (fpi, fpj, fpk) }
      else bestK o fpi fpj square0 ks b

def bestJ {F : Type} (o : FOps F) (fpi : FP F) : List (FP F) → Best F → Best F
  | [], b => b
  | fpj :: js, b => bestJ o fpi js (bestK o fpi fpj (squaredDistance o fpi fpj) js b)

def bestI {F : Type} (o : FOps F) : List (FP F) → Best F → Best F
  | [], b => b
  | fpi :: is, b => bestI o is (bestJ o fpi is b)

/-- `SelectBestPatterns()`: the (sorted) centre list and the chosen three -/
def selectBestPatterns {F : Type} (o : FOps F) (centers : List (FP F)) : Res (List (FP F) × FP F × FP F × FP F) :=
  if centers.length < 3 then .error .notFound
  else
    let sorted := sortBySize o centers
    let b := bestI o sorted { distortion := o.maxFloat, pats := none }
    -- `distortion == math.MaxFloat64` after the loops  <=>  never assigned, or assigned that very value
    if o.eq b.distortion o.maxFloat then .error .notFound
    else match b.pats with
      | some p => .ok (sorted, p)
      | none => .error (.panic "bestPatterns[0] is nil")

/-- `ResultPoint_OrderBestPatterns` on (x, y) pairs: returns (A, B, C) = (bottomLeft, topLeft, topRight) -/
def orderBestPatterns {F : Type} (o : FOps F) (p0 p1 p2 : FP F) : FP F × FP F × FP F :=
  let dist := fun (a b : FP F) => o.distanceF a.x a.y b.x b.y
  let d01 := dist p0 p1
  let d12 := dist p1 p2
  let d02 := dist p0 p2
  let (a, b, c) :=
    if o.ge d12 d01 && o.ge d12 d02 then (p1, p0, p2)
    else if o.ge d02 d12 && o.ge d02 d01 then (p0, p1, p2)
    else (p0, p2, p1)
  let cross := o.sub (o.mul (o.sub c.x b.x) (o.sub a.y b.y)) (o.mul (o.sub c.y b.y) (o.sub a.x b.x))
  if o.lt cross (o.ofInt 0) then (c, b, a) else (a, b, c)

structure FinderInfo (F : Type) where
  bottomLeft : FP F
  topLeft : FP F
  topRight : FP F
  centers : List (FP F)     -- possibleCenters after Find (sorted by SelectBestPatterns)

/-- the scan part of `Find`: the possible centres when the row loop ends -/
def findScan {F : Type} (o : FOps F) (rd : Reader) (maxI maxJ : Int) (tryHarder : Bool) : Res (Scan F) :=
  let iSkip0 := Int.tdiv (3 * maxI) (4 * 97)
  let iSkip := if iSkip0 < 3 ∨ tryHarder then 3 else iSkip0
  rowsLoop o rd maxI maxJ (maxI.toNat + 1)
    { fs := { centers := [], hasSkipped := false }, sc := SC5.zero, cur := 0, i := iSkip - 1, iSkip := iSkip, done := false }

/-- `FinderPatternFinder.Find(hints)` -/
def find {F : Type} (o : FOps F) (rd : Reader) (maxI maxJ : Int) (tryHarder : Bool) : Res (FinderInfo F) := do
  let s ← findScan o rd maxI maxJ tryHarder
  let (sorted, p0, p1, p2) ← selectBestPatterns o s.fs.centers
  let (bl, tl, tr) := orderBestPatterns o p0 p1 p2
  return { bottomLeft := bl, topLeft := tl, topRight := tr, centers := sorted }

end Gzx.Det.QR
