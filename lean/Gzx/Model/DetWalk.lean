/-
  The run-counting loop all detectors are made of:

      for lim(p) && image.Get(pt(p)) == color && cap(count) { count++; p += step }

  (`FinderPatternFinder.crossCheck*`, `AlignmentPatternFinder.crossCheckVertical`, Aztec
  `getFirstDifferent`).  Go evaluates `lim` first, then `Get` (short-circuit), then the count test.
-/
import Gzx.Model.DetCore
namespace Gzx.Det
open Gzx

def walk (rd : Reader) (pt : Int → Int × Int) (color : Bool) (step : Int) (lim : Int → Bool) (cap : Int → Bool) :
    Nat → Int → Int → Res (Int × Int)
  | 0, p, cnt => if lim p then .error .fuel else .ok (p, cnt)
  | n + 1, p, cnt =>
    if lim p then do
      let b ← rd (pt p).1 (pt p).2
      if (b == color) && cap cnt then walk rd pt color step lim cap n (p + step) (cnt + 1)
      else .ok (p, cnt)
    else .ok (p, cnt)

/-- fuel for a walk upwards to an exclusive limit / downwards to 0 -/
def fuelTo (lim p : Int) : Nat := (lim - p).toNat + 1
def fuelTo0 (p : Int) : Nat := (p + 1).toNat + 1

/-- Specification of `walk`: with a reader that answers wherever `I p ∧ lim p`, an invariant `I` kept by
    the steps and a measure that the steps decrease, the walk neither faults nor runs out of fuel; it
    ends at a position satisfying `I`, with a count that did not decrease. -/
theorem walk_sat {rd : Reader} {E : Fault → Prop} (pt : Int → Int × Int) (color : Bool) (step : Int)
    (lim : Int → Bool) (cap : Int → Bool) (I : Int → Prop) (μ : Int → Nat)
    (hrd : ∀ p, I p → lim p = true → Sat E (fun _ => True) (rd (pt p).1 (pt p).2))
    (hI : ∀ p, I p → lim p = true → I (p + step))
    (hμ : ∀ p, I p → lim p = true → μ (p + step) < μ p) :
    ∀ (n : Nat) (p cnt : Int), I p → (lim p = true → μ p < n) →
      Sat E (fun r => I r.1 ∧ cnt ≤ r.2) (walk rd pt color step lim cap n p cnt) := by
  intro n
  induction n with
  | zero =>
    intro p cnt hIp hf
    unfold walk
    by_cases hl : lim p = true
    · exact absurd (hf hl) (Nat.not_lt_zero _)
    · simp only [hl]
      exact Sat.ok ⟨hIp, Int.le_refl _⟩
  | succ n ih =>
    intro p cnt hIp hf
    unfold walk
    by_cases hl : lim p = true
    · simp only [hl, if_true]
      refine Sat.bind (hrd p hIp hl) ?_
      intro b _
      by_cases hc : ((b == color) && cap cnt) = true
      · simp only [hc, if_true]
        have h1 := hμ p hIp hl
        have h2 := hf hl
        refine Sat.mono (ih (p + step) (cnt + 1) (hI p hIp hl) (fun _ => by omega)) (fun _ h => h) ?_
        intro r ⟨hr1, hr2⟩
        exact ⟨hr1, by omega⟩
      · simp only [hc]
        exact Sat.ok ⟨hIp, Int.le_refl _⟩
    · simp only [hl]
      exact Sat.ok ⟨hIp, Int.le_refl _⟩

/-- a walk downwards (`step = -1`, `lim p = p ≥ 0`) from any start: ends in `[-1, start]` (or at the
    start if that is already below zero) -/
theorem walk_down_sat {rd : Reader} {E : Fault → Prop} (pt : Int → Int × Int) (color : Bool) (cap : Int → Bool)
    (p0 cnt : Int)
    (hrd : ∀ p, 0 ≤ p → p ≤ p0 → Sat E (fun _ => True) (rd (pt p).1 (pt p).2)) :
    Sat E (fun r => r.1 ≤ p0 ∧ (0 ≤ p0 → -1 ≤ r.1) ∧ cnt ≤ r.2)
      (walk rd pt color (-1) (fun p => decide (p ≥ 0)) cap (fuelTo0 p0) p0 cnt) := by
  refine Sat.mono (walk_sat pt color (-1) (fun p => decide (p ≥ 0)) cap
    (fun p => p ≤ p0 ∧ (0 ≤ p0 → -1 ≤ p)) (fun p => (p + 1).toNat) ?_ ?_ ?_ (fuelTo0 p0) p0 cnt
    ⟨Int.le_refl _, fun _ => by omega⟩ ?_) (fun _ h => h) ?_
  · intro p ⟨h1, _⟩ hl
    have : p ≥ 0 := by simpa using hl
    exact hrd p this h1
  · intro p ⟨h1, h2⟩ hl
    have : p ≥ 0 := by simpa using hl
    exact ⟨by omega, fun _ => by omega⟩
  · intro p _ hl
    have : p ≥ 0 := by simpa using hl
    omega
  · intro hl
    have : p0 ≥ 0 := by simpa using hl
    unfold fuelTo0; omega
  · intro r ⟨⟨h1, h2⟩, h3⟩
    exact ⟨h1, h2, h3⟩

/-- a walk upwards (`step = 1`, `lim p = p < L`) from any start: ends in `[start, max start L]` -/
theorem walk_up_sat {rd : Reader} {E : Fault → Prop} (pt : Int → Int × Int) (color : Bool) (cap : Int → Bool)
    (L p0 cnt : Int)
    (hrd : ∀ p, p0 ≤ p → p < L → Sat E (fun _ => True) (rd (pt p).1 (pt p).2)) :
    Sat E (fun r => p0 ≤ r.1 ∧ (p0 ≤ L → r.1 ≤ L) ∧ cnt ≤ r.2)
      (walk rd pt color 1 (fun p => decide (p < L)) cap (fuelTo L p0) p0 cnt) := by
  refine Sat.mono (walk_sat pt color 1 (fun p => decide (p < L)) cap
    (fun p => p0 ≤ p ∧ (p0 ≤ L → p ≤ L)) (fun p => (L - p).toNat) ?_ ?_ ?_ (fuelTo L p0) p0 cnt
    ⟨Int.le_refl _, fun h => h⟩ ?_) (fun _ h => h) ?_
  · intro p ⟨h1, _⟩ hl
    have : p < L := by simpa using hl
    exact hrd p h1 this
  · intro p ⟨h1, h2⟩ hl
    have : p < L := by simpa using hl
    exact ⟨by omega, fun _ => by omega⟩
  · intro p _ hl
    have : p < L := by simpa using hl
    omega
  · intro hl
    have : p0 < L := by simpa using hl
    unfold fuelTo; omega
  · intro r ⟨⟨h1, h2⟩, h3⟩
    exact ⟨h1, h2, h3⟩

end Gzx.Det
