/-
  Model of common/detector/white_rectangle_detector.go (WhiteRectangleDetector) — C06, detectors.

  Mirrors the Go control flow: constructor bounds test, the four expansion loops of `Detect`
  (`containsBlackPoint`), the four corner searches (`getBlackPointOnSegment`, float stepping through
  `FOps`), `centerEdges`.  `image.Get` is a `Reader` (DetCore): the model is the same for the
  bounds-checked `Get` of this tree and for an unguarded one.

  Result points are integers: `getBlackPointOnSegment` returns `float64(x), float64(y)` of a pixel
  that `Get` answered `true` for, `centerEdges` adds ±1 and compares `yi < float64(width)/2.0`
  (exactly `2*yi < width`); all of that is exact in binary64.
-/
import Gzx.Model.DetCore
namespace Gzx.Det.WRD
open Gzx Gzx.Det

/-- the detector object: fields of `WhiteRectangleDetector` (image size is in the `Img`) -/
structure WR where
  leftInit : Int
  rightInit : Int
  downInit : Int
  upInit : Int
  deriving Repr, DecidableEq

/-- `NewWhiteRectangleDetector(image, initSize, x, y)`; Go's `/` on ints truncates toward zero -/
def new (w h initSize x y : Int) : Res WR :=
  let halfsize := Int.tdiv initSize 2
  let d : WR := { leftInit := x - halfsize, rightInit := x + halfsize, upInit := y - halfsize, downInit := y + halfsize }
  if d.upInit < 0 ∨ d.leftInit < 0 ∨ d.downInit ≥ h ∨ d.rightInit ≥ w then .error .notFound
  else .ok d

/-- `NewWhiteRectangleDetectorFromImage(image)` -/
def newFromImage (w h : Int) : Res WR := new w h 10 (Int.tdiv w 2) (Int.tdiv h 2)

/-- the loop of `containsBlackPoint`: `n` remaining iterations, current coordinate `c` -/
def scanLine (rd : Reader) (horizontal : Bool) (fixed : Int) : Nat → Int → Res Bool
  | 0, _ => .ok false
  | n + 1, c => do
    let b ← rd (if horizontal then c else fixed) (if horizontal then fixed else c)
    if b then .ok true else scanLine rd horizontal fixed n (c + 1)

/-- `containsBlackPoint(a, b, fixed, horizontal)`: `for x := a; x <= b; x++` -/
def containsBlackPoint (rd : Reader) (a b fixed : Int) (horizontal : Bool) : Res Bool :=
  scanLine rd horizontal fixed (b - a + 1).toNat a

/-- one of the four expansion loops of `Detect`, e.g. for the right border
    `for (rightBorderNotWhite || !atLeastOne) && right < width { … }`.
    `c` is the moving border, `step` = ±1, `lim` the guard (`c < width`, `c < height`, `c >= 0`);
    state: `notWhite`, `atLeastOne…`, `aBlackPointFoundOnBorder`.  Fuel `n`: each round moves `c` or ends. -/
def expandLoop (rd : Reader) (horizontal : Bool) (a b step : Int) (lim : Int → Bool) :
    Nat → Int → Bool → Bool → Bool → Res (Int × Bool × Bool)
  | 0, c, nw, one, found =>
    if (nw || !one) && lim c then .error .fuel else .ok (c, one, found)
  | n + 1, c, nw, one, found =>
    if (nw || !one) && lim c then do
      let nw' ← containsBlackPoint rd a b c horizontal
      if nw' then expandLoop rd horizontal a b step lim n (c + step) true true true
      else if !one then expandLoop rd horizontal a b step lim n (c + step) false false found
      else expandLoop rd horizontal a b step lim n c false one found
    else .ok (c, one, found)

/-- loop state of `Detect` -/
structure St where
  left : Int
  right : Int
  up : Int
  down : Int
  oneR : Bool
  oneB : Bool
  oneL : Bool
  oneT : Bool
  deriving Repr, DecidableEq

/-- fuel for one expansion loop: the distance of the border from its limit, plus the closing round -/
def fuelUp (lim c : Int) : Nat := (lim - c).toNat + 1
def fuelDown (c : Int) : Nat := (c + 1).toNat + 1

/-- one round of the `for aBlackPointFoundOnBorder { … }` loop: the four expansion loops and their
    `sizeExceeded` tests.  `none` = `sizeExceeded`; otherwise the new state and `aBlackPointFoundOnBorder` -/
def round (rd : Reader) (w h : Int) (s : St) : Res (Option (St × Bool)) := do
  let r1 ← expandLoop rd false s.up s.down 1 (fun c => decide (c < w)) (fuelUp w s.right) s.right true s.oneR false
  if r1.1 ≥ w then return none
  let r2 ← expandLoop rd true s.left r1.1 1 (fun c => decide (c < h)) (fuelUp h s.down) s.down true s.oneB r1.2.2
  if r2.1 ≥ h then return none
  let r3 ← expandLoop rd false s.up r2.1 (-1) (fun c => decide (c ≥ 0)) (fuelDown s.left) s.left true s.oneL r2.2.2
  if r3.1 < 0 then return none
  let r4 ← expandLoop rd true r3.1 r1.1 (-1) (fun c => decide (c ≥ 0)) (fuelDown s.up) s.up true s.oneT r3.2.2
  if r4.1 < 0 then return none
  return some ({ left := r3.1, right := r1.1, up := r4.1, down := r2.1,
                 oneR := r1.2.1, oneB := r2.2.1, oneL := r3.2.1, oneT := r4.2.1 }, r4.2.2)

/-- the `for aBlackPointFoundOnBorder { … }` loop; `none` = `sizeExceeded` -/
def detectLoop (rd : Reader) (w h : Int) : Nat → St → Res (Option St)
  | 0, _ => .error .fuel
  | n + 1, s => do
    match ← round rd w h s with
    | none => return none
    | some (s', found) => if found then detectLoop rd w h n s' else return some s'

/-- the sampling loop of `getBlackPointOnSegment`: `for i := 0; i < dist; i++` -/
def segLoop {F : Type} (o : FOps F) (rd : Reader) (aX aY : Int) (xStep yStep : F) : Nat → Int → Res (Option (Int × Int))
  | 0, _ => .ok none
  | n + 1, i => do
    let x := o.round (o.add (o.ofInt aX) (o.mul (o.ofInt i) xStep))
    let y := o.round (o.add (o.ofInt aY) (o.mul (o.ofInt i) yStep))
    if (← rd x y) then return some (x, y)
    segLoop o rd aX aY xStep yStep n (i + 1)

/-- `getBlackPointOnSegment(aX, aY, bX, bY)`; `dist = 0` gives ±Inf/NaN steps and an empty loop -/
def getBlackPointOnSegment {F : Type} (o : FOps F) (rd : Reader) (aX aY bX bY : Int) : Res (Option (Int × Int)) :=
  let dist := o.round (o.distanceInt aX aY bX bY)
  let xStep := o.div (o.ofInt (bX - aX)) (o.ofInt dist)
  let yStep := o.div (o.ofInt (bY - aY)) (o.ofInt dist)
  segLoop o rd aX aY xStep yStep dist.toNat 0

/-- `for i := 1; z == nil && i < maxSize; i++ { z = getBlackPointOnSegment(seg i) }`;
    `n` = remaining iterations -/
def cornerLoop {F : Type} (o : FOps F) (rd : Reader) (seg : Int → Int × Int × Int × Int) : Nat → Int → Res (Option (Int × Int))
  | 0, _ => .ok none
  | n + 1, i => do
    let (aX, aY, bX, bY) := seg i
    match ← getBlackPointOnSegment o rd aX aY bX bY with
    | some p => return some p
    | none => cornerLoop o rd seg n (i + 1)

/-- `centerEdges(y, z, x, t)` on integer points -/
def centerEdges (w : Int) (y z x t : Int × Int) : List (Int × Int) :=
  if 2 * y.1 < w then
    [(t.1 - 1, t.2 + 1), (z.1 + 1, z.2 + 1), (x.1 - 1, x.2 - 1), (y.1 + 1, y.2 - 1)]
  else
    [(t.1 + 1, t.2 + 1), (z.1 + 1, z.2 - 1), (x.1 - 1, x.2 + 1), (y.1 - 1, y.2 - 1)]

/-- the part of `Detect` after the expansion loop (`!sizeExceeded`) -/
def corners {F : Type} (o : FOps F) (rd : Reader) (w : Int) (s : St) : Res (List (Int × Int)) := do
  let maxSize := s.right - s.left
  let n := (maxSize - 1).toNat
  let some z ← cornerLoop o rd (fun i => (s.left, s.down - i, s.left + i, s.down)) n 1 | .error .notFound
  let some t ← cornerLoop o rd (fun i => (s.left, s.up + i, s.left + i, s.up)) n 1 | .error .notFound
  let some x ← cornerLoop o rd (fun i => (s.right, s.up + i, s.right - i, s.up)) n 1 | .error .notFound
  let some y ← cornerLoop o rd (fun i => (s.right, s.down - i, s.right - i, s.down)) n 1 | .error .notFound
  return centerEdges w y z x t

def initSt (d : WR) : St :=
  { left := d.leftInit, right := d.rightInit, up := d.upInit, down := d.downInit,
    oneR := false, oneB := false, oneL := false, oneT := false }

/-- how many times the outer loop of `Detect` can run: every round but the last moves a border -/
def detectFuel (w h : Int) (s : St) : Nat :=
  ((w - s.right) + (h - s.down) + (s.left + 1) + (s.up + 1)).toNat + 1

/-- `(*WhiteRectangleDetector).Detect()` -/
def detect {F : Type} (o : FOps F) (rd : Reader) (w h : Int) (d : WR) : Res (List (Int × Int)) := do
  match ← detectLoop rd w h (detectFuel w h (initSt d)) (initSt d) with
  | none => .error .notFound
  | some s => corners o rd w s

/-- constructor + Detect, as the Data Matrix and Aztec detectors use it -/
def newAndDetect {F : Type} (o : FOps F) (rd : Reader) (w h initSize x y : Int) : Res (List (Int × Int)) := do
  let d ← new w h initSize x y
  detect o rd w h d

end Gzx.Det.WRD
