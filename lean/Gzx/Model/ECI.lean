/-
  C15 — character sets and ECI.

  Mirrors
    * common/character_set_eci.go : the registry (`newCharsetECI` fills `valueToECI`/`nameToECI`, later
      registrations overwrite earlier ones), `GetCharacterSetECIByValue/ByName`, `GetCharacterSetECI`;
    * qrcode/decoder/decoded_bit_stream_parser.go : `parseECIValue`;
    * common/string_utils.go : `StringUtils_guessCharset` (hint, BOMs, the three byte-statistics automata);
    * qrcode/encoder/encoder.go : CHARACTER_SET hint handling of `Encoder_encode`, `chooseMode`,
      `isOnlyDoubleByteKanji`, `appendECI`.
  The registry itself is a parameter (`List Entry`); the driver and the obligations instantiate it with
  the list regenerated from /repo (`Gzx.Gen.C15ECI`).  Text codecs (golang.org/x/text) are parameters:
  a charset is only a name here.
-/
import Gzx.Model.QRBits
import Gzx.GoVal
namespace Gzx.ECI
open Gzx Gzx.QRDec

/-- one `newCharsetECI(values, charset, name, others...)` call.  `charset` identifies the Go encoding
    object, `iana` is `ianaindex.IANA.Name(charset)` (registered as one more alias, `""` on error). -/
structure Entry where
  values : List Nat
  charset : String
  name : String
  others : List String
  iana : String
  deriving DecidableEq, Repr, Inhabited

abbrev Registry := List Entry

def Entry.allNames (e : Entry) : List String := e.name :: e.others ++ [e.iana]

/-- `GetValue()` = `values[0]` (index panic on an empty list) -/
def Entry.value (e : Entry) : Res Nat :=
  match e.values with
  | v :: _ => .ok v
  | [] => .error (.panic "values[0] of empty slice")

/-- the map `valueToECI` after all registrations: the last entry listing the value wins -/
def lookupValue (reg : Registry) (v : Nat) : Option Entry :=
  reg.reverse.find? (fun e => e.values.contains v)

/-- the map `nameToECI` -/
def byName (reg : Registry) (n : String) : Option Entry :=
  reg.reverse.find? (fun e => e.allNames.contains n)

/-- `GetCharacterSetECIByValue`: FormatException outside 0..899, otherwise the entry or nil -/
def byValue (reg : Registry) (v : Int) : Res (Option Entry) :=
  if v < 0 ∨ v ≥ 900 then .error .format else .ok (lookupValue reg v.toNat)

/-- `GetCharacterSetECI(charset)`: lookup by the IANA name of the charset (`none` when the IANA
    index does not know the encoding object) -/
def byCharset (reg : Registry) (iana : Option String) : Option Entry :=
  match iana with
  | none => none
  | some n => byName reg n

/-! ## IANA names of the encoding objects used by the registry (x/text v0.3.7 `ianaindex.IANA.Name`);
     transcription, compared with the run-time values by the `c15 reg` correspondence lines. -/
def ianaOfCharset (cs : String) : String :=
  if cs = "golang.org/x/text/encoding/charmap.CodePage437" then "IBM437"
  else if cs = "golang.org/x/text/encoding/charmap.ISO8859_1" then "ISO_8859-1:1987"
  else if cs = "golang.org/x/text/encoding/charmap.ISO8859_2" then "ISO_8859-2:1987"
  else if cs = "golang.org/x/text/encoding/charmap.ISO8859_3" then "ISO_8859-3:1988"
  else if cs = "golang.org/x/text/encoding/charmap.ISO8859_4" then "ISO_8859-4:1988"
  else if cs = "golang.org/x/text/encoding/charmap.ISO8859_5" then "ISO_8859-5:1988"
  else if cs = "golang.org/x/text/encoding/charmap.ISO8859_6" then "ISO_8859-6:1987"
  else if cs = "golang.org/x/text/encoding/charmap.ISO8859_7" then "ISO_8859-7:1987"
  else if cs = "golang.org/x/text/encoding/charmap.ISO8859_8" then "ISO_8859-8:1988"
  else if cs = "golang.org/x/text/encoding/charmap.ISO8859_9" then "ISO_8859-9:1989"
  else if cs = "golang.org/x/text/encoding/charmap.ISO8859_10" then "ISO-8859-10"
  else if cs = "golang.org/x/text/encoding/charmap.ISO8859_13" then "ISO-8859-13"
  else if cs = "golang.org/x/text/encoding/charmap.ISO8859_14" then "ISO-8859-14"
  else if cs = "golang.org/x/text/encoding/charmap.ISO8859_15" then "ISO-8859-15"
  else if cs = "golang.org/x/text/encoding/charmap.ISO8859_16" then "ISO-8859-16"
  else if cs = "golang.org/x/text/encoding/japanese.ShiftJIS" then "Shift_JIS"
  else if cs = "golang.org/x/text/encoding/charmap.Windows1250" then "windows-1250"
  else if cs = "golang.org/x/text/encoding/charmap.Windows1251" then "windows-1251"
  else if cs = "golang.org/x/text/encoding/charmap.Windows1252" then "windows-1252"
  else if cs = "golang.org/x/text/encoding/charmap.Windows1256" then "windows-1256"
  else if cs = "iana:UTF-16BE" then "UTF-16BE"
  else if cs = "golang.org/x/text/encoding/unicode.UTF8" then "UTF-8"
  else if cs = "iana:US-ASCII" then "US-ASCII"
  else if cs = "golang.org/x/text/encoding/traditionalchinese.Big5" then "Big5"
  else if cs = "golang.org/x/text/encoding/simplifiedchinese.GB18030" then "GB18030"
  else if cs = "golang.org/x/text/encoding/korean.EUCKR" then "EUC-KR"
  else ""

/-! ## typed view of the regenerated `newCharsetECI(...)` calls -/
def charsetId : GoVal → Option String
  | .app "extern" [.str s] => some s
  | .app "Encoding" [.str s] => some ("iana:" ++ s)
  | _ => none

def entryOfGoVal : GoVal → Option Entry
  | .app "newCharsetECI" (vals :: cs :: .str name :: others) =>
    match vals.asNatList?, charsetId cs, others.mapM GoVal.asStr? with
    | some vs, some c, some os => some ⟨vs, c, name, os, ianaOfCharset c⟩
    | _, _, _ => none
  | _ => none

def registryOfGoVals (gs : List GoVal) : Option Registry := gs.mapM entryOfGoVal

/-! ## consistency of a registry (decidable; the per-run obligation of C15) -/

/-- every value and every name (aliases and the IANA name included) of every entry resolves to that
    entry, every entry has a primary value, the primary value fits the 8-bit ECI form, and the
    charset has an IANA name (the encoder finds the entry again through it) -/
def consistent (reg : Registry) : Bool :=
  reg.all (fun e =>
    (match e.values with | v :: _ => decide (v < 128) && e.iana != "" | [] => false) &&
    e.values.all (fun v => decide (v < 900) && lookupValue reg v == some e) &&
    e.allNames.all (fun n => byName reg n == some e))

/-- values of different entries are disjoint, names (incl. IANA names) of different entries are
    disjoint — the "pairwise disjoint" reading, checked structurally -/
def disjointPairs : Registry → Bool
  | [] => true
  | e :: rest =>
    rest.all (fun f => e.values.all (fun v => !f.values.contains v) &&
                       e.allNames.all (fun n => !f.allNames.contains n)) && disjointPairs rest

/-! ## parseECIValue -/

/-- `DecodedBitStreamParser_parseECIValue` -/
def parseECIValue (bits : List Bool) : Res (Nat × List Bool) := do
  let (first, bits) ← readBitsF 8 bits
  if first &&& 0x80 = 0 then .ok (first &&& 0x7F, bits)
  else if first &&& 0xC0 = 0x80 then
    let (second, bits) ← readBitsF 8 bits
    .ok (((first &&& 0x3F) <<< 8) ||| second, bits)
  else if first &&& 0xE0 = 0xC0 then
    let (rest, bits) ← readBitsF 16 bits
    .ok (((first &&& 0x1F) <<< 16) ||| rest, bits)
  else .error .format

/-- the standard's ECI designator encoding (ISO/IEC 18004 7.4.2.2): 1, 2 or 3 bytes -/
def encodeECIValue (form v : Nat) : List Bool :=
  if form = 1 then natToBits 8 v                           -- 0bbbbbbb
  else if form = 2 then natToBits 16 (0x8000 + v)           -- 10bbbbbb bbbbbbbb
  else natToBits 24 (0xC00000 + v)                          -- 110bbbbb bbbbbbbb bbbbbbbb

/-! ## StringUtils_guessCharset -/

/-- what `guessCharset` can return -/
inductive Charset where
  | utf8 | sjis | latin1
  | utf16 (bigEndian : Bool)             -- unicode.UTF16(endianness, UseBOM)
  | named (entryName : String)           -- charset of a registry entry (ECI or hint by name)
  | object (id : String)                 -- an `encoding.Encoding` passed as the hint itself
  | ianaName (name : String)             -- hint name unknown to the registry, found in the IANA index
  deriving DecidableEq, Repr, Inhabited

def Charset.show : Charset → String
  | .utf8 => "UTF-8"
  | .sjis => "Shift_JIS"
  | .latin1 => "ISO-8859-1"
  | .utf16 true => "UTF-16BE+BOM"
  | .utf16 false => "UTF-16LE+BOM"
  | .named n => "reg:" ++ n
  | .object id => "obj:" ++ id
  | .ianaName n => "iana:" ++ n

/-- the decode-side CHARACTER_SET hint.  `iana` tells what `ianaindex.IANA.Encoding(name)` does for a
    name the registry does not know: 0 = error (unknown name), 1 = a supported encoding,
    2 = `(nil, nil)` (name registered at IANA but not supported by x/text; an error since the
    repair of the nil-encoding crash) -/
inductive Hint where
  | none
  | object (id : String)
  | name (n : String) (iana : Nat)
  deriving DecidableEq, Repr, Inhabited

structure Utf8St where
  can : Bool := true
  left : Nat := 0
  two : Nat := 0
  three : Nat := 0
  four : Nat := 0
  deriving DecidableEq, Repr

structure IsoSt where
  can : Bool := true
  highOther : Nat := 0
  deriving DecidableEq, Repr

structure SjisSt where
  can : Bool := true
  left : Nat := 0
  katakana : Nat := 0
  curKata : Nat := 0
  curDouble : Nat := 0
  maxKata : Nat := 0
  maxDouble : Nat := 0
  deriving DecidableEq, Repr

def utf8Step (s : Utf8St) (v : Nat) : Utf8St :=
  if !s.can then s
  else if s.left > 0 then
    if v &&& 0x80 = 0 then { s with can := false } else { s with left := s.left - 1 }
  else if v &&& 0x80 ≠ 0 then
    if v &&& 0x40 = 0 then { s with can := false }
    else if v &&& 0x20 = 0 then { s with left := s.left + 1, two := s.two + 1 }
    else if v &&& 0x10 = 0 then { s with left := s.left + 2, three := s.three + 1 }
    else if v &&& 0x08 = 0 then { s with left := s.left + 3, four := s.four + 1 }
    else { s with left := s.left + 3, can := false }
  else s

def isoStep (s : IsoSt) (v : Nat) : IsoSt :=
  if !s.can then s
  else if v > 0x7F ∧ v < 0xA0 then { s with can := false }
  else if v > 0x9F ∧ (v < 0xC0 ∨ v = 0xD7 ∨ v = 0xF7) then { s with highOther := s.highOther + 1 }
  else s

def sjisStep (s : SjisSt) (v : Nat) : SjisSt :=
  if !s.can then s
  else if s.left > 0 then
    if v < 0x40 ∨ v = 0x7F ∨ v > 0xFC then { s with can := false } else { s with left := s.left - 1 }
  else if v = 0x80 ∨ v = 0xA0 ∨ v > 0xEF then { s with can := false }
  else if v > 0xA0 ∧ v < 0xE0 then
    let ck := s.curKata + 1
    { s with katakana := s.katakana + 1, curDouble := 0, curKata := ck,
             maxKata := if ck > s.maxKata then ck else s.maxKata }
  else if v > 0x7F then
    let cd := s.curDouble + 1
    { s with left := s.left + 1, curKata := 0, curDouble := cd,
             maxDouble := if cd > s.maxDouble then cd else s.maxDouble }
  else { s with curKata := 0, curDouble := 0 }

structure GuessSt where
  u : Utf8St := {}
  i : IsoSt := {}
  s : SjisSt := {}
  deriving DecidableEq, Repr

/-- one iteration of the scanning loop (the loop condition `canBeISO88591 || canBeShiftJIS || canBeUTF8`
    ends the scan once all three are excluded) -/
def guessStep (g : GuessSt) (v : Nat) : GuessSt :=
  if g.u.can || g.i.can || g.s.can then ⟨utf8Step g.u v, isoStep g.i v, sjisStep g.s v⟩ else g

/-- `len > 3` and the bytes EF BB BF in front -/
def hasUtf8Bom : List Nat → Bool
  | 0xEF :: 0xBB :: 0xBF :: _ :: _ => true
  | _ => false

/-- the decision after the scan -/
def guessDecide (bytes : List Nat) (g : GuessSt) : Charset :=
  let canU := g.u.can && !(g.u.left > 0)
  let canS := g.s.can && !(g.s.left > 0)
  let utf8bom := hasUtf8Bom bytes
  if canU && (utf8bom || g.u.two + g.u.three + g.u.four > 0) then .utf8
  else if canS && (g.s.maxKata ≥ 3 || g.s.maxDouble ≥ 3) then .sjis
  else if g.i.can && canS then
    if (g.s.maxKata = 2 ∧ g.s.katakana = 2) ∨ g.i.highOther * 10 ≥ bytes.length then .sjis else .latin1
  else if g.i.can then .latin1
  else if canS then .sjis
  else .utf8            -- `canBeUTF8`, or the platform default, which is UTF-8 too

/-- `StringUtils_guessCharset(bytes, hints)`; an `Encoding(name)` failure (unknown name, or a name
    whose encoding x/text does not implement) is a plain error that the caller wraps into
    FormatException. -/
def guessCharset (reg : Registry) (bytes : List Nat) (hint : Hint) : Res Charset :=
  match hint with
  | .object id => .ok (.object id)
  | .name n iana =>
    match byName reg n with
    | some e => .ok (.named e.name)
    | none => if iana = 1 then .ok (.ianaName n) else .error .format
  | .none =>
    match bytes with
    | 0xFE :: 0xFF :: _ :: _ => .ok (.utf16 true)
    | 0xFF :: 0xFE :: _ :: _ => .ok (.utf16 false)
    | _ => .ok (guessDecide bytes (bytes.foldl guessStep {}))

/-! ## encoder side (qrcode/encoder/encoder.go) -/

/-- mode chosen by the encoder -/
inductive EncMode where
  | numeric | alphanumeric | byte | kanji
  deriving DecidableEq, Repr, Inhabited

/-- `getAlphanumericCode(c) != -1` for the alphabet `0-9A-Z $%*+-./:` -/
def isAlnumChar (c : Nat) : Bool :=
  (0x30 ≤ c && c ≤ 0x39) || (0x41 ≤ c && c ≤ 0x5A) ||
  c == 0x20 || c == 0x24 || c == 0x25 || c == 0x2A || c == 0x2B || c == 0x2D || c == 0x2E || c == 0x2F || c == 0x3A

/-- `isOnlyDoubleByteKanji`: `sjis` is the Shift_JIS encoding of the content (`none`: not encodable) -/
def isOnlyDoubleByteKanji (sjis : Option (List Nat)) : Bool :=
  match sjis with
  | none => false
  | some bytes =>
    if bytes.length % 2 ≠ 0 then false
    else
      let rec go : List Nat → Bool
        | b1 :: _ :: rest => if (b1 < 0x81 ∨ b1 > 0x9F) ∧ (b1 < 0xE0 ∨ b1 > 0xEB) then false else go rest
        | _ => true
      go bytes

def chooseModeScan : List Nat → Bool → Bool → EncMode
  | [], hasNum, hasAlnum => if hasAlnum then .alphanumeric else if hasNum then .numeric else .byte
  | c :: cs, hasNum, hasAlnum =>
    if 0x30 ≤ c ∧ c ≤ 0x39 then chooseModeScan cs true hasAlnum
    else if isAlnumChar c then chooseModeScan cs hasNum true
    else .byte

/-- `chooseMode(content, encoding)`; `encIsSjis` = the encoding is the Shift_JIS object -/
def chooseMode (content : List Nat) (encIsSjis : Bool) (sjis : Option (List Nat)) : EncMode :=
  if encIsSjis && isOnlyDoubleByteKanji sjis then .kanji else chooseModeScan content false false

/-- `appendECI`: mode indicator 0111 and the primary value in the 8-bit form -/
def appendECI (e : Entry) : Res (List Bool) := do
  let v ← e.value
  .ok (natToBits 4 7 ++ natToBits 8 v)

/-- the encoder's CHARACTER_SET hint: the value printed with `%v`, and whether it was a Go string
    (for a non-string unknown value `NewWriterException(hint)` fails its type assertion: D14) -/
structure EncHint where
  text : String
  isString : Bool
  deriving DecidableEq, Repr

/-- charset selection at the top of `Encoder_encode`: `none` = default (UTF-8, no ECI) -/
def encCharset (reg : Registry) (hint : Option EncHint) : Res (Option Entry) :=
  match hint with
  | none => .ok none
  | some h =>
    match byName reg h.text with
    | some e => .ok (some e)
    | none => if h.isString then .error .writer else .error (.panic "NewWriterException(args[0].(string))")

/-- header bits emitted before the mode indicator: the ECI segment iff byte mode and a hint was given
    and the charset is found again through its IANA name -/
def encEciHeader (reg : Registry) (hint : Option EncHint) (mode : EncMode) : Res (List Bool) := do
  match (← encCharset reg hint) with
  | none => .ok []
  | some e =>
    if mode = .byte then
      match byCharset reg (if e.iana = "" then none else some e.iana) with
      | some e' => appendECI e'
      | none => .ok []
    else .ok []

end Gzx.ECI
