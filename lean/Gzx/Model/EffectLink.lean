/-
  C18 (wp c18gen) — the LINK between the abstract machine of Model/Interference.lean and the static effect
  summary of the Go code (Gzx.Gen.C18Effects, regenerated on every run).

  A program of the abstract machine is said to be DRAWN FROM THE SUMMARISED FUNCTIONS when every step is tagged
  with the library function it belongs to and with the way it reaches the location it accesses — the three
  ways the scanner accounts for:

    direct        through a package-level variable named in that function (incl. local aliases, and arguments
                  passed to callees whose summary says they write through the parameter)   — write scan
    viaStored f   through a reference into package-level state that function `f` stored into an object
                  (an instance that shares package state)                                   — escape scan
    viaParam t.x  through the receiver / a struct-pointer parameter, field `x` of type `t`, of which a shared
                  instance exists (a `GenericGF` held in a package variable and handed to every decoder)
                                                                                            — shared-type write scan

  `SoundFor S t` says: whenever tagged step `t` writes a package-level variable, the summary `S` has the entry
  that accounts for it.  THAT is the trusted statement about the scanner (syntactic; unsound for interface
  dispatch, reflection, unsafe; see specs/C18.json), now spelled out as a hypothesis of a theorem instead of
  prose.  Everything else is kernel-checked: every entry of the summary is a reviewed exception
  (`Covered S A`, discharged per run in Obligations/C18.lean), the program does not execute reviewed exceptions
  (`Excluded A t`: the property's assumption that nobody calls `GridSampler_SetGridSampler` while readers run),
  hence no step writes shared state (Properties/C18Link.lean), hence non-interference (Properties/C18.lean).
-/
import Gzx.Model.Interference
namespace Gzx.EffectLink
open Gzx.Interference

inductive Path where
  | direct
  | viaStored (storer : Nat)
  | viaParam (typeField : Nat)

/-- a step of the abstract machine tagged with the code of its library function and its access path -/
structure TStep where
  fn : Nat
  path : Path
  step : Step

/-- the effect summary (also the shape of the reviewed allow-lists).  Location `i` of the machine is the
    package-level variable `vars[i]` together with everything reachable from it. -/
structure Summary where
  vars : List Nat
  writes : List (Nat × Nat)       -- (function, variable)
  escapes : List (Nat × Nat)      -- (function, variable)
  typeWrites : List (Nat × Nat)   -- (function, type.field)

/-- the shared locations: one per package-level variable -/
def Summary.Shared (S : Summary) : Loc → Prop := fun l => l < S.vars.length

/-- the entry of `S` that accounts for tagged step `t` writing variable `v` -/
def Accounted (S : Summary) (t : TStep) (v : Nat) : Prop :=
  match t.path with
  | .direct => (t.fn, v) ∈ S.writes
  | .viaStored f => (f, v) ∈ S.escapes
  | .viaParam tf => (t.fn, tf) ∈ S.typeWrites

/-- soundness of the summary for one step (TRUSTED about the scanner, per program) -/
def SoundFor (S : Summary) (t : TStep) : Prop :=
  ∀ loc v, t.step.writes loc → S.vars[loc]? = some v → Accounted S t v

/-- every reported effect is a reviewed one (KERNEL-CHECKED per run: Obligations/C18.lean) -/
structure Covered (S A : Summary) : Prop where
  writes : ∀ w ∈ S.writes, w ∈ A.writes
  escapes : ∀ w ∈ S.escapes, w ∈ A.escapes
  typeWrites : ∀ w ∈ S.typeWrites, w ∈ A.typeWrites

/-- the step is not one of the reviewed exceptions (ASSUMED of the programs the property quantifies over) -/
def Excluded (A : Summary) (t : TStep) : Prop := ∀ v, ¬ Accounted A t v

/-- forget the tags -/
def erase (prog : Gid → List TStep) : Gid → List Step := fun g => (prog g).map TStep.step

/-- decidable form for the driver: codes of the summary entries that are not reviewed -/
def uncovered (S A : Summary) : List (Nat × Nat) :=
  S.writes.filter (fun w => !A.writes.contains w) ++ S.escapes.filter (fun w => !A.escapes.contains w) ++
  S.typeWrites.filter (fun w => !A.typeWrites.contains w)

end Gzx.EffectLink
