/-
  C18 (wp c18gen) — the static effect summary of the library as DATA, and the decidable checks on it.

  The scanner `harness/c18scan` (go/types over the working tree) reports, per run, which functions may write
  package-level state, store references to it into objects, write fields of objects after construction, use
  package sync, start goroutines.  `harness/cmd/c18effects` emits that as `Gzx.Gen.C18Effects`; the reviewed
  exceptions live in `Gzx.Ref.C18Allowed`.  Names are Nat CODES (big-endian base-256 number of the UTF-8 bytes)
  because the kernel evaluates Nat literals with GMP while a String literal costs ~1 s to unfold (Lean 4.33).

  The checks below are linear merges over lists sorted by code; their SOUNDNESS (Proofs/EffectSummary.lean)
  does not need sortedness: `subCodes xs ys = true → ∀ x ∈ xs, x ∈ ys` for arbitrary lists.  Sortedness only
  makes them complete, and the generator's output is sorted (checked by `sortedCodes` obligations).
-/
namespace Gzx.EffectSummary

/-- `xs ⊆ ys` by a linear merge (complete when both are strictly increasing) -/
def subCodes : List Nat → List Nat → Bool
  | [], _ => true
  | _ :: _, [] => false
  | a :: as, b :: bs =>
    if Nat.beq a b then subCodes as bs
    else if Nat.blt b a then subCodes (a :: as) bs
    else false

def eqPair (a b : Nat × Nat) : Bool := Nat.beq a.1 b.1 && Nat.beq a.2 b.2
def ltPair (a b : Nat × Nat) : Bool := Nat.blt a.1 b.1 || (Nat.beq a.1 b.1 && Nat.blt a.2 b.2)

/-- the same for lists of pairs in lexicographic order -/
def subPairs : List (Nat × Nat) → List (Nat × Nat) → Bool
  | [], _ => true
  | _ :: _, [] => false
  | a :: as, b :: bs =>
    if eqPair a b then subPairs as bs
    else if ltPair b a then subPairs (a :: as) bs
    else false

/-- list equality with the kernel-accelerated `Nat.beq` -/
def eqCodes : List Nat → List Nat → Bool
  | [], [] => true
  | a :: as, b :: bs => Nat.beq a b && eqCodes as bs
  | _, _ => false

def eqPairs : List (Nat × Nat) → List (Nat × Nat) → Bool
  | [], [] => true
  | a :: as, b :: bs => eqPair a b && eqPairs as bs
  | _, _ => false

/-- strictly increasing (the form in which the generator emits every list) -/
def sortedCodes : List Nat → Bool
  | [] => true
  | [_] => true
  | a :: b :: rest => Nat.blt a b && sortedCodes (b :: rest)

def sortedPairs : List (Nat × Nat) → Bool
  | [] => true
  | [_] => true
  | a :: b :: rest => ltPair a b && sortedPairs (b :: rest)

/-- members of `xs` that are not in `ys` (what the driver prints; quadratic, compiled code only) -/
def missingCodes (xs ys : List Nat) : List Nat := xs.filter (fun x => !ys.contains x)
def missingPairs (xs ys : List (Nat × Nat)) : List (Nat × Nat) := xs.filter (fun x => !ys.contains x)

/-! ### codes ↔ text (driver only: never evaluated by the kernel) -/

def bytesOf : Nat → Nat → List UInt8 → List UInt8
  | 0, _, acc => acc
  | fuel + 1, n, acc => if n = 0 then acc else bytesOf fuel (n / 256) (UInt8.ofNat (n % 256) :: acc)

/-- text of a code; `?` for codes that are not UTF-8 -/
def decodeName (n : Nat) : String :=
  match String.fromUTF8? (ByteArray.mk (bytesOf (Nat.log2 n / 8 + 2) n []).toArray) with
  | some s => s
  | none => "?"

def encodeName (s : String) : Nat := s.toUTF8.foldl (fun a b => a * 256 + b.toNat) 0

end Gzx.EffectSummary
