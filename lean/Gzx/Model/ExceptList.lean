/-
  `mapM` over lists in `Except`, written as plain structural recursion so that models using it
  evaluate by `decide` and proofs go by induction (used by the C17 models).
-/
namespace Gzx

/-- run `f` over the list from left to right, stop at the first error -/
def mapME {ε α β : Type} (f : α → Except ε β) : List α → Except ε (List β)
  | [] => .ok []
  | a :: as =>
    match f a with
    | .error e => .error e
    | .ok b =>
      match mapME f as with
      | .error e => .error e
      | .ok bs => .ok (b :: bs)

end Gzx
