/-
  Model of common/reedsolomon/generic_gf.go : GenericGF (tables built exactly like `NewGenericGF`,
  table-driven Exp / Log / Inverse / Multiply with Go's error and panic behaviour).
  Hand-written mirror; tied to /repo by the `c04` correspondence suite (full table dumps, exhaustive
  products for the fields up to 256) and by `Obligations/C04.lean` (regenerated parameters).
  Core Lean only.
-/
import Gzx.Util
namespace Gzx.GF

/-- Go: `x *= 2; if x >= size { x ^= primitive; x &= size - 1 }` -/
def step (prim size x : Nat) : Nat :=
  let y := x * 2
  if y ≥ size then (y ^^^ prim) &&& (size - 1) else y

/-- first loop of `NewGenericGF`: `for i := 0; i < size; i++ { expTable[i] = x; x = step x }` -/
def expList (prim size : Nat) : Nat → Nat → List Nat
  | 0, _ => []
  | k + 1, x => x :: expList prim size k (step prim size x)

/-- second loop: `for i := 0; i < size-1; i++ { logTable[expTable[i]] = i }` over the first `size-1`
    entries `es` of the exp table.  Every entry is `< size` (it went through `& (size-1)` or is
    `< size` by the branch test; `Proofs/GF.lean : expList_lt`), so the write is always in range and
    Go's construction never panics; `List.set` is therefore never used out of range. -/
def logLoop : List Nat → Nat → List Nat → List Nat
  | [], _, acc => acc
  | e :: es, i, acc => logLoop es (i + 1) (acc.set e i)

/-- `GenericGF`: parameters and the two tables (`Array` only for O(1) lookup in the driver; every
    table is `List.toArray` of a structurally built list). -/
structure GF where
  prim : Nat
  size : Nat
  base : Nat
  exp : Array Nat
  log : Array Nat
  deriving DecidableEq, Repr

/-- `NewGenericGF(primitive, size, b)` -/
def mk' (prim size base : Nat) : GF :=
  let es := expList prim size size 1
  { prim := prim, size := size, base := base
    exp := es.toArray
    log := (logLoop (es.take (size - 1)) 0 (List.replicate size 0)).toArray }

/-- Go slice indexing `t[i]` (non-negative index): panic when out of range -/
def idx (t : Array Nat) (i : Nat) : Res Nat :=
  match t[i]? with
  | some v => .ok v
  | none => .error (.panic "index out of range")

namespace GF

/-- `Exp(a)`: plain table lookup, index panic outside `[0,size)` -/
def expAt (F : GF) (a : Nat) : Res Nat := idx F.exp a

/-- `Log(a)`: checked error for 0 -/
def logOf (F : GF) (a : Nat) : Res Nat :=
  if a = 0 then .error .illegalArg else idx F.log a

/-- `Inverse(a) = expTable[size - logTable[a] - 1]`: checked error for 0 -/
def inv (F : GF) (a : Nat) : Res Nat :=
  if a = 0 then .error .illegalArg
  else do
    let l ← idx F.log a
    if l + 1 > F.size then .error (.panic "negative index") else idx F.exp (F.size - l - 1)

/-- `Multiply(a, b) = expTable[(logTable[a] + logTable[b]) % (size - 1)]`, 0 if an operand is 0 -/
def mul (F : GF) (a b : Nat) : Res Nat :=
  if a = 0 ∨ b = 0 then .ok 0
  else do
    let la ← idx F.log a
    let lb ← idx F.log b
    if F.size ≤ 1 then .error (.panic "integer divide by zero")
    else idx F.exp ((la + lb) % (F.size - 1))

end GF

/-! the six fields of generic_gf.go, with the parameters of the standards
    (ISO/IEC 18004 §8.5 QR: x^8+x^4+x^3+x^2+1, first root α^0; ISO/IEC 16022 Data Matrix:
    x^8+x^5+x^3+x^2+1, first root α^1; ISO/IEC 24778 Aztec: x^4+x+1, x^6+x+1, x^8+x^5+x^3+x^2+1,
    x^10+x^3+1, x^12+x^6+x^5+x^3+1, first root α^1).  `Obligations/C04.lean` checks on every run that
    /repo still uses exactly these. -/
def aztecData12 : GF := mk' 0x1069 4096 1
def aztecData10 : GF := mk' 0x409 1024 1
def aztecData6 : GF := mk' 0x43 64 1
def aztecParam : GF := mk' 0x13 16 1
def qrCode256 : GF := mk' 0x11D 256 0
def dataMatrix256 : GF := mk' 0x12D 256 1
/-- Go aliases -/
def aztecData8 : GF := dataMatrix256
def maxicode64 : GF := aztecData6

end Gzx.GF
