/-
  Model of common/grid_sampler.go (GridSampler_checkAndNudgePoints) and
  common/default_grid_sampler.go (SampleGrid / SampleGridWithTransform) — C19.

  Coordinates are exact rationals (Go: float64; tie by tolerance, see specs/C19.json).
  `int(f)` of Go truncates toward zero, so every point in (-1, 1) has pixel index 0 and every point
  in (-2, -1] has pixel index -1.

  The model mirrors the tree AFTER the two `fix:` commits of this work package:
    * D8: first pass of checkAndNudgePoints wrote `float64(height)` for `y == height`
          (`nudgePassG … (yTarget := h)` is the old behaviour, kept for the counterexample);
    * sample loop: the emulation of Java's ArrayIndexOutOfBoundsException tested only
          `px >= width || py >= height`; negative indices were read as "white"
          (`readPointG … (lowGuard := false)` is the old behaviour).
-/
import Gzx.Model.Perspective
namespace Gzx.GridSampler
open Gzx Gzx.Perspective

/-- Go `int(f)` for a finite float64: truncation toward zero -/
def trunc (x : Rat) : Int := Int.tdiv x.num x.den

abbrev Pt := Rat × Rat

/-- the NotFound test at the head of both loops:
    `x < -1 || x > width || y < -1 || y > height` on the truncated coordinates -/
def beyond (w h : Int) (p : Pt) : Bool :=
  trunc p.1 < -1 || trunc p.1 > w || trunc p.2 < -1 || trunc p.2 > h

/-- one coordinate of the nudge: `-1 ↦ 0.0`, `n ↦ float64(target)`; second component = `nudged` -/
def nudgeCoord (n target : Int) (x : Rat) : Rat × Bool :=
  if trunc x = -1 then (0, true)
  else if trunc x = n then ((target : Rat), true)
  else (x, false)

/-- One loop of checkAndNudgePoints over the points in the order the loop visits them.
    Stops (leaving the rest untouched) at the first point that needed no nudge; NotFound as soon as
    a visited point is more than one pixel index outside.  `yTarget` is what `y == height` is
    replaced with (`h - 1` in the repaired code, `h` in the first loop of the original code). -/
def nudgePassG (w h yTarget : Int) : List Pt → Res (List Pt)
  | [] => .ok []
  | p :: rest =>
    if beyond w h p then .error .notFound
    else
      let nx := nudgeCoord w (w - 1) p.1
      let ny := nudgeCoord h yTarget p.2
      if nx.2 || ny.2 then
        match nudgePassG w h yTarget rest with
        | .ok rest' => .ok ((nx.1, ny.1) :: rest')
        | .error e => .error e
      else .ok (p :: rest)

def nudgePass (w h : Int) : List Pt → Res (List Pt) := nudgePassG w h (h - 1)

/-- both loops on a list of points: from the start, then from the end -/
def checkAndNudge (w h : Int) (ps : List Pt) : Res (List Pt) :=
  match nudgePass w h ps with
  | .error e => .error e
  | .ok ps1 =>
    match nudgePass w h ps1.reverse with
    | .error e => .error e
    | .ok ps2 => .ok ps2.reverse

/-- the original code (defect D8): the first loop writes `height`, the second `height - 1` -/
def checkAndNudgeD8 (w h : Int) (ps : List Pt) : Res (List Pt) :=
  match nudgePassG w h h ps with
  | .error e => .error e
  | .ok ps1 =>
    match nudgePassG w h (h - 1) ps1.reverse with
    | .error e => .error e
    | .ok ps2 => .ok ps2.reverse

/-! ### the interleaved `[]float64` view (what the exported Go function takes) -/

/-- split an interleaved slice into (x,y) pairs and the unpaired rest (0 or 1 element) -/
def toPairs : List Rat → List Pt × List Rat
  | x :: y :: rest => ((x, y) :: (toPairs rest).1, (toPairs rest).2)
  | rest => ([], rest)

def fromPairs : List Pt → List Rat
  | [] => []
  | p :: ps => p.1 :: p.2 :: fromPairs ps

/-- first loop: `for offset := 0; offset < len-1 && nudged; offset += 2` -/
def passFwd (w h : Int) (pts : List Rat) : Res (List Rat) :=
  match nudgePass w h (toPairs pts).1 with
  | .ok ps => .ok (fromPairs ps ++ (toPairs pts).2)
  | .error e => .error e

/-- second loop on an even-length slice: `for offset := len-2; offset >= 0 && nudged; offset -= 2` -/
def passBwdEven (w h : Int) (pts : List Rat) : Res (List Rat) :=
  match nudgePass w h (toPairs pts).1.reverse with
  | .ok ps => .ok (fromPairs ps.reverse ++ (toPairs pts).2)
  | .error e => .error e

/-- second loop in general: on an odd-length slice `len-2` is odd, the loop pairs
    `(points[1],points[2]), (points[3],points[4]) …` and never touches `points[0]`
    ("points.length must be even" — modelled as coded nevertheless). -/
def passBwd (w h : Int) (pts : List Rat) : Res (List Rat) :=
  if pts.length % 2 = 0 then passBwdEven w h pts
  else match pts with
    | [] => .ok []
    | x :: t =>
      match passBwdEven w h t with
      | .ok t' => .ok (x :: t')
      | .error e => .error e

/-- `GridSampler_checkAndNudgePoints(image, points)` with `w = image.GetWidth()`, `h = image.GetHeight()`;
    returns the slice contents after the call -/
def checkAndNudgePoints (w h : Int) (pts : List Rat) : Res (List Rat) :=
  match passFwd w h pts with
  | .ok pts1 => passBwd w h pts1
  | .error e => .error e

/-! ### sampling -/

/-- A bit image as the sampler sees it.  `get` may fail: the theorems quantify over arbitrary
    behaviour outside `[0,w) × [0,h)` (Go's BitMatrix.Get silently answers `false` there, Java's throws). -/
structure Image where
  w : Int
  h : Int
  get : Int → Int → Res Bool

/-- Go's `BitMatrix.Get` over a list of rows: `false` outside -/
def Image.ofRows (w h : Nat) (rows : List (List Bool)) : Image :=
  { w := w, h := h,
    get := fun x y =>
      if x < 0 ∨ y < 0 ∨ x ≥ w ∨ y ≥ h then .ok false
      else .ok (((rows.getD y.toNat []).getD x.toNat false)) }

/-- inner loop body: `px := int(points[x]); py := int(points[x+1])`, the bounds test that stands
    for Java's ArrayIndexOutOfBoundsException, then `image.Get(px, py)`.
    `lowGuard = false` is the original test `px >= width || py >= height` only. -/
def readPointG (lowGuard : Bool) (img : Image) (p : Pt) : Res Bool :=
  let px := trunc p.1
  let py := trunc p.2
  if (lowGuard && (px < 0 || py < 0)) || px ≥ img.w || py ≥ img.h then .error .notFound
  else img.get px py

def readPoint (img : Image) (p : Pt) : Res Bool := readPointG true img p

/-- total `mapM` in `Res` written out (first error wins, left to right) -/
def mapRes {α β : Type} (f : α → Res β) : List α → Res (List β)
  | [] => .ok []
  | a :: as =>
    match f a with
    | .error e => .error e
    | .ok b =>
      match mapRes f as with
      | .error e => .error e
      | .ok bs => .ok (b :: bs)

/-- cell centres of row `y`: `(x + 0.5, y + 0.5)` for `x = 0 .. dimX-1` -/
def rowCentres (dimX : Nat) (y : Nat) : List Pt :=
  (List.range dimX).map (fun (x : Nat) => (((x : Int) : Rat) + 1/2, ((y : Int) : Rat) + 1/2))

/-- `transform.TransformPoints(points)` on a row; `none` = some denominator vanished (Go: ±Inf/NaN) -/
def transformRow (t : PT Rat) : List Pt → Option (List Pt)
  | [] => some []
  | p :: ps =>
    match t.apply? p.1 p.2, transformRow t ps with
    | some q, some qs => some (q :: qs)
    | _, _ => none

/-- one iteration of the outer loop: the bits of row `y`.
    A vanishing denominator gives ±Inf/NaN in Go; `int()` of those is the most negative int64 on
    amd64, which both the nudge test and the (repaired) bounds test answer with NotFound. -/
def sampleRow (img : Image) (t : PT Rat) (dimX : Nat) (y : Nat) : Res (List Bool) :=
  match transformRow t (rowCentres dimX y) with
  | none => .error .notFound
  | some pts =>
    match checkAndNudge img.w img.h pts with
    | .error e => .error e
    | .ok pts' => mapRes (readPoint img) pts'

/-- `SampleGridWithTransform(image, dimensionX, dimensionY, transform)`: rows of the result matrix -/
def sampleGridWithTransform (img : Image) (dimX dimY : Int) (t : PT Rat) : Res (List (List Bool)) :=
  if dimX ≤ 0 ∨ dimY ≤ 0 then .error .notFound
  else mapRes (sampleRow img t dimX.toNat) (List.range dimY.toNat)

/-- `SampleGrid(image, dimX, dimY, p1To.., p1From..)` -/
def sampleGrid (img : Image) (dimX dimY : Int)
    (p1ToX p1ToY p2ToX p2ToY p3ToX p3ToY p4ToX p4ToY
     p1FromX p1FromY p2FromX p2FromY p3FromX p3FromY p4FromX p4FromY : Rat) : Res (List (List Bool)) :=
  sampleGridWithTransform img dimX dimY
    (quadrilateralToQuadrilateral p1ToX p1ToY p2ToX p2ToY p3ToX p3ToY p4ToX p4ToY
      p1FromX p1FromY p2FromX p2FromY p3FromX p3FromY p4FromX p4FromY)

end Gzx.GridSampler
