/-
  wp imgpath1d — the WHOLE 1-D image path as one model, glued from the existing models (nothing is copied):

    writer front end + module pattern + rendering   WriterFrontend.encode1D / encodeUPCA, OneD.*Modules, Render.render1D
    BitMatrix as image.Image → luminance source      go_image_bit_matrix.go (`At` = Gray{0} / Gray{255}),
                                                     go_image_luminance_source.go generic branch: Luminance.lumOfRGBA16
    NewBinaryBitmap(Hybrid | GlobalHistogram)        both binarisers answer `GetBlackRow` with the method of
                                                     GlobalHistogramBinarizer (HybridBinarizer embeds it): Binarizer.blackRow
    OneDReader.Decode / doDecode                     OneDScan.decode (middle row first, reversed retry, TRY_HARDER rotation)
    DecodeRow of the nine readers                    OneDRowExt (UPC/EAN), Row128, RowITF, Row39 (Code 39 / 93 / Codabar)
    upcAReader.Decode                                maybeReturnResult(ean13Reader.Decode(image)): OneDRowExt.maybeReturnResult

  The scan model `OneDScan` is parametric in the row decoder and identifies a hit by a number; here that number names
  the attempt (row, reversed) and the row decoder's own result is fetched from that attempt afterwards.
  Variance arithmetic: the exact interpretation (`exactDom`, `VarOps.exact`) — the one the row theorems are about.
  Core Lean only.  Tied to /repo by the `img1d` correspondence suite (harness/zz_imgpath1d_*.go).
-/
import Gzx.Model.WriterFrontend
import Gzx.Model.Luminance
import Gzx.Model.Binarizer
import Gzx.Model.OneDScan
import Gzx.Model.OneD
import Gzx.Model.OneDRowExt
import Gzx.Model.OneDRow128
import Gzx.Model.OneDRowITF
import Gzx.Model.OneDRow39
namespace Gzx.Image1D
open Gzx Gzx.CheckDigit

inductive Sym where
  | ean13 | ean8 | upca | upce | code39 | code93 | code128 | itf | codabar
  deriving DecidableEq, Repr

/-- `BarcodeFormat` numbers (WriterFrontend's) -/
def Sym.fmt : Sym → Nat
  | .ean13 => WriterFrontend.fmtEAN_13 | .ean8 => WriterFrontend.fmtEAN_8 | .upca => WriterFrontend.fmtUPC_A
  | .upce => WriterFrontend.fmtUPC_E | .code39 => WriterFrontend.fmtCODE_39 | .code93 => WriterFrontend.fmtCODE_93
  | .code128 => WriterFrontend.fmtCODE_128 | .itf => WriterFrontend.fmtITF | .codabar => WriterFrontend.fmtCODABAR

def Sym.ofEan : EanKind → Sym
  | .ean13 => .ean13 | .ean8 => .ean8 | .upca => .upca | .upce => .upce

/-- all tables the path reads -/
structure Env where
  T : OneD.Tables
  X : OneDRowExt.ExtTables
  I : RowITF.ItfT

def refEnv : Env := ⟨OneD.refTables, OneDRowExt.refExt, RowITF.refItfT⟩

/-! ## writer → BitMatrix -/

/-- FORCE_CODE_SET "A" / "B" / "C" as the code-set number the Code 128 encoder works with -/
def forcedOf (hints : WriterFrontend.Hints) : Option Nat :=
  match hints .forceCodeSet with
  | some (.str [65]) => some 101
  | some (.str [66]) => some 100
  | some (.str [67]) => some 99
  | _ => none

/-- the hint map of an `Encode` call: MARGIN (an int) and FORCE_CODE_SET (a one-letter string), each optional -/
def hintsOf (margin : Option Int) (forced : Option Nat) : WriterFrontend.Hints := fun k =>
  match k with
  | .margin => margin.map .int
  | .forceCodeSet => forced.map (fun f => .str [if f = 101 then 65 else if f = 100 then 66 else 67])
  | _ => none

/-- `New<Sym>Writer().Encode(contents, format, width, height, hints)`; contents are bytes (Code 128: code points) -/
def writeImage (T : OneD.Tables) (sym : Sym) (contents : List Nat) (width height : Int)
    (margin : Option Int) (forced : Option Nat) : Res Render.Image :=
  let hints := hintsOf margin forced
  match sym with
  | .ean13 => WriterFrontend.encode1D (WriterFrontend.ean13Writer (fun c _ => OneD.ean13Modules T c)) contents sym.fmt width height hints
  | .ean8 => WriterFrontend.encode1D (WriterFrontend.ean8Writer (fun c _ => OneD.ean8Modules T c)) contents sym.fmt width height hints
  | .upca => WriterFrontend.upcAWriter (fun c _ => OneD.ean13Modules T c) contents sym.fmt width height hints
  | .upce => WriterFrontend.encode1D (WriterFrontend.upcEWriter (fun c _ => OneD.upceModules T c)) contents sym.fmt width height hints
  | .code39 => WriterFrontend.encode1D (WriterFrontend.code39Writer (fun c _ => OneD.code39Modules T c)) contents sym.fmt width height hints
  | .code93 => WriterFrontend.encode1D (WriterFrontend.code93Writer (fun c _ => OneD.code93Modules T c)) contents sym.fmt width height hints
  | .code128 => WriterFrontend.encode1D
      (WriterFrontend.code128Writer List.length (fun c h => OneD.code128Modules T c (forcedOf h))) contents sym.fmt width height hints
  | .itf => WriterFrontend.encode1D (WriterFrontend.itfWriter (fun c _ => OneD.itfModules T c)) contents sym.fmt width height hints
  | .codabar => WriterFrontend.encode1D (WriterFrontend.codabarWriter (fun c _ => OneD.codabarModules T c)) contents sym.fmt width height hints

/-! ## pictures and poses -/

/-- a bit picture (true = black), row by row -/
structure Pic where
  w : Nat
  h : Nat
  rows : List (List Bool)
  deriving Repr, DecidableEq

def Pic.ofImage (img : Render.Image) : Pic := ⟨img.w.toNat, img.h.toNat, img.rows⟩

/-- turned by 180° -/
def Pic.rot180 (p : Pic) : Pic := ⟨p.w, p.h, (p.rows.map List.reverse).reverse⟩

/-- turned by 90° clockwise: new pixel (x, y) = old pixel (y, h-1-x) -/
def Pic.rot90 (p : Pic) : Pic :=
  ⟨p.h, p.w, (List.range p.w).map (fun y => p.rows.reverse.filterMap (fun r => r[y]?))⟩

inductive Pose where
  | upright | upsideDown | sideways
  deriving DecidableEq, Repr

def Pic.pose (p : Pic) : Pose → Pic
  | .upright => p
  | .upsideDown => p.rot180
  | .sideways => p.rot90

/-! ## picture → BinaryBitmap -/

/-- `NewLuminanceSourceFromImage(bitMatrix)`: `BitMatrix.At` answers `color.Gray{0}` for a set bit and
    `color.Gray{255}` otherwise; `Gray.RGBA()` is `(y·0x101, y·0x101, y·0x101, 0xffff)`; generic branch of the loop -/
def lumOfPixel (b : Bool) : Nat :=
  let y := if b then 0 else 255
  Luminance.lumOfRGBA16 (y * 257) (y * 257) (y * 257) 65535

inductive Binz where
  | hybrid | global
  deriving DecidableEq, Repr

/-- a `BinaryBitmap`: which binariser was installed, and its luminance source -/
structure Bitmap where
  binz : Binz
  src : Luminance.View

def Bitmap.ofPic (binz : Binz) (p : Pic) : Bitmap :=
  ⟨binz, Luminance.ofLuminances .img p.w p.h (p.rows.flatten.map lumOfPixel)⟩

def faultOf : Luminance.VErr → Fault
  | .fault f => f
  | .unsupported => .illegalArg

/-- `BinaryBitmap.GetBlackRow(y, row)`: `GlobalHistogramBinarizer.GetBlackRow` for BOTH binarisers
    (`source.GetRow(y, this.luminances)`, histogram, black point, -1 4 -1 filter) -/
def Bitmap.getBlackRow (b : Bitmap) (y : Nat) : Res (List Bool) :=
  match Luminance.getRow b.src (y : Int) none with
  | .error e => .error (faultOf e)
  | .ok r => Binarizer.blackRow r

/-- `BinaryBitmap.RotateCounterClockwise()`: the same binariser kind on the rotated source -/
def Bitmap.rotate (b : Bitmap) : Res Bitmap :=
  match Luminance.rotateCCW b.src with
  | .error e => .error (faultOf e)
  | .ok v => .ok { b with src := v }

/-! ## OneDReader.Decode on a bitmap, generic in the row decoder -/

/-- one `DecodeRow` attempt of `doDecode`: the black row of `rn`, reversed for the second attempt -/
def attempt {R : Type} (rd : Int → List Bool → Res R) (b : Bitmap) (rn : Nat) (rev : Bool) : Res R :=
  match b.getBlackRow rn with
  | .error e => .error e
  | .ok bits => rd (rn : Int) (if rev then bits.reverse else bits)

def blackOf (b : Bitmap) (rn : Nat) : Bool :=
  match b.getBlackRow rn with
  | .ok _ => true
  | .error _ => false

/-- the number that names an attempt in the scan model -/
def attemptKey (rn : Nat) (rev : Bool) : Nat := 2 * rn + (if rev then 1 else 0)

def decOf {R : Type} (rd : Int → List Bool → Res R) (b : Bitmap) (rn : Nat) (rev : Bool) : Res OneDScan.Hit :=
  match attempt rd b rn rev with
  | .error e => .error e
  | .ok _ => .ok ⟨attemptKey rn rev, none, []⟩

/-- what `Decode` found and where -/
structure Found (R : Type) where
  res : R
  row : Nat                    -- row of the scanned bitmap (of the rotated one if `rotated`)
  reversed : Bool
  rotated : Bool
  orientation : Option Nat     -- ResultMetadataType_ORIENTATION

def isRotated (h : OneDScan.Hit) : Bool :=
  match h.orientation with
  | some 270 => true
  | some 90 => true
  | _ => false

/-- the row decoder's result of the attempt the scan stopped at -/
def fetch {R : Type} (rd : Int → List Bool → Res R) (b b' : Bitmap) (h : OneDScan.Hit) : Res (Found R) :=
  let rotated := isRotated h
  let rn := h.text / 2
  let rev := h.text % 2 == 1
  match attempt rd (if rotated then b' else b) rn rev with
  | .error e => .error e
  | .ok r => .ok ⟨r, rn, rev, rotated, h.orientation⟩

/-- `OneDReader.Decode(image, hints)`; `tryHarder` = the TRY_HARDER key is present -/
def decodeImage {R : Type} (rd : Int → List Bool → Res R) (b : Bitmap) (tryHarder : Bool) : Res (Found R) :=
  let w := b.src.w
  let h := b.src.h
  let rotSup := Luminance.isRotateSupported b.src
  match b.rotate with
  | .error e =>
    -- `RotateCounterClockwise` is reached only after NotFound with TRY_HARDER on a source that can rotate
    match OneDScan.doDecode w h tryHarder (blackOf b) (decOf rd b) with
    | .ok hit => fetch rd b b hit
    | .error .notFound => if tryHarder && rotSup then .error e else .error .notFound
    | .error e' => .error e'
  | .ok b' =>
    match OneDScan.decode w h tryHarder rotSup (blackOf b) (decOf rd b) (blackOf b') (decOf rd b') with
    | .error e => .error e
    | .ok hit => fetch rd b b' hit

/-! ## the nine readers (nil hints apart from TRY_HARDER) -/

/-- what every reader's result is compared on -/
structure Read where
  fmt : Sym
  text : List Nat
  row : Nat
  reversed : Bool
  rotated : Bool
  orientation : Option Nat
  deriving DecidableEq, Repr

def upcRow (E : Env) (k : EanKind) (rn : Int) (row : List Bool) : Res OneDRowExt.RowResult :=
  (OneDRowExt.decodeRow OneDRowExt.VarOps.exact E.T E.X k rn row {}).2

def readOfUpc (f : Found OneDRowExt.RowResult) : Read :=
  ⟨Sym.ofEan f.res.format, f.res.text, f.row, f.reversed, f.rotated, f.orientation⟩

/-- `New<Sym>Reader().Decode(bitmap, hints)`; `ext39`: the Code 39 reader was built with extendedMode -/
def readImage (E : Env) (sym : Sym) (ext39 : Bool) (b : Bitmap) (tryHarder : Bool) : Res Read :=
  match sym with
  | .ean13 => (decodeImage (upcRow E .ean13) b tryHarder).map readOfUpc
  | .ean8 => (decodeImage (upcRow E .ean8) b tryHarder).map readOfUpc
  | .upce => (decodeImage (upcRow E .upce) b tryHarder).map readOfUpc
  | .upca =>
    -- `maybeReturnResult(this.ean13Reader.Decode(image, hints))`
    match decodeImage (upcRow E .ean13) b tryHarder with
    | .error e => .error e
    | .ok f =>
      match OneDRowExt.maybeReturnResult (.ok f.res) with
      | .error e => .error e
      | .ok r => .ok (readOfUpc { f with res := r })
  | .code128 =>
    (decodeImage (fun _ row => Row128.decodeRow Row128.exactDom E.T.code128 row false) b tryHarder).map
      (fun f => ⟨.code128, f.res.text, f.row, f.reversed, f.rotated, f.orientation⟩)
  | .itf =>
    (decodeImage (fun _ row => RowITF.decodeRow Row128.exactDom E.I row none) b tryHarder).map
      (fun f => ⟨.itf, f.res.text, f.row, f.reversed, f.rotated, f.orientation⟩)
  | .code39 =>
    (decodeImage (fun _ row => Row39.c39DecodeRow E.T false ext39 row) b tryHarder).map
      (fun f => ⟨.code39, f.res.text, f.row, f.reversed, f.rotated, f.orientation⟩)
  | .code93 =>
    (decodeImage (fun _ row => Row39.c93DecodeRow E.T row) b tryHarder).map
      (fun f => ⟨.code93, f.res.text, f.row, f.reversed, f.rotated, f.orientation⟩)
  | .codabar =>
    (decodeImage (fun _ row => Row39.cbDecodeRow E.T false row) b tryHarder).map
      (fun f => ⟨.codabar, f.res.text, f.row, f.reversed, f.rotated, f.orientation⟩)

/-! ## the same readers, seen through ONE row-decoder function (text and format only)

  `readImage_generic` (Gzx/Proofs/Image1DScan.lean) shows `readImage` is `decodeImage` over `rowRead`, followed by `finishRead`;
  the pose theorems are stated once over `rowRead`. -/

/-- the symbology whose `DecodeRow` the scan runs: `upcAReader.Decode` scans with its EAN-13 reader -/
def scanSym : Sym → Sym
  | .upca => .ean13
  | s => s

/-- `DecodeRow` of the reader of `sym` (nil hints): format and text -/
def rowRead (E : Env) (ext39 : Bool) : Sym → Int → List Bool → Res (Sym × List Nat)
  | .ean13, rn, row => (upcRow E .ean13 rn row).map (fun r => (Sym.ofEan r.format, r.text))
  | .ean8, rn, row => (upcRow E .ean8 rn row).map (fun r => (Sym.ofEan r.format, r.text))
  | .upca, rn, row => (upcRow E .upca rn row).map (fun r => (Sym.ofEan r.format, r.text))
  | .upce, rn, row => (upcRow E .upce rn row).map (fun r => (Sym.ofEan r.format, r.text))
  | .code128, _, row => (Row128.decodeRow Row128.exactDom E.T.code128 row false).map (fun o => (.code128, o.text))
  | .itf, _, row => (RowITF.decodeRow Row128.exactDom E.I row none).map (fun o => (.itf, o.text))
  | .code39, _, row => (Row39.c39DecodeRow E.T false ext39 row).map (fun o => (.code39, o.text))
  | .code93, _, row => (Row39.c93DecodeRow E.T row).map (fun o => (.code93, o.text))
  | .codabar, _, row => (Row39.cbDecodeRow E.T false row).map (fun o => (.codabar, o.text))

/-- what `Decode` does with the scan's result: `upcAReader` applies `maybeReturnResult`, the others nothing -/
def finishRead (sym : Sym) (r : Sym × List Nat) : Res (Sym × List Nat) :=
  match sym with
  | .upca => (OneDRowExt.maybeReturnResult (.ok ⟨r.2, .ean13, [], []⟩)).map (fun x => (Sym.ofEan x.format, x.text))
  | _ => .ok r

/-! ## the whole path -/

/-- writer → BitMatrix → (pose) → image → BinaryBitmap → reader -/
def imagePath (E : Env) (sym : Sym) (contents : List Nat) (width height : Int) (margin : Option Int)
    (forced : Option Nat) (pose : Pose) (binz : Binz) (ext39 tryHarder : Bool) : Res Read :=
  match writeImage E.T sym contents width height margin forced with
  | .error e => .error e
  | .ok img => readImage E sym ext39 (Bitmap.ofPic binz ((Pic.ofImage img).pose pose)) tryHarder

/-! ## the multi-format UPC/EAN reader -/

/-- `multiFormatUPCEANReader.DecodeRow`; `formats` = the POSSIBLE_FORMATS hint seen by constructor and call
    (`some k` = a UPC/EAN format, `none` = any other format; `[]` = no hint) -/
def multiRow (E : Env) (formats : List (Option EanKind)) (rn : Int) (row : List Bool) : Res (Sym × List Nat) :=
  (OneDRowExt.multiDecodeRow OneDRowExt.VarOps.exact E.T E.X (OneDRowExt.multiReaders formats) rn row
      { canUPCA := formats.contains (some .upca) }).2.map (fun r => (Sym.ofEan r.format, r.text))

/-- `NewMultiFormatUPCEANReader(hints).Decode(bitmap, hints)` -/
def readImageMulti (E : Env) (formats : List (Option EanKind)) (b : Bitmap) (tryHarder : Bool) : Res Read :=
  (decodeImage (multiRow E formats) b tryHarder).map
    (fun f => ⟨f.res.1, f.res.2, f.row, f.reversed, f.rotated, f.orientation⟩)

def imagePathMulti (E : Env) (sym : Sym) (contents : List Nat) (width height : Int) (margin : Option Int)
    (forced : Option Nat) (pose : Pose) (binz : Binz) (formats : List (Option EanKind)) (tryHarder : Bool) : Res Read :=
  match writeImage E.T sym contents width height margin forced with
  | .error e => .error e
  | .ok img => readImageMulti E formats (Bitmap.ofPic binz ((Pic.ofImage img).pose pose)) tryHarder

end Gzx.Image1D
