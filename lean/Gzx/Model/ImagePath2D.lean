/-
  Work package imgpath2d — the PURE-BARCODE image path of the 2-D readers, composed from the existing models:

    writer's BitMatrix (Model/Render.lean: `Render.Image`)
      → `BitMatrix.At`  (go_image_bit_matrix.go: `color.Gray{0}` for a set bit, `color.Gray{255}` otherwise)
      → `NewLuminanceSourceFromImage`, default branch (go_image_luminance_source.go; `lumOfRGBA16`, C17)
      → `NewBinaryBitmapFromImage` = `HybridBinarizer` (Model/Binarizer.lean `hybridSets`; global method below 40 px)
      → `Reader.Decode(bitmap, {PURE_BARCODE})`:
            Data Matrix: `GetBlackMatrix` (error wrapped: `WrapReaderException`) → `extractPureBits` → `Decoder.Decode`
            QR:          `GetBlackMatrix` (error returned as is)                 → `extractPureBits` → `Decoder.Decode`
  The matrix decoders are parameters here (their models live in DMDecodeChain / QRDecoder); the driver and the
  property files plug them in.  Core Lean only.
-/
import Gzx.Model.Render
import Gzx.Model.Luminance
import Gzx.Model.Binarizer
import Gzx.Model.PureBits
namespace Gzx.ImagePath
open Gzx Gzx.Det Gzx.Det.Pure

/-- `BitMatrix.At(x, y).Y`: `c := color.Gray{0}; if !img.Get(x, y) { c.Y = 255 }` -/
def grayAt (b : Bool) : Nat := if b then 0 else 255

/-- one pixel of `NewLuminanceSourceFromImage` (default branch): `r, g, b, a := img.At(x, y).RGBA()`, for a
    `color.Gray{Y}`: `r = g = b = Y | Y<<8 = Y*0x101`, `a = 0xffff`; then the luminance formula -/
def lumOfBit (b : Bool) : Nat :=
  let y := grayAt b * 257
  Luminance.lumOfRGBA16 y y y 65535

/-- the luminance array (row-major, `index++` per pixel) of a bit picture given as rows -/
def lumOfRows (rows : List (List Bool)) : Array Nat := (rows.flatten.map lumOfBit).toArray

/-- the luminance array of a rendered BitMatrix -/
def lumOfImage (img : Render.Image) : Array Nat := lumOfRows img.rows

/-- a rendered BitMatrix handed DIRECTLY to the locating code (no binariser in between) -/
def bitImage (img : Render.Image) : Img := { w := img.w, h := img.h, pix := img.px }

/-- the black matrix (`w x h`, the binariser's `Set` calls replayed by `Binarizer.render`) as the bit image
    the locating code sees; outside `[0,w) × [0,h)` the pixel function is false (never consulted: `Get` is guarded) -/
def blackImg (w h : Nat) (sets : List (Nat × Nat)) : Img :=
  let a := Binarizer.render w h sets
  { w := w, h := h,
    pix := fun x y => decide (0 ≤ x ∧ x < (w : Int) ∧ 0 ≤ y) && (a[y.toNat * w + x.toNat]? == some true) }

/-- `NewBinaryBitmapFromImage(img).GetBlackMatrix()` on a `w x h` bit picture given as rows -/
def blackMatrixOfRows (w h : Nat) (rows : List (List Bool)) : Res Img :=
  match Binarizer.hybridSets (lumOfRows rows) w h with
  | .ok sets => .ok (blackImg w h sets)
  | .error e => .error e

/-- … on a rendered BitMatrix -/
def blackMatrix (img : Render.Image) : Res Img := blackMatrixOfRows img.w.toNat img.h.toNat img.rows

/-- how `Reader.Decode` can fail: a binariser error wrapped by `WrapReaderException` (Data Matrix reader), or a
    fault handed through -/
inductive ReadFault where
  | reader (cause : Fault)
  | other (e : Fault)
  deriving Repr, DecidableEq

def ReadFault.tag : ReadFault → String
  | .reader (.panic _) => "PANIC"
  | .reader _ => "reader"
  | .other e => e.tag

/-- how a fault of the matrix decoder (or of `extractPureBits`) surfaces from `Reader.Decode`: unchanged -/
def liftRes {α : Type} : Res α → Except ReadFault α
  | .ok a => .ok a
  | .error e => .error (.other e)

/-- `DataMatrixReader.Decode(image, {PURE_BARCODE: …})` on the black matrix the bitmap yields; `decode` is
    `decoder.Decode(bits)` -/
def dmRead {α : Type} (black : Res Img) (decode : Bits → Res α) : Except ReadFault α :=
  match black with
  | .error e => .error (.reader e)            -- return nil, gozxing.WrapReaderException(e)
  | .ok bm =>
    match DM.extractPureBits bm.rdGo bm with
    | .error e => .error (.other e)
    | .ok bits =>
      match decode bits with
      | .error e => .error (.other e)
      | .ok r => .ok r

/-- `QRCodeReader.Decode(image, {PURE_BARCODE: …})`: the binariser's error is returned as it is -/
def qrRead {F α : Type} (o : FOps F) (black : Res Img) (decode : Bits → Res α) : Except ReadFault α :=
  match black with
  | .error e => .error (.other e)
  | .ok bm =>
    match QR.extractPureBits o bm.rdGo bm with
    | .error e => .error (.other e)
    | .ok bits =>
      match decode bits with
      | .error e => .error (.other e)
      | .ok r => .ok r

/-- Data Matrix, the whole image path from the module matrix: `convertByteMatrixToBitMatrix(matrix, w, h)` →
    image → bitmap → `Decode(PURE_BARCODE)` -/
def dmImagePath {α : Type} (mw mh : Nat) (m : Nat → Nat → Bool) (reqW reqH : Int) (decode : Bits → Res α) :
    Except ReadFault α :=
  match Render.renderDM mw mh m reqW reqH with
  | .error e => .error (.other e)
  | .ok img => dmRead (blackMatrix img) decode

/-- QR, the whole image path from the module matrix: `renderResult(code, w, h, quietZone)` → image → bitmap →
    `Decode(PURE_BARCODE)` -/
def qrImagePath {F α : Type} (o : FOps F) (mw mh : Nat) (m : Nat → Nat → Bool) (quiet reqW reqH : Int)
    (decode : Bits → Res α) : Except ReadFault α :=
  match Render.renderQR mw mh m quiet reqW reqH with
  | .error e => .error (.other e)
  | .ok img => qrRead o (blackMatrix img) decode

end Gzx.ImagePath
