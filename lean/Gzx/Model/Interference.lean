/-
  C18 — abstract machine for "independent instances run concurrently".

  Goroutines `g : Nat` (unboundedly many) each run a straight-line program of steps over
    * a global store `G : Loc → Val` — package-level variables and everything reachable from them
      (`Shared` locations) as well as heap cells of reader/writer instances (non-`Shared`
      locations, each owned by the goroutine that created the instance), and
    * a private store (registers / stack) only the goroutine itself can touch.
  A schedule is a list of goroutine ids: each entry lets that goroutine execute its next step
  (an entry for a finished goroutine is a no-op), i.e. an arbitrary interleaving that respects
  every program order.  This is sequentially-consistent interleaving semantics; the Go memory
  model guarantees it for data-race-free programs, and `no_conflict` (Properties/C18) is exactly
  data-race freedom of the programs considered.

  What is NOT modelled: the Go scheduler and runtime, the allocator, channel/lock operations
  (the library uses none), and how Go source maps to steps — the tie to /repo is the effect
  summary computed by the C18 scanner (no write to a package-level location outside init) plus
  the race-detector runs.
-/
import Gzx.Util
namespace Gzx.Interference

abbrev Loc := Nat
abbrev Val := Int
abbrev Gid := Nat
abbrev PStore := Nat → Val          -- private registers
abbrev GStore := Loc → Val

/-- one atomic step of a goroutine -/
inductive Step where
  | read (reg : Nat) (loc : Nat)                 -- reg := G[loc]
  | write (loc : Nat) (e : PStore → Val)         -- G[loc] := e(private)
  | localStep (f : PStore → PStore)              -- arbitrary private computation

def upd {α : Type} (f : Nat → α) (i : Nat) (v : α) : Nat → α := fun j => if j = i then v else f j

def Step.writes : Step → Nat → Prop
  | .write l _, loc => l = loc
  | _, _ => False

def Step.reads : Step → Nat → Prop
  | .read _ l, loc => l = loc
  | _, _ => False

def Step.accesses (s : Step) (loc : Nat) : Prop := s.reads loc ∨ s.writes loc

/-- effect of one step on (private store of the executing goroutine, global store) -/
def exec : Step → PStore × GStore → PStore × GStore
  | .read r l, (p, G) => (upd p r (G l), G)
  | .write l e, (p, G) => (p, upd G l (e p))
  | .localStep f, (p, G) => (f p, G)

/-- a goroutine running ALONE from the initial stores: state after its first `k` steps -/
def alone (prog : List Step) (p0 : PStore) (G0 : GStore) (k : Nat) : PStore × GStore :=
  (prog.take k).foldl (fun st s => exec s st) (p0, G0)

structure State where
  P : Gid → PStore
  G : GStore
  pc : Gid → Nat

def init (P0 : Gid → PStore) (G0 : GStore) : State := ⟨P0, G0, fun _ => 0⟩

/-- goroutine `g` executes its next step, if it has one -/
def stepOf (prog : Gid → List Step) (st : State) (g : Gid) : State :=
  match (prog g)[st.pc g]? with
  | none => st
  | some s =>
    let r := exec s (st.P g, st.G)
    ⟨upd st.P g r.1, r.2, upd st.pc g (st.pc g + 1)⟩

/-- run an interleaving -/
def run (prog : Gid → List Step) (sched : List Gid) (st : State) : State :=
  sched.foldl (stepOf prog) st

/-- the sequential schedule of goroutines `gs`: each runs to completion before the next starts -/
def sequential (prog : Gid → List Step) (gs : List Gid) : List Gid :=
  gs.flatMap (fun g => List.replicate (prog g).length g)

/-- the premise established for the library by the effect summary:
    (1) no step writes a `Shared` location (package-level state is written in init only, i.e.
        before any of the goroutines considered starts);
    (2) every non-`Shared` location a goroutine touches belongs to it (own instances). -/
structure Independent (prog : Gid → List Step) (Shared : Loc → Prop) (owner : Loc → Gid) : Prop where
  noSharedWrite : ∀ g s, s ∈ prog g → ∀ loc, s.writes loc → ¬ Shared loc
  ownInstances : ∀ g s, s ∈ prog g → ∀ loc, s.accesses loc → ¬ Shared loc → owner loc = g

/-- decidable version of the premise for finite data (used by the driver on the scanner output):
    every write `(func, var)` of the summary is in the reviewed allow-list -/
def premiseViolations (writes allowed : List String) : List String :=
  writes.filter (fun w => !allowed.contains w)

end Gzx.Interference
