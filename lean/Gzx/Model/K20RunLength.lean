/-
  Word-level mirror of oned/oned_reader.go : RecordPattern, RecordPatternInReverse and the integer sums of
  PatternMatchVariance — the functions that the translator regenerates into `Gzx.Gen.K20` on every run
  (work package k17k20).  Unlike `Model/RunLength.lean` (rows as `List Bool`, counters as a result) this
  layer keeps what the Go code has: a CHECKED pixel getter `get : Nat → Res Bool` (the regenerated
  `BitArray.Get` on the row's word slice, which panics on a corrupt row), the row size, the caller's
  `counters []int` as a `List Int` that is written in place and returned, and the `error` result as a
  Bool (`true` = NotFound).  `Obligations/K20.lean` proves `Gen.K20.f = <this>` for ALL arguments;
  `Proofs/K20.lean` proves that on a well-formed row this is `Model/RunLength.lean`.  Core Lean only.
-/
import Gzx.GoM
namespace Gzx.K20
open Gzx Gzx.GoM

/-- the `for i < end` loop of `RecordPattern`: `k` = pixels left, state `(counters, i, isWhite, counterPosition)` -/
def rpScan (get : Nat → Res Bool) (n : Int) : Nat → Nat → List Int → Bool → Int → Res (List Int × Nat × Bool × Int)
  | 0, i, cs, w, cp => .ok (cs, i, w, cp)
  | k + 1, i, cs, w, cp =>
    match get i with
    | .error e => .error e
    | .ok b =>
      if b != w then
        match idx cs cp with
        | .error e => .error e
        | .ok c =>
          match setIdx cs cp (c + 1) with
          | .error e => .error e
          | .ok cs' => rpScan get n k (i + 1) cs' w cp
      else if cp + 1 == n then .ok (cs, i, w, cp + 1)
      else
        match setIdx cs (cp + 1) 1 with
        | .error e => .error e
        | .ok cs' => rpScan get n k (i + 1) cs' (!w) (cp + 1)

/-- `RecordPattern(row, start, counters)`: (NotFound?, counters afterwards) -/
def recordPattern (get : Nat → Res Bool) (size start : Nat) (counters : List Int) : Res (Bool × List Int) :=
  let n : Int := (counters.length : Nat)
  let cs0 := counters.map (fun _ => (0 : Int))
  if start ≥ size then .ok (true, cs0)
  else
    match get start with
    | .error e => .error e
    | .ok b =>
      match rpScan get n (size - start) start cs0 (!b) 0 with
      | .error e => .error e
      | .ok (cs, i, _, cp) =>
        if !(cp == n || (cp == n - 1 && (i : Int) == (size : Int))) then .ok (true, cs) else .ok (false, cs)

/-- the backwards walk of `RecordPatternInReverse`: `(start, numTransitionsLeft, last)` -/
def revScan (get : Nat → Res Bool) : Nat → Int → Bool → Res (Nat × Int × Bool)
  | 0, l, last => .ok (0, l, last)
  | s + 1, l, last =>
    if l ≥ 0 then
      match get s with
      | .error e => .error e
      | .ok b => if b != last then revScan get s (l - 1) (!last) else revScan get s l last
    else .ok (s + 1, l, last)

/-- `RecordPatternInReverse(row, start, counters)` -/
def recordPatternInReverse (get : Nat → Res Bool) (size start : Nat) (counters : List Int) : Res (Bool × List Int) :=
  match get start with
  | .error e => .error e
  | .ok last =>
    match revScan get start (counters.length : Nat) last with
    | .error e => .error e
    | .ok (s, l, _) =>
      if l ≥ 0 then .ok (true, counters) else recordPattern get size (s + 1) counters

/-- `total`, `patternLength` of `PatternMatchVariance`: sums over `i < len(counters)`, `pattern[i]` checked -/
def pmvSums : List Int → List Int → Int → Int → Res (Int × Int)
  | [], _, t, p => .ok (t, p)
  | _ :: _, [], _, _ => .error oob
  | c :: cs, q :: qs, t, p => pmvSums cs qs (t + c) (p + q)

end Gzx.K20
