/-
  C18 (wp c18gen) — the abstract machine of Model/Interference.lean extended with FIRST-USE INITIALISATION.

  The library has none today (Obligations.C18.sync_uses_allowed / shared_type_writes_allowed: no sync object, no field
  of a shared object written after construction).  A plausible change — building the exp/log tables of a `GenericGF`
  lazily on first use — introduces run-time writes to shared state, so the premise "no step writes a shared location"
  of Properties/C18.lean is gone.  This file models what replaces it:

    * part of the shared store is LAZY: groups `k` of cells, each group with a `done` flag; `cell loc = some (k, v)`
      says that first use stores `v` into `loc`;
    * a step `once k` is `sync.Once.Do(init_k)`: ATOMICALLY, if the flag of group `k` is 0, every cell of the group gets
      its value and the flag becomes 1 (the atomicity is what `sync.Once` provides: concurrent first users block until
      the winner has finished);
    * writes carry a guard (a predicate on the private store) so that the UNSYNCHRONISED form
      `if !ready { table = build(); ready = true }` can be written down with plain steps — and shown to be unsafe.

  `LazySafe` (below) is the condition under which first-use initialisation is safe; Properties/C18Lazy.lean proves
  non-interference from it and shows that each clause is needed.
-/
import Gzx.Model.Interference
namespace Gzx.LazyInit
open Gzx.Interference

structure Lazy where
  flagOf : Nat → Loc
  cell : Loc → Option (Nat × Val)

def Lazy.IsLazy (L : Lazy) (loc : Loc) : Prop := (∃ k, loc = L.flagOf k) ∨ (L.cell loc).isSome

inductive LStep where
  | read (reg : Nat) (loc : Nat)
  | write (guard : PStore → Bool) (loc : Nat) (e : PStore → Val)   -- if guard(private) then G[loc] := e(private)
  | localStep (f : PStore → PStore)
  | once (k : Nat)

def LStep.writes : LStep → Nat → Prop
  | .write _ l _, loc => l = loc
  | _, _ => False

def LStep.reads : LStep → Nat → Prop
  | .read _ l, loc => l = loc
  | _, _ => False

def LStep.accesses (s : LStep) (loc : Nat) : Prop := s.reads loc ∨ s.writes loc

/-- `sync.Once.Do(init_k)` on the global store -/
def initGroup (L : Lazy) (k : Nat) (G : GStore) : GStore :=
  if G (L.flagOf k) = 0 then
    fun loc =>
      if loc = L.flagOf k then 1
      else match L.cell loc with
        | some (k', v) => if k' = k then v else G loc
        | none => G loc
  else G

def lexec (L : Lazy) : LStep → PStore × GStore → PStore × GStore
  | .read r l, (p, G) => (upd p r (G l), G)
  | .write gd l e, (p, G) => (p, if gd p then upd G l (e p) else G)
  | .localStep f, (p, G) => (f p, G)
  | .once k, (p, G) => (p, initGroup L k G)

def lalone (L : Lazy) (prog : List LStep) (p0 : PStore) (G0 : GStore) (k : Nat) : PStore × GStore :=
  (prog.take k).foldl (fun st s => lexec L s st) (p0, G0)

def lstepOf (L : Lazy) (prog : Gid → List LStep) (st : State) (g : Gid) : State :=
  match (prog g)[st.pc g]? with
  | none => st
  | some s =>
    let r := lexec L s (st.P g, st.G)
    ⟨upd st.P g r.1, r.2, upd st.pc g (st.pc g + 1)⟩

def lrun (L : Lazy) (prog : Gid → List LStep) (sched : List Gid) (st : State) : State :=
  sched.foldl (lstepOf L prog) st

/-- initialised groups hold their values -/
def Consistent (L : Lazy) (G : GStore) : Prop :=
  ∀ loc k v, L.cell loc = some (k, v) → G (L.flagOf k) ≠ 0 → G loc = v

/-- THE CONDITION under which first-use initialisation is safe -/
structure LazySafe (L : Lazy) (prog : Gid → List LStep) (Shared : Loc → Prop) (owner : Loc → Gid) : Prop where
  /-- groups have distinct flags, and a flag is not a cell -/
  flagInj : ∀ k k', L.flagOf k = L.flagOf k' → k = k'
  flagNotCell : ∀ k, L.cell (L.flagOf k) = none
  /-- lazy state is shared state -/
  lazyShared : ∀ loc, L.IsLazy loc → Shared loc
  /-- shared state — lazy or not — is written by `once` steps only: no plain write, guarded or not -/
  noSharedWrite : ∀ g s, s ∈ prog g → ∀ loc, s.writes loc → ¬ Shared loc
  /-- own instances, as before -/
  ownInstances : ∀ g s, s ∈ prog g → ∀ loc, s.accesses loc → ¬ Shared loc → owner loc = g
  /-- the flags belong to the Once objects: never read by plain steps -/
  noFlagRead : ∀ g s, s ∈ prog g → ∀ k, ¬ s.reads (L.flagOf k)
  /-- FIRST-USE DISCIPLINE: in program order, every read of a lazy cell comes after `once` of its group -/
  firstUse : ∀ (g : Gid) (i r : Nat) (loc : Loc) (k : Nat) (v : Val), (prog g)[i]? = some (LStep.read r loc) → L.cell loc = some (k, v) →
    ∃ j : Nat, j < i ∧ (prog g)[j]? = some (LStep.once k)

/-- base machine programs are lazy machine programs (no guard, no `once`) -/
def embedStep : Step → LStep
  | .read r l => .read r l
  | .write l e => .write (fun _ => true) l e
  | .localStep f => .localStep f

def embed (prog : Gid → List Step) : Gid → List LStep := fun g => (prog g).map embedStep

end Gzx.LazyInit
