/-
  Model of the luminance sources of gozxing (root package):
    rgb_luminance_source.go, go_image_luminance_source.go, planar_yuv_luminance_source.go,
    inverted_luminance_source.go, luminance_source.go (LuminanceSourceBase).
  Hand-written mirror of the Go control flow; tied to /repo by the `c17 seq` / `c17 conv` correspondence
  suites.  The model mirrors the code AFTER the D12 repair (Crop validates the rectangle against the current
  view and rejects negative origins).

  A source is a *view* `{data, dataW, dataH, left, top, w, h}` on a shared byte array; the
  `InvertedLuminanceSource` wrapper is the flag `inv` (Go never nests two wrappers: `Invert()` of a wrapper
  returns the delegate).  Every Go slice / index expression that can panic is an explicit `.error (.panic _)`.
-/
import Gzx.Util
import Gzx.Model.ExceptList
namespace Gzx.Luminance

/-- failures of a view operation: a `Fault` (panic / IllegalArgumentException) or the
    "UnsupportedOperationException" / "not implemented" errors of sources that cannot rotate -/
inductive VErr where
  | fault (f : Fault)
  | unsupported
  deriving Repr, DecidableEq

def VErr.tag : VErr → String
  | .fault f => f.tag
  | .unsupported => "other"

abbrev VRes (α : Type) := Except VErr α

def vpanic {α : Type} (why : String) : VRes α := .error (.fault (.panic why))
def villegal {α : Type} : VRes α := .error (.fault .illegalArg)

/-- which Go type the (un-inverted) source has -/
inductive Kind where
  | rgb   -- *RGBLuminanceSource
  | img   -- *GoImageLuminanceSource (embeds *RGBLuminanceSource, adds RotateCounterClockwise)
  | yuv   -- *PlanarYUVLuminanceSource
  deriving Repr, DecidableEq

structure View where
  kind : Kind
  data : List Nat      -- luminances / yuvData (bytes)
  dataW : Nat
  dataH : Nat
  left : Nat
  top : Nat
  w : Nat              -- LuminanceSourceBase.Width
  h : Nat              -- LuminanceSourceBase.Height
  inv : Bool           -- wrapped in an InvertedLuminanceSource
  deriving Repr, DecidableEq

/-! ## Go slice and index expressions -/

/-- `l[a:b]` (capacity = length) -/
def slice (l : List Nat) (a b : Nat) : VRes (List Nat) :=
  if a ≤ b ∧ b ≤ l.length then .ok ((l.drop a).take (b - a))
  else vpanic "slice bounds out of range"

/-- `l[i]` -/
def idx (l : List Nat) (i : Nat) : VRes Nat :=
  match l[i]? with
  | some v => .ok v
  | none => vpanic "index out of range"

/-! ## colour → luminance -/

/-- `NewRGBLuminanceSource`: `r = (p>>16)&0xff`, `g2 = (p>>7)&0x1fe`, `b = p&0xff`, `(r+g2+b)/4`
    for a Go `int` pixel of any sign (arithmetic shift = floor division, mask = Euclidean remainder) -/
def lumOfRGBInt (p : Int) : Nat :=
  let r := (p / 65536) % 256
  let g2 := 2 * ((p / 256) % 256)
  let b := p % 256
  ((r + g2 + b) / 4).toNat % 256

/-- `NewLuminanceSourceFromImage`, generic / RGBA64Image branch, on the 16-bit alpha-premultiplied
    channels returned by `Color.RGBA()`: `lum := (r+2g+b)*255/(4*0xffff)`;
    `byte((lum*a + (0xffff-a)*255)/0xffff)` (uint32 arithmetic; no overflow for channels ≤ 0xffff) -/
def lumOfRGBA16 (r g b a : Nat) : Nat :=
  let lum := ((r + 2 * g + b) * 255 % 4294967296) / (4 * 65535)
  (((lum * a + (65535 - a) * 255) % 4294967296) / 65535) % 256

/-! ## constructors -/

/-- the source `NewRGBLuminanceSource(w, h, pixels)` / `NewLuminanceSourceFromImage(img)` ends up with -/
def ofLuminances (kind : Kind) (w h : Nat) (lum : List Nat) : View :=
  { kind := kind, data := lum, dataW := w, dataH := h, left := 0, top := 0, w := w, h := h, inv := false }

/-- one row of `reverseHorizontal`: Go swaps `yuvData[x1], yuvData[x2]` from the outside in; the first
    swap touches `rowStart + w - 1`, so a row that sticks out of the buffer panics iff `w ≥ 2` -/
def reverseRow (data : List Nat) (rowStart w : Nat) : VRes (List Nat) :=
  if w < 2 then .ok data
  else if rowStart + w ≤ data.length then
    .ok (data.take rowStart ++ ((data.drop rowStart).take w).reverse ++ data.drop (rowStart + w))
  else vpanic "index out of range in reverseHorizontal"

def reverseRows (dataW w : Nat) : Nat → Nat → List Nat → VRes (List Nat)
  | 0, _, data => .ok data
  | n + 1, rowStart, data => do
    let d ← reverseRow data rowStart w
    reverseRows dataW w n (rowStart + dataW) d

/-- `NewPlanarYUVLuminanceSource(yuvData, dataWidth, dataHeight, left, top, width, height, reverseHorizontal)` -/
def newYUV (data : List Nat) (dataW dataH : Nat) (left top : Int) (w h : Nat) (rev : Bool) : VRes View :=
  -- (Go also rejects `width < 0 || height < 0`; sizes are naturals here, see `cropI`)
  if left < 0 ∨ top < 0 ∨ left + w > dataW ∨ top + h > dataH then villegal
  else
    let l := left.toNat
    let t := top.toNat
    if rev then do
      let d ← reverseRows dataW w h (t * dataW + l) data
      .ok { kind := .yuv, data := d, dataW := dataW, dataH := dataH, left := l, top := t, w := w, h := h, inv := false }
    else
      .ok { kind := .yuv, data := data, dataW := dataW, dataH := dataH, left := l, top := t, w := w, h := h, inv := false }

/-! ## GetRow -/

/-- `GetRow(y, row)` of the un-inverted source.  `row = none` is Go's `nil`.  Returns the whole returned
    slice: the first `w` bytes are the row, a longer caller buffer keeps its tail (buffer-reuse rule:
    a buffer shorter than `w` is replaced by a fresh one). -/
def baseGetRow (v : View) (y : Int) (row : Option (List Nat)) : VRes (List Nat) :=
  if y < 0 ∨ y ≥ v.h then villegal
  else
    let buf := match row with
      | some r => if r.length < v.w then List.replicate v.w 0 else r
      | none => List.replicate v.w 0
    let offset := (y.toNat + v.top) * v.dataW + v.left
    do
      let s ← slice v.data offset (offset + v.w)
      .ok (s ++ buf.drop v.w)

def inv255 (x : Nat) : Nat := 255 - x

/-- `GetRow` incl. the `InvertedLuminanceSource` wrapper (inverts the first `w` entries in place) -/
def getRow (v : View) (y : Int) (row : Option (List Nat)) : VRes (List Nat) := do
  let r ← baseGetRow v y row
  if v.inv then .ok ((r.take v.w).map inv255 ++ r.drop v.w) else .ok r

/-! ## GetMatrix: three copy strategies -/

/-- "copy one cropped row at a time" -/
def rowsCopy (data : List Nat) (dataW w : Nat) : Nat → Nat → VRes (List Nat)
  | _, 0 => .ok []
  | off, n + 1 => do
    let s ← slice data off (off + w)
    let rest ← rowsCopy data dataW w (off + dataW) n
    .ok (s ++ rest)

def baseGetMatrix (v : View) : VRes (List Nat) :=
  -- whole underlying image: the original array is returned (may be longer than w*h)
  if v.w = v.dataW ∧ v.h = v.dataH then .ok v.data
  else
    let area := v.w * v.h
    let inputOffset := v.top * v.dataW + v.left
    -- full width: one copy
    if v.w = v.dataW then slice v.data inputOffset (inputOffset + area)
    else rowsCopy v.data v.dataW v.w inputOffset v.h

/-- `GetMatrix` incl. the wrapper (`invertedMatrix[i] = 255 - matrix[i]` for `i < w*h`) -/
def getMatrix (v : View) : VRes (List Nat) := do
  let m ← baseGetMatrix v
  if v.inv then
    if m.length < v.w * v.h then vpanic "index out of range in InvertedLuminanceSource.GetMatrix"
    else .ok ((m.take (v.w * v.h)).map inv255)
  else .ok m

/-! ## Crop, Invert, Rotate -/

/-- `Crop(left, top, width, height)` for non-negative sizes (`cropI` below covers negative ones).  RGB / Go-image: the
    rectangle must lie inside the current view.  YUV: the same test, then the constructor's own test
    against the data.  The wrapper forwards and re-wraps. -/
def crop (v : View) (l t : Int) (w h : Nat) : VRes View :=
  if l < 0 ∨ t < 0 ∨ l + w > v.w ∨ t + h > v.h then villegal
  else
    match v.kind with
    | .yuv => do
      let n ← newYUV v.data v.dataW v.dataH (v.left + l) (v.top + t) w h false
      .ok { n with inv := v.inv }
    | _ => .ok { v with left := v.left + l.toNat, top := v.top + t.toNat, w := w, h := h }

/-- `Crop` with Go `int` sizes: a negative width or height is an IllegalArgumentException (same test) -/
def cropI (v : View) (l t w h : Int) : VRes View :=
  if w < 0 ∨ h < 0 then villegal else crop v l t w.toNat h.toNat

/-- `Invert()`: wrap, or unwrap a wrapper -/
def invert (v : View) : View := { v with inv := !v.inv }

def isCropSupported (_v : View) : Bool := true
def isRotateSupported (v : View) : Bool := v.kind == .img

/-- row `j` of the rotated copy: `newLuminas[j*height+i] = oldLuminas[(top+i)*dataWidth + left+width-1-j]` -/
def rotRow (v : View) (j : Nat) : VRes (List Nat) :=
  mapME (fun i => idx v.data ((v.top + i) * v.dataW + (v.left + v.w - 1 - j))) (List.range v.h)

/-- `RotateCounterClockwise()`: only `GoImageLuminanceSource` implements it (fresh `h x w` array) -/
def rotateCCW (v : View) : VRes View :=
  match v.kind with
  | .img => do
    let rows ← mapME (rotRow v) (List.range v.w)
    .ok { kind := .img, data := rows.flatten, dataW := v.h, dataH := v.w, left := 0, top := 0,
          w := v.h, h := v.w, inv := v.inv }
  | _ => .error .unsupported

/-- `RotateCounterClockwise45()`: no source implements it -/
def rotateCCW45 (_v : View) : VRes View := .error .unsupported

/-! ## op sequences -/

inductive Op where
  | crop (l t : Int) (w h : Nat)
  | invert
  | rotate
  deriving Repr, DecidableEq

def applyOp (v : View) : Op → VRes View
  | .crop l t w h => crop v l t w h
  | .invert => .ok (invert v)
  | .rotate => rotateCCW v

def applyOps (v : View) : List Op → VRes View
  | [] => .ok v
  | op :: ops => do
    let v' ← applyOp v op
    applyOps v' ops

end Gzx.Luminance
