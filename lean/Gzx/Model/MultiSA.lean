/-
  Model of `processStructuredAppend` (multi/qrcode/qrcode_multi_reader.go) — C06, work package detrest:
  the results carrying STRUCTURED_APPEND_SEQUENCE are split off, sorted by their sequence number
  (`sort.Slice`, a PARAMETER: Go's sort is not stable), their texts / raw bytes / byte segments are
  concatenated through pre-sized buffers and `copy(dst[index:], src)`, and one merged result is appended
  to the others.  Results are arbitrary: any metadata map, any dynamic type under any key (the type
  assertions of the Go code are all comma-ok), empty / nil byte slices.  Bytes are `Nat`s.
-/
import Gzx.Util
namespace Gzx.MultiSA
open Gzx

/-- a metadata value: the dynamic types the code distinguishes -/
inductive MetaVal where
  | int (n : Int)                      -- int
  | segs (s : List (List Nat))         -- [][]byte
  | other (tag : String)               -- any other dynamic type (string, bool, nil, []int, int64 …)
  deriving Repr, DecidableEq

/-- `gozxing.ResultMetadataType` values used here -/
def kByteSegments : Nat := 2
def kSequence : Nat := 9

structure Result where
  text : List Nat          -- bytes of the Go string
  raw : List Nat           -- rawBytes
  npoints : Nat            -- len(resultPoints)
  md : List (Nat × MetaVal)   -- resultMetadata (a map: first binding of a key wins)
  deriving Repr, DecidableEq

def Result.get (r : Result) (k : Nat) : Option MetaVal := (r.md.find? (fun kv => kv.1 == k)).map (·.2)

/-- `_, ok := metadata[STRUCTURED_APPEND_SEQUENCE]` -/
def Result.hasSA (r : Result) : Bool := (r.get kSequence).isSome

/-- `n, _ := metadata[STRUCTURED_APPEND_SEQUENCE].(int)` -/
def Result.seq (r : Result) : Int :=
  match r.get kSequence with
  | some (.int n) => n
  | _ => 0

/-- `byteSegments, ok := metadata[BYTE_SEGMENTS].([][]byte)`; not ok = no segments visited -/
def Result.segs (r : Result) : List (List Nat) :=
  match r.get kByteSegments with
  | some (.segs s) => s
  | _ => []

/-- `copy(dst[index:], src)`: slicing beyond `len(dst)` panics; `copy` itself truncates silently -/
def copyAt (dst : List Nat) (index : Nat) (src : List Nat) : Res (List Nat) :=
  if index > dst.length then .error (.panic "slice bounds out of range")
  else
    let n := min src.length (dst.length - index)
    .ok (dst.take index ++ src.take n ++ dst.drop (index + n))

/-- second pass, raw bytes: `copy(newRawBytes[newRawBytesIndex:], raw); newRawBytesIndex += len(raw)` -/
def copyRaw : List Result → List Nat → Nat → Res (List Nat)
  | [], buf, _ => .ok buf
  | r :: rs, buf, i => do
    let buf ← copyAt buf i r.raw
    copyRaw rs buf (i + r.raw.length)

def copySegList : List (List Nat) → List Nat → Nat → Res (List Nat × Nat)
  | [], buf, i => .ok (buf, i)
  | s :: ss, buf, i => do
    let buf ← copyAt buf i s
    copySegList ss buf (i + s.length)

/-- second pass, byte segments -/
def copySegs : List Result → List Nat → Nat → Res (List Nat)
  | [], buf, _ => .ok buf
  | r :: rs, buf, i => do
    let (buf, i) ← copySegList r.segs buf i
    copySegs rs buf i

/-- `processStructuredAppend(results)`; `sort` = `sort.Slice(saResults, newSAComparator(saResults))` -/
def process (sort : List Result → List Result) (results : List Result) : Res (List Result) :=
  if !results.any Result.hasSA then .ok results
  else do
    let newResults := results.filter (fun r => !r.hasSA)
    let saResults := sort (results.filter Result.hasSA)
    -- first pass: text, lengths
    let concatedText := (saResults.map (·.text)).flatten
    let rawBytesLen := (saResults.map (·.raw.length)).sum
    let byteSegmentLength := (saResults.map (fun r => (r.segs.map List.length).sum)).sum
    -- second pass: fill the pre-sized buffers
    let newRawBytes ← copyRaw saResults (List.replicate rawBytesLen 0) 0
    let newByteSegment ← copySegs saResults (List.replicate byteSegmentLength 0) 0
    let newResult : Result :=
      { text := concatedText, raw := newRawBytes, npoints := 0,
        md := if byteSegmentLength > 0 then [(kByteSegments, .segs [newByteSegment])] else [] }
    return newResults ++ [newResult]

/-- insertion sort by sequence number (what `sort.Slice` does below 12 elements; stable): the
    executable instance of `sort` for the driver -/
def insBySeq (x : Result) : List Result → List Result
  | [] => [x]
  | y :: ys => if y.seq < x.seq then y :: insBySeq x ys else x :: y :: ys

def sortBySeq (l : List Result) : List Result := l.foldr insBySeq []

end Gzx.MultiSA

/-! ## the result loop of `QRCodeMultiReader.DecodeMultiple` -/
namespace Gzx.MultiSA
open Gzx

/-- what `DecodeMultiple` reads from a `common.DecoderResult` -/
structure DecRes where
  text : List Nat
  raw : List Nat
  segs : Option (List (List Nat))   -- GetByteSegments(): nil or a list
  hasEC : Bool                      -- GetECLevel() != ""
  sa : Option (Int × Int)           -- HasStructuredAppend(): sequence number, parity
  deriving Repr, DecidableEq

def kECLevel : Nat := 3
def kParity : Nat := 10

/-- `NewResult(text, rawBytes, points, QR_CODE)` followed by the `PutMetadata` calls of the loop body -/
def resultOf (d : DecRes) (npoints : Nat) : Result :=
  { text := d.text, raw := d.raw, npoints := npoints,
    md := (match d.segs with | some s => [(kByteSegments, MetaVal.segs s)] | none => []) ++
          (if d.hasEC then [(kECLevel, MetaVal.other "string")] else []) ++
          (match d.sa with | some (seq, par) => [(kSequence, MetaVal.int seq), (kParity, MetaVal.int par)] | none => []) }

/-- `for _, detectorResult := range detectorResults`: `none` = the decoder returned a ReaderException
    (`continue`).  (A decoder error that is not a ReaderException would end the loop with that error;
    `qr_decode_total`: the decoder only returns Format / Checksum exceptions, which are ReaderExceptions.) -/
def collect : List (Option DecRes × Nat) → List Result
  | [] => []
  | (none, _) :: rest => collect rest
  | (some d, n) :: rest => resultOf d n :: collect rest

/-- `DecodeMultiple` after `DetectMulti`: collect, then `processStructuredAppend` if anything was decoded -/
def decodeMultiple (sort : List Result → List Result) (drs : List (Option DecRes × Nat)) : Res (List Result) :=
  let results := collect drs
  if results.length ≠ 0 then process sort results else .ok results

end Gzx.MultiSA
