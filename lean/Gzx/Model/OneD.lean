/-
  C03 — 1-D symbologies: writers down to the module pattern, the UPC/EAN row decoder as coded
  (on top of Gzx.RunLength), and module-level ("ideal") decoders with the readers' symbol-level
  logic for Code 39 / 93 / 128 / ITF / Codabar.

  Mirrors /repo/oned: one_dimensional_code_writer.go, ean13/ean8/upca/upce_writer.go,
  code39/code93/code128/itf/codabar_writer.go, upcean_reader.go, ean13/ean8/upca/upce_reader.go,
  multi_format_upcean_reader.go and the DecodeRow bodies of code39/93/128/itf/codabar_reader.go
  after their pattern classifiers.  Contents are byte lists (Code 128: code points).
  Tables are parameters (`Tables`); the driver and the examples instantiate them with `refTables`
  (Gzx.Ref), Obligations/C03.lean shows the regenerated tables of /repo are the same.
-/
import Gzx.Model.RunLength
import Gzx.Model.CheckDigit
import Gzx.Ref.OneDTables
namespace Gzx.OneD
open Gzx Gzx.CheckDigit

/-! ## tables -/

structure Tables where
  lPatterns : List (List Nat)
  startEnd : List Nat
  middle : List Nat
  upceEnd : List Nat          -- writer: UPCEANReader_END_PATTERN
  upceMiddleEnd : List Nat    -- reader: upce_MIDDLE_END_PATTERN
  firstDigit : List Nat
  upceParity : List (List Nat)
  code128 : List (List Nat)
  code39Alphabet : List Nat
  code39Enc : List Nat
  code39Asterisk : Nat
  code93Alphabet : List Nat
  code93Enc : List Nat
  itfWriter : List (List Nat)
  itfStart : List Nat
  itfEnd : List Nat
  codabarAlphabet : List Nat
  codabarEnc : List Nat

def bytesOf (s : String) : List Nat := s.toList.map Char.toNat

def refTables : Tables where
  lPatterns := Ref.UPCEAN.lPatterns
  startEnd := Ref.UPCEAN.startEndGuard
  middle := Ref.UPCEAN.middleGuard
  upceEnd := Ref.UPCEAN.upceEndGuard
  upceMiddleEnd := Ref.UPCEAN.upceEndGuard
  firstDigit := Ref.UPCEAN.ean13FirstDigit
  upceParity := Ref.UPCEAN.upceParity
  code128 := Ref.OneD.code128Patterns
  code39Alphabet := bytesOf Ref.OneD.code39Alphabet
  code39Enc := Ref.OneD.code39Encodings
  code39Asterisk := Ref.OneD.code39AsteriskEncoding
  code93Alphabet := bytesOf Ref.OneD.code93Alphabet
  code93Enc := Ref.OneD.code93Encodings
  itfWriter := Ref.OneD.itfPatterns 3
  itfStart := [1, 1, 1, 1]
  itfEnd := [3, 1, 1]
  codabarAlphabet := bytesOf Ref.OneD.codabarAlphabet
  codabarEnc := Ref.OneD.codabarEncodings

/-! ## basics -/

def nth {α} (l : List α) (i : Nat) : Res α :=
  match l[i]? with
  | some x => .ok x
  | none => .error (.panic "index out of range")

/-- `onedWriter_appendPattern`: run widths to modules, alternating colours -/
def appendPattern : List Nat → Bool → List Bool
  | [], _ => []
  | w :: ws, c => List.replicate w c ++ appendPattern ws (!c)

def sumL (xs : List Nat) : Nat := xs.foldr (· + ·) 0

/-- `n` bits of `a`, most significant first -/
def bitsMSB (n a : Nat) : List Bool := (List.range n).map (fun i => (a / 2 ^ (n - 1 - i)) % 2 = 1)

def lAndG (L : List (List Nat)) : List (List Nat) := L ++ L.map List.reverse

/-! ## rendering (`onedWriter_renderResult`), one row; `margin ≥ 0` -/

/-- the pixel row of the rendered image: `multiple` pixels per module, left padding as coded -/
def renderRow (code : List Bool) (width margin : Nat) : Res (List Bool) :=
  let inputWidth := code.length
  let fullWidth := inputWidth + margin
  if fullWidth = 0 then .error (.panic "integer divide by zero")
  else
    let outputWidth := max width fullWidth
    let multiple := outputWidth / fullWidth
    let leftPadding := (outputWidth - inputWidth * multiple) / 2
    let body := (code.map (fun b => List.replicate multiple b)).flatten
    .ok (List.replicate leftPadding false ++ body ++
         List.replicate (outputWidth - leftPadding - inputWidth * multiple) false)

/-! ## UPC/EAN writers -/

def digitVals (bs : List Nat) : List Nat := bs.map (· - 48)

/-- six left-half digits drawn with the number sets the parity word selects -/
def leftHalf (T : Tables) (ds : List Nat) (parities : Nat) : Res (List Bool) := do
  let LG := lAndG T.lPatterns
  let pats ← (List.range 6).mapM (fun j => do
    let d ← nth ds (j + 1)
    nth LG (if (parities / 2 ^ (5 - j)) % 2 = 1 then d + 10 else d))
  pure (pats.map (appendPattern · false)).flatten

def ean13Modules (T : Tables) (contents : List Nat) : Res (List Bool) := do
  let full ← stdWriterContents 13 contents
  let ds := digitVals full
  let first ← nth ds 0
  let parities ← nth T.firstDigit first
  let left ← leftHalf T ds parities
  let right ← (List.range 6).mapM (fun j => do let d ← nth ds (j + 7); nth T.lPatterns d)
  pure (appendPattern T.startEnd true ++ left ++ appendPattern T.middle false ++
        (right.map (appendPattern · true)).flatten ++ appendPattern T.startEnd true)

def ean8Modules (T : Tables) (contents : List Nat) : Res (List Bool) := do
  let full ← stdWriterContents 8 contents
  let ds := digitVals full
  let left ← (List.range 4).mapM (fun j => do let d ← nth ds j; nth T.lPatterns d)
  let right ← (List.range 4).mapM (fun j => do let d ← nth ds (j + 4); nth T.lPatterns d)
  pure (appendPattern T.startEnd true ++ (left.map (appendPattern · false)).flatten ++
        appendPattern T.middle false ++ (right.map (appendPattern · true)).flatten ++
        appendPattern T.startEnd true)

def upcaModules (T : Tables) (contents : List Nat) : Res (List Bool) := ean13Modules T (48 :: contents)

def upceModules (T : Tables) (contents : List Nat) : Res (List Bool) := do
  let full ← upceWriterContents contents
  let ds := digitVals full
  let first ← nth ds 0
  let chk ← nth ds 7
  let row ← nth T.upceParity first
  let parities ← nth row chk
  let body ← leftHalf T ds parities
  pure (appendPattern T.startEnd true ++ body ++ appendPattern T.upceEnd false)

/-! ## Code 39 -/

/-- `code39TryToConvertToExtendedMode`, one byte -/
def code39Escape1 (c : Nat) : Res (List Nat) :=
  if c = 0 then .ok [37, 85]                      -- %U
  else if c = 32 ∨ c = 45 ∨ c = 46 then .ok [c]   -- ' ', '-', '.'
  else if c = 64 then .ok [37, 86]                -- %V
  else if c = 96 then .ok [37, 87]                -- %W
  else if c ≤ 26 then .ok [36, 65 + (c - 1)]      -- $A..$Z
  else if c < 32 then .ok [37, 65 + (c - 27)]     -- %A..%E
  else if c ≤ 44 ∨ c = 47 ∨ c = 58 then .ok [47, 65 + (c - 33)]   -- /A..  ('!'..',' '/' ':')
  else if c ≤ 57 then .ok [48 + (c - 48)]
  else if c ≤ 63 then .ok [37, 70 + (c - 59)]     -- %F..%J
  else if c ≤ 90 then .ok [65 + (c - 65)]
  else if c ≤ 95 then .ok [37, 75 + (c - 91)]     -- %K..%O
  else if c ≤ 122 then .ok [43, 65 + (c - 97)]    -- +A..+Z
  else if c ≤ 127 then .ok [37, 80 + (c - 123)]   -- %P..%T
  else .error .writer

def code39Escape : List Nat → Res (List Nat)
  | [] => .ok []
  | c :: cs => do
    let e ← code39Escape1 c
    let r ← code39Escape cs
    pure (e ++ r)

/-- nine element widths of an encoding word: 0 → narrow (1), 1 → wide (2) -/
def code39Widths (a : Nat) : List Nat := (bitsMSB 9 a).map (fun w => if w then 2 else 1)

/-- `strings.Index(alphabet, string(c))` used as a table index: -1 panics when indexing the encodings -/
def alphaIndex (A : List Nat) (c : Nat) : Res Nat :=
  match indexOf? c A with
  | some i => .ok i
  | none => .error (.panic "index out of range [-1]")

/-- the symbol characters (alphabet indices) the Code 39 writer draws between the two asterisks -/
def code39Symbols (T : Tables) (contents : List Nat) : Res (List Nat) := do
  if contents.length > 80 then throw .writer
  let contents' ←
    if contents.all (fun c => (indexOf? c T.code39Alphabet).isSome) then pure contents
    else do
      let e ← code39Escape contents
      if e.length > 80 then throw .writer
      pure e
  contents'.mapM (alphaIndex T.code39Alphabet)

def code39Draw (T : Tables) (syms : List Nat) : Res (List Bool) := do
  let star := appendPattern (code39Widths T.code39Asterisk) true
  let chars ← syms.mapM (fun i => do
    let e ← nth T.code39Enc i
    pure (appendPattern (code39Widths e) true ++ [false]))
  pure (star ++ [false] ++ chars.flatten ++ star)

def code39Modules (T : Tables) (contents : List Nat) : Res (List Bool) := do
  let syms ← code39Symbols T contents
  code39Draw T syms

def isShift39 (c : Nat) : Bool := c = 43 || c = 36 || c = 37 || c = 47

/-- the character an escape pair (`c` one of + $ % /) stands for, or FormatException -/
def pair39 (c n : Nat) : Res Nat :=
  if c = 43 then (if 65 ≤ n ∧ n ≤ 90 then .ok (n + 32) else .error .format)
  else if c = 36 then (if 65 ≤ n ∧ n ≤ 90 then .ok (n - 64) else .error .format)
  else if c = 37 then
    if 65 ≤ n ∧ n ≤ 69 then .ok (n - 38)
    else if 70 ≤ n ∧ n ≤ 74 then .ok (n - 11)
    else if 75 ≤ n ∧ n ≤ 79 then .ok (n + 16)
    else if 80 ≤ n ∧ n ≤ 84 then .ok (n + 43)
    else if n = 85 then .ok 0
    else if n = 86 then .ok 64
    else if n = 87 then .ok 96
    else if n = 88 ∨ n = 89 ∨ n = 90 then .ok 127
    else .error .format
  else
    if 65 ≤ n ∧ n ≤ 79 then .ok (n - 32)
    else if n = 90 then .ok 58
    else .error .format

/-- `code39DecodeExtended` on characters; an escape character in last position indexes past the end (D15) -/
def code39Unescape : List Nat → Res (List Nat)
  | [] => .ok []
  | [c] => if isShift39 c then .error (.panic "index out of range") else .ok [c]
  | c :: n :: rest =>
    if isShift39 c then
      match pair39 c n with
      | .ok d => (code39Unescape rest).map (d :: ·)
      | .error e => .error e
    else (code39Unescape (n :: rest)).map (c :: ·)

/-- symbol level reading (reader without check digit): characters between the asterisks -/
def code39ReadSymbols (T : Tables) (syms : List Nat) (extended : Bool) : Res (List Nat) := do
  let chars ← syms.mapM (nth T.code39Alphabet)
  if chars.isEmpty then throw .notFound
  if extended then code39Unescape chars else pure chars

/-! ## Code 93 -/

/-- `code93ConvertToExtended`, one byte -/
def code93Escape1 (c : Nat) : Res (List Nat) :=
  if c = 0 then .ok [98, 85]                       -- bU
  else if c ≤ 26 then .ok [97, 65 + c - 1]         -- aA..aZ
  else if c ≤ 31 then .ok [98, 65 + c - 27]        -- bA..bE
  else if c = 32 ∨ c = 36 ∨ c = 37 ∨ c = 43 then .ok [c]
  else if c ≤ 44 then .ok [99, 65 + c - 33]        -- cA..
  else if c ≤ 57 then .ok [c]
  else if c = 58 then .ok [99, 90]                 -- cZ
  else if c ≤ 63 then .ok [98, 70 + c - 59]        -- bF..bJ
  else if c = 64 then .ok [98, 86]                 -- bV
  else if c ≤ 90 then .ok [c]
  else if c ≤ 95 then .ok [98, 75 + c - 91]        -- bK..bO
  else if c = 96 then .ok [98, 87]                 -- bW
  else if c ≤ 122 then .ok [100, 65 + c - 97]      -- dA..dZ
  else if c ≤ 127 then .ok [98, 80 + c - 123]      -- bP..bT
  else .error .writer

def code93Escape : List Nat → Res (List Nat)
  | [] => .ok []
  | c :: cs => do
    let e ← code93Escape1 c
    let r ← code93Escape cs
    pure (e ++ r)

/-- alphabet indices of the extended content followed by the two check characters -/
def code93Symbols (T : Tables) (contents : List Nat) : Res (List Nat) := do
  let ext ← code93Escape contents
  if ext.length > 80 then throw .writer
  let vals ← ext.mapM (alphaIndex T.code93Alphabet)
  let (c, k) := c93Checks vals
  pure (vals ++ [c, k])

def code93Draw (T : Tables) (syms : List Nat) : Res (List Bool) := do
  let star ← nth T.code93Enc 47
  let chars ← syms.mapM (fun i => do let e ← nth T.code93Enc i; pure (bitsMSB 9 e))
  pure (bitsMSB 9 star ++ chars.flatten ++ bitsMSB 9 star ++ [true])

def code93Modules (T : Tables) (contents : List Nat) : Res (List Bool) := do
  let syms ← code93Symbols T contents
  code93Draw T syms

def isShift93 (c : Nat) : Bool := 97 ≤ c && c ≤ 100

/-- the character a shift pair (`c` one of a b c d) stands for, or FormatException -/
def pair93 (c n : Nat) : Res Nat :=
  if c = 100 then (if 65 ≤ n ∧ n ≤ 90 then .ok (n + 32) else .error .format)
  else if c = 97 then (if 65 ≤ n ∧ n ≤ 90 then .ok (n - 64) else .error .format)
  else if c = 98 then
    if 65 ≤ n ∧ n ≤ 69 then .ok (n - 38)
    else if 70 ≤ n ∧ n ≤ 74 then .ok (n - 11)
    else if 75 ≤ n ∧ n ≤ 79 then .ok (n + 16)
    else if 80 ≤ n ∧ n ≤ 84 then .ok (n + 43)
    else if n = 85 then .ok 0
    else if n = 86 then .ok 64
    else if n = 87 then .ok 96
    else if 88 ≤ n ∧ n ≤ 90 then .ok 127
    else .error .format
  else
    if 65 ≤ n ∧ n ≤ 79 then .ok (n - 32)
    else if n = 90 then .ok 58
    else .error .format

/-- `code93DecodeExtended` -/
def code93Unescape : List Nat → Res (List Nat)
  | [] => .ok []
  | [c] => if isShift93 c then .error .format else .ok [c]
  | c :: n :: rest =>
    if isShift93 c then
      match pair93 c n with
      | .ok d => (code93Unescape rest).map (d :: ·)
      | .error e => .error e
    else (code93Unescape (n :: rest)).map (c :: ·)

/-- symbol level reading: characters between the asterisks (data, C, K) -/
def code93ReadSymbols (T : Tables) (syms : List Nat) : Res (List Nat) := do
  if syms.length < 2 then throw .notFound
  match c93ReaderAccept syms with
  | .error e => throw e
  | .ok false => throw .checksum
  | .ok true =>
    let chars ← (syms.take (syms.length - 2)).mapM (nth T.code93Alphabet)
    code93Unescape chars

/-! ## Code 128 -/

inductive CType where
  | uncodable | oneDigit | twoDigits | fnc1
  deriving DecidableEq, Repr

def isDigitCp (c : Nat) : Bool := 48 ≤ c && c ≤ 57

/-- `code128FindCType(value, start)` on the remaining input `value[start:]` -/
def findCType : List Nat → CType
  | [] => .uncodable
  | c :: rest =>
    if c = 0xF1 then .fnc1
    else if !isDigitCp c then .uncodable
    else match rest with
      | [] => .oneDigit
      | c2 :: _ => if isDigitCp c2 then .twoDigits else .oneDigit

/-- the look-ahead loop: `index := start+4; for findCType == TWO_DIGITS {index += 2}` on `value[start+4:]` -/
def skipPairs : Nat → List Nat → CType
  | 0, v => findCType v
  | fuel + 1, v =>
    if findCType v = .twoDigits then skipPairs fuel (v.drop 2) else findCType v

/-- `code128ChooseCode(value, start, oldCode)` with `v = value[start:]`; code sets: 101 = A, 100 = B, 99 = C, 0 = none yet -/
def chooseCode (v : List Nat) (oldCode : Nat) : Nat :=
  let lookahead := findCType v
  if lookahead = .oneDigit then (if oldCode = 101 then 101 else 100)
  else if lookahead = .uncodable then
    match v with
    | c :: _ =>
      if c < 32 ∨ (oldCode = 101 ∧ (c < 96 ∨ (0xF1 ≤ c ∧ c ≤ 0xF4))) then 101 else 100
    | [] => 100
  else if oldCode = 101 ∧ lookahead = .fnc1 then 101
  else if oldCode = 99 then 99
  else if oldCode = 100 then
    if lookahead = .fnc1 then 100
    else
      let la2 := findCType (v.drop 2)
      if la2 = .uncodable ∨ la2 = .oneDigit then 100
      else if la2 = .fnc1 then
        (if findCType (v.drop 3) = .twoDigits then 99 else 100)
      else
        (if skipPairs v.length (v.drop 4) = .oneDigit then 100 else 99)
  else
    let la := if lookahead = .fnc1 then findCType (v.drop 1) else lookahead
    if la = .twoDigits then 99 else 100

/-- per-character admissibility test at the top of `encodeWithHints` -/
def c128CharOk (forced : Option Nat) (c : Nat) : Bool :=
  let isFnc := c = 0xF1 ∨ c = 0xF2 ∨ c = 0xF3 ∨ c = 0xF4
  (isFnc || c ≤ 127) &&
  (match forced with
   | some 101 => !(c > 95 && c ≤ 127)
   | some 100 => !(c ≤ 32)
   | some 99 => !(c < 48 || (c > 57 && c ≤ 127) || c = 0xF2 || c = 0xF3 || c = 0xF4)
   | _ => true)

/-- the main loop of the Code 128 encoder: emits pattern indices (start code first, data, code-set switches).
    State: remaining input, whether `position != 0`, current code set. -/
def c128Loop (forced : Option Nat) : Nat → List Nat → Bool → Nat → List (Nat × Bool) → Res (List (Nat × Bool))
  | 0, _, _, _, _ => .error .fuel
  | _, [], _, _, acc => .ok acc.reverse
  | fuel + 1, c :: rest, moved, codeSet, acc =>
    let newCodeSet := match forced with
      | some f => f
      | none => chooseCode (c :: rest) codeSet
    if newCodeSet = codeSet then
      if c = 0xF1 then c128Loop forced fuel rest true codeSet ((102, true) :: acc)
      else if c = 0xF2 then c128Loop forced fuel rest true codeSet ((97, true) :: acc)
      else if c = 0xF3 then c128Loop forced fuel rest true codeSet ((96, true) :: acc)
      else if c = 0xF4 then
        c128Loop forced fuel rest true codeSet ((if codeSet = 101 then 101 else 100, true) :: acc)
      else if codeSet = 101 then
        -- `int(c) - ' '`, `+= '`'` when negative
        c128Loop forced fuel rest true codeSet ((if c < 32 then c + 64 else c - 32, true) :: acc)
      else if codeSet = 100 then
        if c < 32 then .error (.panic "negative pattern index")
        else c128Loop forced fuel rest true codeSet ((c - 32, true) :: acc)
      else
        match rest with
        | [] => .error .writer      -- "Bad number of characters for digit only encoding."
        | c2 :: rest2 =>
          -- `if contents[position+1] < '0' || contents[position+1] > '9'`: "Bad character in input for code set C"
          -- (repair 9926de4: a digit followed by FNC1 under a forced code set C indexed past the pattern table)
          if c2 < 48 ∨ c2 > 57 then .error .writer
          -- (c-'0')*10 + (c2-'0') as Go ints; negative or ≥ 107 would index out of range
          else if c < 48 ∨ (c - 48) * 10 + (c2 - 48) ≥ 107 then .error (.panic "pattern index out of range")
          else c128Loop forced fuel rest2 true codeSet (((c - 48) * 10 + (c2 - 48), true) :: acc)
    else
      let idx := if codeSet = 0 then (if newCodeSet = 101 then 103 else if newCodeSet = 100 then 104 else 105)
                 else newCodeSet
      c128Loop forced fuel (c :: rest) moved newCodeSet ((idx, moved) :: acc)

/-- all symbol characters the writer draws: start … data … check, STOP -/
def code128Codes (contents : List Nat) (forced : Option Nat) : Res (List Nat) := do
  if contents.length < 1 ∨ contents.length > 80 then throw .writer
  if !(contents.all (c128CharOk forced)) then throw .writer
  let emitted ← c128Loop forced (2 * contents.length + 2) contents false 0 []
  let chk := c128WriterSum emitted 0 1
  pure (emitted.map (·.1) ++ [chk, 106])

def code128Draw (T : Tables) (codes : List Nat) : Res (List Bool) := do
  let pats ← codes.mapM (nth T.code128)
  pure (pats.map (appendPattern · true)).flatten

def code128Modules (T : Tables) (contents : List Nat) (forced : Option Nat) : Res (List Bool) := do
  let codes ← code128Codes contents forced
  code128Draw T codes

structure C128St where
  codeSet : Nat
  result : List Nat          -- reversed
  lastPrintable : Bool
  upper : Bool
  shiftUpper : Bool
  nextShifted : Bool
  lastCode : Nat
  code : Nat
  total : Nat
  mult : Nat

/-- one iteration of the reader's `for !done` loop for a decoded `code`; returns the new state and `done` -/
def c128Step (s : C128St) (code : Nat) : Res (C128St × Bool) :=
  let unshift := s.nextShifted
  let s := { s with nextShifted := false, lastCode := s.code, code := code }
  let s := if code ≠ 106 then { s with lastPrintable := true, mult := s.mult + 1, total := s.total + (s.mult + 1) * code } else s
  if code = 103 ∨ code = 104 ∨ code = 105 then .error .format
  else
    let emit (s : C128St) (b : Nat) : C128St :=
      { s with result := (if s.shiftUpper = s.upper then b else b + 128) :: s.result, shiftUpper := false }
    let fnc4 (s : C128St) : C128St :=
      if !s.upper && s.shiftUpper then { s with upper := true, shiftUpper := false }
      else if s.upper && s.shiftUpper then { s with upper := false, shiftUpper := false }
      else { s with shiftUpper := true }
    let np (s : C128St) : C128St := if code ≠ 106 then { s with lastPrintable := false } else s
    let r : C128St × Bool :=
      if s.codeSet = 101 then
        if code < 64 then (emit s (32 + code), false)
        else if code < 96 then
          ({ s with result := (if s.shiftUpper = s.upper then code - 64 else code + 64) :: s.result, shiftUpper := false }, false)
        else
          let s := np s
          if code = 101 then (fnc4 s, false)
          else if code = 98 then ({ s with nextShifted := true, codeSet := 100 }, false)
          else if code = 100 then ({ s with codeSet := 100 }, false)
          else if code = 99 then ({ s with codeSet := 99 }, false)
          else if code = 106 then (s, true)
          else (s, false)        -- FNC1 (no GS1 hint), FNC2, FNC3
      else if s.codeSet = 100 then
        if code < 96 then (emit s (32 + code), false)
        else
          let s := np s
          if code = 100 then (fnc4 s, false)
          else if code = 98 then ({ s with nextShifted := true, codeSet := 101 }, false)
          else if code = 101 then ({ s with codeSet := 101 }, false)
          else if code = 99 then ({ s with codeSet := 99 }, false)
          else if code = 106 then (s, true)
          else (s, false)
      else
        if code < 100 then ({ s with result := (48 + code % 10) :: (48 + code / 10) :: s.result }, false)
        else
          let s := np s
          if code = 101 then ({ s with codeSet := 101 }, false)
          else if code = 100 then ({ s with codeSet := 100 }, false)
          else if code = 106 then (s, true)
          else (s, false)
    let s' := r.1
    let s' := if unshift then { s' with codeSet := if s'.codeSet = 101 then 100 else 101 } else s'
    .ok (s', r.2)

def c128Run : List Nat → C128St → Res C128St
  | [], _ => .error .notFound        -- ran out of symbol characters before STOP
  | c :: cs, s =>
    match c128Step s c with
    | .error e => .error e
    | .ok (s', true) => .ok s'
    | .ok (s', false) => c128Run cs s'

/-- the Code 128 reader after pattern matching: `codes` = start code, …, STOP -/
def code128ReadCodes (codes : List Nat) : Res (List Nat) :=
  match codes with
  | [] => .error .notFound
  | start :: rest =>
    if start ≠ 103 ∧ start ≠ 104 ∧ start ≠ 105 then .error .notFound
    else
      let cs := if start = 103 then 101 else if start = 104 then 100 else 99
      match c128Run rest ⟨cs, [], true, false, false, false, 0, 0, start, 0⟩ with
      | .error e => .error e
      | .ok s =>
        if (s.total - s.mult * s.lastCode) % 103 ≠ s.lastCode then .error .checksum
        else
          let res := s.result.reverse
          if res.length = 0 then .error .notFound
          else if s.lastPrintable then
            let k := if s.codeSet = 99 then 2 else 1
            if res.length < k then .error (.panic "slice bounds out of range") else .ok (res.take (res.length - k))
          else .ok res

/-! ## ITF -/

def itfSymbols (contents : List Nat) : Res (List Nat) := do
  if contents.length % 2 ≠ 0 then throw .writer
  if contents.length > 80 then throw .writer
  if !(allDigits contents) then throw .writer
  pure (digitVals contents)

def interleave : List Nat → List Nat → List Nat
  | a :: as, b :: bs => a :: b :: interleave as bs
  | _, _ => []

def itfPairs : List Nat → List (Nat × Nat)
  | a :: b :: rest => (a, b) :: itfPairs rest
  | _ => []

/-- ten interleaved elements of a digit pair: bars from the first digit, spaces from the second -/
def itfPairDraw (W : List (List Nat)) (p : Nat × Nat) : Res (List Bool) := do
  let one ← nth W p.1
  let two ← nth W p.2
  pure (appendPattern (interleave one two) true)

def itfDraw (T : Tables) (ds : List Nat) : Res (List Bool) := do
  let pairs ← (itfPairs ds).mapM (itfPairDraw T.itfWriter)
  pure (appendPattern T.itfStart true ++ pairs.flatten ++ appendPattern T.itfEnd true)

def itfModules (T : Tables) (contents : List Nat) : Res (List Bool) := do
  let ds ← itfSymbols contents
  itfDraw T ds

/-- the ITF reader's length rule (default allowed lengths 6, 8, 10, 12, 14 and anything longer) -/
def itfReadDigits (allowed : List Nat) (ds : List Nat) : Res (List Nat) :=
  let n := ds.length
  if allowed.contains n ∨ n > allowed.foldl max 0 then .ok (ds.map (· + 48)) else .error .format

/-! ## Codabar -/

def toUpperByte (c : Nat) : Nat := if 97 ≤ c ∧ c ≤ 122 then c - 32 else if c ≥ 128 then 0xEF else c

/-- guard handling and character validation of the Codabar encoder: the full character string drawn
    (start, data, stop), start/stop still as supplied (upper-casing and T/N/*/E mapping happen when drawing) -/
def codabarFull (contents : List Nat) : Res (List Nat) := do
  let startEnd := [65, 66, 67, 68]
  let alt := [84, 78, 42, 69]
  let full ←
    if contents.length < 2 then pure ([65] ++ contents ++ [65])
    else
      match contents.head?, contents.getLast? with
      | some f, some l =>
        let fu := toUpperByte f
        let lu := toUpperByte l
        let startsNormal := startEnd.contains fu
        let endsNormal := startEnd.contains lu
        let startsAlt := alt.contains fu
        let endsAlt := alt.contains lu
        if startsNormal then (if endsNormal then pure contents else throw .writer)
        else if startsAlt then (if endsAlt then pure contents else throw .writer)
        else if endsNormal ∨ endsAlt then throw .writer
        else pure ([65] ++ contents ++ [65])
      | _, _ => throw (.panic "unreachable")
  let middle := (full.drop 1).dropLast
  if middle.all (fun c => (48 ≤ c ∧ c ≤ 57) ∨ c = 45 ∨ c = 36 ∨ c = 47 ∨ c = 58 ∨ c = 43 ∨ c = 46) then pure full
  else throw .writer

def codabarGuardMap (c : Nat) : Nat :=
  if c = 84 then 65 else if c = 78 then 66 else if c = 42 then 67 else if c = 69 then 68 else c

/-- alphabet indices drawn: guards upper-cased and alt-mapped; a character outside the alphabet gets code 0
    in Go (cannot happen after validation) — modelled as index of '0'… no: as encoding word 0 -/
def codabarWords (T : Tables) (full : List Nat) : Res (List Nat) :=
  let n := full.length
  (List.range n).mapM (fun i => do
    let c0 ← nth full i
    let c := toUpperByte c0
    let c := if i = 0 ∨ i + 1 = n then codabarGuardMap c else c
    match indexOf? c T.codabarAlphabet with
    | some k => nth T.codabarEnc k
    | none => pure 0)

/-- seven elements of an encoding word: 0 → 1 module, 1 → 2 modules, bars and spaces alternately -/
def codabarWidths (w : Nat) : List Nat := (bitsMSB 7 w).map (fun b => if b then 2 else 1)

def codabarDraw (words : List Nat) : List Bool :=
  match words with
  | [] => []
  | [w] => appendPattern (codabarWidths w) true
  | w :: ws => appendPattern (codabarWidths w) true ++ [false] ++ codabarDraw ws

def codabarModules (T : Tables) (contents : List Nat) : Res (List Bool) := do
  let full ← codabarFull contents
  let words ← codabarWords T full
  pure (codabarDraw words)

/-- symbol-level reading: alphabet indices of all characters incl. start/stop → text without guards -/
def codabarReadSymbols (T : Tables) (idx : List Nat) : Res (List Nat) := do
  let chars ← idx.mapM (nth T.codabarAlphabet)
  match chars.head?, chars.getLast? with
  | some f, some l =>
    if !([65, 66, 67, 68].contains f) then throw .notFound
    if !([65, 66, 67, 68].contains l) then throw .notFound
    if chars.length ≤ 3 then throw .notFound
    pure ((chars.drop 1).dropLast)
  | _, _ => throw .notFound

/-! ## module-level ("ideal") decoding: run lengths → table lookup -/

def chunks (n : Nat) : Nat → List Nat → List (List Nat)
  | 0, _ => []
  | fuel + 1, l => if l.length ≤ n then [l] else l.take n :: chunks n fuel (l.drop n)

def patIndex? (p : List Nat) : List (List Nat) → Option Nat
  | [] => none
  | q :: qs => if q = p then some 0 else (patIndex? p qs).map (· + 1)

/-- exact table lookup of a run-width pattern -/
def patLookup (P : List (List Nat)) (c : List Nat) : Res Nat :=
  match patIndex? c P with
  | some i => .ok i
  | none => .error .notFound

/-- exact table lookup of an encoding word -/
def wordLookup (E : List Nat) (w : Nat) : Res Nat :=
  match indexOf? w E with
  | some i => .ok i
  | none => .error .notFound

/-- Code 128: runs in groups of 6, STOP = last 7 -/
def code128Ideal (T : Tables) (mods : List Bool) : Res (List Nat) := do
  if mods.head? ≠ some true then throw .notFound
  let rs := RunLength.runs mods
  if rs.length < 7 then throw .notFound
  let body := rs.take (rs.length - 7)
  let stop := rs.drop (rs.length - 7)
  if body.length % 6 ≠ 0 then throw .notFound
  let codes ← ((chunks 6 body.length body).filter (· ≠ [])).mapM (patLookup T.code128)
  match patIndex? stop T.code128 with
  | some 106 => code128ReadCodes (codes ++ [106])
  | _ => .error .notFound

def natOfBits (bs : List Bool) : Nat := bs.foldl (fun acc b => 2 * acc + (if b then 1 else 0)) 0

/-- Code 93: 9 modules per character, then the termination bar -/
def code93Ideal (T : Tables) (mods : List Bool) : Res (List Nat) := do
  if mods.length % 9 ≠ 1 ∨ mods.getLast? ≠ some true then throw .notFound
  let body := mods.dropLast
  let words := ((List.range (body.length / 9)).map (fun i => natOfBits ((body.drop (9 * i)).take 9)))
  let idx ← words.mapM (wordLookup T.code93Enc)
  match idx with
  | 47 :: rest =>
    match rest.getLast? with
    | some 47 =>
      let inner := rest.dropLast
      if inner.contains 47 then throw .notFound   -- an inner '*' would end the reader's loop early
      code93ReadSymbols T inner
    | _ => throw .notFound
  | _ => throw .notFound

/-- Code 39: 9 elements + 1 narrow gap per character (narrow = 1, wide = 2 modules) -/
def code39Ideal (T : Tables) (mods : List Bool) (extended : Bool) : Res (List Nat) := do
  if mods.head? ≠ some true then throw .notFound
  let rs := RunLength.runs mods
  if rs.length % 10 ≠ 9 then throw .notFound
  let cs := (chunks 10 rs.length rs).filter (· ≠ [])
  let words ← cs.mapM (fun c =>
    let el := c.take 9
    if el.all (fun w => w = 1 ∨ w = 2) ∧ (c.length = 9 ∨ c.getLast? = some 1) then .ok (natOfBits (el.map (· = 2)))
    else .error .notFound)
  match words with
  | w0 :: rest =>
    if w0 ≠ T.code39Asterisk ∨ rest.getLast? ≠ some T.code39Asterisk then throw .notFound
    let inner := rest.dropLast
    if inner.contains T.code39Asterisk then throw .notFound
    let syms ← inner.mapM (wordLookup T.code39Enc)
    code39ReadSymbols T syms extended
  | [] => throw .notFound

def deinterleave : List Nat → List Nat × List Nat
  | a :: b :: rest => let r := deinterleave rest; (a :: r.1, b :: r.2)
  | _ => ([], [])

def itfPairRead (W : List (List Nat)) (c : List Nat) : Res (List Nat) := do
  let a ← patLookup W (deinterleave c).1
  let b ← patLookup W (deinterleave c).2
  pure [a, b]

/-- ITF: start 1111, ten elements per digit pair (narrow 1, wide 3), end 311 -/
def itfIdeal (T : Tables) (allowed : List Nat) (mods : List Bool) : Res (List Nat) := do
  if mods.head? ≠ some true then throw .notFound
  let rs := RunLength.runs mods
  if rs.length < 7 ∨ rs.take 4 ≠ T.itfStart ∨ rs.drop (rs.length - 3) ≠ T.itfEnd then throw .notFound
  let body := (rs.drop 4).take (rs.length - 7)
  if body.length % 10 ≠ 0 then throw .notFound
  let ds ← ((chunks 10 body.length body).filter (· ≠ [])).mapM (itfPairRead T.itfWriter)
  itfReadDigits allowed ds.flatten

/-- Codabar: 7 elements + 1 narrow gap per character -/
def codabarIdeal (T : Tables) (mods : List Bool) : Res (List Nat) := do
  if mods.head? ≠ some true then throw .notFound
  let rs := RunLength.runs mods
  if rs.length % 8 ≠ 7 then throw .notFound
  let cs := (chunks 8 rs.length rs).filter (· ≠ [])
  let idx ← cs.mapM (fun c =>
    let el := c.take 7
    if el.all (fun w => w = 1 ∨ w = 2) ∧ (c.length = 7 ∨ c.getLast? = some 1) then
      wordLookup T.codabarEnc (natOfBits (el.map (· = 2)))
    else .error .notFound)
  codabarReadSymbols T idx

/-! ## UPC/EAN row decoder, as coded -/

def getNextSet : List Bool → Nat → Nat
  | [], _ => 0
  | b :: bs, 0 => if b then 0 else 1 + getNextSet bs 0
  | _ :: bs, n + 1 => 1 + getNextSet bs n

def getNextUnset : List Bool → Nat → Nat
  | [], _ => 0
  | b :: bs, 0 => if !b then 0 else 1 + getNextUnset bs 0
  | _ :: bs, n + 1 => 1 + getNextUnset bs n

/-- `row.IsRange(s, e, false)` with the error case (`e < s` or `e > size`) read as false, as all callers do -/
def isRangeWhite (row : List Bool) (s e : Nat) : Bool :=
  if e < s ∨ e > row.length then false else ((row.drop s).take (e - s)).all (fun b => !b)

/-- `variance < MAX_AVG_VARIANCE` (12/25); `none` = +Inf -/
def belowAvg (v : Option (Nat × Nat)) : Bool :=
  match v with
  | none => false
  | some (n, d) => 25 * n < 12 * d

def incrAt : List Nat → Nat → List Nat
  | [], _ => []
  | c :: cs, 0 => (c + 1) :: cs
  | c :: cs, n + 1 => c :: incrAt cs n

/-- loop of `upceanReader_findGuardPatternWithCounters` over the remaining pixels -/
def guardLoop (pattern : List Nat) : List Bool → Nat → List Nat → Nat → Nat → Bool → Res (Nat × Nat)
  | [], _, _, _, _, _ => .error .notFound
  | b :: bs, x, cs, pos, ps, isWhite =>
    if b != isWhite then guardLoop pattern bs (x + 1) (incrAt cs pos) pos ps isWhite
    else if pos + 1 = pattern.length then
      match RunLength.patternMatchVariance cs pattern 7 10 with
      | .error e => .error e
      | .ok v =>
        if belowAvg v then .ok (ps, x)
        else
          match cs with
          | c0 :: c1 :: tl =>
            if pos < 2 then .error (.panic "slice bounds out of range")
            else guardLoop pattern bs (x + 1) (tl ++ [1, 0]) (pos - 1) (ps + c0 + c1) (!isWhite)
          | _ => .error (.panic "slice bounds out of range")
    else guardLoop pattern bs (x + 1) (cs.set (pos + 1) 1) (pos + 1) ps (!isWhite)

def findGuardPattern (row : List Bool) (rowOffset : Nat) (whiteFirst : Bool) (pattern : List Nat) : Res (Nat × Nat) :=
  let off := if whiteFirst then getNextUnset row rowOffset else getNextSet row rowOffset
  let off := min off row.length
  guardLoop pattern (row.drop off) off (List.replicate pattern.length 0) 0 off whiteFirst

def findStartLoop (T : Tables) (row : List Bool) : Nat → Nat → Res (Nat × Nat)
  | 0, _ => .error .fuel
  | fuel + 1, nextStart =>
    match findGuardPattern row nextStart false T.startEnd with
    | .error e => .error e
    | .ok (start, next) =>
      let width := next - start
      if start ≥ width ∧ isRangeWhite row (start - width) start then .ok (start, next)
      else findStartLoop T row fuel next

def findStartGuardPattern (T : Tables) (row : List Bool) : Res (Nat × Nat) :=
  findStartLoop T row (row.length + 1) 0

def fracLt (a b : Nat × Nat) : Bool := a.1 * b.2 < b.1 * a.2

def bestLoop (counters : List Nat) : List (List Nat) → Nat → Nat × Nat → Option Nat → Res (Option Nat)
  | [], _, _, bm => .ok bm
  | p :: ps, i, best, bm =>
    match RunLength.patternMatchVariance counters p 7 10 with
    | .error e => .error e
    | .ok none => bestLoop counters ps (i + 1) best bm
    | .ok (some v) => if fracLt v best then bestLoop counters ps (i + 1) v (some i) else bestLoop counters ps (i + 1) best bm

/-- `upceanReader_decodeDigit`: (best match, pixels consumed) -/
def decodeDigit (row : List Bool) (rowOffset : Nat) (patterns : List (List Nat)) : Res (Nat × Nat) :=
  match RunLength.recordPattern row rowOffset 4 with
  | .error e => .error e
  | .ok counters =>
    match bestLoop counters patterns 0 (12, 25) none with
    | .error e => .error e
    | .ok none => .error .notFound
    | .ok (some m) => .ok (m, sumL counters)

/-- `for x := 0; x < n && rowOffset < end; x++`: digits (with their L/G flag) and the new offset -/
def digitsLoop (row : List Bool) (patterns : List (List Nat)) : Nat → Nat → List Nat → Res (List Nat × Nat)
  | 0, off, acc => .ok (acc.reverse, off)
  | n + 1, off, acc =>
    if off < row.length then
      match decodeDigit row off patterns with
      | .error e => .error e
      | .ok (m, w) => digitsLoop row patterns n (off + w) (m :: acc)
    else .ok (acc.reverse, off)

def notFoundOf {α} : Res α → Res α
  | .error (.panic w) => .error (.panic w)
  | .error .fuel => .error .fuel
  | .error _ => .error .notFound
  | .ok a => .ok a

/-- bits of the L/G word as the readers accumulate it: `lg |= 1 << (n-1-x)` for the x-th digit -/
def lgWord (n : Nat) (ms : List Nat) : Nat :=
  ((List.range ms.length).zip ms).foldl (fun acc p => if p.2 ≥ 10 then acc + 2 ^ (n - 1 - p.1) else acc) 0

/-- decodeMiddle of the EAN-13 reader: (end offset, 13 bytes) -/
def ean13DecodeMiddle (T : Tables) (row : List Bool) (startEnd : Nat) : Res (Nat × List Nat) := do
  let (ms, off) ← notFoundOf (digitsLoop row (lAndG T.lPatterns) 6 startEnd [])
  let first ← determineFirstDigit T.firstDigit (lgWord 6 ms)
  let (_, mEnd) ← notFoundOf (findGuardPattern row off true T.middle)
  let (rs, off2) ← notFoundOf (digitsLoop row T.lPatterns 6 mEnd [])
  pure (off2, (48 + first) :: ms.map (fun m => 48 + m % 10) ++ rs.map (48 + ·))

def ean8DecodeMiddle (T : Tables) (row : List Bool) (startEnd : Nat) : Res (Nat × List Nat) := do
  let (ls, off) ← notFoundOf (digitsLoop row T.lPatterns 4 startEnd [])
  let (_, mEnd) ← notFoundOf (findGuardPattern row off true T.middle)
  let (rs, off2) ← notFoundOf (digitsLoop row T.lPatterns 4 mEnd [])
  pure (off2, ls.map (48 + ·) ++ rs.map (48 + ·))

def upceDecodeMiddle (T : Tables) (row : List Bool) (startEnd : Nat) : Res (Nat × List Nat) := do
  let (ms, off) ← notFoundOf (digitsLoop row (lAndG T.lPatterns) 6 startEnd [])
  let (ns, chk) ← determineNumSysAndCheckDigit T.upceParity (lgWord 6 ms)
  pure (off, (48 + ns) :: ms.map (fun m => 48 + m % 10) ++ [48 + chk])

/-- `decodeRowWithStartRange` up to text and format (add-on metadata is not part of the property) -/
def decodeWithStart (T : Tables) (k : EanKind) (row : List Bool) (sg : Nat × Nat) : Res (List Nat) := do
  let (endStart, result) ← match k with
    | .ean13 | .upca => ean13DecodeMiddle T row sg.2
    | .ean8 => ean8DecodeMiddle T row sg.2
    | .upce => upceDecodeMiddle T row sg.2
  let endRange ← notFoundOf (match k with
    | .upce => findGuardPattern row endStart true T.upceMiddleEnd
    | _ => findGuardPattern row endStart false T.startEnd)
  let e := endRange.2
  let quietEnd := e + (e - endRange.1)
  if quietEnd ≥ row.length then throw .notFound
  if !(isRangeWhite row e quietEnd) then throw .notFound
  match readerAccept (if k = .upca then .ean13 else k) result with
  | .error err => throw err
  | .ok () =>
    if k = .upca then
      match result with
      | 48 :: rest => pure rest
      | _ => throw .format
    else pure result

/-- `DecodeRow` of the single-format readers -/
def decodeRow (T : Tables) (k : EanKind) (row : List Bool) : Res (List Nat) := do
  let sg ← notFoundOf (findStartGuardPattern T row)
  decodeWithStart T k row sg

/-- is the error a ReaderException (NotFound / Checksum / Format)? -/
def isReaderErr : Fault → Bool
  | .notFound | .checksum | .format => true
  | _ => false

def multiLoop (T : Tables) (row : List Bool) (sg : Nat × Nat) (canUPCA : Bool) : List EanKind → Res (EanKind × List Nat)
  | [] => .error .notFound
  | k :: ks =>
    match decodeWithStart T k row sg with
    | .error e => if isReaderErr e then multiLoop T row sg canUPCA ks else .error e
    | .ok text =>
      if k = .ean13 ∧ canUPCA ∧ text.head? = some 48 then .ok (.upca, text.drop 1)
      else .ok (k, text)

/-- `multiFormatUPCEANReader.DecodeRow`; `formats = []` means no POSSIBLE_FORMATS hint (or none of the four) -/
def multiDecodeRow (T : Tables) (formats : List EanKind) (row : List Bool) : Res (EanKind × List Nat) := do
  let sg ← notFoundOf (findStartGuardPattern T row)
  let readers := if formats.isEmpty then [EanKind.ean13, .ean8, .upce] else formats
  multiLoop T row sg (formats.contains .upca) readers

end Gzx.OneD

namespace Gzx.OneD
open Gzx Gzx.CheckDigit

/-! ## rows the UPC/EAN read-back theorems talk about (additions for Properties/C03; no behaviour of the
    definitions above depends on them) -/

/-- every module repeated `s` times — the body of `renderRow` (`multiple = s`) -/
def scaleRow (s : Nat) (code : List Bool) : List Bool := (code.map (fun b => List.replicate s b)).flatten

/-- a rendered row: `lq` white pixels, the module pattern at `s` pixels per module, `rq` white pixels -/
def paddedRow (lq s rq : Nat) (code : List Bool) : List Bool :=
  List.replicate lq false ++ scaleRow s code ++ List.replicate rq false

/-- the module pattern a UPC/EAN writer draws -/
def upceanModules (T : Tables) : EanKind → List Nat → Res (List Bool)
  | .ean13, c => ean13Modules T c
  | .ean8, c => ean8Modules T c
  | .upca, c => upcaModules T c
  | .upce, c => upceModules T c

/-- the text the matching reader reports for the digit string `full` the writer drew
    (UPC-A is drawn as the EAN-13 symbol of "0"+contents and reported without that "0") -/
def upceanCanonical : EanKind → List Nat → List Nat
  | .upca, full => full.drop 1
  | _, full => full

/-- modules of the end guard the reader matches (its width is the right quiet zone it insists on) -/
def endGuardOf (T : Tables) : EanKind → List Nat
  | .upce => T.upceMiddleEnd
  | _ => T.startEnd

end Gzx.OneD
