/-
  Models of the post-classification logic of two 1-D row decoders (oned/code39_reader.go,
  oned/code93_reader.go): what happens to the character string after the bar patterns were
  classified — check characters, empty-symbol test, "extended" (full ASCII) escape decoding.
  Characters are byte values (`Nat`).  Tied to /repo by the `c06` correspondence suite through
  crafted rows (the functions are unexported).

  `code39DecodeExtended` is modelled twice: as repaired (`c39Ext`, bounds check → FormatException,
  commit "fix: code39DecodeExtended …") and as found (`c39ExtOrig`, `encoded[i+1]` unguarded),
  so that defect D15 is a proved statement about the original and totality a theorem about the repair.
-/
import Gzx.Util
namespace Gzx.OneDPost

/-- "0123456789ABCDEFGHIJKLMNOPQRSTUVWXYZ-. $/+%" -/
def c39Alphabet : List Nat :=
  [48, 49, 50, 51, 52, 53, 54, 55, 56, 57, 65, 66, 67, 68, 69, 70, 71, 72, 73, 74, 75, 76, 77, 78, 79, 80, 81, 82, 83, 84, 85, 86, 87, 88, 89, 90, 45, 46, 32, 36, 47, 43, 37]

/-- "0123456789ABCDEFGHIJKLMNOPQRSTUVWXYZ-. $/+%abcd*" -/
def c93Alphabet : List Nat :=
  [48, 49, 50, 51, 52, 53, 54, 55, 56, 57, 65, 66, 67, 68, 69, 70, 71, 72, 73, 74, 75, 76, 77, 78, 79, 80, 81, 82, 83, 84, 85, 86, 87, 88, 89, 90, 45, 46, 32, 36, 47, 43, 37, 97, 98, 99, 100, 42]

/-- Go `strings.Index(alphabet, string(c))` : position of the first occurrence, -1 when absent -/
def indexFrom : List Nat → Nat → Nat → Int
  | [], _, _ => -1
  | a :: as, c, i => if a = c then (i : Int) else indexFrom as c (i + 1)

def indexOf (alpha : List Nat) (c : Nat) : Int := indexFrom alpha c 0

def inRange (x lo hi : Nat) : Bool := lo ≤ x && x ≤ hi

/-! ## Code 39 extended mode -/

def c39IsEscape (c : Nat) : Bool := c == 43 || c == 36 || c == 37 || c == 47   -- + $ % /

/-- the `switch c` of code39DecodeExtended: decoded character or none (→ FormatException) -/
def c39Escape (c next : Nat) : Option Nat :=
  if c == 43 then (if inRange next 65 90 then some (next + 32) else none)
  else if c == 36 then (if inRange next 65 90 then some (next - 64) else none)
  else if c == 37 then
    if inRange next 65 69 then some (next - 38)
    else if inRange next 70 74 then some (next - 11)
    else if inRange next 75 79 then some (next + 16)
    else if inRange next 80 84 then some (next + 43)
    else if next == 85 then some 0
    else if next == 86 then some 64
    else if next == 87 then some 96
    else if next == 88 || next == 89 || next == 90 then some 127
    else none
  else -- '/'
    if inRange next 65 79 then some (next - 32)
    else if next == 90 then some 58
    else none

/-- repaired `code39DecodeExtended`: walks the string, an escape consumes two characters -/
def c39Ext : List Nat → List Nat → Res (List Nat)
  | [], acc => .ok acc.reverse
  | c :: rest, acc =>
    if c39IsEscape c then
      match rest with
      | [] => .error .format                       -- the repaired bounds check
      | next :: rest' =>
        match c39Escape c next with
        | some d => c39Ext rest' (d :: acc)
        | none => .error .format
    else c39Ext rest (c :: acc)

/-- `code39DecodeExtended` as found in the unchanged tree: `next := encoded[i+1]` is an index
    operation and panics when the escape character is last (defect D15) -/
def c39ExtOrig : List Nat → List Nat → Res (List Nat)
  | [], acc => .ok acc.reverse
  | c :: rest, acc =>
    if c39IsEscape c then
      match rest with
      | [] => .error (.panic "index out of range: encoded[i+1]")
      | next :: rest' =>
        match c39Escape c next with
        | some d => c39ExtOrig rest' (d :: acc)
        | none => .error .format
    else c39ExtOrig rest (c :: acc)

/-- Go `alphabet[i]` with an `int` index -/
def alphaAt (alpha : List Nat) (i : Int) : Res Nat :=
  if i < 0 then .error (.panic "index out of range: negative")
  else match alpha[i.toNat]? with
    | some c => .ok c
    | none => .error (.panic "index out of range")

def sumIdx (alpha : List Nat) (s : List Nat) : Int := s.foldl (fun t c => t + indexOf alpha c) 0

/-- Code 39 `DecodeRow` after the closing asterisk was removed (repaired order: the empty-symbol
    test comes before the check character is indexed). -/
def c39Post (usingCheck ext : Bool) (s : List Nat) : Res (List Nat) :=
  if s.length = 0 then .error .notFound
  else
    let afterCheck : Res (List Nat) :=
      if usingCheck then
        let max := s.length - 1
        let total := sumIdx c39Alphabet (s.take max)
        match s[max]?, alphaAt c39Alphabet (Int.tmod total 43) with
        | none, _ => .error (.panic "index out of range: result[max]")
        | _, .error e => .error e
        | some last, .ok want => if last ≠ want then .error .checksum else .ok (s.take max)
      else .ok s
    match afterCheck with
    | .error e => .error e
    | .ok s' =>
      if s'.length = 0 then .error .notFound
      else if ext then c39Ext s' [] else .ok s'

/-- the unchanged tree: no empty test before `result[max]` with `max = len-1 = -1` -/
def c39PostOrig (usingCheck ext : Bool) (s : List Nat) : Res (List Nat) :=
  let afterCheck : Res (List Nat) :=
    if usingCheck then
      if s.length = 0 then .error (.panic "index out of range [-1]") else
      let max := s.length - 1
      let total := sumIdx c39Alphabet (s.take max)
      match s[max]?, alphaAt c39Alphabet (Int.tmod total 43) with
      | none, _ => .error (.panic "index out of range: result[max]")
      | _, .error e => .error e
      | some last, .ok want => if last ≠ want then .error .checksum else .ok (s.take max)
    else .ok s
  match afterCheck with
  | .error e => .error e
  | .ok s' =>
    if s'.length = 0 then .error .notFound
    else if ext then c39ExtOrig s' [] else .ok s'

/-! ## Code 93 -/

def c93IsShift (c : Nat) : Bool := inRange c 97 100   -- a b c d

def c93Escape (c next : Nat) : Option Nat :=
  if c == 100 then (if inRange next 65 90 then some (next + 32) else none)
  else if c == 97 then (if inRange next 65 90 then some (next - 64) else none)
  else if c == 98 then
    if inRange next 65 69 then some (next - 38)
    else if inRange next 70 74 then some (next - 11)
    else if inRange next 75 79 then some (next + 16)
    else if inRange next 80 84 then some (next + 43)
    else if next == 85 then some 0
    else if next == 86 then some 64
    else if next == 87 then some 96
    else if inRange next 88 90 then some 127
    else none
  else
    if inRange next 65 79 then some (next - 32)
    else if next == 90 then some 58
    else none

/-- `code93DecodeExtended` (has its bounds check `i >= length-1` in the unchanged tree) -/
def c93Ext : List Nat → List Nat → Res (List Nat)
  | [], acc => .ok acc.reverse
  | c :: rest, acc =>
    if c93IsShift c then
      match rest with
      | [] => .error .format
      | next :: rest' =>
        match c93Escape c next with
        | some d => c93Ext rest' (d :: acc)
        | none => .error .format
    else c93Ext rest (c :: acc)

/-- weighted sum of `code93CheckOneChecksum`: weights 1,2,…,weightMax,1,… from the right -/
def c93Weighted (weightMax : Nat) : List Nat → Nat → Int → Int
  | [], _, total => total
  | c :: rest, w, total =>
    let total' := total + (w : Int) * indexOf c93Alphabet c
    let w' := if w + 1 > weightMax then 1 else w + 1
    c93Weighted weightMax rest w' total'

def c93CheckOne (s : List Nat) (checkPos weightMax : Nat) : Res Unit :=
  let total := c93Weighted weightMax (s.take checkPos).reverse 1 0
  match s[checkPos]?, alphaAt c93Alphabet (Int.tmod total 47) with
  | none, _ => .error (.panic "index out of range: result[checkPosition]")
  | _, .error e => .error e
  | some got, .ok want => if got ≠ want then .error .checksum else .ok ()

/-- Code 93 `DecodeRow` after the closing asterisk was removed -/
def c93Post (s : List Nat) : Res (List Nat) :=
  if s.length < 2 then .error .notFound
  else
    match c93CheckOne s (s.length - 2) 20 with
    | .error e => .error e
    | .ok () =>
      match c93CheckOne s (s.length - 1) 15 with
      | .error e => .error e
      | .ok () => c93Ext (s.take (s.length - 2)) []

end Gzx.OneDPost
