/-
  wp oned128 — the Code 128 ROW DECODER as coded (oned/code128_reader.go), on `List Bool` pixel rows:
  `code128FindStartPattern` (counter window, best start code among 103..105, quiet-zone test with `max(0, …)`),
  `code128DecodeCode` (RecordPattern + best match over all 107 patterns), and `DecodeRow` (the `for !done` loop with
  code-set switching, SHIFT, FNC1..FNC4, the ASSUME_GS1 hint, running checksum, STOP, trailing quiet zone with
  `min(size, …)`, removal of the check character's text, rawCodes, result points, symbology modifier).

  Rows are `List Bool` (true = black): `BitArray.Get/GetNextSet/GetNextUnset/IsRange` are the spec-level operations
  of C16 (`OneD.getNextSet`, `getNextUnset`, `isRangeWhite`); RecordPattern / PatternMatchVariance are C20's models.
  Go `int`s are unbounded `Nat` (every quantity is a pixel index ≤ len(row) or a checksum < 107·len(row)).
  Panics are values: every slice index of the Go text is a checked operation here (`nth`, `incrChk`, …).

  FLOATS.  The only float64 computations of the reader are PatternMatchVariance and the comparisons of its result
  with the running best / the thresholds.  The model is parametric in an interpretation `VarDom` of exactly these:
    * `exactDom`  — exact rationals as cross-multiplied fractions (C20's `patternMatchVariance`), thresholds 1/4, 7/10;
      this is the model the C03 / C10 theorems are about;
    * `floatDom`  — IEEE binary64 (`Float`), the same operation sequence as the Go function; used by the driver only to
      find the cases where rounding changes a decision (the harness compares those against the IEEE run and counts them).
  The totality theorems (Properties/C06Row128.lean) hold for EVERY interpretation whose `pmv` does not panic on a pattern
  at least as long as the counters.
-/
import Gzx.Model.OneD
namespace Gzx.Row128
open Gzx Gzx.OneD

/-! ## interpretation of the variance arithmetic -/

structure VarDom where
  V : Type
  /-- `PatternMatchVariance(counters, pattern, mvNum/mvDen)` -/
  pmv : List Nat → List Nat → Nat → Nat → Res V
  /-- float64 `<` -/
  lt : V → V → Bool
  /-- float64 `==` -/
  eq : V → V → Bool
  /-- the constant `n/d` (a Go untyped constant converted to float64) -/
  frac : Nat → Nat → V

/-- `none` = +Inf -/
def fracLtO : Option (Nat × Nat) → Option (Nat × Nat) → Bool
  | none, _ => false
  | some _, none => true
  | some a, some b => a.1 * b.2 < b.1 * a.2

def fracEqO : Option (Nat × Nat) → Option (Nat × Nat) → Bool
  | none, none => true
  | some a, some b => a.1 * b.2 == b.1 * a.2
  | _, _ => false

def exactDom : VarDom where
  V := Option (Nat × Nat)
  pmv := RunLength.patternMatchVariance
  lt := fracLtO
  eq := fracEqO
  frac := fun n d => some (n, d)

/-- the Go function operation by operation in binary64 -/
def floatPmvLoop (unit maxInd : Float) : List Nat → List Nat → Float → Option Float
  | c :: cs, p :: ps, tv =>
    let variance := c.toFloat - p.toFloat * unit
    let variance := if variance < 0 then -variance else variance
    if variance > maxInd then none else floatPmvLoop unit maxInd cs ps (tv + variance)
  | _, _, tv => some tv

def floatInf : Float := 1.0 / 0.0

def floatPmv (counters pattern : List Nat) (mvNum mvDen : Nat) : Res Float :=
  if pattern.length < counters.length then .error (.panic "pattern[i] out of range")
  else
    let pat := pattern.take counters.length
    let total := RunLength.sumL counters
    let pl := RunLength.sumL pat
    if total < pl then .ok floatInf
    else
      let unit := total.toFloat / pl.toFloat
      let maxInd := (mvNum.toFloat / mvDen.toFloat) * unit
      match floatPmvLoop unit maxInd counters pat 0.0 with
      | none => .ok floatInf
      | some tv => .ok (tv / total.toFloat)

def floatDom : VarDom where
  V := Float
  pmv := floatPmv
  lt := fun a b => a < b
  eq := fun a b => a == b
  frac := fun n d => n.toFloat / d.toFloat

/-! ## checked slice operations -/

/-- `counters[pos]++` -/
def incrChk (cs : List Nat) (pos : Nat) : Res (List Nat) :=
  if pos < cs.length then .ok (incrAt cs pos) else .error (.panic "index out of range")

/-- `WrapNotFoundException(e)`: a checked error becomes NotFound; a panic stays a panic -/
def wrapNF {α} : Res α → Res α
  | .error (.panic w) => .error (.panic w)
  | .error .fuel => .error .fuel
  | .error _ => .error .notFound
  | .ok a => .ok a

/-! ## best-match loops -/

/-- `for …{ variance := PMV(counters, pattern_i, ind); if variance < bestVariance { bestVariance = variance; bestMatch = i } }`
    over the patterns `ps` numbered from `i` -/
def bestLoopD (D : VarDom) (counters : List Nat) (mvNum mvDen : Nat) :
    List (List Nat) → Nat → D.V → Option Nat → Res (Option Nat)
  | [], _, _, bm => .ok bm
  | p :: ps, i, best, bm =>
    match D.pmv counters p mvNum mvDen with
    | .error e => .error e
    | .ok v =>
      if D.lt v best then bestLoopD D counters mvNum mvDen ps (i + 1) v (some i)
      else bestLoopD D counters mvNum mvDen ps (i + 1) best bm

/-- `code128CODE_PATTERNS[startCode]` for startCode = 103, 104, 105 -/
def startPatterns (P : List (List Nat)) : Res (List (List Nat)) := do
  let a ← nth P 103
  let b ← nth P 104
  let c ← nth P 105
  pure [a, b, c]

/-! ## code128FindStartPattern -/

/-- the `for i := rowOffset; i < width; i++` loop over the remaining pixels `bs` (`i` = index of the head of `bs`);
    state: counters `cs` (six), `pos` = counterPosition, `ps` = patternStart, `isWhite`.
    Result `[patternStart, i, bestMatch]`. -/
def startLoop (D : VarDom) (P : List (List Nat)) (row : List Bool) :
    List Bool → Nat → List Nat → Nat → Nat → Bool → Res (Nat × Nat × Nat)
  | [], _, _, _, _, _ => .error .notFound
  | b :: bs, i, cs, pos, ps, isWhite =>
    if b != isWhite then
      match incrChk cs pos with
      | .error e => .error e
      | .ok cs' => startLoop D P row bs (i + 1) cs' pos ps isWhite
    else if pos + 1 = cs.length then       -- counterPosition == patternLength-1, patternLength = len(counters)
      match startPatterns P with
      | .error e => .error e
      | .ok pats =>
        match bestLoopD D cs 7 10 pats 103 (D.frac 1 4) none with
        | .error e => .error e
        | .ok bm =>
          -- `if bestMatch >= 0 { if IsRange(max(0, patternStart-(i-patternStart)/2), patternStart, false) {return} }`
          -- (Nat subtraction truncates at 0 = the `max(0, …)` of the Go text; `i ≥ patternStart` always)
          let hit : Option Nat := match bm with
            | some m => if isRangeWhite row (ps - (i - ps) / 2) ps then some m else none
            | none => none
          match hit with
          | some m => .ok (ps, i, m)
          | none =>
            -- patternStart += counters[0] + counters[1]; copy(counters, counters[2:2+pos-1]);
            -- counters[pos-1] = 0; counters[pos] = 0; pos--; counters[pos] = 1; isWhite = !isWhite
            match cs with
            | c0 :: c1 :: tl =>
              if pos < 2 then .error (.panic "slice bounds out of range")
              else startLoop D P row bs (i + 1) (tl ++ [1, 0]) (pos - 1) (ps + c0 + c1) (!isWhite)
            | _ => .error (.panic "index out of range")
    else
      -- counterPosition++; counters[counterPosition] = 1; isWhite = !isWhite
      if pos + 1 < cs.length then startLoop D P row bs (i + 1) (cs.set (pos + 1) 1) (pos + 1) ps (!isWhite)
      else .error (.panic "index out of range")

def findStartPattern (D : VarDom) (P : List (List Nat)) (row : List Bool) : Res (Nat × Nat × Nat) :=
  let off := getNextSet row 0
  startLoop D P row (row.drop off) off (List.replicate 6 0) 0 off false

/-! ## code128DecodeCode -/

/-- (bestMatch, the six counters) -/
def decodeCode (D : VarDom) (P : List (List Nat)) (row : List Bool) (rowOffset : Nat) : Res (Nat × List Nat) :=
  match wrapNF (RunLength.recordPattern row rowOffset 6) with
  | .error e => .error e
  | .ok counters =>
    match bestLoopD D counters 7 10 P 0 (D.frac 1 4) none with
    | .error e => .error e
    | .ok none => .error .notFound
    | .ok (some m) => .ok (m, counters)

/-! ## the `for !done` loop of DecodeRow -/

structure St where
  codeSet : Nat
  result : List Nat          -- reversed
  lastPrintable : Bool
  upper : Bool
  shiftUpper : Bool
  nextShifted : Bool
  lastCode : Nat
  code : Nat
  total : Nat                -- checksumTotal
  mult : Nat                 -- multiplier
  symMod : Nat               -- symbologyModifier
  deriving Repr, DecidableEq

/-- the FNC1 case (identical text in all three code-set branches) -/
def fnc1 (gs1 : Bool) (s : St) : St :=
  let s := if s.result.length = 0 then { s with symMod := 1 }
           else if s.result.length = 1 then { s with symMod := 2 } else s
  if gs1 then
    if s.result.length = 0 then { s with result := 49 :: 67 :: 93 :: s.result }    -- "]C1"
    else { s with result := 29 :: s.result }
  else s

def fnc4 (s : St) : St :=
  if !s.upper && s.shiftUpper then { s with upper := true, shiftUpper := false }
  else if s.upper && s.shiftUpper then { s with upper := false, shiftUpper := false }
  else { s with shiftUpper := true }

/-- `result = append(result, byte(b))` resp. `byte(b+128)` -/
def emit (s : St) (b : Nat) : St :=
  { s with result := (if s.shiftUpper = s.upper then b else b + 128) :: s.result, shiftUpper := false }

/-- head of an iteration: `unshift := isNextShifted; isNextShifted = false; lastCode = code; code = …`, then (unless
    STOP) `lastCharacterWasPrintable = true; multiplier++; checksumTotal += multiplier * code` -/
def stepPre (s : St) (code : Nat) : St :=
  let s := { s with nextShifted := false, lastCode := s.code, code := code }
  let s := if code ≠ 106 then { s with lastPrintable := true } else s
  if code ≠ 106 then { s with mult := s.mult + 1, total := s.total + (s.mult + 1) * code } else s

/-- `if code != CODE_STOP { lastCharacterWasPrintable = false }` at the head of each non-printable branch -/
def np (s : St) (code : Nat) : St := if code ≠ 106 then { s with lastPrintable := false } else s

/-- `switch codeSet { case CODE_A: … case CODE_B: … case CODE_C: … }`: the new state and `done` -/
def stepBody (gs1 : Bool) (s : St) (code : Nat) : St × Bool :=
  if s.codeSet = 101 then
    if code < 64 then (emit s (32 + code), false)
    else if code < 96 then
      ({ s with result := (if s.shiftUpper = s.upper then code - 64 else code + 64) :: s.result,
                shiftUpper := false }, false)
    else
      let s := np s code
      if code = 102 then (fnc1 gs1 s, false)
      else if code = 97 then ({ s with symMod := 4 }, false)
      else if code = 96 then (s, false)
      else if code = 101 then (fnc4 s, false)
      else if code = 98 then ({ s with nextShifted := true, codeSet := 100 }, false)
      else if code = 100 then ({ s with codeSet := 100 }, false)
      else if code = 99 then ({ s with codeSet := 99 }, false)
      else if code = 106 then (s, true)
      else (s, false)
  else if s.codeSet = 100 then
    if code < 96 then (emit s (32 + code), false)
    else
      let s := np s code
      if code = 102 then (fnc1 gs1 s, false)
      else if code = 97 then ({ s with symMod := 4 }, false)
      else if code = 96 then (s, false)
      else if code = 100 then (fnc4 s, false)
      else if code = 98 then ({ s with nextShifted := true, codeSet := 101 }, false)
      else if code = 101 then ({ s with codeSet := 101 }, false)
      else if code = 99 then ({ s with codeSet := 99 }, false)
      else if code = 106 then (s, true)
      else (s, false)
  else if s.codeSet = 99 then
    if code < 100 then ({ s with result := (48 + code % 10) :: (48 + code / 10) :: s.result }, false)
    else
      let s := np s code
      if code = 102 then (fnc1 gs1 s, false)
      else if code = 101 then ({ s with codeSet := 101 }, false)
      else if code = 100 then ({ s with codeSet := 100 }, false)
      else if code = 106 then (s, true)
      else (s, false)
  else (s, false)

/-- "Unshift back to another code set if we were shifted" -/
def stepPost (unshift : Bool) (s : St) : St :=
  if unshift then { s with codeSet := if s.codeSet = 101 then 100 else 101 } else s

/-- one iteration for the decoded `code` (after `rawCodes = append(…)`): returns the state and `done`.
    (The Go text tests for an illegal start code after the checksum update; the update is dropped with the error.) -/
def step (gs1 : Bool) (s : St) (code : Nat) : Res (St × Bool) :=
  if code = 103 ∨ code = 104 ∨ code = 105 then .error .format
  else
    let r := stepBody gs1 (stepPre s code) code
    .ok (stepPost s.nextShifted r.1, r.2)

/-- loop state outside `St`: rawCodes (reversed), lastStart, nextStart -/
structure Pos where
  raw : List Nat
  lastStart : Nat
  nextStart : Nat
  deriving Repr, DecidableEq

def mainLoop (D : VarDom) (P : List (List Nat)) (row : List Bool) (gs1 : Bool) :
    Nat → St → Pos → Res (St × Pos)
  | 0, _, _ => .error .fuel
  | fuel + 1, s, p =>
    match decodeCode D P row p.nextStart with
    | .error e => .error e
    | .ok (code, counters) =>
      let p' : Pos := { raw := code :: p.raw, lastStart := p.nextStart, nextStart := p.nextStart + sumL counters }
      match step gs1 s code with
      | .error e => .error e
      | .ok (s', true) => .ok (s', p')
      | .ok (s', false) => mainLoop D P row gs1 fuel s' p'

/-- what `DecodeRow` returns; the two result points are `(left2/2, rowNumber)`, `(right2/2, rowNumber)` -/
structure Out where
  text : List Nat
  raw : List Nat
  left2 : Nat
  right2 : Nat
  symMod : Nat
  deriving Repr, DecidableEq

/-- the tail of DecodeRow: checksum test (`checksumTotal -= multiplier * lastCode; checksumTotal % 103 != lastCode`),
    the "false positive" test on an empty result, removal of the check character's text -/
def finish (s : St) : Res (List Nat) :=
  if (s.total - s.mult * s.lastCode) % 103 ≠ s.lastCode then .error .checksum
  else
    let res := s.result.reverse
    if res.length = 0 then .error .notFound
    else if s.lastPrintable then
      let k := if s.codeSet = 99 then 2 else 1
      if res.length < k then .error (.panic "slice bounds out of range")
      else .ok (res.take (res.length - k))
    else .ok res

/-- the code set a start code selects (`switch startCode`) -/
def codeSetOf (startCode : Nat) : Option Nat :=
  if startCode = 103 then some 101 else if startCode = 104 then some 100
  else if startCode = 105 then some 99 else none

/-- the loop variables before the first iteration -/
def st0 (codeSet startCode : Nat) : St := ⟨codeSet, [], true, false, false, false, 0, 0, startCode, 0, 0⟩

/-- `code128Reader.DecodeRow(rowNumber, row, hints)`; `gs1` = the ASSUME_GS1 key is present in the hint map -/
def decodeRow (D : VarDom) (P : List (List Nat)) (row : List Bool) (gs1 : Bool) : Res Out :=
  match findStartPattern D P row with
  | .error e => .error e
  | .ok (start0, start1, startCode) =>
    match codeSetOf startCode with
    | none => .error .format
    | some codeSet =>
      match mainLoop D P row gs1 (row.length + 1) (st0 codeSet startCode) ⟨[startCode], start0, start1⟩ with
      | .error e => .error e
      | .ok (s, p) =>
        let lastPatternSize := p.nextStart - p.lastStart
        let nextStart := getNextUnset row p.nextStart
        if !(isRangeWhite row nextStart (min row.length (nextStart + (nextStart - p.lastStart) / 2))) then
          .error .notFound
        else
          match finish s with
          | .error e => .error e
          | .ok t =>
            .ok { text := t, raw := p.raw.reverse, left2 := start1 + start0,
                  right2 := 2 * p.lastStart + lastPatternSize, symMod := s.symMod }

end Gzx.Row128
