/-
  wp oned39 — the pixel-level ROW DECODERS of Code 39, Code 93 and Codabar as coded:
    oned/code39_reader.go  : DecodeRow, code39FindAsteriskPattern, code39ToNarrowWidePattern, code39PatternToChar
    oned/code93_reader.go  : DecodeRow, findAsteriskPattern, code93ToPattern, code93PatternToChar, code93CheckChecksums
    oned/codabar_reader.go : DecodeRow, setCounters, findStartPattern, toNarrowWidePattern, validatePattern
  on a row given as `List Bool` (true = black).  Built on C20's `RunLength.recordPattern` and the row primitives
  of `Gzx.OneD` (`getNextSet`, `getNextUnset`, `isRangeWhite`, `nth`).  Tables are parameters (`OneD.Tables`).

  Reader scratch state (`counters`, `decodeRowResult`, `counterLength`) is reset by every call before it is read
  (statelessness premise, DESIGN §13.3): locals here.

  Arithmetic.  Everything the three readers decide with is integer arithmetic, mirrored literally, except:
    * `code93ToPattern`: `int(float64(c)*9/sumf + 0.5)` is modelled as ⌊(18c + sum) / (2·sum)⌋.  Exact for every row of
      fewer than 2^31 pixels: (18c+sum)/(2·sum) is an integer or at least 1/(2·sum) > 2^-32 away from one, the float64
      evaluation is off by < 2^-48; when it IS an integer, 9c/sum is a half-integer, hence computed exactly.  `sum = 0`
      (0/0 = NaN, `int(NaN)` = -2^63 on amd64 → -1) cannot be reached from DecodeRow and is modelled as "no pattern".
    * Codabar `validatePattern`: the float64 thresholds `(sizes[i]/counts[i] + sizes[i+2]/counts[i+2]) / 2` and
      `(sizes[i+2]*2.0 + 1.5) / counts[i+2]` are compared with integer stripe widths by cross-multiplication.  Away from
      an exact tie `2·size·cn·cw = sn·cw + sw·cn` the margin (≥ 1/(2·cn·cw)) exceeds the float error by orders of
      magnitude; AT a tie with inexact quotients the float result depends on rounding — `cbInexactTie` flags exactly
      those rows and the harness does not compare them (counted).  The second threshold never ties (even = odd).
      Zero counts (NaN / +Inf thresholds, every comparison false) come out right under cross-multiplication.
    * result points are halves of integers; the model returns twice the x coordinates.
  `math.MaxInt32` is kept as the literal 2147483647 (a run longer than that behaves as in Go on a 64-bit int).
-/
import Gzx.Model.OneD
import Gzx.Model.OneDPost
namespace Gzx.Row39
open Gzx Gzx.OneD
open Gzx.CheckDigit (indexOf?)

/-! ## shared pieces -/

/-- `row.Get(i)`.  Go reads the backing word array, so an index in `[size, 32·⌈size/32⌉)` would not panic there;
    the model is stricter (any `i ≥ size` is a panic value) and the totality theorems show it never happens. -/
def rowGet (row : List Bool) (i : Nat) : Res Bool := nth row i

/-- `counters[i]` with a Go `int` index -/
def nthI (cs : List Nat) (i : Int) : Res Nat :=
  if i < 0 then .error (.panic "index out of range: negative") else nth cs i.toNat

/-- is the error one of the three ReaderExceptions / fuel / panic: used only for `WrapNotFoundException(e)`,
    which turns the (always NotFound) error of RecordPattern into NotFound; panics are not errors and pass through -/
def wrapNotFound {α} : Res α → Res α
  | .error (.panic w) => .error (.panic w)
  | .error .fuel => .error .fuel
  | .error _ => .error .notFound
  | .ok a => .ok a

/-- the start-pattern search loop shared (textually duplicated in Go) by `code39FindAsteriskPattern` and
    `code93Reader.findAsteriskPattern`, over the remaining pixels `b :: bs` at index `x`:
    `cs` = counters, `pos` = counterPosition, `ps` = patternStart, `accept cs ps x` = the match test. -/
def starLoop (accept : List Nat → Nat → Nat → Res Bool) :
    List Bool → Nat → List Nat → Nat → Nat → Bool → Res (Nat × Nat)
  | [], _, _, _, _, _ => .error .notFound
  | b :: bs, x, cs, pos, ps, isWhite =>
    if b != isWhite then
      if pos < cs.length then starLoop accept bs (x + 1) (incrAt cs pos) pos ps isWhite
      else .error (.panic "index out of range: counters[counterPosition]++")
    else if pos + 1 = cs.length then
      match accept cs ps x with
      | .error e => .error e
      | .ok true => .ok (ps, x)
      | .ok false =>
        match cs with
        | c0 :: c1 :: tl =>
          -- patternStart += counters[0]+counters[1]; copy(counters, counters[2:pos+1]); two zeros; pos--; counters[pos] = 1
          starLoop accept bs (x + 1) (tl ++ [1, 0]) (pos - 1) (ps + c0 + c1) (!isWhite)
        | _ => .error (.panic "index out of range: counters[1]")
    else if pos + 1 < cs.length then
      starLoop accept bs (x + 1) (cs.set (pos + 1) 1) (pos + 1) ps (!isWhite)
    else .error (.panic "index out of range: counters[counterPosition]")

/-! ## Code 39 -/

/-- first inner loop of `code39ToNarrowWidePattern`: the smallest counter above `maxNarrowCounter` -/
def c39MinAbove (cs : List Nat) (maxNarrow : Nat) : Nat :=
  cs.foldl (fun m c => if c < m ∧ c > maxNarrow then c else m) 2147483647

/-- second inner loop: (pattern, wideCounters, totalWideCountersWidth); `pattern |= 1 << (n-1-i)` is the
    most-significant-first accumulation -/
def c39Scan (maxNarrow : Nat) : List Nat → Nat × Nat × Nat → Nat × Nat × Nat
  | [], acc => acc
  | c :: cs, (p, w, t) =>
    if c > maxNarrow then c39Scan maxNarrow cs (2 * p + 1, w + 1, t + c)
    else c39Scan maxNarrow cs (2 * p, w, t)

/-- the "are the three wide counters close enough" loop: `for i < n && wideCounters > 0` -/
def c39WideOk (maxNarrow total : Nat) : List Nat → Nat → Bool
  | [], _ => true
  | _ :: _, 0 => true
  | c :: cs, w + 1 =>
    if c > maxNarrow then (if c * 2 ≥ total then false else c39WideOk maxNarrow total cs w)
    else c39WideOk maxNarrow total cs (w + 1)

/-- the outer `for { … if !(wideCounters > 3) break }`; `none` = -1 -/
def c39PatternLoop (cs : List Nat) : Nat → Nat → Res (Option Nat)
  | 0, _ => .error .fuel
  | fuel + 1, maxNarrow =>
    let m := c39MinAbove cs maxNarrow
    let r := c39Scan m cs (0, 0, 0)
    if r.2.1 = 3 then (if c39WideOk m r.2.2 cs 3 then .ok (some r.1) else .ok none)
    else if r.2.1 > 3 then c39PatternLoop cs fuel m
    else .ok none

/-- `code39ToNarrowWidePattern(counters)` -/
def c39Pattern (cs : List Nat) : Res (Option Nat) := c39PatternLoop cs (cs.length + 1) 0

/-- `code39PatternToChar(pattern)`; `code39AlphabetString[i]` is an index operation -/
def c39Char (T : Tables) (p : Nat) : Res Nat :=
  match indexOf? p T.code39Enc with
  | some i => nth T.code39Alphabet i
  | none => if p = T.code39Asterisk then .ok 42 else .error .notFound

/-- the match test of `code39FindAsteriskPattern`, evaluated when the 9th counter is complete at pixel `i` -/
def c39Accept (T : Tables) (row : List Bool) (cs : List Nat) (ps i : Nat) : Res Bool :=
  match c39Pattern cs with
  | .error e => .error e
  | .ok p =>
    if p = some T.code39Asterisk then
      -- row.IsRange(max(0, patternStart-((i-patternStart)/2)), patternStart, false); `patternStart ≤ i` always
      .ok (isRangeWhite row (ps - (i - ps) / 2) ps)
    else .ok false

def c39FindAsterisk (T : Tables) (row : List Bool) : Res (Nat × Nat) :=
  let off := getNextSet row 0
  starLoop (c39Accept T row) (row.drop off) off (List.replicate 9 0) 0 off false

/-- the `for { RecordPattern …; if decodedChar == '*' break }` loop.
    Returns (result without the final asterisk, lastStart, lastPatternSize, nextStart). -/
def c39Loop (T : Tables) (row : List Bool) : Nat → Nat → List Nat → Res (List Nat × Nat × Nat × Nat)
  | 0, _, _ => .error .fuel
  | fuel + 1, nextStart, acc =>
    match wrapNotFound (RunLength.recordPattern row nextStart 9) with
    | .error e => .error e
    | .ok cs =>
      match c39Pattern cs with
      | .error e => .error e
      | .ok none => .error .notFound
      | .ok (some p) =>
        match c39Char T p with
        | .error e => .error e
        | .ok ch =>
          let next := getNextSet row (nextStart + sumL cs)
          if ch = 42 then .ok (acc.reverse, nextStart, sumL cs, next)
          else c39Loop T row fuel next (ch :: acc)

/-- Code 39 `DecodeRow` after the loop: check character (optional), empty tests, extended mode
    (`code39DecodeExtended` as repaired, D15: `OneDPost.c39Ext`) -/
def c39Finish (A : List Nat) (ck ext : Bool) (s : List Nat) : Res (List Nat) :=
  if s.length = 0 then .error .notFound
  else
    let afterCheck : Res (List Nat) :=
      if ck then
        let max := s.length - 1
        let total : Int := OneDPost.sumIdx A (s.take max)      -- Σ strings.Index(alphabet, string(result[i]))
        match nth s max, OneDPost.alphaAt A (Int.tmod total 43) with
        | .error e, _ => .error e
        | _, .error e => .error e
        | .ok last, .ok want => if last ≠ want then .error .checksum else .ok (s.take max)
      else .ok s
    match afterCheck with
    | .error e => .error e
    | .ok s' =>
      if s'.length = 0 then .error .notFound
      else if ext then OneDPost.c39Ext s' [] else .ok s'

/-- what a row decoder reports: text bytes and twice the x of the two result points -/
structure Hit where
  text : List Nat
  left2 : Nat
  right2 : Nat
  deriving DecidableEq, Repr

/-- `code39Reader.DecodeRow(rowNumber, row, hints)` (hints are not read; rowNumber only becomes the y of the points) -/
def c39DecodeRow (T : Tables) (ck ext : Bool) (row : List Bool) : Res Hit :=
  match c39FindAsterisk T row with
  | .error e => .error e
  | .ok (startLeft, startRight) =>
    let nextStart := getNextSet row startRight
    match c39Loop T row (row.length + 1) nextStart [] with
    | .error e => .error e
    | .ok (result, lastStart, lastSize, next) =>
      let white : Int := (next : Int) - lastStart - lastSize
      if next ≠ row.length ∧ white * 2 < lastSize then .error .notFound
      else
        match c39Finish T.code39Alphabet ck ext result with
        | .error e => .error e
        | .ok text => .ok ⟨text, startLeft + startRight, 2 * lastStart + lastSize⟩

/-! ## Code 93 -/

/-- the body of `code93ToPattern`'s loop over counters `i, i+1, …` (`even` = `(i & 1) == 0`) -/
def c93PatLoop (sum : Nat) : List Nat → Bool → Nat → Option Nat
  | [], _, p => some p
  | c :: cs, even, p =>
    -- int(float64(c)*9/sumf + 0.5); `sum = 0` (then c = 0): int(NaN) = -2^63 on amd64, i.e. < 1
    let scaled := if sum = 0 then 0 else (18 * c + sum) / (2 * sum)
    if scaled < 1 ∨ scaled > 4 then none
    else if even then c93PatLoop sum cs false (p * 2 ^ scaled + (2 ^ scaled - 1))
    else c93PatLoop sum cs true (p * 2 ^ scaled)

/-- `code93ToPattern(counters)`; `none` = -1 -/
def c93Pattern (cs : List Nat) : Option Nat :=
  c93PatLoop (sumL cs) cs true 0

/-- `code93PatternToChar(pattern)` -/
def c93Char (T : Tables) (p : Nat) : Res Nat :=
  match indexOf? p T.code93Enc with
  | some i => nth T.code93Alphabet i
  | none => .error .notFound

def c93Accept (star : Nat) (cs : List Nat) (_ps _i : Nat) : Res Bool := .ok (c93Pattern cs = some star)

/-- `code93Reader.findAsteriskPattern(row)`; `star` = `code93AsteriskEncoding` -/
def c93FindAsterisk (star : Nat) (row : List Bool) : Res (Nat × Nat) :=
  let off := getNextSet row 0
  starLoop (c93Accept star) (row.drop off) off (List.replicate 6 0) 0 off false

def c93Loop (T : Tables) (row : List Bool) : Nat → Nat → List Nat → Res (List Nat × Nat × Nat × Nat)
  | 0, _, _ => .error .fuel
  | fuel + 1, nextStart, acc =>
    match wrapNotFound (RunLength.recordPattern row nextStart 6) with
    | .error e => .error e
    | .ok cs =>
      match c93Pattern cs with
      | none => .error .notFound
      | some p =>
        match c93Char T p with
        | .error e => .error e
        | .ok ch =>
          let next := getNextSet row (nextStart + sumL cs)
          if ch = 42 then .ok (acc.reverse, nextStart, sumL cs, next)
          else c93Loop T row fuel next (ch :: acc)

/-- weighted sum of `code93CheckOneChecksum`, walking `result[checkPosition-1 … 0]` -/
def c93Weighted (A : List Nat) (weightMax : Nat) : List Nat → Nat → Int → Int
  | [], _, total => total
  | c :: rest, w, total =>
    c93Weighted A weightMax rest (if w + 1 > weightMax then 1 else w + 1) (total + (w : Int) * OneDPost.indexOf A c)

def c93CheckOne (A : List Nat) (s : List Nat) (checkPos weightMax : Nat) : Res Unit :=
  let total := c93Weighted A weightMax (s.take checkPos).reverse 1 0
  match nth s checkPos, OneDPost.alphaAt A (Int.tmod total 47) with
  | .error e, _ => .error e
  | _, .error e => .error e
  | .ok got, .ok want => if got ≠ want then .error .checksum else .ok ()

/-- Code 93 `DecodeRow` after the loop and the termination-bar test -/
def c93Finish (A : List Nat) (s : List Nat) : Res (List Nat) :=
  if s.length < 2 then .error .notFound
  else
    match c93CheckOne A s (s.length - 2) 20 with
    | .error e => .error e
    | .ok () =>
      match c93CheckOne A s (s.length - 1) 15 with
      | .error e => .error e
      | .ok () => OneDPost.c93Ext (s.take (s.length - 2)) []

/-- `code93Reader.DecodeRow` -/
def c93DecodeRow (T : Tables) (row : List Bool) : Res Hit :=
  match nth T.code93Enc 47 with            -- `var code93AsteriskEncoding = code93CharacterEncodings[47]`
  | .error e => .error e
  | .ok star =>
    match c93FindAsterisk star row with
    | .error e => .error e
    | .ok (startLeft, startRight) =>
      let nextStart := getNextSet row startRight
      match c93Loop T row (row.length + 1) nextStart [] with
      | .error e => .error e
      | .ok (result, lastStart, lastSize, next) =>
        -- `if nextStart == end || !row.Get(nextStart)`
        let stop : Res Bool := if next = row.length then .ok true else (rowGet row next).map (!·)
        match stop with
        | .error e => .error e
        | .ok true => .error .notFound
        | .ok false =>
          match c93Finish T.code93Alphabet result with
          | .error e => .error e
          | .ok text => .ok ⟨text, startLeft + startRight, 2 * lastStart + lastSize⟩

/-! ## Codabar -/

/-- the loop of `setCounters`: `isWhite`, `count`, counters appended so far (reversed) -/
def cbCountLoop : List Bool → Bool → Nat → List Nat → List Nat
  | [], _, count, acc => (count :: acc).reverse
  | b :: bs, isWhite, count, acc =>
    if b != isWhite then cbCountLoop bs isWhite (count + 1) acc
    else cbCountLoop bs (!isWhite) 1 (count :: acc)

/-- `setCounters(row)`: run lengths from the first white pixel on, white first -/
def cbSetCounters (row : List Bool) : Res (List Nat) :=
  let i := getNextUnset row 0
  if i ≥ row.length then .error .notFound
  else .ok (cbCountLoop (row.drop i) true 0 [])

/-- `if c < min {min = c}; if c > max {max = c}` over the bars resp. spaces of a character -/
def cbMinMax : List Nat → Nat × Nat → Nat × Nat
  | [], mm => mm
  | c :: cs, (mn, mx) => cbMinMax cs (if c < mn then c else mn, if c > mx then c else mx)

/-- `toNarrowWidePattern(position)` on `counters = cs`; `none` = -1 -/
def cbToNarrowWide (T : Tables) (cs : List Nat) (position : Nat) : Res (Option Nat) :=
  if position + 7 ≥ cs.length then .ok none
  else
    match (cs.drop position).take 7 with
    | [b0, s0, b1, s1, b2, s2, b3] =>
      let bar := cbMinMax [b0, b1, b2, b3] (2147483647, 0)
      let thresholdBar := (bar.1 + bar.2) / 2
      let space := cbMinMax [s0, s1, s2] (2147483647, 0)
      let thresholdSpace := (space.1 + space.2) / 2
      let bit (c th w : Nat) : Nat := if c > th then w else 0
      let pattern := bit b0 thresholdBar 64 + bit s0 thresholdSpace 32 + bit b1 thresholdBar 16 +
        bit s1 thresholdSpace 8 + bit b2 thresholdBar 4 + bit s2 thresholdSpace 2 + bit b3 thresholdBar 1
      .ok (indexOf? pattern T.codabarEnc)
    | _ => .error (.panic "index out of range: theCounters[j]")

def cbStartEnd : List Nat := [65, 66, 67, 68]      -- codabarReader_STARTEND_ENCODING

/-- `charOffset != -1 && arrayContains(STARTEND, ALPHABET[charOffset])` -/
def cbIsStartEnd (T : Tables) (off : Nat) : Res Bool :=
  match nth T.codabarAlphabet off with
  | .error e => .error e
  | .ok ch => .ok (cbStartEnd.contains ch)

/-- sum of `counters[a … b)` as the Go loops compute it (index operations) -/
def sumRange (cs : List Nat) (a b : Nat) : Res Nat :=
  if a < b ∧ b > cs.length then .error (.panic "index out of range: counters[j]")
  else .ok (sumL ((cs.drop a).take (b - a)))

/-- `findStartPattern()`: `for i := 1; i < counterLength; i += 2` over the list of those `i` -/
def cbFindStartLoop (T : Tables) (cs : List Nat) : List Nat → Res Nat
  | [] => .error .notFound
  | i :: rest =>
    match cbToNarrowWide T cs i with
    | .error e => .error e
    | .ok none => cbFindStartLoop T cs rest
    | .ok (some off) =>
      match cbIsStartEnd T off with
      | .error e => .error e
      | .ok false => cbFindStartLoop T cs rest
      | .ok true =>
        match sumRange cs i (i + 7) with
        | .error e => .error e
        | .ok patternSize =>
          if i = 1 then .ok i
          else
            match nthI cs ((i : Int) - 1) with
            | .error e => .error e
            | .ok before => if before ≥ patternSize / 2 then .ok i else cbFindStartLoop T cs rest

def cbFindStart (T : Tables) (cs : List Nat) : Res Nat :=
  cbFindStartLoop T cs ((List.range (cs.length / 2)).map (fun k => 2 * k + 1))

/-- the character loop of `DecodeRow`: table offsets read so far (reversed) and `nextStart` -/
def cbCharLoop (T : Tables) (cs : List Nat) : Nat → Nat → List Nat → Res (List Nat × Nat)
  | 0, _, _ => .error .fuel
  | fuel + 1, nextStart, acc =>
    if nextStart < cs.length then
      match cbToNarrowWide T cs nextStart with
      | .error e => .error e
      | .ok none => .error .notFound
      | .ok (some off) =>
        let acc' := (off % 256) :: acc            -- append(decodeRowResult, byte(charOffset))
        if acc'.length > 1 then
          match cbIsStartEnd T off with
          | .error e => .error e
          | .ok true => .ok (acc'.reverse, nextStart + 8)
          | .ok false => cbCharLoop T cs fuel (nextStart + 8) acc'
        else cbCharLoop T cs fuel (nextStart + 8) acc'
    else .ok (acc.reverse, nextStart)

/-- one stripe seen by `validatePattern`: width, `j & 1` (space), `pattern & 1` at that position (wide) -/
structure Stripe where
  size : Nat
  space : Bool
  wide : Bool

/-- the stripes of all characters in `decodeRowResult`, seven per character, inter-character gaps skipped -/
def cbStripes (T : Tables) (cs : List Nat) : List Nat → Nat → Res (List Stripe)
  | [], _ => .ok []
  | r :: rs, pos =>
    match nth T.codabarEnc r with
    | .error e => .error e
    | .ok pattern =>
      if pos + 7 > cs.length then .error (.panic "index out of range: counters[pos+j]")
      else
        let w := (cs.drop pos).take 7
        let here := (w.zip (bitsMSB 7 pattern)).zipIdx.map (fun p => Stripe.mk p.1.1 (p.2 % 2 = 1) p.1.2)
        match cbStripes T cs rs (pos + 8) with
        | .error e => .error e
        | .ok more => .ok (here ++ more)

/-- (sizes[cat], counts[cat]) for `cat = (space ? 1 : 0) + (wide ? 2 : 0)` -/
def cbCat (ss : List Stripe) (space wide : Bool) : Nat × Nat :=
  let sel := ss.filter (fun s => s.space = space ∧ s.wide = wide)
  (sumL (sel.map (·.size)), sel.length)

/-- the second loop of `validatePattern` for one stripe, thresholds by cross-multiplication (see the file header):
    narrow: `size > maxes[cat]`; wide: `size < mins[cat] || size > maxes[cat]`; `true` = rejected -/
def cbStripeBad (n w : Nat × Nat) (s : Stripe) : Bool :=
  if s.wide then
    decide (2 * s.size * (n.2 * w.2) < n.1 * w.2 + w.1 * n.2) || decide (2 * s.size * w.2 > 4 * w.1 + 3)
  else decide (2 * s.size * (n.2 * w.2) > n.1 * w.2 + w.1 * n.2)

/-- `validatePattern(start)` -/
def cbValidate (T : Tables) (cs : List Nat) (res : List Nat) (start : Nat) : Res Unit :=
  match cbStripes T cs res start with
  | .error e => .error e
  | .ok ss =>
    let bad := ss.any (fun s => cbStripeBad (cbCat ss s.space false) (cbCat ss s.space true) s)
    if bad then .error .notFound else .ok ()

/-- a stripe whose width equals the float64 threshold `(sn/cn + sw/cw)/2` exactly while a quotient is inexact:
    the Go comparison then depends on float rounding (driver/harness only; no theorem mentions it) -/
def cbInexactTie (T : Tables) (cs : List Nat) (res : List Nat) (start : Nat) : Bool :=
  match cbStripes T cs res start with
  | .error _ => false
  | .ok ss =>
    ss.any (fun s =>
      let n := cbCat ss s.space false
      let w := cbCat ss s.space true
      n.2 > 0 && w.2 > 0 && decide (2 * s.size * (n.2 * w.2) = n.1 * w.2 + w.1 * n.2) &&
        !(n.1 % n.2 = 0 && w.1 % w.2 = 0))

/-- everything `DecodeRow` computes before the result is assembled (also used by the driver for the tie flag) -/
structure CbScan where
  counters : List Nat
  start : Nat
  res : List Nat
  nextStart : Nat

def cbScan (T : Tables) (row : List Bool) : Res CbScan :=
  match cbSetCounters row with
  | .error e => .error e
  | .ok cs =>
    match cbFindStart T cs with
    | .error e => .error e
    | .ok start =>
      match cbCharLoop T cs (cs.length + 1) start [] with
      | .error e => .error e
      | .ok (res, nextStart) => .ok ⟨cs, start, res, nextStart⟩

/-- `codabarReader.DecodeRow`; `retSE` = the hint RETURN_CODABAR_START_END is present (any value) -/
def cbDecodeRow (T : Tables) (retSE : Bool) (row : List Bool) : Res Hit :=
  match cbScan T row with
  | .error e => .error e
  | .ok ⟨cs, start, res, nextStart⟩ =>
    match nthI cs ((nextStart : Int) - 1) with
    | .error e => .error e
    | .ok trailing =>
      -- for i := -8; i < -1; i++ { lastPatternSize += counters[nextStart+i] }
      if nextStart < 8 then .error (.panic "index out of range: counters[nextStart-8]")
      else
        match sumRange cs (nextStart - 8) (nextStart - 1) with
        | .error e => .error e
        | .ok lastSize =>
          if nextStart < cs.length ∧ trailing < lastSize / 2 then .error .notFound
          else
            match cbValidate T cs res start with
            | .error e => .error e
            | .ok () =>
              match res.mapM (nth T.codabarAlphabet) with
              | .error e => .error e
              | .ok chars =>
                match nth chars 0 with
                | .error e => .error e
                | .ok startchar =>
                  if !(cbStartEnd.contains startchar) then .error .notFound
                  else
                    match nthI chars ((chars.length : Int) - 1) with
                    | .error e => .error e
                    | .ok endchar =>
                      if !(cbStartEnd.contains endchar) then .error .notFound
                      else if chars.length ≤ 3 then .error .notFound
                      else
                        let text := if retSE then chars else (chars.drop 1).take (chars.length - 2)
                        match sumRange cs 0 start, sumRange cs start (nextStart - 1) with
                        | .error e, _ => .error e
                        | _, .error e => .error e
                        | .ok l, .ok m => .ok ⟨text, 2 * l, 2 * (l + m)⟩

end Gzx.Row39
