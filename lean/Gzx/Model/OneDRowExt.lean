/-
  wp rowsrest — the WHOLE `DecodeRow` of the five UPC/EAN readers (EAN-13, EAN-8, UPC-A, UPC-E and the
  multi-format reader), as coded in /repo/oned:

    upcean_reader.go               findStartGuardPattern, DecodeRow, decodeRowWithStartRange (result points,
                                   result-point callback, quiet zone, length / check digit, add-on, ALLOWED_EAN_EXTENSIONS,
                                   country, symbology identifier), findGuardPatternWithCounters, decodeDigit
    ean13/ean8/upce_reader.go      decodeMiddle, decodeEnd, checkChecksum
    upca_reader.go                 DecodeRow / decodeRowWithStartRange = maybeReturnResult ∘ EAN-13
    upcean_extension_support.go    decodeRow (guard 1-1-2 after the end guard, five digits first, then two)
    upcean_extension2_support.go   decodeMiddle (separator skipping, parity = value mod 4), parseExtensionString
    upcean_extension5_support.go   decodeMiddle, determineCheckDigit, extensionChecksum, parseExtensionString,
                                   parseExtension5String (currency switch, string slicing, %d.%02d)
    ean_manufacturer_org_support.go lookupCountryIdentifier
    multi_format_upcean_reader.go  constructor (POSSIBLE_FORMATS → sub-readers), DecodeRow (dispatch, EAN-13 "0…" → UPC-A)

  The model is generic in the interpretation of `PatternMatchVariance` and of `<` on its float64 results
  (`VarOps`): `VarOps.exact` is the exact-fraction model of Model/OneD.lean (C03's `upcean_read_write` is about
  it), `VarOps.ofFOps o` transliterates the Go float expression over an arbitrary float interpretation
  (`Gzx.Det.FOps`), and `VarOps.float` = IEEE binary64 is what the driver runs (so that rows on which a
  variance lies exactly ON a limit are decided as the Go code decides them).  All theorems hold for every `VarOps`.

  Everything not concerned with variances is shared with Model/OneD.lean / Model/CheckDigit.lean.
  Panics are values (DESIGN §5.1).  Core Lean only.
-/
import Gzx.Model.OneD
import Gzx.Model.DetCore
namespace Gzx.OneDRowExt
open Gzx Gzx.OneD Gzx.CheckDigit Gzx.Det

/-! ## interpretation of PatternMatchVariance -/

structure VarOps (V : Type) where
  /-- `PatternMatchVariance(counters, pattern, UPCEANReader_MAX_INDIVIDUAL_VARIANCE)` for `len(pattern) ≥ len(counters)` -/
  pmv : List Nat → List Nat → V
  /-- `<` on float64 -/
  lt : V → V → Bool
  /-- `UPCEANReader_MAX_AVG_VARIANCE` -/
  maxAvg : V

/-- exact fractions; `none` = +Inf (the model of Model/OneD.lean) -/
def exactPmv (cs p : List Nat) : Option (Nat × Nat) :=
  match RunLength.patternMatchVariance cs p 7 10 with
  | .ok v => v
  | .error _ => none

def exactLt : Option (Nat × Nat) → Option (Nat × Nat) → Bool
  | some a, some b => fracLt a b
  | some _, none => true
  | none, _ => false

def VarOps.exact : VarOps (Option (Nat × Nat)) := ⟨exactPmv, exactLt, some (12, 25)⟩

section FloatPmv
variable {F : Type} (o : FOps F)

/-- the second loop of `PatternMatchVariance`; `none` = the early `return math.Inf(1)` -/
def pmvLoopF (unit maxInd : F) : List Nat → List Nat → F → Option F
  | c :: cs, p :: ps, tot =>
    let counter := o.ofInt c
    let scaled := o.mul (o.ofInt p) unit
    let v := o.sub counter scaled
    let v := if o.lt v (o.ofInt 0) then o.sub (o.ofInt 0) v else v
    if o.gt v maxInd then none else pmvLoopF unit maxInd cs ps (o.add tot v)
  | _, _, tot => some tot

/-- `PatternMatchVariance(counters, pattern, mvN/mvD)`, the Go float expression term by term -/
def pmvF (mvN mvD : Int) (counters pattern : List Nat) : F :=
  let pat := pattern.take counters.length
  let total := RunLength.sumL counters
  let pl := RunLength.sumL pat
  let inf := o.div (o.ofInt 1) (o.ofInt 0)
  if total < pl then inf
  else
    let unit := o.div (o.ofInt total) (o.ofInt pl)
    let maxInd := o.mul (o.lit mvN mvD) unit
    match pmvLoopF o unit maxInd counters pat (o.ofInt 0) with
    | none => inf
    | some tot => o.div tot (o.ofInt total)

def VarOps.ofFOps : VarOps F := ⟨pmvF o 7 10, o.lt, o.lit 48 100⟩
end FloatPmv

/-- IEEE binary64 -/
def VarOps.float : VarOps Float := VarOps.ofFOps FOps.float

/-! ## tables of the add-on / metadata code (the pattern tables are `OneD.Tables`) -/

structure ExtTables where
  extStart : List Nat                       -- extensionStartPattern
  ean5Check : List Nat                      -- checkDigitEncodings
  countries : List (Nat × Nat × List Nat)   -- eanManufacturerOrgSupportList (start, end, identifier bytes)

/-! ## guard search and digits, generic in `VarOps` (control flow of Model/OneD.lean) -/

section Generic
variable {V : Type} (O : VarOps V)

/-- loop of `upceanReader_findGuardPatternWithCounters` over the remaining pixels -/
def guardLoop (pattern : List Nat) : List Bool → Nat → List Nat → Nat → Nat → Bool → Res (Nat × Nat)
  | [], _, _, _, _, _ => .error .notFound
  | b :: bs, x, cs, pos, ps, isWhite =>
    if b != isWhite then guardLoop pattern bs (x + 1) (incrAt cs pos) pos ps isWhite
    else if pos + 1 = pattern.length then
      if pattern.length < cs.length then .error (.panic "pattern[i] out of range")
      else if O.lt (O.pmv cs pattern) O.maxAvg then .ok (ps, x)
      else
        match cs with
        | c0 :: c1 :: tl =>
          if pos < 2 then .error (.panic "slice bounds out of range")
          else guardLoop pattern bs (x + 1) (tl ++ [1, 0]) (pos - 1) (ps + c0 + c1) (!isWhite)
        | _ => .error (.panic "slice bounds out of range")
    else guardLoop pattern bs (x + 1) (cs.set (pos + 1) 1) (pos + 1) ps (!isWhite)

def findGuardPattern (row : List Bool) (rowOffset : Nat) (whiteFirst : Bool) (pattern : List Nat) : Res (Nat × Nat) :=
  let off := if whiteFirst then getNextUnset row rowOffset else getNextSet row rowOffset
  let off := min off row.length
  guardLoop O pattern (row.drop off) off (List.replicate pattern.length 0) 0 off whiteFirst

def findStartLoop (T : Tables) (row : List Bool) : Nat → Nat → Res (Nat × Nat)
  | 0, _ => .error .fuel
  | fuel + 1, nextStart =>
    match findGuardPattern O row nextStart false T.startEnd with
    | .error e => .error e
    | .ok (start, next) =>
      let width := next - start
      if start ≥ width ∧ isRangeWhite row (start - width) start then .ok (start, next)
      else findStartLoop T row fuel next

def findStartGuardPattern (T : Tables) (row : List Bool) : Res (Nat × Nat) :=
  findStartLoop O T row (row.length + 1) 0

def bestLoop (counters : List Nat) : List (List Nat) → Nat → V → Option Nat → Res (Option Nat)
  | [], _, _, bm => .ok bm
  | p :: ps, i, best, bm =>
    if p.length < counters.length then .error (.panic "pattern[i] out of range")
    else
      let v := O.pmv counters p
      if O.lt v best then bestLoop counters ps (i + 1) v (some i) else bestLoop counters ps (i + 1) best bm

/-- `upceanReader_decodeDigit`: (best match, pixels consumed = Σ counters) -/
def decodeDigit (row : List Bool) (rowOffset : Nat) (patterns : List (List Nat)) : Res (Nat × Nat) :=
  match RunLength.recordPattern row rowOffset 4 with
  | .error e => .error e
  | .ok counters =>
    match bestLoop O counters patterns 0 O.maxAvg none with
    | .error e => .error e
    | .ok none => .error .notFound
    | .ok (some m) => .ok (m, OneD.sumL counters)

/-- `for x := 0; x < n && rowOffset < end; x++ { decodeDigit …; rowOffset += Σ counters }` -/
def digitsLoop (row : List Bool) (patterns : List (List Nat)) : Nat → Nat → List Nat → Res (List Nat × Nat)
  | 0, off, acc => .ok (acc.reverse, off)
  | n + 1, off, acc =>
    if off < row.length then
      match decodeDigit O row off patterns with
      | .error e => .error e
      | .ok (m, w) => digitsLoop row patterns n (off + w) (m :: acc)
    else .ok (acc.reverse, off)

/-- decodeMiddle of the EAN-13 reader: (end offset, text bytes) -/
def ean13DecodeMiddle (T : Tables) (row : List Bool) (startEnd : Nat) : Res (Nat × List Nat) := do
  let (ms, off) ← notFoundOf (digitsLoop O row (lAndG T.lPatterns) 6 startEnd [])
  let first ← determineFirstDigit T.firstDigit (lgWord 6 ms)
  let (_, mEnd) ← notFoundOf (findGuardPattern O row off true T.middle)
  let (rs, off2) ← notFoundOf (digitsLoop O row T.lPatterns 6 mEnd [])
  pure (off2, (48 + first) :: ms.map (fun m => 48 + m % 10) ++ rs.map (48 + ·))

def ean8DecodeMiddle (T : Tables) (row : List Bool) (startEnd : Nat) : Res (Nat × List Nat) := do
  let (ls, off) ← notFoundOf (digitsLoop O row T.lPatterns 4 startEnd [])
  let (_, mEnd) ← notFoundOf (findGuardPattern O row off true T.middle)
  let (rs, off2) ← notFoundOf (digitsLoop O row T.lPatterns 4 mEnd [])
  pure (off2, ls.map (48 + ·) ++ rs.map (48 + ·))

def upceDecodeMiddle (T : Tables) (row : List Bool) (startEnd : Nat) : Res (Nat × List Nat) := do
  let (ms, off) ← notFoundOf (digitsLoop O row (lAndG T.lPatterns) 6 startEnd [])
  let (ns, chk) ← determineNumSysAndCheckDigit T.upceParity (lgWord 6 ms)
  pure (off, (48 + ns) :: ms.map (fun m => 48 + m % 10) ++ [48 + chk])

/-- `decodeMiddle` of the reader that owns the kind (the UPC-A reader delegates to its EAN-13 reader) -/
def decodeMiddle (T : Tables) (k : EanKind) (row : List Bool) (startEnd : Nat) : Res (Nat × List Nat) :=
  match k with
  | .ean13 | .upca => ean13DecodeMiddle O T row startEnd
  | .ean8 => ean8DecodeMiddle O T row startEnd
  | .upce => upceDecodeMiddle O T row startEnd

/-- `decodeEnd` -/
def decodeEnd (T : Tables) (k : EanKind) (row : List Bool) (endStart : Nat) : Res (Nat × Nat) :=
  match k with
  | .upce => findGuardPattern O row endStart true T.upceMiddleEnd
  | _ => findGuardPattern O row endStart false T.startEnd

/-! ## add-on symbols -/

/-- the digit loop of `UPCEANExtension{2,5}Support.decodeMiddle` (`n` digits in all, `k` still to read):
    after every digit but the last the separator is read off with `GetNextSet` then `GetNextUnset` -/
def extDigitsLoop (T : Tables) (row : List Bool) : Nat → Nat → List Nat → Res (List Nat × Nat)
  | 0, off, acc => .ok (acc.reverse, off)
  | k + 1, off, acc =>
    if off < row.length then
      match decodeDigit O row off (lAndG T.lPatterns) with
      | .error e => .error e
      | .ok (m, w) =>
        let off1 := off + w
        let off2 := if k ≠ 0 then getNextUnset row (getNextSet row off1) else off1
        extDigitsLoop T row k off2 (m :: acc)
    else .ok (acc.reverse, off)
end Generic

/-! ## strings -/

/-- `strconv.Atoi` on a string of ASCII digits (the only strings the readers pass); any other byte: error -/
def atoi? (s : List Nat) : Option Nat :=
  match digits? s with
  | some [] => none
  | some ds => some (ds.foldl (fun acc d => 10 * acc + d) 0)
  | none => none

/-- decimal digits of a natural number, most significant first (`%d`) -/
def natDigitsAux : Nat → Nat → List Nat → List Nat
  | 0, _, acc => acc
  | fuel + 1, n, acc => if n < 10 then (48 + n) :: acc else natDigitsAux fuel (n / 10) ((48 + n % 10) :: acc)

def natDec (n : Nat) : List Nat := natDigitsAux (n + 1) n []

/-- `%02d` for a natural number -/
def natDec02 (n : Nat) : List Nat := if n < 10 then 48 :: natDec n else natDec n

/-- `UPCEANExtension5Support.parseExtension5String(raw)`; `raw[0]` and `raw[1:]` panic on the empty string -/
def parseExtension5String (raw : List Nat) : Res (List Nat) :=
  match raw with
  | [] => .error (.panic "index out of range [0]")
  | c0 :: rest =>
    let special : Option (List Nat) :=
      if c0 = 57 then
        if raw = [57, 48, 48, 48, 48] then some []                       -- "90000": no suggested retail price
        else if raw = [57, 57, 57, 57, 49] then some [48, 46, 48, 48]    -- "99991": "0.00"
        else if raw = [57, 57, 57, 57, 48] then some [85, 115, 101, 100] -- "99990": "Used"
        else none
      else none
    match special with
    | some s => .ok s
    | none =>
      let currency : List Nat := if c0 = 48 then [0xC2, 0xA3] else if c0 = 53 then [36] else []
      match atoi? rest with
      | none => .ok []
      | some amount => .ok (currency ++ natDec (amount / 100) ++ [46] ++ natDec02 (amount % 100))

inductive MetaKey where
  | issueNumber | suggestedPrice | possibleCountry | upcEanExtension | symbologyIdentifier
  deriving DecidableEq, Repr

def MetaKey.ord : MetaKey → Nat
  | .issueNumber => 4 | .suggestedPrice => 5 | .possibleCountry => 6 | .upcEanExtension => 7 | .symbologyIdentifier => 11

inductive MetaVal where
  | str (bs : List Nat)
  | int (n : Int)
  deriving DecidableEq, Repr

abbrev Meta := List (MetaKey × MetaVal)

/-- `m[k] = v` -/
def Meta.put (m : Meta) (k : MetaKey) (v : MetaVal) : Meta :=
  if m.any (·.1 = k) then m.map (fun p => if p.1 = k then (k, v) else p) else m ++ [(k, v)]

/-- `PutAllMetadata` -/
def Meta.putAll (m : Meta) (n : Meta) : Meta := n.foldl (fun acc p => acc.put p.1 p.2) m

/-- `UPCEANExtension5Support.parseExtensionString` -/
def parseExtension5 (raw : List Nat) : Res Meta :=
  if raw.length ≠ 5 then .ok []
  else
    match parseExtension5String raw with
    | .error e => .error e
    | .ok [] => .ok []
    | .ok v => .ok [(.suggestedPrice, .str v)]

/-- `UPCEANExtension2Support.parseExtensionString` -/
def parseExtension2 (raw : List Nat) : Meta :=
  if raw.length ≠ 2 then []
  else
    match atoi? raw with
    | none => []
    | some n => [(.issueNumber, .int n)]

/-- `eanManufacturerOrgSupportLookupCountryIdentifier`: first range containing the three-digit prefix -/
def lookupCountry (C : List (Nat × Nat × List Nat)) (code : List Nat) : List Nat :=
  if code.length < 3 then []
  else
    match atoi? (code.take 3) with
    | none => []
    | some prefix_ =>
      match C.find? (fun r => r.1 ≤ prefix_ ∧ prefix_ ≤ r.2.1) with
      | some r => r.2.2
      | none => []

/-! ## results -/

/-- a result point; `x2` is TWICE the x coordinate (the code computes `float64(a+b)/2.0`, exact in binary64) -/
structure Pt where
  x2 : Int
  y : Int
  deriving DecidableEq, Repr

structure RowResult where
  text : List Nat
  format : EanKind
  points : List Pt
  md : Meta
  deriving Repr

/-- what `UPCEANExtensionSupport.decodeRow` returns (format UPC_EAN_EXTENSION) -/
structure ExtResult where
  text : List Nat
  points : List Pt
  md : Meta
  deriving Repr

/-- the hints `DecodeRow` looks at, well-typed values only (C06 quantifies over those) -/
structure Hints where
  /-- NEED_RESULT_POINT_CALLBACK is present and holds a non-nil `ResultPointCallback` -/
  cb : Bool := false
  /-- ALLOWED_EAN_EXTENSIONS when its value is a `[]int` (any other type is ignored by the code) -/
  allowedExt : Option (List Int) := none
  /-- POSSIBLE_FORMATS contains UPC_A (only `multiFormatUPCEANReader.DecodeRow` looks) -/
  canUPCA : Bool := false

/-- the points handed to the result-point callback, in call order -/
abbrev Trace := List Pt

section Generic2
variable {V : Type} (O : VarOps V)

/-- `UPCEANExtension2Support.decodeMiddle`: (end offset, two digit bytes) -/
def ext2DecodeMiddle (T : Tables) (row : List Bool) (startEnd : Nat) : Res (Nat × List Nat) :=
  match notFoundOf (extDigitsLoop O T row 2 startEnd []) with
  | .error e => .error e
  | .ok (ms, off) =>
    if ms.length ≠ 2 then .error .notFound
    else
      let s := ms.map (fun m => 48 + m % 10)
      match atoi? s with
      | none => .error (.panic "unreachable: digits")
      | some v => if v % 4 ≠ lgWord 2 ms then .error .checksum else .ok (off, s)

/-- `UPCEANExtension5Support.decodeMiddle` -/
def ext5DecodeMiddle (T : Tables) (X : ExtTables) (row : List Bool) (startEnd : Nat) : Res (Nat × List Nat) :=
  match notFoundOf (extDigitsLoop O T row 5 startEnd []) with
  | .error e => .error e
  | .ok (ms, off) =>
    if ms.length ≠ 5 then .error .notFound
    else
      match determineCheckDigit5 X.ean5Check (lgWord 5 ms) with
      | .error e => .error e
      | .ok d =>
        if ext5Checksum (ms.map (· % 10)) ≠ d then .error .checksum
        else .ok (off, ms.map (fun m => 48 + m % 10))

def extPoints (rn : Int) (sr : Nat × Nat) (end_ : Nat) : List Pt :=
  [⟨(sr.1 + sr.2 : Nat), rn⟩, ⟨2 * (end_ : Nat), rn⟩]

/-- `UPCEANExtension5Support.decodeRow` -/
def ext5DecodeRow (T : Tables) (X : ExtTables) (rn : Int) (row : List Bool) (sr : Nat × Nat) : Res ExtResult :=
  match ext5DecodeMiddle O T X row sr.2 with
  | .error e => .error e
  | .ok (end_, s) =>
    match parseExtension5 s with
    | .error e => .error e
    | .ok m => .ok ⟨s, extPoints rn sr end_, m⟩

/-- `UPCEANExtension2Support.decodeRow` -/
def ext2DecodeRow (T : Tables) (rn : Int) (row : List Bool) (sr : Nat × Nat) : Res ExtResult :=
  match ext2DecodeMiddle O T row sr.2 with
  | .error e => .error e
  | .ok (end_, s) => .ok ⟨s, extPoints rn sr end_, parseExtension2 s⟩

/-- `UPCEANExtensionSupport.decodeRow(rowNumber, row, rowOffset)`: the five-digit reading first; on a
    ReaderException the two-digit reading, whose error is the one returned -/
def extDecodeRow (T : Tables) (X : ExtTables) (rn : Int) (row : List Bool) (rowOffset : Nat) : Res ExtResult :=
  match findGuardPattern O row rowOffset false X.extStart with
  | .error e => .error e
  | .ok sr =>
    match ext5DecodeRow O T X rn row sr with
    | .ok r => .ok r
    | .error e => if isReaderErr e then ext2DecodeRow O T rn row sr else .error e

/-- `decodeRowWithStartRange` after the end guard was found: quiet zone, length, check digit, result,
    add-on, ALLOWED_EAN_EXTENSIONS, country, symbology identifier.  `k ∈ {ean13, ean8, upce}`. -/
def finishRow (T : Tables) (X : ExtTables) (k : EanKind) (rn : Int) (row : List Bool) (h : Hints)
    (sg endRange : Nat × Nat) (result : List Nat) : Res RowResult :=
  let e := endRange.2
  let quietEnd := e + (e - endRange.1)
  if quietEnd ≥ row.length then .error .notFound
  else if !(isRangeWhite row e quietEnd) then .error .notFound
  else
    match readerAccept k result with
    | .error err => .error err
    | .ok () =>
      let pts : List Pt := [⟨(sg.2 + sg.1 : Nat), rn⟩, ⟨(endRange.2 + endRange.1 : Nat), rn⟩]
      let ext := extDecodeRow O T X rn row endRange.2
      -- a non-ReaderException from the add-on reader would be wrapped and returned; only a panic can be one
      match (match ext with
             | .error (.panic w) => (.error (.panic w) : Res Unit)
             | .error .fuel => .error .fuel
             | _ => .ok ()) with
      | .error err => .error err
      | .ok () =>
        let (md, pts, extLen) : Meta × List Pt × Nat :=
          match ext with
          | .ok x => ((Meta.put [] .upcEanExtension (.str x.text)).putAll x.md, pts ++ x.points, x.text.length)
          | .error _ => ([], pts, 0)
        let allowed : Bool :=
          match h.allowedExt with
          | none => true
          | some l => l.any (fun len => (extLen : Int) = len)
        if !allowed then .error .notFound
        else
          let md :=
            if k = .ean13 ∨ k = .upca then
              let c := lookupCountry X.countries result
              if c ≠ [] then md.put .possibleCountry (.str c) else md
            else md
          let sym : Nat := if k = .ean8 then 52 else 48
          .ok ⟨result, k, pts, md.put .symbologyIdentifier (.str [93, 69, sym])⟩

/-- `upceanReader.decodeRowWithStartRange` with the trace of result-point callbacks; `k ∈ {ean13, ean8, upce}` -/
def decodeWithStart (T : Tables) (X : ExtTables) (k : EanKind) (rn : Int) (row : List Bool) (h : Hints)
    (sg : Nat × Nat) : Trace × Res RowResult :=
  let t1 : Trace := if h.cb then [⟨(sg.1 + sg.2 : Nat), rn⟩] else []
  match decodeMiddle O T k row sg.2 with
  | .error e => (t1, .error e)
  | .ok (endStart, result) =>
    let t2 : Trace := if h.cb then t1 ++ [⟨2 * (endStart : Nat), rn⟩] else t1
    match notFoundOf (decodeEnd O T k row endStart) with
    | .error e => (t2, .error e)
    | .ok endRange =>
      let t3 : Trace := if h.cb then t2 ++ [⟨(endRange.1 + endRange.2 : Nat), rn⟩] else t2
      (t3, finishRow O T X k rn row h sg endRange result)

/-- `maybeReturnResult` (UPC-A = EAN-13 with a leading '0' removed) -/
def maybeReturnResult (r : Res RowResult) : Res RowResult :=
  match r with
  | .error e => .error e
  | .ok res =>
    match res.text with
    | [] => .error (.panic "index out of range [0]")
    | c :: rest => if c = 48 then .ok { res with text := rest, format := .upca } else .error .format

/-- `decodeRowWithStartRange` as dispatched on the reader's dynamic type -/
def readerWithStart (T : Tables) (X : ExtTables) (k : EanKind) (rn : Int) (row : List Bool) (h : Hints)
    (sg : Nat × Nat) : Trace × Res RowResult :=
  match k with
  | .upca => let r := decodeWithStart O T X .ean13 rn row h sg; (r.1, maybeReturnResult r.2)
  | _ => decodeWithStart O T X k rn row h sg

/-- `DecodeRow` of the four single-format readers -/
def decodeRow (T : Tables) (X : ExtTables) (k : EanKind) (rn : Int) (row : List Bool) (h : Hints) :
    Trace × Res RowResult :=
  match notFoundOf (findStartGuardPattern O T row) with
  | .error e => ([], .error e)
  | .ok sg => readerWithStart O T X k rn row h sg

/-! ## the multi-format reader -/

/-- `NewMultiFormatUPCEANReader(hints)`: one sub-reader per UPC/EAN entry of POSSIBLE_FORMATS in order
    (duplicates kept, other formats = `none` skipped); without any: EAN-13, EAN-8, UPC-E -/
def multiReaders (possibleFormats : List (Option EanKind)) : List EanKind :=
  let rs := possibleFormats.filterMap id
  if rs.isEmpty then [.ean13, .ean8, .upce] else rs

/-- the loop of `multiFormatUPCEANReader.DecodeRow` over ABSTRACT sub-readers: `sub k` is what
    `reader.decodeRowWithStartRange` of the sub-reader of kind `k` does (trace of callbacks, result) -/
def multiLoopA (sub : EanKind → Trace × Res RowResult) (canUPCA : Bool) : List EanKind → Trace → Trace × Res RowResult
  | [], t => (t, .error .notFound)
  | k :: ks, t =>
    let r := sub k
    match r.2 with
    | .error e => if isReaderErr e then multiLoopA sub canUPCA ks (t ++ r.1) else (t ++ r.1, .error e)
    | .ok res =>
      if res.format = .ean13 then
        match res.text with
        | [] => (t ++ r.1, .error (.panic "index out of range [0]"))     -- `result.GetText()[0]`
        | c :: rest =>
          if c = 48 ∧ canUPCA then (t ++ r.1, .ok { res with text := rest, format := .upca })
          else (t ++ r.1, .ok res)
      else (t ++ r.1, .ok res)

/-- `multiFormatUPCEANReader.DecodeRow`; `readers` = the list built by the constructor -/
def multiDecodeRow (T : Tables) (X : ExtTables) (readers : List EanKind) (rn : Int) (row : List Bool) (h : Hints) :
    Trace × Res RowResult :=
  match notFoundOf (findStartGuardPattern O T row) with
  | .error e => ([], .error e)
  | .ok sg => multiLoopA (fun k => readerWithStart O T X k rn row h sg) h.canUPCA readers []
end Generic2

/-! ## reference tables of the add-on / metadata code (transcription; Obligations/C06Rows.lean compares them
    with the tables regenerated from /repo) -/

def cc (s : String) : List Nat := bytesOf s

def refCountries : List (Nat × Nat × List Nat) :=
  [(0, 19, cc "US/CA"), (30, 39, cc "US"), (60, 139, cc "US/CA"), (300, 379, cc "FR"), (380, 380, cc "BG"),
   (383, 383, cc "SI"), (385, 385, cc "HR"), (387, 387, cc "BA"), (400, 440, cc "DE"), (450, 459, cc "JP"),
   (460, 469, cc "RU"), (471, 471, cc "TW"), (474, 474, cc "EE"), (475, 475, cc "LV"), (476, 476, cc "AZ"),
   (477, 477, cc "LT"), (478, 478, cc "UZ"), (479, 479, cc "LK"), (480, 480, cc "PH"), (481, 481, cc "BY"),
   (482, 482, cc "UA"), (484, 484, cc "MD"), (485, 485, cc "AM"), (486, 486, cc "GE"), (487, 487, cc "KZ"),
   (489, 489, cc "HK"), (490, 499, cc "JP"), (500, 509, cc "GB"), (520, 520, cc "GR"), (528, 528, cc "LB"),
   (529, 529, cc "CY"), (531, 531, cc "MK"), (535, 535, cc "MT"), (539, 539, cc "IE"), (540, 549, cc "BE/LU"),
   (560, 560, cc "PT"), (569, 569, cc "IS"), (570, 579, cc "DK"), (590, 590, cc "PL"), (594, 594, cc "RO"),
   (599, 599, cc "HU"), (600, 601, cc "ZA"), (603, 603, cc "GH"), (608, 608, cc "BH"), (609, 609, cc "MU"),
   (611, 611, cc "MA"), (613, 613, cc "DZ"), (616, 616, cc "KE"), (618, 618, cc "CI"), (619, 619, cc "TN"),
   (621, 621, cc "SY"), (622, 622, cc "EG"), (624, 624, cc "LY"), (625, 625, cc "JO"), (626, 626, cc "IR"),
   (627, 627, cc "KW"), (628, 628, cc "SA"), (629, 629, cc "AE"), (640, 649, cc "FI"), (690, 695, cc "CN"),
   (700, 709, cc "NO"), (729, 729, cc "IL"), (730, 739, cc "SE"), (740, 740, cc "GT"), (741, 741, cc "SV"),
   (742, 742, cc "HN"), (743, 743, cc "NI"), (744, 744, cc "CR"), (745, 745, cc "PA"), (746, 746, cc "DO"),
   (750, 750, cc "MX"), (754, 755, cc "CA"), (759, 759, cc "VE"), (760, 769, cc "CH"), (770, 770, cc "CO"),
   (773, 773, cc "UY"), (775, 775, cc "PE"), (777, 777, cc "BO"), (779, 779, cc "AR"), (780, 780, cc "CL"),
   (784, 784, cc "PY"), (785, 785, cc "PE"), (786, 786, cc "EC"), (789, 790, cc "BR"), (800, 839, cc "IT"),
   (840, 849, cc "ES"), (850, 850, cc "CU"), (858, 858, cc "SK"), (859, 859, cc "CZ"), (860, 860, cc "YU"),
   (865, 865, cc "MN"), (867, 867, cc "KP"), (868, 869, cc "TR"), (870, 879, cc "NL"), (880, 880, cc "KR"),
   (885, 885, cc "TH"), (888, 888, cc "SG"), (890, 890, cc "IN"), (893, 893, cc "VN"), (896, 896, cc "PK"),
   (899, 899, cc "ID"), (900, 919, cc "AT"), (930, 939, cc "AU"), (940, 949, cc "AZ"), (955, 955, cc "MY"),
   (958, 958, cc "MO")]

def refExt : ExtTables where
  extStart := Ref.UPCEAN.addOnGuard
  ean5Check := Ref.UPCEAN.ean5CheckDigit
  countries := refCountries

end Gzx.OneDRowExt
