/-
  wp oned128 — the ITF ROW DECODER as coded (oned/itf_reader.go), on `List Bool` pixel rows:
  `decodeStart` (skipWhiteSpace, findGuardPattern for 1111, narrowLineWidth, validateQuietZone),
  `decodeEnd` (the same on the REVERSED row for 112 then 113, indices mapped back), `decodeMiddle`
  (RecordPattern of ten runs, split into bars / spaces, `decodeDigit` best match over the twenty reader patterns with
  the "second best match with the same variance ⇒ no match" rule), the allowed-lengths rule incl. the ALLOWED_LENGTHS
  hint, result points.

  Row reversal is the C16 spec-level `List.reverse`; the interpretation of the variance arithmetic (`VarDom`) and the
  checked slice operations are those of Gzx/Model/OneDRow128.lean.  Thresholds: MAX_AVG_VARIANCE 0.38 = 19/50,
  MAX_INDIVIDUAL_VARIANCE 0.5 = 1/2.
-/
import Gzx.Model.OneDRow128
namespace Gzx.RowITF
open Gzx Gzx.OneD Gzx.Row128

structure ItfT where
  start : List Nat                 -- itfReader_START_PATTERN
  endRev : List (List Nat)         -- itfReader_END_PATTERN_REVERSED
  patterns : List (List Nat)       -- itfReader_PATTERNS (20 rows)
  defaultAllowed : List Int        -- itfReader_DEFAULT_ALLOWED_LENGTHS

def refItfT : ItfT where
  start := [1, 1, 1, 1]
  endRev := [[1, 1, 2], [1, 1, 3]]
  patterns := Ref.OneD.itfPatterns 2 ++ Ref.OneD.itfPatterns 3
  defaultAllowed := [6, 8, 10, 12, 14]

/-! ## itfReader_findGuardPattern -/

/-- the `for x := rowOffset; x < width; x++` loop over the remaining pixels -/
def guardLoop (D : VarDom) (pattern : List Nat) :
    List Bool → Nat → List Nat → Nat → Nat → Bool → Res (Nat × Nat)
  | [], _, _, _, _, _ => .error .notFound
  | b :: bs, x, cs, pos, ps, isWhite =>
    if b != isWhite then
      match incrChk cs pos with
      | .error e => .error e
      | .ok cs' => guardLoop D pattern bs (x + 1) cs' pos ps isWhite
    else if pos + 1 = pattern.length then
      match D.pmv cs pattern 1 2 with
      | .error e => .error e
      | .ok v =>
        if D.lt v (D.frac 19 50) then .ok (ps, x)
        else
          match cs with
          | c0 :: c1 :: tl =>
            if pos < 2 then .error (.panic "slice bounds out of range")
            else guardLoop D pattern bs (x + 1) (tl ++ [1, 0]) (pos - 1) (ps + c0 + c1) (!isWhite)
          | _ => .error (.panic "index out of range")
    else
      if pos + 1 < cs.length then guardLoop D pattern bs (x + 1) (cs.set (pos + 1) 1) (pos + 1) ps (!isWhite)
      else .error (.panic "index out of range")

def findGuardPattern (D : VarDom) (row : List Bool) (rowOffset : Nat) (pattern : List Nat) : Res (Nat × Nat) :=
  guardLoop D pattern (row.drop rowOffset) rowOffset (List.replicate pattern.length 0) 0 rowOffset false

/-! ## skipWhiteSpace, validateQuietZone -/

def skipWhiteSpace (row : List Bool) : Res Nat :=
  let endStart := getNextSet row 0
  if endStart = row.length then .error .notFound else .ok endStart

/-- `for i := startPattern-1; quietCount > 0 && i >= 0; i-- { if row.Get(i) {break}; quietCount-- }`;
    first argument = `i + 1`; returns the final quietCount -/
def quietLoop (row : List Bool) : Nat → Nat → Res Nat
  | 0, q => .ok q
  | i + 1, q =>
    if q = 0 then .ok q
    else
      match nth row i with
      | .error e => .error e
      | .ok b => if b then .ok q else quietLoop row i (q - 1)

def validateQuietZone (row : List Bool) (narrowLineWidth startPattern : Nat) : Res Unit :=
  let quietCount := narrowLineWidth * 10
  let quietCount := if !(decide (quietCount < startPattern)) then startPattern else quietCount
  match quietLoop row startPattern quietCount with
  | .error e => .error e
  | .ok q => if q ≠ 0 then .error .notFound else .ok ()

/-! ## decodeStart / decodeEnd -/

/-- returns the start pattern range and `narrowLineWidth` -/
def decodeStart (D : VarDom) (T : ItfT) (row : List Bool) : Res ((Nat × Nat) × Nat) :=
  match wrapNF (skipWhiteSpace row) with
  | .error e => .error e
  | .ok endStart =>
    match wrapNF (findGuardPattern D row endStart T.start) with
    | .error e => .error e
    | .ok sp =>
      let nlw := (sp.2 - sp.1) / 4
      match wrapNF (validateQuietZone row nlw sp.1) with
      | .error e => .error e
      | .ok () => .ok (sp, nlw)

def isNotFound : Fault → Bool
  | .notFound => true
  | _ => false

/-- `endPattern, e := findGuardPattern(row, endStart, END_PATTERN_REVERSED[0]); if e is NotFound { … [1] }` -/
def endGuard (D : VarDom) (T : ItfT) (rr : List Bool) (endStart : Nat) (p0 : List Nat) : Res (Nat × Nat) :=
  match findGuardPattern D rr endStart p0 with
  | .error e =>
    if isNotFound e then
      match nth T.endRev 1 with
      | .error e => .error e
      | .ok p1 => findGuardPattern D rr endStart p1
    else .error e
  | .ok r => .ok r

def decodeEnd (D : VarDom) (T : ItfT) (row : List Bool) (nlw : Nat) : Res (Nat × Nat) :=
  let rr := row.reverse                          -- row.Reverse(); defer row.Reverse()
  match wrapNF (skipWhiteSpace rr) with
  | .error e => .error e
  | .ok endStart =>
    match nth T.endRev 0 with
    | .error e => .error e
    | .ok p0 =>
      match wrapNF (endGuard D T rr endStart p0) with
      | .error e => .error e
      | .ok ep =>
        match wrapNF (validateQuietZone rr nlw ep.1) with
        | .error e => .error e
        | .ok () => .ok (rr.length - ep.2, rr.length - ep.1)

/-! ## decodeDigit / decodeMiddle -/

/-- the best loop of `itfReader_decodeDigit`: a later pattern with exactly the running best variance cancels the match -/
def bestLoopTie (D : VarDom) (counters : List Nat) :
    List (List Nat) → Nat → D.V → Option Nat → Res (Option Nat)
  | [], _, _, bm => .ok bm
  | p :: ps, i, best, bm =>
    match D.pmv counters p 1 2 with
    | .error e => .error e
    | .ok v =>
      if D.lt v best then bestLoopTie D counters ps (i + 1) v (some i)
      else if D.eq v best then bestLoopTie D counters ps (i + 1) best none
      else bestLoopTie D counters ps (i + 1) best bm

def decodeDigit (D : VarDom) (T : ItfT) (counters : List Nat) : Res Nat :=
  match bestLoopTie D counters T.patterns 0 (D.frac 19 50) none with
  | .error e => .error e
  | .ok none => .error .notFound
  | .ok (some m) => .ok (m % 10)

/-- `counterBlack[k] = pair[2k]`, `counterWhite[k] = pair[2k+1]` for k < 5 -/
def splitPair (pair : List Nat) : Res (List Nat × List Nat) := do
  let bw ← (List.range 5).mapM (fun k => do
    let b ← nth pair (2 * k)
    let w ← nth pair (2 * k + 1)
    pure (b, w))
  pure (bw.map (·.1), bw.map (·.2))

/-- `for payloadStart < payloadEnd { … }`; result bytes reversed in `acc` -/
def middleLoop (D : VarDom) (T : ItfT) (row : List Bool) (payloadEnd : Nat) : Nat → Nat → List Nat → Res (List Nat)
  | 0, _, _ => .error .fuel
  | fuel + 1, payloadStart, acc =>
    if payloadStart < payloadEnd then
      match wrapNF (RunLength.recordPattern row payloadStart 10) with
      | .error e => .error e
      | .ok pair =>
        match splitPair pair with
        | .error e => .error e
        | .ok (black, white) =>
          match wrapNF (decodeDigit D T black) with
          | .error e => .error e
          | .ok d1 =>
            match wrapNF (decodeDigit D T white) with
            | .error e => .error e
            | .ok d2 => middleLoop D T row payloadEnd fuel (payloadStart + sumL pair) ((48 + d2) :: (48 + d1) :: acc)
    else .ok acc.reverse

/-! ## the length rule -/

/-- `for _, allowedLength := range allowedLengths {…}`: (lengthOK, maxAllowedLength) -/
def lengthLoop (length : Int) : List Int → Int → Bool × Int
  | [], mx => (false, mx)
  | a :: as, mx =>
    if length = a then (true, mx)
    else lengthLoop length as (if a > mx then a else mx)

/-- the length rule: one of the allowed lengths, or longer than every allowed length seen -/
def lengthOK (allowedLengths : List Int) (n : Nat) : Bool :=
  let length : Int := n
  let r := lengthLoop length allowedLengths 0
  if !r.1 && decide (length > r.2) then true else r.1

structure Out where
  text : List Nat
  p0 : Nat
  p1 : Nat
  deriving Repr, DecidableEq

/-- `itfReader.DecodeRow`; `allowed` = the value of the ALLOWED_LENGTHS hint when present with type `[]int` -/
def decodeRow (D : VarDom) (T : ItfT) (row : List Bool) (allowed : Option (List Int)) : Res Out :=
  match decodeStart D T row with
  | .error e => .error e
  | .ok (startRange, nlw) =>
    match decodeEnd D T row nlw with
    | .error e => .error e
    | .ok endRange =>
      match middleLoop D T row endRange.1 (row.length + 1) startRange.2 [] with
      | .error e => .error e
      | .ok result =>
        -- `allowedLengths, ok := hints[ALLOWED_LENGTHS].([]int); if !ok { allowedLengths = DEFAULT_ALLOWED_LENGTHS }`
        let allowedLengths := allowed.getD T.defaultAllowed
        if !(lengthOK allowedLengths result.length) then .error .format
        else .ok { text := result, p0 := startRange.2, p1 := endRange.1 }

end Gzx.RowITF
