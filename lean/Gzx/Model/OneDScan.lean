/-
  C09 — model of oned/oned_reader.go : OneDReader.Decode / doDecode, parametric in the row decoder.

  The row decoder is abstracted as `dec : (rowNumber : Nat) → (reversed : Bool) → Res Hit`
  (what `DecodeRow` returns on the binarised row `rowNumber`, resp. on that row reversed) and
  `black : Nat → Bool` (does `GetBlackRow` succeed on that row; a NotFound there skips the row).
  Result points are integer coordinates (the Go code uses float64; every operation applied to them
  here — `w - x - 1`, swapping — is exact on integers).

  Faults: `notFound`, `checksum`, `format` are ReaderExceptions (the scan continues / Decode
  retries as coded); any other fault is returned at once, as in the Go code.
-/
import Gzx.Util
namespace Gzx.OneDScan

structure Hit where
  text : Nat                       -- identifies the decoded content
  orientation : Option Nat         -- ResultMetadataType_ORIENTATION, if present
  points : List (Int × Int)        -- result points (x, y)
  deriving Repr, DecidableEq

def isReaderException : Fault → Bool
  | .notFound => true
  | .checksum => true
  | .format => true
  | _ => false

/-- what the scan does with one row: attempt 0 on the row, attempt 1 on the reversed row -/
inductive RowOutcome where
  | found (h : Hit)
  | abort (e : Fault)      -- a non-reader error: returned immediately
  | next                   -- both attempts failed with reader exceptions
  deriving Repr, DecidableEq

/-- "remember to flip the result points horizontally": only the first two points, only if there are two -/
def flipPoints (width : Nat) : List (Int × Int) → List (Int × Int)
  | p0 :: p1 :: rest => ((width : Int) - p0.1 - 1, p0.2) :: ((width : Int) - p1.1 - 1, p1.2) :: rest
  | ps => ps

def scanRow (width : Nat) (dec : Nat → Bool → Res Hit) (rowNumber : Nat) : RowOutcome :=
  match dec rowNumber false with
  | .ok h => .found h
  | .error e =>
    if !isReaderException e then .abort e
    else
      match dec rowNumber true with
      | .ok h => .found { h with orientation := some 180, points := flipPoints width h.points }
      | .error e' => if !isReaderException e' then .abort e' else .next

/-- the row visited in iteration `x` (Go: `middle ± rowStep * ((x+1)/2)`), as an Int because it can leave the image -/
def rowAt (middle rowStep x : Nat) : Int :=
  if x % 2 = 0 then (middle : Int) + (rowStep : Int) * (((x + 1) / 2 : Nat) : Int)
  else (middle : Int) - (rowStep : Int) * (((x + 1) / 2 : Nat) : Int)

def rowStepOf (height : Nat) (tryHarder : Bool) : Nat :=
  max 1 (if tryHarder then height >>> 8 else height >>> 5)

def maxLinesOf (height : Nat) (tryHarder : Bool) : Nat := if tryHarder then height else 15

/-- iterations x = start, start+1, … (`fuel` of them left) -/
def scanLoop (width height : Nat) (black : Nat → Bool) (dec : Nat → Bool → Res Hit)
    (middle rowStep : Nat) : Nat → Nat → Res Hit
  | 0, _ => .error .notFound
  | fuel + 1, x =>
    let rn := rowAt middle rowStep x
    if rn < 0 ∨ rn ≥ (height : Int) then .error .notFound      -- "if we run off the top or bottom, stop"
    else
      if !black rn.toNat then scanLoop width height black dec middle rowStep fuel (x + 1)
      else
        match scanRow width dec rn.toNat with
        | .found h => .ok h
        | .abort e => .error e
        | .next => scanLoop width height black dec middle rowStep fuel (x + 1)

/-- `doDecode(image, hints)` -/
def doDecode (width height : Nat) (tryHarder : Bool) (black : Nat → Bool) (dec : Nat → Bool → Res Hit) : Res Hit :=
  scanLoop width height black dec (height / 2) (rowStepOf height tryHarder) (maxLinesOf height tryHarder) 0

/-- the rows the loop looks at, in order, until it leaves the image (independent of the decoder) -/
def visitOrder (height : Nat) (tryHarder : Bool) : List Nat :=
  let rec go (middle rowStep : Nat) : Nat → Nat → List Nat
    | 0, _ => []
    | fuel + 1, x =>
      let rn := rowAt middle rowStep x
      if rn < 0 ∨ rn ≥ (height : Int) then [] else rn.toNat :: go middle rowStep fuel (x + 1)
  go (height / 2) (rowStepOf height tryHarder) (maxLinesOf height tryHarder) 0

/-- "Update result points": (x, y) ↦ (height − y − 1, x) with the height of the ROTATED image -/
def rotatePoints (rotHeight : Nat) (ps : List (Int × Int)) : List (Int × Int) :=
  ps.map (fun p => ((rotHeight : Int) - p.2 - 1, p.1))

/-- orientation recorded for a hit of the rotated scan: 270, plus what doDecode already recorded -/
def rotOrientation : Option Nat → Nat
  | some o => (270 + o) % 360
  | none => 270

/-- `Decode(image, hints)`: upright scan; on NotFound and TRY_HARDER (rotation supported) the image
    turned counter-clockwise (`width`/`height` swapped, its own `black'`/`dec'`) is scanned. -/
def decode (width height : Nat) (tryHarder rotateSupported : Bool)
    (black : Nat → Bool) (dec : Nat → Bool → Res Hit)
    (black' : Nat → Bool) (dec' : Nat → Bool → Res Hit) : Res Hit :=
  match doDecode width height tryHarder black dec with
  | .ok h => .ok h
  | .error e =>
    if e ≠ .notFound then .error e
    else if !(tryHarder && rotateSupported) then .error e
    else
      -- rotated image: width' = height, height' = width
      match doDecode height width tryHarder black' dec' with
      | .error e' => .error e'
      | .ok h =>
        .ok { h with orientation := some (rotOrientation h.orientation), points := rotatePoints width h.points }

end Gzx.OneDScan
