/-
  Model of common/perspective_transform.go (C19).

  Same formulas, same branch structure, same argument / field order as the Go code, but over an
  arbitrary type with `+ - * /`, `0`, `1` and decidable equality, so that
    * the driver instantiates it with core `Rat` (exact arithmetic; Go uses float64 — the tie is by
      tolerance only, see specs/C19.json), and
    * `GzxM/Perspective.lean` instantiates it with an arbitrary field and proves the algebra with
      Mathlib's `field_simp` / `ring`.

  Division: Go's float64 division never panics (it yields ±Inf / NaN).  The model's `/` is the
  total division of the carrier (`x / 0 = 0` in `Rat` and in Mathlib fields); every place where a
  divisor can vanish is exposed as a named quantity (`sqDenominator`, `PT.denom`) and
    * every theorem about values carries the guard `… ≠ 0`,
    * the executable entry points used by the driver (`apply?`, `transformPoints?`, …) return
      `none` ("non-finite in Go") instead of dividing by zero.
-/
import Gzx.Util
namespace Gzx.Perspective

/-- `PerspectiveTransform`; field order = order of the Go struct literal
    `{a11, a21, a31, a12, a22, a32, a13, a23, a33}`. -/
structure PT (α : Type) where
  a11 : α
  a21 : α
  a31 : α
  a12 : α
  a22 : α
  a32 : α
  a13 : α
  a23 : α
  a33 : α
  deriving Repr, DecidableEq

section
variable {α : Type} [Add α] [Sub α] [Mul α] [Div α] [Zero α] [One α] [DecidableEq α]

/-- `denominator := p.a13*x + p.a23*y + p.a33` of TransformPoints -/
def PT.denom (p : PT α) (x y : α) : α := p.a13 * x + p.a23 * y + p.a33

/-- one step of `TransformPoints` / `TransformPointsXY` (total division, see the header) -/
def PT.apply (p : PT α) (x y : α) : α × α :=
  ((p.a11 * x + p.a21 * y + p.a31) / p.denom x y, (p.a12 * x + p.a22 * y + p.a32) / p.denom x y)

/-- guarded version: `none` when the denominator vanishes (Go: ±Inf / NaN) -/
def PT.apply? (p : PT α) (x y : α) : Option (α × α) :=
  if p.denom x y = 0 then none else some (p.apply x y)

/-- `(p *PerspectiveTransform) TransformPoints(points []float64)`: interleaved x,y; a trailing
    odd element is left untouched (`maxI := len(points) - 1; for i := 0; i < maxI; i += 2`). -/
def PT.transformPoints (p : PT α) : List α → List α
  | x :: y :: rest => (p.apply x y).1 :: (p.apply x y).2 :: PT.transformPoints p rest
  | rest => rest

/-- guarded `TransformPoints`: `none` as soon as one denominator vanishes -/
def PT.transformPoints? (p : PT α) : List α → Option (List α)
  | x :: y :: rest =>
    match p.apply? x y, PT.transformPoints? p rest with
    | some q, some r => some (q.1 :: q.2 :: r)
    | _, _ => none
  | rest => some rest

/-- loop of `TransformPointsXY`: `n := len(xValues)`; `yValues[i]` panics when `yValues` is shorter;
    surplus `yValues` stay untouched. -/
def PT.transformXYLoop (p : PT α) : List α → List α → Res (List α × List α)
  | [], ys => .ok ([], ys)
  | _ :: _, [] => .error (.panic "yValues[i]: index out of range")
  | x :: xs, y :: ys =>
    match PT.transformXYLoop p xs ys with
    | .ok (xs', ys') => .ok ((p.apply x y).1 :: xs', (p.apply x y).2 :: ys')
    | .error e => .error e

def PT.transformPointsXY (p : PT α) (xs ys : List α) : Res (List α × List α) := p.transformXYLoop xs ys

/-- `denominator := dx1*dy2 - dx2*dy1` of the non-affine branch of SquareToQuadrilateral -/
def sqDenominator (x1 y1 x2 y2 x3 y3 : α) : α :=
  (x1 - x2) * (y3 - y2) - (x3 - x2) * (y1 - y2)

/-- `PerspectiveTransform_SquareToQuadrilateral` -/
def squareToQuadrilateral (x0 y0 x1 y1 x2 y2 x3 y3 : α) : PT α :=
  let dx3 := x0 - x1 + x2 - x3
  let dy3 := y0 - y1 + y2 - y3
  if dx3 = 0 ∧ dy3 = 0 then
    -- Affine
    { a11 := x1 - x0, a21 := x2 - x1, a31 := x0,
      a12 := y1 - y0, a22 := y2 - y1, a32 := y0,
      a13 := 0, a23 := 0, a33 := 1 }
  else
    let dx1 := x1 - x2
    let dx2 := x3 - x2
    let dy1 := y1 - y2
    let dy2 := y3 - y2
    let denominator := dx1 * dy2 - dx2 * dy1
    let a13 := (dx3 * dy2 - dx2 * dy3) / denominator
    let a23 := (dx1 * dy3 - dx3 * dy1) / denominator
    { a11 := x1 - x0 + a13 * x1, a21 := x3 - x0 + a23 * x3, a31 := x0,
      a12 := y1 - y0 + a13 * y1, a22 := y3 - y0 + a23 * y3, a32 := y0,
      a13 := a13, a23 := a23, a33 := 1 }

/-- does SquareToQuadrilateral divide by zero on these arguments? (Go: Inf/NaN coefficients) -/
def sqDegenerate (x0 y0 x1 y1 x2 y2 x3 y3 : α) : Bool :=
  let dx3 := x0 - x1 + x2 - x3
  let dy3 := y0 - y1 + y2 - y3
  if dx3 = 0 ∧ dy3 = 0 then false else decide (sqDenominator x1 y1 x2 y2 x3 y3 = 0)

/-- `buildAdjoint`: transpose of the cofactor matrix, in the Go literal's order -/
def PT.buildAdjoint (p : PT α) : PT α :=
  { a11 := p.a22 * p.a33 - p.a23 * p.a32,
    a21 := p.a23 * p.a31 - p.a21 * p.a33,
    a31 := p.a21 * p.a32 - p.a22 * p.a31,
    a12 := p.a13 * p.a32 - p.a12 * p.a33,
    a22 := p.a11 * p.a33 - p.a13 * p.a31,
    a32 := p.a12 * p.a31 - p.a11 * p.a32,
    a13 := p.a12 * p.a23 - p.a13 * p.a22,
    a23 := p.a13 * p.a21 - p.a11 * p.a23,
    a33 := p.a11 * p.a22 - p.a12 * p.a21 }

/-- `p.times(other)` -/
def PT.times (p other : PT α) : PT α :=
  { a11 := p.a11 * other.a11 + p.a21 * other.a12 + p.a31 * other.a13,
    a21 := p.a11 * other.a21 + p.a21 * other.a22 + p.a31 * other.a23,
    a31 := p.a11 * other.a31 + p.a21 * other.a32 + p.a31 * other.a33,
    a12 := p.a12 * other.a11 + p.a22 * other.a12 + p.a32 * other.a13,
    a22 := p.a12 * other.a21 + p.a22 * other.a22 + p.a32 * other.a23,
    a32 := p.a12 * other.a31 + p.a22 * other.a32 + p.a32 * other.a33,
    a13 := p.a13 * other.a11 + p.a23 * other.a12 + p.a33 * other.a13,
    a23 := p.a13 * other.a21 + p.a23 * other.a22 + p.a33 * other.a23,
    a33 := p.a13 * other.a31 + p.a23 * other.a32 + p.a33 * other.a33 }

/-- determinant of the coefficient matrix (not in the Go code; used by the theorems) -/
def PT.det (p : PT α) : α :=
  p.a11 * (p.a22 * p.a33 - p.a23 * p.a32) - p.a21 * (p.a12 * p.a33 - p.a13 * p.a32)
    + p.a31 * (p.a12 * p.a23 - p.a13 * p.a22)

/-- `PerspectiveTransform_QuadrilateralToSquare`: "the adjoint serves as the inverse" -/
def quadrilateralToSquare (x0 y0 x1 y1 x2 y2 x3 y3 : α) : PT α :=
  (squareToQuadrilateral x0 y0 x1 y1 x2 y2 x3 y3).buildAdjoint

/-- `PerspectiveTransform_QuadrilateralToQuadrilateral`: `sToQ.times(qToS)` -/
def quadrilateralToQuadrilateral (x0 y0 x1 y1 x2 y2 x3 y3 x0p y0p x1p y1p x2p y2p x3p y3p : α) : PT α :=
  let qToS := quadrilateralToSquare x0 y0 x1 y1 x2 y2 x3 y3
  let sToQ := squareToQuadrilateral x0p y0p x1p y1p x2p y2p x3p y3p
  sToQ.times qToS

end
end Gzx.Perspective
