/-
  C09 — poses of a symbol image: padding, integer upscaling, quarter-turn rotations, transposition.
  An image (or module matrix) is its size plus a pixel function; only pixels inside the size matter
  (`Img.Equiv`).  `rotCCW` mirrors GoImageLuminanceSource.RotateCounterClockwise (used by the
  TRY_HARDER retry of OneDReader), `transpose` mirrors qrcode/decoder BitMatrixParser.Mirror,
  `reverseRow` mirrors BitArray.Reverse as OneDReader.doDecode uses it on one row.
  Tied to /repo by the `c09` correspondence suite (`rotccw`, `mirror` ops).
-/
import Gzx.Util
namespace Gzx.Poses

structure Img where
  w : Nat
  h : Nat
  px : Nat → Nat → Bool      -- px x y ; true = black

/-- equality on the visible part -/
def Img.Equiv (a b : Img) : Prop := a.w = b.w ∧ a.h = b.h ∧ ∀ x y, x < a.w → y < a.h → a.px x y = b.px x y

/-- `p` white pixels on every side -/
def pad (p : Nat) (m : Img) : Img :=
  ⟨m.w + 2 * p, m.h + 2 * p, fun x y => if p ≤ x ∧ x < p + m.w ∧ p ≤ y ∧ y < p + m.h then m.px (x - p) (y - p) else false⟩

/-- every module becomes a k×k block -/
def scale (k : Nat) (m : Img) : Img := ⟨m.w * k, m.h * k, fun x y => m.px (x / k) (y / k)⟩

/-- quarter turn clockwise -/
def rot90 (m : Img) : Img := ⟨m.h, m.w, fun x y => m.px y (m.h - 1 - x)⟩

/-- quarter turn counter-clockwise (RotateCounterClockwise) -/
def rotCCW (m : Img) : Img := ⟨m.h, m.w, fun x y => m.px (m.w - 1 - y) x⟩

def rot180 (m : Img) : Img := ⟨m.w, m.h, fun x y => m.px (m.w - 1 - x) (m.h - 1 - y)⟩

/-- mirror image about the main diagonal (BitMatrixParser.Mirror) -/
def transpose (m : Img) : Img := ⟨m.h, m.w, fun x y => m.px y x⟩

/-- sample the centre of every k×k block (what a grid sampler does on an ideal upscaled image) -/
def sampleCentres (k : Nat) (w h : Nat) (m : Img) : Img := ⟨w, h, fun x y => m.px (x * k + k / 2) (y * k + k / 2)⟩

/-- the rows as lists, top to bottom, each left to right -/
def rows (m : Img) : List (List Bool) :=
  (List.range m.h).map (fun y => (List.range m.w).map (fun x => m.px x y))

/-- one pixel row -/
def row (m : Img) (y : Nat) : List Bool := (List.range m.w).map (fun x => m.px x y)

end Gzx.Poses
