/-
  Models of the pure-barcode path of the image-level readers (C06, work package detrest):

    qrcode/qrcode_reader.go          QRCodeReader.extractPureBits / moduleSize      (float64 module size)
    datamatrix/datamatrix_reader.go  extractPureBits / moduleSize                   (integer module size)

  on an ARBITRARY bit matrix (`Img`: width, height, cells).  `BitMatrix.GetTopLeftOnBit` /
  `GetBottomRightOnBit` are taken at specification level (first / last set cell in row-major order;
  the word-level code is C16's refinement).  `image.Get` is a `Reader` (DetCore): `rdGo` = the
  bounds-checked Get of this tree, `rdStrict` = an unguarded Get.  Every Go operation that can panic is
  explicit: `bits, _ := NewBitMatrix(w, h)` (nil on `w < 1 || h < 1`, error dropped), `bits.Set(x, y)`
  (unchecked index into the word array; the model demands the stronger `0 ≤ x < w ∧ 0 ≤ y < h`),
  integer division by the module size.
-/
import Gzx.Model.DetWalk
namespace Gzx.Det.Pure
open Gzx Gzx.Det

/-! ## GetTopLeftOnBit / GetBottomRightOnBit (specification level) -/

/-- first `x' ≥ x` among the next `n` cells with `p x'` -/
def rowFirst (p : Int → Bool) : Nat → Int → Option Int
  | 0, _ => none
  | n + 1, x => if p x then some x else rowFirst p n (x + 1)

/-- first `x' ≤ x` among the next `n` cells downwards with `p x'` -/
def rowLast (p : Int → Bool) : Nat → Int → Option Int
  | 0, _ => none
  | n + 1, x => if p x then some x else rowLast p n (x - 1)

def topLeftFrom (img : Img) : Nat → Int → Option (Int × Int)
  | 0, _ => none
  | n + 1, y =>
    match rowFirst (fun x => img.pix x y) img.w.toNat 0 with
    | some x => some (x, y)
    | none => topLeftFrom img n (y + 1)

/-- `image.GetTopLeftOnBit()`: `[x, y]` of the first set cell in row-major order, nil if none -/
def topLeft (img : Img) : Option (Int × Int) := topLeftFrom img img.h.toNat 0

def bottomRightFrom (img : Img) : Nat → Int → Option (Int × Int)
  | 0, _ => none
  | n + 1, y =>
    match rowLast (fun x => img.pix x y) img.w.toNat (img.w - 1) with
    | some x => some (x, y)
    | none => bottomRightFrom img n (y - 1)

/-- `image.GetBottomRightOnBit()`: the last set cell in row-major order, nil if none -/
def bottomRight (img : Img) : Option (Int × Int) := bottomRightFrom img img.h.toNat (img.h - 1)

/-! ## the matrix read off -/

structure Bits where
  w : Int
  h : Int
  rows : List (List Bool)
  deriving Repr, DecidableEq

/-- `bits, _ := gozxing.NewBitMatrix(w, h)`: nil when a dimension is below 1 (the error is dropped) -/
def newBitMatrix (w h : Int) : Option (Int × Int) := if w < 1 ∨ h < 1 then none else some (w, h)

/-- `bits.Set(x, y)` on the matrix made by `newBitMatrix`: nil dereference on nil; the index is not
    checked by Go beyond the word slice — the model demands the cell to be inside the matrix -/
def setBit (bm : Option (Int × Int)) (x y : Int) : Res Unit :=
  match bm with
  | none => .error (.panic "nil *BitMatrix dereferenced in Set")
  | some (w, h) =>
    if x < 0 ∨ x ≥ w ∨ y < 0 ∨ y ≥ h then .error (.panic "BitMatrix.Set outside the matrix") else .ok ()

/-- `for x := x0; x < x0 + n; x++ { if image.Get(xAt x, yPix) { bits.Set(x, y) } }` -/
def sampleRow (rd : Reader) (bm : Option (Int × Int)) (xAt : Int → Int) (yPix y : Int) : Nat → Int → Res (List Bool)
  | 0, _ => .ok []
  | n + 1, x => do
    let b ← rd (xAt x) yPix
    if b then setBit bm x y
    let rest ← sampleRow rd bm xAt yPix y n (x + 1)
    return b :: rest

/-- `for y := y0; y < y0 + n; y++ { iOffset := yAt y; for x := 0; x < mw; x++ {…} }` -/
def sampleRows (rd : Reader) (bm : Option (Int × Int)) (mw : Int) (xAt yAt : Int → Int) : Nat → Int → Res (List (List Bool))
  | 0, _ => .ok []
  | n + 1, y => do
    let row ← sampleRow rd bm xAt (yAt y) y mw.toNat 0
    let rest ← sampleRows rd bm mw xAt yAt n (y + 1)
    return row :: rest

/-- the tail shared by both readers: allocate, read off, return.  A nil matrix returned with a nil error
    is counted as a panic (the caller hands it to `decoder.Decode`, which dereferences it). -/
def readOff (rd : Reader) (mw mh : Int) (xAt yAt : Int → Int) : Res Bits := do
  let bm := newBitMatrix mw mh
  let rows ← sampleRows rd bm mw xAt yAt mh.toNat 0
  match bm with
  | none => .error (.panic "nil *BitMatrix returned with a nil error")
  | some (w, h) => return { w := w, h := h, rows := rows }

/-- Go integer division `a / b` -/
def goDiv (a b : Int) : Res Int :=
  if b = 0 then .error (.panic "integer divide by zero") else .ok (Int.tdiv a b)

/-! ## datamatrix/datamatrix_reader.go -/
namespace DM

/-- `moduleSize(leftTopBlack, image)` -/
def moduleSize (rd : Reader) (width left top : Int) : Res Int := do
  -- for x < width && image.Get(x, y) { x++ }
  let r ← walk rd (fun x => (x, top)) true 1 (fun x => decide (x < width)) (fun _ => true) (fuelTo width left) left 0
  let x := r.1
  if x = width then .error .notFound
  else
    let moduleSize := x - left
    if moduleSize = 0 then .error .notFound else return moduleSize

/-- the statements `top := leftTopBlack[1]` … `matrixHeight := (bottom - top + 1) / moduleSize`
    (tied to /repo by the regenerated kernel `Gen.KDetrest.dmPureDims`): (top, bottom, left, right, matrixWidth, matrixHeight) -/
def dims (lt rb : Int × Int) (ms : Int) : Res (Int × Int × Int × Int × Int × Int) := do
  let top := lt.2
  let bottom := rb.2
  let left := lt.1
  let right := rb.1
  let matrixWidth ← goDiv (right - left + 1) ms
  let matrixHeight ← goDiv (bottom - top + 1) ms
  return (top, bottom, left, right, matrixWidth, matrixHeight)

/-- `nudge := moduleSize / 2; top += nudge; left += nudge` (kernel `Gen.KDetrest.dmPureNudge`): (nudge, top, left) -/
def nudged (ms top left : Int) : Int × Int × Int :=
  (Int.tdiv ms 2, top + Int.tdiv ms 2, left + Int.tdiv ms 2)

/-- `extractPureBits(image)` -/
def extractPureBits (rd : Reader) (img : Img) : Res Bits :=
  match topLeft img, bottomRight img with
  | some lt, some rb => do
    let ms ← moduleSize rd img.w lt.1 lt.2
    let (top, _, left, _, matrixWidth, matrixHeight) ← dims lt rb ms
    if matrixWidth ≤ 0 ∨ matrixHeight ≤ 0 then .error .notFound
    else
      let (_, top, left) := nudged ms top left
      readOff rd matrixWidth matrixHeight (fun x => left + x * ms) (fun y => top + y * ms)
  | _, _ => .error .notFound

end DM

/-! ## qrcode/qrcode_reader.go -/
namespace QR

/-- the diagonal walk of `moduleSize`: position `(left + k, top + k)`; returns `k` when the loop is left
    (by its condition or by the `break` at the fifth transition) -/
def msLoop (rd : Reader) (width height left top : Int) : Nat → Int → Bool → Int → Res Int
  | 0, k, _, _ => if left + k < width ∧ top + k < height then .error .fuel else .ok k
  | n + 1, k, inBlack, transitions =>
    if left + k < width ∧ top + k < height then do
      let b ← rd (left + k) (top + k)
      if inBlack != b then
        let transitions := transitions + 1
        if transitions = 5 then .ok k
        else msLoop rd width height left top n (k + 1) (!inBlack) transitions
      else msLoop rd width height left top n (k + 1) inBlack transitions
    else .ok k

/-- `QRCodeReader.moduleSize`: `float64(x - leftTopBlack[0]) / 7.0`; also returns the integer numerator -/
def moduleSize {F : Type} (o : FOps F) (rd : Reader) (width height left top : Int) : Res (F × Int) := do
  let k ← msLoop rd width height left top ((width - left).toNat + 1) 0 true 0
  let x := left + k
  let y := top + k
  if x = width ∨ y = height then .error .notFound
  else return (o.div (o.ofInt (x - left)) (o.ofInt 7), x - left)

/-- the "nudged too far" correction of one coordinate -/
def unNudge (start tooFar nudge : Int) : Res Int :=
  if tooFar > 0 then
    if tooFar > nudge then .error .notFound else .ok (start - tooFar)
  else .ok start

/-- `QRCodeReader.extractPureBits(image)` -/
def extractPureBits {F : Type} (o : FOps F) (rd : Reader) (img : Img) : Res Bits :=
  match topLeft img, bottomRight img with
  | some lt, some rb => do
    let (ms, _) ← moduleSize o rd img.w img.h lt.1 lt.2
    let top := lt.2
    let bottom := rb.2
    let left := lt.1
    let right := rb.1
    if left ≥ right ∨ top ≥ bottom then .error .notFound
    else do
      let right ←
        (if bottom - top ≠ right - left then
          let right := left + (bottom - top)
          if right ≥ img.w then (.error .notFound : Res Int) else .ok right
        else .ok right)
      let matrixWidth := o.round (o.div (o.ofInt (right - left + 1)) ms)
      let matrixHeight := o.round (o.div (o.ofInt (bottom - top + 1)) ms)
      if matrixWidth ≤ 0 ∨ matrixHeight ≤ 0 then .error .notFound
      else if matrixHeight ≠ matrixWidth then .error .notFound
      else do
        let nudge := o.toInt (o.div ms (o.ofInt 2))
        let top := top + nudge
        let left := left + nudge
        let nudgedTooFarRight := left + o.toInt (o.mul (o.ofInt (matrixWidth - 1)) ms) - right
        let left ← unNudge left nudgedTooFarRight nudge
        let nudgedTooFarDown := top + o.toInt (o.mul (o.ofInt (matrixHeight - 1)) ms) - bottom
        let top ← unNudge top nudgedTooFarDown nudge
        readOff rd matrixWidth matrixHeight
          (fun x => left + o.toInt (o.mul (o.ofInt x) ms)) (fun y => top + o.toInt (o.mul (o.ofInt y) ms))
  | _, _ => .error .notFound

end QR

/-! ## the readers' glue: `Decode` with PURE_BARCODE = extractPureBits, then the matrix decoder -/

/-- `blackMatrix → extractPureBits → decoder.Decode(bits, hints)`; the decoder is a parameter (its
    totality is `qr_decode_total` / `dm_decode_total`) -/
def pureDecode {α : Type} (extract : Res Bits) (decode : Bits → Res α) : Res α := do
  let bits ← extract
  decode bits

end Gzx.Det.Pure
