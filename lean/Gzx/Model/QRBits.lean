/-
  Bit-level helpers shared by the QR decoder model and the ECI model.

  `common/bit_source.go` (BitSource) is modelled by the list of the bits that are still unread
  (most significant bit of each byte first).  `ReadBits(n)` of the Go code walks bytes with a
  (byteOffset, bitOffset) cursor in three phases (rest of the current byte, whole bytes, a partial
  byte); its result is the big-endian number formed by the next `n` unread bits, which is what the
  model computes directly.  Tied to the code by correspondence (`c01 bs` lines).
-/
import Gzx.Util
namespace Gzx.QRDec

/-- big-endian value of a bit list -/
def natOfBits (bs : List Bool) : Nat := bs.foldl (fun acc b => 2 * acc + b.toNat) 0

/-- the `w` low bits of `n`, most significant first (`BitArray.AppendBits(n, w)`) -/
def natToBits : Nat → Nat → List Bool
  | 0, _ => []
  | w + 1, n => natToBits w (n / 2) ++ [n % 2 == 1]

/-- `NewBitSource(bytes)` : the unread bits -/
def bytesToBits (bs : List Nat) : List Bool := bs.flatMap (natToBits 8)

/-- `BitSource.ReadBits(numBits)`: IllegalArgument unless `1 ≤ n ≤ 32` and `n ≤ Available()` -/
def readBits (n : Nat) (bits : List Bool) : Res (Nat × List Bool) :=
  if n < 1 ∨ n > 32 ∨ n > bits.length then .error .illegalArg
  else .ok (natOfBits (bits.take n), bits.drop n)

/-- any failed `ReadBits` is re-thrown as FormatException by the parser -/
def readBitsF (n : Nat) (bits : List Bool) : Res (Nat × List Bool) :=
  match readBits n bits with
  | .ok r => .ok r
  | .error (.panic w) => .error (.panic w)
  | .error _ => .error .format

/-- group a bit list into bytes (8 bits, MSB first); an incomplete tail is dropped -/
def bitsToBytes : Nat → List Bool → List Nat
  | 0, _ => []
  | fuel + 1, bs =>
    if bs.length < 8 then [] else natOfBits (bs.take 8) :: bitsToBytes fuel (bs.drop 8)

end Gzx.QRDec
