/-
  Typed views of the regenerated Go tables (`GoVal` trees emitted by the translator) for the QR
  decoder model.  No `Gen` import here: the instantiation lives in Gzx/Driver/QRTables.lean.
-/
import Gzx.Model.QRDecoder
namespace Gzx.QRDec
open Gzx

def ecbOfGoVal : GoVal → Option (Nat × Nat)
  | .app "ECB" [c, d] => do let c ← c.asNat?; let d ← d.asNat?; pure (c, d)
  | _ => none

def ecBlocksOfGoVal : GoVal → Option ECBlocks
  | .app "ECBlocks" [ec, .list ecbs] => do
    let ec ← ec.asNat?
    let gs ← ecbs.mapM ecbOfGoVal
    pure ⟨ec, gs⟩
  | _ => none

def versionOfGoVal : GoVal → Option VersionInfo
  | .app "NewVersion" (n :: cs :: blocks) => do
    let n ← n.asNat?
    let cs ← cs.asNatList?
    let bs ← blocks.mapM ecBlocksOfGoVal
    pure ⟨n, cs, bs⟩
  | _ => none

def versionsOfGoVal : GoVal → Option (List VersionInfo)
  | .list vs => vs.mapM versionOfGoVal
  | _ => none

def pairOfGoVal : GoVal → Option (Nat × Nat)
  | .list [a, b] => do let a ← a.asNat?; let b ← b.asNat?; pure (a, b)
  | _ => none

def formatLookupOfGoVal : GoVal → Option (List (Nat × Nat))
  | .list rows => rows.mapM pairOfGoVal
  | _ => none

/-- `NewMode(countBits, bits)` -/
def modeOfGoVal : GoVal → Option (List Nat × Nat)
  | .app "NewMode" [t, b] => do let t ← t.asNatList?; let b ← b.asNat?; pure (t, b)
  | _ => none

end Gzx.QRDec
