/-
  QR decoder model — hand-written mirror of
    qrcode/decoder/mode.go, error_correction_level.go, format_information.go, version.go,
    bit_matrix_parser.go, data_mask.go, data_block.go, decoder.go, decoded_bit_stream_parser.go
  (the bit source, the ECI registry and `guessCharset` live in Model/QRBits.lean, Model/ECI.lean).

  Parameters of the model
    * `Tables` : the data tables of the Go code (format lookup + mask, version BCH words, VERSIONS,
      ECI registry), instantiated by the driver/obligations with the tables regenerated from /repo;
    * `rs` : Reed-Solomon block decoding (`ReedSolomonDecoder.Decode`), a function parameter — the
      driver plugs in the C04 model `Gzx.RS.decode qrCode256` (as do the composed theorems of C01/C05);
    * text codecs: the result of parsing is a list of segments `(charset, bytes)`; turning them into
      a string is golang.org/x/text's job and outside the model.
  Scope: square matrices (`Matrix.dim`); the non-square case is defect D4, owned by C06.
  Panics are values (`Fault.panic`); all checked Go errors surface as `format`/`checksum` exactly as
  `Decoder.Decode` wraps them.
-/
import Gzx.Model.ECI
namespace Gzx.QRDec
open Gzx Gzx.ECI

/-! ## error-correction level, mode -/

inductive EC where
  | L | M | Q | H
  deriving DecidableEq, Repr, Inhabited

def EC.bits : EC → Nat
  | .L => 1 | .M => 0 | .Q => 3 | .H => 2

def EC.name : EC → String
  | .L => "L" | .M => "M" | .Q => "Q" | .H => "H"

/-- index into `Version.ecBlocks` (`GetECBlocksForLevel`) -/
def EC.index : EC → Nat
  | .L => 0 | .M => 1 | .Q => 2 | .H => 3

/-- `ErrorCorrectionLevel_ForBits` -/
def ecForBits : Nat → Res EC
  | 0 => .ok .M
  | 1 => .ok .L
  | 2 => .ok .H
  | 3 => .ok .Q
  | _ => .error .illegalArg

inductive Mode where
  | terminator | numeric | alphanumeric | structuredAppend | byte | eci | kanji
  | fnc1First | fnc1Second | hanzi
  deriving DecidableEq, Repr, Inhabited

/-- `ModeForBits` -/
def modeForBits : Nat → Res Mode
  | 0x0 => .ok .terminator
  | 0x1 => .ok .numeric
  | 0x2 => .ok .alphanumeric
  | 0x3 => .ok .structuredAppend
  | 0x4 => .ok .byte
  | 0x5 => .ok .fnc1First
  | 0x7 => .ok .eci
  | 0x8 => .ok .kanji
  | 0x9 => .ok .fnc1Second
  | 0xD => .ok .hanzi
  | _ => .error .illegalArg

def Mode.bits : Mode → Nat
  | .terminator => 0 | .numeric => 1 | .alphanumeric => 2 | .structuredAppend => 3 | .byte => 4
  | .fnc1First => 5 | .eci => 7 | .kanji => 8 | .fnc1Second => 9 | .hanzi => 0xD

/-- `characterCountBitsForVersions` -/
def Mode.countTable : Mode → List Nat
  | .numeric => [10, 12, 14]
  | .alphanumeric => [9, 11, 13]
  | .byte => [8, 16, 16]
  | .kanji => [8, 10, 12]
  | .hanzi => [8, 10, 12]
  | _ => [0, 0, 0]

/-- `Mode.GetCharacterCountBits(version)` -/
def countBits (m : Mode) (ver : Nat) : Res Nat :=
  let off := if ver ≤ 9 then 0 else if ver ≤ 26 then 1 else 2
  match m.countTable[off]? with
  | some n => .ok n
  | none => .error (.panic "characterCountBitsForVersions[offset]")

/-- `ALPHANUMERIC_CHARS` = "0123456789ABCDEFGHIJKLMNOPQRSTUVWXYZ $%*+-./:" as byte values -/
def alnumChars : List Nat :=
  [48, 49, 50, 51, 52, 53, 54, 55, 56, 57,
   65, 66, 67, 68, 69, 70, 71, 72, 73, 74, 75, 76, 77, 78, 79, 80, 81, 82, 83, 84, 85, 86, 87, 88, 89, 90,
   32, 36, 37, 42, 43, 45, 46, 47, 58]

/-- `toAlphaNumericChar` -/
def toAlnumChar (v : Nat) : Res Nat :=
  match alnumChars[v]? with
  | some c => .ok c
  | none => .error .format

/-! ## DecodedBitStreamParser -/

/-- a parsed segment: bytes appended verbatim (numeric/alphanumeric are ASCII) or bytes that the Go
    code passes through the decoder of a charset -/
inductive Seg where
  | raw (bytes : List Nat)
  | text (cs : Charset) (bytes : List Nat)
  deriving DecidableEq, Repr, Inhabited

/-- `decodeNumericSegment` -/
def decodeNumeric : Nat → List Bool → List Nat → Res (List Nat × List Bool)
  | n + 3, bits, acc => do
    let (v, bits) ← readBitsF 10 bits
    if v ≥ 1000 then .error .format
    else decodeNumeric n bits (acc ++ [48 + v / 100, 48 + (v / 10) % 10, 48 + v % 10])
  | 2, bits, acc => do
    let (v, bits) ← readBitsF 7 bits
    if v ≥ 100 then .error .format else .ok (acc ++ [48 + v / 10, 48 + v % 10], bits)
  | 1, bits, acc => do
    let (v, bits) ← readBitsF 4 bits
    if v ≥ 10 then .error .format else .ok (acc ++ [48 + v], bits)
  | 0, bits, acc => .ok (acc, bits)

/-- the pair/single reading loop of `decodeAlphanumericSegment` -/
def decodeAlnumRaw : Nat → List Bool → List Nat → Res (List Nat × List Bool)
  | n + 2, bits, acc => do
    let (v, bits) ← readBitsF 11 bits
    let c1 ← toAlnumChar (v / 45)
    let c2 ← toAlnumChar (v % 45)
    decodeAlnumRaw n bits (acc ++ [c1, c2])
  | 1, bits, acc => do
    let (v, bits) ← readBitsF 6 bits
    let c ← toAlnumChar v
    .ok (acc ++ [c], bits)
  | 0, bits, acc => .ok (acc, bits)

/-- FNC1 post-processing of an alphanumeric segment: `%%` → `%`, single `%` → GS (0x1D) -/
def fnc1Massage : List Nat → List Nat
  | 37 :: 37 :: rest => 37 :: fnc1Massage rest
  | 37 :: rest => 0x1D :: fnc1Massage rest
  | c :: rest => c :: fnc1Massage rest
  | [] => []

/-- `decodeAlphanumericSegment` -/
def decodeAlnum (count : Nat) (bits : List Bool) (fnc1 : Bool) : Res (List Nat × List Bool) := do
  let (cs, bits) ← decodeAlnumRaw count bits []
  .ok (if fnc1 then fnc1Massage cs else cs, bits)

/-- read `count` groups of `w` bits -/
def readGroups (w : Nat) : Nat → List Bool → List Nat → Res (List Nat × List Bool)
  | 0, bits, acc => .ok (acc, bits)
  | n + 1, bits, acc => do
    let (v, bits) ← readBitsF w bits
    readGroups w n bits (acc ++ [v])

/-- the two Shift_JIS bytes of a 13-bit Kanji value (`(v/0xC0)<<8 | v%0xC0`, then the range offset) -/
def kanjiBytes (v : Nat) : List Nat :=
  let a := (v / 0xC0) * 256 + v % 0xC0
  let a := if a < 0x1F00 then a + 0x8140 else a + 0xC140
  [(a / 256) % 256, a % 256]

/-- the two GB2312 bytes of a 13-bit Hanzi value -/
def hanziBytes (v : Nat) : List Nat :=
  let a := (v / 0x60) * 256 + v % 0x60
  let a := if a < 0xA00 then a + 0xA1A1 else a + 0xA6A1
  [(a / 256) % 256, a % 256]

/-- `decodeKanjiSegment` / `decodeHanziSegment` up to the codec: the byte buffer -/
def decode13 (toBytes : Nat → List Nat) (count : Nat) (bits : List Bool) : Res (List Nat × List Bool) :=
  if count * 13 > bits.length then .error .format
  else do
    let (vs, bits) ← readGroups 13 count bits []
    .ok (vs.flatMap toBytes, bits)

/-- `decodeByteSegment`: the bytes and the charset they are decoded with -/
def decodeByte (reg : Registry) (count : Nat) (bits : List Bool) (eci : Option Entry) (hint : Hint) :
    Res (Charset × List Nat × List Bool) :=
  if 8 * count > bits.length then .error .format
  else do
    let (bytes, bits) ← readGroups 8 count bits []
    match eci with
    | some e => .ok (.named e.name, bytes, bits)
    | none =>
      match guessCharset reg bytes hint with
      | .error (.panic w) => .error (.panic w)
      | .error _ => .error .format
      | .ok cs => .ok (cs, bytes, bits)

structure PSt where
  segs : List Seg := []
  byteSegs : List (List Nat) := []
  saSeq : Int := -1
  saPar : Int := -1
  eci : Option Entry := none
  fnc1 : Bool := false
  fnc1First : Bool := false
  fnc1Second : Bool := false
  deriving Repr, Inhabited

structure Parsed where
  segs : List Seg
  byteSegs : List (List Nat)
  saSeq : Int
  saPar : Int
  symMod : Nat
  deriving DecidableEq, Repr, Inhabited

def wrapF {α} : Res α → Res α
  | .ok a => .ok a
  | .error (.panic w) => .error (.panic w)
  | .error .fuel => .error .fuel
  | .error _ => .error .format

/-- the segment loop of `DecodedBitStreamParser_Decode`; each round consumes at least the 4 mode bits -/
def parseLoop (reg : Registry) (ver : Nat) (hint : Hint) : Nat → PSt → List Bool → Res PSt
  | 0, _, _ => .error .fuel
  | fuel + 1, st, bits =>
    if bits.length < 4 then .ok st
    else do
      let (m4, bits) ← readBitsF 4 bits
      let mode ← wrapF (modeForBits m4)
      match mode with
      | .terminator => .ok st
      | .fnc1First => parseLoop reg ver hint fuel { st with fnc1First := true, fnc1 := true } bits
      | .fnc1Second => parseLoop reg ver hint fuel { st with fnc1Second := true, fnc1 := true } bits
      | .structuredAppend => do
        let (seq, bits) ← readBitsF 8 bits
        let (par, bits) ← readBitsF 8 bits
        parseLoop reg ver hint fuel { st with saSeq := seq, saPar := par } bits
      | .eci => do
        let (value, bits) ← parseECIValue bits
        match byValue reg value with
        | .ok (some e) => parseLoop reg ver hint fuel { st with eci := some e } bits
        | .ok none => .error .format
        | .error (.panic w) => .error (.panic w)
        | .error _ => .error .format
      | .hanzi => do
        let (subset, bits) ← readBitsF 4 bits
        let cb ← countBits .hanzi ver
        let (count, bits) ← readBitsF cb bits
        if subset = 1 then
          let (bytes, bits) ← decode13 hanziBytes count bits
          parseLoop reg ver hint fuel { st with segs := st.segs ++ [.text (.named "GB18030") bytes] } bits
        else parseLoop reg ver hint fuel st bits
      | .numeric => do
        let cb ← countBits .numeric ver
        let (count, bits) ← readBitsF cb bits
        let (cs, bits) ← decodeNumeric count bits []
        parseLoop reg ver hint fuel { st with segs := st.segs ++ [.raw cs] } bits
      | .alphanumeric => do
        let cb ← countBits .alphanumeric ver
        let (count, bits) ← readBitsF cb bits
        let (cs, bits) ← decodeAlnum count bits st.fnc1
        parseLoop reg ver hint fuel { st with segs := st.segs ++ [.raw cs] } bits
      | .byte => do
        let cb ← countBits .byte ver
        let (count, bits) ← readBitsF cb bits
        let (cs, bytes, bits) ← decodeByte reg count bits st.eci hint
        parseLoop reg ver hint fuel
          { st with segs := st.segs ++ [.text cs bytes], byteSegs := st.byteSegs ++ [bytes] } bits
      | .kanji => do
        let cb ← countBits .kanji ver
        let (count, bits) ← readBitsF cb bits
        let (bytes, bits) ← decode13 kanjiBytes count bits
        parseLoop reg ver hint fuel { st with segs := st.segs ++ [.text .sjis bytes] } bits

def symbologyModifier (st : PSt) : Nat :=
  if st.eci.isSome then (if st.fnc1First then 4 else if st.fnc1Second then 6 else 2)
  else (if st.fnc1First then 3 else if st.fnc1Second then 5 else 1)

/-- the parser on the bit string of the data codewords -/
def parseStream (reg : Registry) (bits : List Bool) (ver : Nat) (hint : Hint) : Res Parsed := do
  let st ← parseLoop reg ver hint (bits.length + 1) {} bits
  .ok ⟨st.segs, st.byteSegs, st.saSeq, st.saPar, symbologyModifier st⟩

/-- `DecodedBitStreamParser_Decode(bytes, version, ecLevel, hints)` -/
def parse (reg : Registry) (bytes : List Nat) (ver : Nat) (hint : Hint) : Res Parsed :=
  parseStream reg (bytesToBits bytes) ver hint

/-! ## format information -/

/-- `bits.OnesCount` of a 64-bit word -/
def popCount : Nat → Nat → Nat
  | 0, _ => 0
  | k + 1, n => n % 2 + popCount k (n / 2)

/-- `FormatInformation_NumBitsDiffering` (operands are Go `uint`, 64 bits) -/
def numBitsDiffering (a b : Nat) : Nat := popCount 64 (a ^^^ b)

def maxInt32 : Nat := 2147483647

def fmtLoop (m1 m2 : Nat) : List (Nat × Nat) → Nat → Nat → Option Nat
  | [], best, info => if best ≤ 3 then some info else none
  | (t, d) :: rest, best, info =>
    if t = m1 ∨ t = m2 then some d
    else
      let b1 := numBitsDiffering m1 t
      let (best, info) := if b1 < best then (b1, d) else (best, info)
      let (best, info) :=
        if m1 ≠ m2 then
          (let b2 := numBitsDiffering m2 t
           if b2 < best then (b2, d) else (best, info))
        else (best, info)
      fmtLoop m1 m2 rest best info

/-- `doDecodeFormatInformation`: the 5 data bits of the closest lookup entry -/
def doDecodeFormat (T : List (Nat × Nat)) (m1 m2 : Nat) : Option Nat := fmtLoop m1 m2 T maxInt32 0

/-- `newFormatInformation` -/
def formatInfoOf (d : Nat) : Res (EC × Nat) := do
  let ec ← ecForBits ((d >>> 3) &&& 3)
  .ok (ec, d &&& 7)

/-- `FormatInformation_DecodeFormatInformation`: second attempt with the mask removed -/
def decodeFormatData (T : List (Nat × Nat)) (mask m1 m2 : Nat) : Option Nat :=
  match doDecodeFormat T m1 m2 with
  | some d => some d
  | none => doDecodeFormat T (m1 ^^^ mask) (m2 ^^^ mask)

def decodeFormat (T : List (Nat × Nat)) (mask m1 m2 : Nat) : Res (Option (EC × Nat)) :=
  match decodeFormatData T mask m1 m2 with
  | some d => do let fi ← formatInfoOf d; .ok (some fi)
  | none => .ok none

/-! ## versions -/

structure ECBlocks where
  ecPerBlock : Nat
  groups : List (Nat × Nat)          -- (count, dataCodewords)
  deriving DecidableEq, Repr, Inhabited

structure VersionInfo where
  num : Nat
  centers : List Nat
  ecBlocks : List ECBlocks
  deriving DecidableEq, Repr, Inhabited

structure Tables where
  fmt : List (Nat × Nat)
  fmtMask : Nat
  vdi : List Nat
  versions : List VersionInfo
  eci : Registry
  deriving Repr, Inhabited

/-- `NewVersion`: total codewords from the first (level L) block list -/
def VersionInfo.totalCodewords (v : VersionInfo) : Nat :=
  match v.ecBlocks with
  | [] => 0
  | b :: _ => (b.groups.map (fun g => g.1 * (g.2 + b.ecPerBlock))).foldl (· + ·) 0

def VersionInfo.dimension (v : VersionInfo) : Nat := 17 + 4 * v.num

/-- `Version_GetVersionForNumber` -/
def getVersionForNumber (vs : List VersionInfo) (n : Nat) : Res VersionInfo :=
  if n < 1 ∨ n > 40 then .error .illegalArg
  else match vs[n - 1]? with
    | some v => .ok v
    | none => .error (.panic "VERSIONS[versionNumber-1]")

def verLoop (bits : Nat) : List Nat → Nat → Nat → Nat → Sum Nat (Nat × Nat)
  | [], _, best, bestV => .inr (best, bestV)
  | t :: rest, i, best, bestV =>
    if t = bits then .inl (i + 7)
    else
      let d := numBitsDiffering bits t
      if d < best then verLoop bits rest (i + 1) d (i + 7) else verLoop bits rest (i + 1) best bestV

/-- `Version_decodeVersionInformation` (for non-negative `versionBits`) -/
def decodeVersionInformation (T : Tables) (bits : Nat) : Res VersionInfo :=
  match verLoop bits T.vdi 0 maxInt32 0 with
  | .inl n => getVersionForNumber T.versions n
  | .inr (best, bestV) =>
    if best ≤ 3 then getVersionForNumber T.versions bestV else .error .notFound   -- a plain error in Go

/-! ## bit matrix -/

/-- a square bit matrix; `bit x y` as `BitMatrix.Get(x, y)` -/
structure Matrix where
  dim : Nat
  bit : Nat → Nat → Bool

/-- `BitMatrix.Get` answers `false` outside the matrix (it never panics) -/
def Matrix.get (m : Matrix) (x y : Nat) : Res Bool :=
  if x < m.dim ∧ y < m.dim then .ok (m.bit x y) else .ok false

structure Parser where
  m : Matrix
  ver : Option VersionInfo := none
  fmt : Option (EC × Nat) := none
  mirror : Bool := false

/-- `NewBitMatrixParser` -/
def newParser (m : Matrix) : Res Parser :=
  if m.dim < 21 ∨ m.dim % 4 ≠ 1 then .error .format else .ok { m := m }

/-- `copyBit` -/
def copyBit (m : Matrix) (mirror : Bool) (acc : Nat) (ij : Nat × Nat) : Res Nat := do
  let b ← if mirror then m.get ij.2 ij.1 else m.get ij.1 ij.2
  .ok (2 * acc + b.toNat)

def copyBits (m : Matrix) (mirror : Bool) : List (Nat × Nat) → Nat → Res Nat
  | [], acc => .ok acc
  | ij :: rest, acc => do
    let acc ← copyBit m mirror acc ij
    copyBits m mirror rest acc

/-- `downFrom hi n` = [hi, hi-1, …] (n values) -/
def downFrom (hi : Nat) : Nat → List Nat
  | 0 => []
  | n + 1 => hi :: downFrom (hi - 1) n

def formatCoords1 : List (Nat × Nat) :=
  [(0, 8), (1, 8), (2, 8), (3, 8), (4, 8), (5, 8), (7, 8), (8, 8), (8, 7),
   (8, 5), (8, 4), (8, 3), (8, 2), (8, 1), (8, 0)]

def formatCoords2 (dim : Nat) : List (Nat × Nat) :=
  (downFrom (dim - 1) 7).map (fun j => (8, j)) ++ ((List.range 8).map (fun k => (dim - 8 + k, 8)))

def versionCoords1 (dim : Nat) : List (Nat × Nat) :=
  (downFrom 5 6).flatMap (fun j => (downFrom (dim - 9) 3).map (fun i => (i, j)))

def versionCoords2 (dim : Nat) : List (Nat × Nat) :=
  (downFrom 5 6).flatMap (fun i => (downFrom (dim - 9) 3).map (fun j => (i, j)))

/-- `ReadFormatInformation` (cached in the parser) -/
def readFormatInformation (T : Tables) (p : Parser) : Res ((EC × Nat) × Parser) :=
  match p.fmt with
  | some f => .ok (f, p)
  | none => do
    let b1 ← copyBits p.m p.mirror formatCoords1 0
    let b2 ← copyBits p.m p.mirror (formatCoords2 p.m.dim) 0
    match (← decodeFormat T.fmt T.fmtMask b1 b2) with
    | some f => .ok (f, { p with fmt := some f })
    | none => .error .format

/-- one copy of the version information: decodes and has the matrix' dimension -/
def versionCopyOK (T : Tables) (dim bits : Nat) : Option VersionInfo :=
  match decodeVersionInformation T bits with
  | .ok v => if v.dimension = dim then some v else none
  | .error _ => none

/-- `ReadVersion` -/
def readVersion (T : Tables) (p : Parser) : Res (VersionInfo × Parser) :=
  match p.ver with
  | some v => .ok (v, p)
  | none =>
    let dim := p.m.dim
    let prov := (dim - 17) / 4
    if prov ≤ 6 then do
      let v ← getVersionForNumber T.versions prov
      .ok (v, p)
    else do
      let b1 ← copyBits p.m p.mirror (versionCoords1 dim) 0
      match versionCopyOK T dim b1 with
      | some v => .ok (v, { p with ver := some v })
      | none =>
        let b2 ← copyBits p.m p.mirror (versionCoords2 dim) 0
        match versionCopyOK T dim b2 with
        | some v => .ok (v, { p with ver := some v })
        | none => .error .format

/-! ## data masks, function pattern, codeword reading -/

/-- `DataMaskValues[k].isMasked(i, j)` -/
def maskBit (k i j : Nat) : Bool :=
  match k with
  | 0 => (i + j) % 2 == 0
  | 1 => i % 2 == 0
  | 2 => j % 3 == 0
  | 3 => (i + j) % 3 == 0
  | 4 => (i / 2 + j / 3) % 2 == 0
  | 5 => (i * j) % 6 == 0
  | 6 => (i * j) % 6 < 3
  | 7 => (i + j + (i * j) % 3) % 2 == 0
  | _ => false

/-- `UnmaskBitMatrix`: flips `(x=j, y=i)` wherever `isMasked(i, j)` -/
def unmask (k : Nat) (m : Matrix) : Matrix :=
  { dim := m.dim, bit := fun x y => m.bit x y != maskBit k y x }

/-- `Mirror()`: transposition -/
def mirrorMatrix (m : Matrix) : Matrix := { dim := m.dim, bit := fun x y => m.bit y x }

/-- a `SetRegion(left, top, width, height)` call -/
structure Region where
  left : Nat
  top : Nat
  width : Nat
  height : Nat
  deriving DecidableEq, Repr

def Region.valid (dim : Nat) (r : Region) : Bool :=
  r.height ≥ 1 && r.width ≥ 1 && r.left + r.width ≤ dim && r.top + r.height ≤ dim

def Region.has (r : Region) (x y : Nat) : Bool :=
  r.left ≤ x && x < r.left + r.width && r.top ≤ y && y < r.top + r.height

/-- the alignment-pattern regions of `buildFunctionPattern` (`none`: a centre < 2 gives a negative
    coordinate, which `SetRegion` rejects) -/
def alignmentRegions (centers : List Nat) : Option (List Region) :=
  let max := centers.length
  let idx := List.range max
  (idx.flatMap (fun x => idx.filterMap (fun y =>
      if (x = 0 ∧ (y = 0 ∨ y = max - 1)) ∨ (x = max - 1 ∧ y = 0) then none
      else some (x, y)))).mapM (fun xy =>
    match centers[xy.1]?, centers[xy.2]? with
    | some cx, some cy => if cx ≥ 2 ∧ cy ≥ 2 then some ⟨cy - 2, cx - 2, 5, 5⟩ else none
    | _, _ => none)

/-- `Version.buildFunctionPattern` -/
def buildFunctionPattern (v : VersionInfo) : Res Matrix :=
  let dim := v.dimension
  match alignmentRegions v.centers with
  | none => .error .illegalArg
  | some al =>
    let regs : List Region :=
      [⟨0, 0, 9, 9⟩, ⟨dim - 8, 0, 8, 9⟩, ⟨0, dim - 8, 9, 8⟩] ++ al ++
      [⟨6, 9, 1, dim - 17⟩, ⟨9, 6, dim - 17, 1⟩] ++
      (if v.num > 6 then [⟨dim - 11, 0, 3, 6⟩, ⟨0, dim - 11, 6, 3⟩] else [])
    if regs.all (Region.valid dim) then .ok { dim := dim, bit := fun x y => regs.any (·.has x y) }
    else .error .illegalArg

/-- the column pairs of the zig-zag walk: right column index and direction -/
def colPairs : Nat → Nat → Bool → List (Nat × Bool)
  | 0, _, _ => []
  | fuel + 1, j, up =>
    if j > 0 then
      let j' := if j = 6 then 5 else j
      (j', up) :: colPairs fuel (j' - 2) (!up)
    else []

/-- all cells in reading order -/
def zigzagCells (dim : Nat) : List (Nat × Nat) :=
  (colPairs dim (dim - 1) true).flatMap (fun ju =>
    (List.range dim).flatMap (fun count =>
      let i := if ju.2 then dim - 1 - count else count
      [(ju.1, i), (ju.1 - 1, i)]))

def readDataBits (fp m : Matrix) : List (Nat × Nat) → List Bool → Res (List Bool)
  | [], acc => .ok acc.reverse
  | xy :: rest, acc => do
    let f ← fp.get xy.1 xy.2
    if f then readDataBits fp m rest acc
    else do
      let b ← m.get xy.1 xy.2
      readDataBits fp m rest (b :: acc)

/-- `ReadCodewords`: returns the codewords and the parser holding the unmasked matrix -/
def readCodewords (T : Tables) (p : Parser) : Res (List Nat) × Parser :=
  match readFormatInformation T p with
  | .error e => (.error e, p)
  | .ok (fi, p) =>
    match readVersion T p with
    | .error e => (.error (match e with | .panic w => .panic w | _ => .format), p)
    | .ok (v, p) =>
      let p := { p with m := unmask fi.2 p.m }
      let r : Res (List Nat) := do
        let fp ← wrapF (buildFunctionPattern v)
        let bits ← readDataBits fp p.m (zigzagCells p.m.dim) []
        let total := v.totalCodewords
        if bits.length / 8 > total then .error (.panic "result[resultOffset]")
        else if bits.length / 8 ≠ total then .error .format
        else .ok (bitsToBytes total bits)
      (r, p)

/-- `Remask` -/
def remask (p : Parser) : Parser :=
  match p.fmt with
  | none => p
  | some f => { p with m := unmask f.2 p.m }

/-- `SetMirror` -/
def setMirror (p : Parser) (b : Bool) : Parser := { p with ver := none, fmt := none, mirror := b }

/-! ## DataBlock_GetDataBlocks -/

/-- block structure of a version/level: `(numDataCodewords, blockLength)` per block -/
def blockShapes (b : ECBlocks) : List (Nat × Nat) :=
  b.groups.flatMap (fun g => List.replicate g.1 (g.2, b.ecPerBlock + g.2))

/-- `longerBlocksStartAt`: one past the last block that has the length of block 0 -/
def longerStart (shortTotal : Nat) (lens : List Nat) : Nat :=
  lens.length - (lens.reverse.takeWhile (· ≠ shortTotal)).length

def rawAt (raw : List Nat) (i : Nat) : Res Nat :=
  match raw[i]? with
  | some c => .ok c
  | none => .error (.panic "rawCodewords[rawCodewordsOffset]")

/-- the codewords that the three filling loops of `DataBlock_GetDataBlocks` put into block `j`
    (`n` blocks, the blocks from `L` on are one data codeword longer) -/
def blockCodewords (raw : List Nat) (n L shortData numEc j : Nat) : Res (List Nat) := do
  let data ← (List.range shortData).mapM (fun i => rawAt raw (i * n + j))
  let extra ← if j ≥ L then (do let c ← rawAt raw (shortData * n + (j - L)); pure [c]) else pure []
  let ecs ← (List.range numEc).mapM (fun k => rawAt raw (shortData * n + (n - L) + k * n + j))
  pure (data ++ extra ++ ecs)

/-- `DataBlock_GetDataBlocks`: de-interleaving.  Mirrors the index arithmetic of the three filling
    loops; exact for the block structures the VERSIONS table can hold (one group, or two groups whose
    second is one data codeword longer — `Obligations/C05` checks this shape on the regenerated table). -/
def getDataBlocks (raw : List Nat) (v : VersionInfo) (ec : EC) : Res (List (Nat × List Nat)) :=
  if raw.length ≠ v.totalCodewords then .error .illegalArg
  else
    match v.ecBlocks[ec.index]? with
    | none => .error (.panic "ecBlocks[level]")
    | some eb =>
      let shapes := blockShapes eb
      let n := shapes.length
      match shapes with
      | [] => .error (.panic "result[0]")
      | (_, shortTotal) :: _ =>
        let L := longerStart shortTotal (shapes.map (·.2))
        let shortData := shortTotal - eb.ecPerBlock
        shapes.zipIdx.mapM (fun sj => do
          let cw ← blockCodewords raw n L shortData (shortTotal - shortData) sj.2
          pure (sj.1.1, cw))

/-! ## Decoder -/

structure Decoded where
  parsed : Parsed
  ec : EC
  version : Nat
  data : List Nat              -- the corrected data bytes handed to the bit-stream parser
  mirrored : Bool
  deriving Repr, Inhabited

/-- `correctErrors` for every block and concatenation of the data parts.
    `rs codewords numEc` models `ReedSolomonDecoder.Decode` (corrected word or checksum failure). -/
def correctBlocks (rs : List Nat → Nat → Res (List Nat)) : List (Nat × List Nat) → Res (List Nat)
  | [] => .ok []
  | (nd, cw) :: rest => do
    let fixed ← match rs cw (cw.length - nd) with
      | .ok w => .ok w
      | .error (.panic w) => .error (.panic w)
      | .error _ => .error .checksum
    let tail ← correctBlocks rs rest
    .ok (fixed.take nd ++ tail)

/-- `Decoder.decode(parser, hints)` -/
def decodeOnce (T : Tables) (rs : List Nat → Nat → Res (List Nat)) (hint : Hint) (p : Parser) :
    Res Decoded × Parser :=
  match readVersion T p with
  | .error e => (wrapF (.error e), p)
  | .ok (v, p) =>
    match readFormatInformation T p with
    | .error e => (wrapF (.error e), p)
    | .ok (fi, p) =>
      match readCodewords T p with
      | (.error e, p) => (wrapF (.error e), p)
      | (.ok cws, p) =>
        let r : Res Decoded := do
          let blocks ← wrapF (getDataBlocks cws v fi.1)
          let data ← correctBlocks rs blocks
          let parsed ← parse T.eci data v.num hint
          .ok ⟨parsed, fi.1, v.num, data, false⟩
        (r, p)

def isFormatOrChecksum : Fault → Bool
  | .format => true
  | .checksum => true
  | _ => false

/-- `Decoder.Decode(bits, hints)` with the mirrored second attempt -/
def decode (T : Tables) (rs : List Nat → Nat → Res (List Nat)) (hint : Hint) (m : Matrix) : Res Decoded :=
  match newParser m with
  | .error e => wrapF (.error e)
  | .ok p =>
    match decodeOnce T rs hint p with
    | (.ok d, _) => .ok d
    | (.error (.panic w), _) => .error (.panic w)
    | (.error e1, p) =>
      let p := setMirror (remask p) true
      let second : Res Decoded := do
        let (_, p) ← readVersion T p
        let (_, p) ← readFormatInformation T p
        let p := { p with m := mirrorMatrix p.m }
        let d ← (decodeOnce T rs hint p).1
        .ok { d with mirrored := true }
      match second with
      | .ok d => .ok d
      | .error e2 => if isFormatOrChecksum e2 then .error e1 else .error e2

end Gzx.QRDec
