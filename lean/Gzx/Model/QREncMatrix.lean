/-
  wp `qrenc` — Go-MIRRORING model of qrcode/encoder, part 1 (matrix_util.go, byte_matrix.go, the BitArray
  operations; part 2 = Model/QREncMirror.lean: encoder.go, mask_util.go) as the code IS: control flow, early exits, index arithmetic, ignored errors.

  * `BitArray` = `List Bool` (size = length; the 32-bit word layout is property C16's business),
    `ByteMatrix` = rows of `Int` cells (-1 = empty) with the `width`/`height` fields of the Go struct.
  * Every Go operation that can panic (slice index, `make` with a negative length) is `.error (.panic _)`;
    checked errors are `.error .writer` / `.illegalArg`.  Loops whose termination is not structural
    (`embedDataBits`, `calculateBCHCode`) take fuel and return `.error .fuel` when it runs out.
  * Tables: the mirror reads the tables ISO/IEC 18004 prescribes (`Gzx.QRRef`); `Obligations/C07.lean`
    proves on every run that the tables regenerated from /repo equal them, and the correspondence suite
    `c07m` compares every layer with the real code, so a table edit is seen twice.
  * Kernels: the two small pure functions the translator regenerates on every run
    (`getNumDataBytesAndNumECBytesForBlockID`, `MaskUtil_getDataMaskBit`) are PARAMETERS (`Kernels`);
    the theorems of `Properties/C07Mirror.lean` hold for every `K` with `KernelsOK K`,
    `Obligations/QREnc.lean` proves `KernelsOK` of the regenerated kernels, `refKernels` (hand mirror) is
    what the driver runs.
  * Outside the model (parameters of `EncInput`): the character-set registry look-up and the
    golang.org/x/text encoders (`encoded`, `sjis`), `utf8.RuneCountInString` (`runeCount`).
  * Reed-Solomon: `Gzx.RS.encodeArr` (property C04's mirror of ReedSolomonEncoder.Encode) over `qrCode256`.

  Core Lean only.
-/
import Gzx.Util
import Gzx.Ref.QR
import Gzx.Model.QRVersionChoice
namespace Gzx.QREnc
open Gzx Gzx.QRRef

/-! ## helpers: slices, bit arrays -/

def panicIdx {α} : Res α := .error (.panic "index out of range")

/-- `l[i]` with Go's bounds check -/
def idx {α} (l : List α) (i : Int) : Res α :=
  if i < 0 then panicIdx
  else match l[i.toNat]? with
    | some a => .ok a
    | none => panicIdx

/-- `a[i]` on an array view of a slice (same function as `idx` on the list, constant time in the driver) -/
def idxA {α} (a : Array α) (i : Int) : Res α :=
  if i < 0 then panicIdx
  else match a[i.toNat]? with
    | some x => .ok x
    | none => panicIdx

/-- `for i := lo; i < hi; i++ { s = body(i, s) }` -/
def forRange {σ} (lo hi : Int) (body : Int → σ → Res σ) (s : σ) : Res σ :=
  (List.range (hi - lo).toNat).foldlM (fun s k => body (lo + (k : Nat)) s) s

abbrev Bits := List Bool

/-- bit `k` of a Go `int` (two's complement): `value & (1 << k) != 0` -/
def testBitI (v : Int) (k : Nat) : Bool := (v >>> k) % 2 == 1

/-- `BitArray.AppendBits(value, numBits)` -/
def appendBits (value numBits : Int) (bits : Bits) : Res Bits :=
  if numBits < 0 ∨ numBits > 32 then .error .illegalArg
  else .ok (bits ++ (List.range numBits.toNat).map (fun i => testBitI value (numBits.toNat - 1 - i)))

/-- `_ = bits.AppendBits(value, numBits)`: the error is dropped, the array unchanged -/
def appendBitsIgn (value numBits : Int) (bits : Bits) : Bits :=
  match appendBits value numBits bits with
  | .ok b => b
  | .error _ => bits

/-- `BitArray.Get(i)`.  (The Go method indexes 32-bit words, so an index between `size` and the
    capacity does not panic there; no caller in this package gets that far — `encode_total`.) -/
def getBit (bits : Bits) (i : Int) : Res Bool := idx bits i

def sizeInBytes (bits : Bits) : Int := ((bits.length + 7) / 8 : Nat)

/-- number of bits the word slice of a `BitArray` of this size holds when it was built from
    `NewEmptyBitArray()` by appends (`ensureCapacity` allocates `(size+31)/32` words, at least one) -/
def capacityOf (size : Nat) : Nat := 32 * max 1 ((size + 31) / 32)

/-- `Get(i)` as `ToBytes` sees it: indexes 32-bit words, so an index between `size` and the capacity
    reads a zero bit instead of panicking (only reachable with inconsistent block sizes) -/
def getBitCap (bits : Array Bool) (i : Int) : Res Bool :=
  if i < 0 then panicIdx
  else match bits[i.toNat]? with
    | some b => .ok b
    | none => if i.toNat < capacityOf bits.size then .ok false else panicIdx

/-- inner loop of `ToBytes`: eight `Get(bitOffset)`, most significant first -/
def toByte (bits : Array Bool) (bitOffset : Int) : Res Nat :=
  (List.range 8).foldlM (fun (b : Nat) j => do
    let g ← getBitCap bits (bitOffset + (j : Nat))
    pure (if g then b ||| (1 <<< (7 - j)) else b)) 0

/-- `BitArray.ToBytes(bitOffset, array, 0, numBytes)` into a fresh `make([]byte, numBytes)` -/
def toBytes (bits : Bits) (bitOffset : Int) (numBytes : Int) : Res (List Nat) :=
  if numBytes < 0 then .error (.panic "makeslice: len out of range")
  else
    let arr := bits.toArray
    (List.range numBytes.toNat).mapM (fun i => toByte arr (bitOffset + 8 * (i : Nat)))

/-- `BitArray.Xor(other)` -/
def xorBits (a b : Bits) : Res Bits :=
  if a.length ≠ b.length then .error .illegalArg else .ok (List.zipWith (· != ·) a b)

/-! ## kernels regenerated per run -/

structure Kernels where
  /-- `getNumDataBytesAndNumECBytesForBlockID(numTotalBytes, numDataBytes, numRSBlocks, blockID)`:
      (data bytes, ec bytes, error?) -/
  blockSizes : Int → Int → Int → Int → Int × Int × Bool
  /-- `MaskUtil_getDataMaskBit(maskPattern, x, y)`: (bit, error?) -/
  maskBit : Int → Int → Int → Bool × Bool

/-- hand mirror of `getNumDataBytesAndNumECBytesForBlockID` (Go `/` and `%` truncate) -/
def refBlockSizes (numTotalBytes numDataBytes numRSBlocks blockID : Int) : Int × Int × Bool :=
  if blockID ≥ numRSBlocks then (0, 0, true)
  else
    let numRsBlocksInGroup2 := Int.tmod numTotalBytes numRSBlocks
    let numRsBlocksInGroup1 := numRSBlocks - numRsBlocksInGroup2
    let numTotalBytesInGroup1 := Int.tdiv numTotalBytes numRSBlocks
    let numTotalBytesInGroup2 := numTotalBytesInGroup1 + 1
    let numDataBytesInGroup1 := Int.tdiv numDataBytes numRSBlocks
    let numDataBytesInGroup2 := numDataBytesInGroup1 + 1
    let numEcBytesInGroup1 := numTotalBytesInGroup1 - numDataBytesInGroup1
    let numEcBytesInGroup2 := numTotalBytesInGroup2 - numDataBytesInGroup2
    if numEcBytesInGroup1 ≠ numEcBytesInGroup2 then (0, 0, true)
    else if numRSBlocks ≠ numRsBlocksInGroup1 + numRsBlocksInGroup2 then (0, 0, true)
    else if numTotalBytes ≠
        (numDataBytesInGroup1 + numEcBytesInGroup1) * numRsBlocksInGroup1 +
        (numDataBytesInGroup2 + numEcBytesInGroup2) * numRsBlocksInGroup2 then (0, 0, true)
    else if blockID < numRsBlocksInGroup1 then (numDataBytesInGroup1, numEcBytesInGroup1, false)
    else (numDataBytesInGroup2, numEcBytesInGroup2, false)

/-- hand mirror of `MaskUtil_getDataMaskBit` (Go `%` truncates, `& 0x1` on two's complement) -/
def refMaskBit (maskPattern x y : Int) : Bool × Bool :=
  let and1 (a : Int) : Int := a % 2          -- a & 0x1 (floor mod 2 = lowest two's-complement bit)
  if maskPattern = 0 then (and1 (y + x) == 0, false)
  else if maskPattern = 1 then (and1 y == 0, false)
  else if maskPattern = 2 then (Int.tmod x 3 == 0, false)
  else if maskPattern = 3 then (Int.tmod (y + x) 3 == 0, false)
  else if maskPattern = 4 then (and1 (Int.tdiv y 2 + Int.tdiv x 3) == 0, false)
  else if maskPattern = 5 then (and1 (y * x) + Int.tmod (y * x) 3 == 0, false)
  else if maskPattern = 6 then (and1 (and1 (y * x) + Int.tmod (y * x) 3) == 0, false)
  else if maskPattern = 7 then (and1 (Int.tmod (y * x) 3 + and1 (y + x)) == 0, false)
  else (false, true)

def refKernels : Kernels := ⟨refBlockSizes, refMaskBit⟩

/-! ## tables (what the standard prescribes; `Obligations/C07` ties the Go tables to them) -/

def b2i (b : Bool) : Int := if b then 1 else 0

/-- `matrixUtil_POSITION_DETECTION_PATTERN` -/
def pdp : List (List Int) := (List.range 7).map (fun y => (List.range 7).map (fun x => b2i (finderDark 1 x y)))

/-- `matrixUtil_POSITION_ADJUSTMENT_PATTERN` -/
def pap : List (List Int) :=
  (List.range 5).map (fun y => (List.range 5).map (fun x => b2i (alignmentDark 2 (16 + x) (16 + y))))

/-- `matrixUtil_POSITION_ADJUSTMENT_PATTERN_COORDINATE_TABLE`: rows padded with -1 to seven entries -/
def alignTable : List (List Int) :=
  (List.range 40).map (fun i =>
    let cs := alignCentres (i + 1)
    cs.map Int.ofNat ++ List.replicate (7 - cs.length) (-1))

/-- `matrixUtil_TYPE_INFO_COORDINATES` -/
def typeInfoCoordinates : List (List Int) :=
  (List.range 15).map (fun i => [((formatPos1 i).1 : Int), ((formatPos1 i).2 : Int)])

/-- `alphanumericTable` (96 entries) -/
def alphanumericTable : List Int :=
  (List.range 96).map (fun c => match alnumCode c with | some k => (k : Int) | none => -1)

def tables : QRVersionChoice.QRTables := QRVersionChoice.refTables

/-- Go value of `decoder.ErrorCorrectionLevel` (= the two indicator bits) -/
def ecOfInt (e : Int) : Option EC :=
  if e = 1 then some .L else if e = 0 then some .M else if e = 3 then some .Q else if e = 2 then some .H else none

/-! ## ByteMatrix (byte_matrix.go) -/

structure ByteMatrix where
  bytes : List (List Int)
  width : Int
  height : Int
  deriving DecidableEq, Repr, Inhabited

/-- `NewByteMatrix(width, height)` -/
def newByteMatrix (width height : Int) : Res ByteMatrix :=
  if height < 0 ∨ (0 < height ∧ width < 0) then .error (.panic "makeslice: len out of range")
  else .ok ⟨List.replicate height.toNat (List.replicate width.toNat 0), width, height⟩

/-- `Get(x, y) = bytes[y][x]` -/
def ByteMatrix.get (m : ByteMatrix) (x y : Int) : Res Int := do
  let row ← idx m.bytes y
  idx row x

/-- `Set(x, y, value)`: `bytes[y][x] = value` -/
def ByteMatrix.set (m : ByteMatrix) (x y : Int) (value : Int) : Res ByteMatrix := do
  let row ← idx m.bytes y
  let _ ← idx row x
  pure { m with bytes := m.bytes.set y.toNat (row.set x.toNat value) }

/-- `SetBool(x, y, value)` -/
def ByteMatrix.setBool (m : ByteMatrix) (x y : Int) (value : Bool) : Res ByteMatrix :=
  m.set x y (b2i value)

/-- `Clear(value)` -/
def ByteMatrix.clear (m : ByteMatrix) (value : Int) : ByteMatrix :=
  { m with bytes := m.bytes.map (fun row => row.map (fun _ => value)) }

def isEmpty (value : Int) : Bool := value == -1

/-! ## matrix_util.go: BCH codes, type and version information bits -/

/-- `findMSBSet(value) = 32 - bits.LeadingZeros32(uint32(value))` -/
def findMSBSet (value : Nat) : Nat :=
  (List.range 32).foldl (fun acc i => if (value % 4294967296).testBit i then i + 1 else acc) 0

/-- the division loop of `calculateBCHCode` -/
def bchLoop (poly msbSetInPoly : Nat) : Nat → Nat → Res Nat
  | 0, _ => .error .fuel
  | fuel + 1, value =>
    if findMSBSet value ≥ msbSetInPoly then
      bchLoop poly msbSetInPoly fuel (value ^^^ (poly <<< (findMSBSet value - msbSetInPoly)))
    else .ok value

/-- `calculateBCHCode(value, poly)` for non-negative arguments -/
def calculateBCHCode (value poly : Nat) : Res Nat :=
  if poly = 0 then .error .illegalArg
  else
    let msbSetInPoly := findMSBSet poly
    bchLoop poly msbSetInPoly 64 (value <<< (msbSetInPoly - 1))

def typeInfoPoly : Nat := 0x537
def typeInfoMaskPattern : Nat := 0x5412
def versionInfoPoly : Nat := 0x1f25

/-- `QRCode_IsValidMaskPattern` -/
def isValidMaskPattern (maskPattern : Int) : Bool := maskPattern ≥ 0 && maskPattern < 8

/-- `makeTypeInfoBits(ecLevel, maskPattern, bits)` on an empty `bits` -/
def makeTypeInfoBits (ec : EC) (maskPattern : Int) : Res Bits := do
  if !isValidMaskPattern maskPattern then .error .writer
  let typeInfo : Nat := (ec.bits <<< 3) ||| maskPattern.toNat
  let bits := appendBitsIgn typeInfo 5 []
  let bchCode ← match calculateBCHCode typeInfo typeInfoPoly with     -- error dropped (poly is a constant)
    | .ok c => pure c
    | .error (.panic w) => .error (.panic w)
    | .error .fuel => .error .fuel
    | .error _ => pure 0
  let bits := appendBitsIgn bchCode 10 bits
  let maskBits := appendBitsIgn typeInfoMaskPattern 15 []
  let bits := match xorBits bits maskBits with                         -- error dropped
    | .ok b => b
    | .error _ => bits
  if bits.length ≠ 15 then .error .writer
  pure bits

/-- `makeVersionInfoBits(version, bits)` on an empty `bits` -/
def makeVersionInfoBits (versionNumber : Nat) : Res Bits := do
  let bits := appendBitsIgn versionNumber 6 []
  let bchCode ← match calculateBCHCode versionNumber versionInfoPoly with
    | .ok c => pure c
    | .error (.panic w) => .error (.panic w)
    | .error .fuel => .error .fuel
    | .error _ => pure 0
  let bits := appendBitsIgn bchCode 12 bits
  if bits.length ≠ 18 then .error .writer
  pure bits

/-! ## matrix_util.go: function patterns -/

def embedPositionDetectionPattern (xStart yStart : Int) (m : ByteMatrix) : Res ByteMatrix :=
  forRange 0 7 (fun y m => do
    let patternY ← idx pdp y
    forRange 0 7 (fun x m => do
      let v ← idx patternY x
      m.set (xStart + x) (yStart + y) v) m) m

def embedPositionAdjustmentPattern (xStart yStart : Int) (m : ByteMatrix) : Res ByteMatrix :=
  forRange 0 5 (fun y m => do
    let patternY ← idx pap y
    forRange 0 5 (fun x m => do
      let v ← idx patternY x
      m.set (xStart + x) (yStart + y) v) m) m

def embedHorizontalSeparationPattern (xStart yStart : Int) (m : ByteMatrix) : Res ByteMatrix :=
  forRange 0 8 (fun x m => do
    if !isEmpty (← m.get (xStart + x) yStart) then .error .writer
    m.set (xStart + x) yStart 0) m

def embedVerticalSeparationPattern (xStart yStart : Int) (m : ByteMatrix) : Res ByteMatrix :=
  forRange 0 7 (fun y m => do
    if !isEmpty (← m.get xStart (yStart + y)) then .error .writer
    m.set xStart (yStart + y) 0) m

/-- `embedPositionDetectionPatternsAndSeparators` -/
def embedPositionDetectionPatternsAndSeparators (m : ByteMatrix) : Res ByteMatrix := do
  let pdpWidth : Int := 7         -- len(matrixUtil_POSITION_DETECTION_PATTERN[0])
  let m ← embedPositionDetectionPattern 0 0 m
  let m ← embedPositionDetectionPattern (m.width - pdpWidth) 0 m
  let m ← embedPositionDetectionPattern 0 (m.width - pdpWidth) m
  let hspWidth : Int := 8
  let m ← embedHorizontalSeparationPattern 0 (hspWidth - 1) m
  let m ← embedHorizontalSeparationPattern (m.width - hspWidth) (hspWidth - 1) m
  let m ← embedHorizontalSeparationPattern 0 (m.width - hspWidth) m
  let vspSize : Int := 7
  let m ← embedVerticalSeparationPattern vspSize 0 m
  let m ← embedVerticalSeparationPattern (m.height - vspSize - 1) 0 m
  embedVerticalSeparationPattern vspSize (m.height - vspSize) m

/-- `embedDarkDotAtLeftBottomCorner` -/
def embedDarkDotAtLeftBottomCorner (m : ByteMatrix) : Res ByteMatrix := do
  if (← m.get 8 (m.height - 8)) = 0 then .error .writer
  m.set 8 (m.height - 8) 1

/-- `maybeEmbedPositionAdjustmentPatterns(version, matrix)` -/
def maybeEmbedPositionAdjustmentPatterns (versionNumber : Int) (m : ByteMatrix) : Res ByteMatrix :=
  if versionNumber < 2 then .ok m
  else do
    let index := versionNumber - 1
    let coordinates ← idx alignTable index
    coordinates.foldlM (fun m y =>
      if y ≥ 0 then
        coordinates.foldlM (fun m x => do
          if x ≥ 0 then
            if isEmpty (← m.get x y) then embedPositionAdjustmentPattern (x - 2) (y - 2) m
            else pure m
          else pure m) m
      else pure m) m

/-- `embedTimingPatterns` -/
def embedTimingPatterns (m : ByteMatrix) : Res ByteMatrix :=
  forRange 8 (m.width - 8) (fun i m => do
    let bit : Int := Int.tmod (i + 1) 2
    let m ← if isEmpty (← m.get i 6) then m.set i 6 bit else pure m
    if isEmpty (← m.get 6 i) then m.set 6 i bit else pure m) m

/-- `embedBasicPatterns(version, matrix)` -/
def embedBasicPatterns (versionNumber : Int) (m : ByteMatrix) : Res ByteMatrix := do
  let m ← embedPositionDetectionPatternsAndSeparators m
  let m ← embedDarkDotAtLeftBottomCorner m
  let m ← maybeEmbedPositionAdjustmentPatterns versionNumber m
  embedTimingPatterns m

/-- the loop of `embedTypeInfo`; `vals` = the cell values of the type-info bits (`SetBool(x, y, bit)` stores
    `b2i bit`), most significant first.  Generic in the values so that the placement can be checked once per
    version with position tags (Proofs/QREncFunc*.lean). -/
def embedTypeInfoVals (vals : List Int) (m : ByteMatrix) : Res ByteMatrix :=
  let size : Int := vals.length
  forRange 0 size (fun i m => do
    let bit ← idx vals (size - 1 - i)                -- typeInfoBits.Get(typeInfoBits.GetSize() - 1 - i)
    let coordinates ← idx typeInfoCoordinates i
    let x1 ← idx coordinates 0
    let y1 ← idx coordinates 1
    let m ← m.set x1 y1 bit
    if i < 8 then
      m.set (m.width - i - 1) 8 bit
    else do
      let x2 : Int := 8
      let y2 : Int := m.height - 7 + (i - 8)
      let m ← m.set x2 y2 bit
      m.set x2 y2 bit) m

def embedTypeInfoBits (typeInfoBits : Bits) (m : ByteMatrix) : Res ByteMatrix :=
  embedTypeInfoVals (typeInfoBits.map b2i) m

/-- `embedTypeInfo(ecLevel, maskPattern, matrix)` -/
def embedTypeInfo (ec : EC) (maskPattern : Int) (m : ByteMatrix) : Res ByteMatrix := do
  let typeInfoBits ← makeTypeInfoBits ec maskPattern
  embedTypeInfoBits typeInfoBits m

/-- the double loop of `maybeEmbedVersionInfo`; `vals` = cell values of the version-info bits, most significant first -/
def embedVersionInfoVals (vals : List Int) (m : ByteMatrix) : Res ByteMatrix := do
  let r ← forRange 0 6 (fun i (st : ByteMatrix × Int) =>
    forRange 0 3 (fun j (st : ByteMatrix × Int) => do
      let (m, bitIndex) := st
      let bit ← idx vals bitIndex                    -- versionInfoBits.Get(bitIndex)
      let m ← m.set i (m.height - 11 + j) bit
      let m ← m.set (m.height - 11 + j) i bit
      pure (m, bitIndex - 1)) st) (m, 6 * 3 - 1)
  pure r.1

def embedVersionInfoBits (versionInfoBits : Bits) (m : ByteMatrix) : Res ByteMatrix :=
  embedVersionInfoVals (versionInfoBits.map b2i) m

/-- `maybeEmbedVersionInfo(version, matrix)` -/
def maybeEmbedVersionInfo (versionNumber : Nat) (m : ByteMatrix) : Res ByteMatrix :=
  if versionNumber < 7 then .ok m
  else do
    let versionInfoBits ← makeVersionInfoBits versionNumber
    embedVersionInfoBits versionInfoBits m

/-! ## matrix_util.go: embedDataBits — the zig-zag loop exactly as coded -/

/-- Skeleton of the three nested loops of `embedDataBits`, generic in what happens at a cell
    (`step xx y` is the body of `for i := 0; i < 2; i++` with `xx = x - i`). -/
def zigzagColumn {σ} (step : Int → Int → σ → Res σ) (height x direction : Int) : Nat → Int → σ → Res (σ × Int)
  | 0, _, _ => .error .fuel
  | fuel + 1, y, s =>
    if y ≥ 0 ∧ y < height then do          -- for y >= 0 && y < matrix.GetHeight()
      let s ← step x y s                    --   i = 0: xx = x
      let s ← step (x - 1) y s              --   i = 1: xx = x - 1
      zigzagColumn step height x direction fuel (y + direction) s
    else .ok (s, y)

def zigzagOuter {σ} (step : Int → Int → σ → Res σ) (height : Int) : Nat → Int → Int → Int → σ → Res σ
  | 0, _, _, _, _ => .error .fuel
  | fuel + 1, x, y, direction, s =>
    if x > 0 then do                        -- for x > 0
      let x := if x = 6 then x - 1 else x   --   skip the vertical timing pattern
      let (s, y) ← zigzagColumn step height x direction (height.toNat + 1) y s
      let direction := -direction           --   reverse the direction
      let y := y + direction
      zigzagOuter step height fuel (x - 2) y direction s
    else .ok s

/-- the whole traversal, started at the lower right cell going up -/
def zigzagLoop {σ} (step : Int → Int → σ → Res σ) (width height : Int) (s : σ) : Res σ :=
  zigzagOuter step height (width.toNat + 1) (width - 1) (height - 1) (-1) s

/-- body of the innermost loop of `embedDataBits` at cell (xx, y): state = (matrix, bitIndex) -/
def embedCell (K : Kernels) (dataBits : Array Bool) (maskPattern : Int) (xx y : Int) (st : ByteMatrix × Nat) :
    Res (ByteMatrix × Nat) := do
  let (m, bitIndex) := st
  if !isEmpty (← m.get xx y) then pure (m, bitIndex)          -- continue
  else
    let (bit, bitIndex) ← if bitIndex < dataBits.size then do
        let b ← idxA dataBits bitIndex
        pure (b, bitIndex + 1)
      else pure (false, bitIndex)
    let bit ← if maskPattern ≠ -1 then
        match K.maskBit maskPattern xx y with
        | (_, true) => .error .writer
        | (maskBit, false) => pure (if maskBit then !bit else bit)
      else pure bit
    let m ← m.setBool xx y bit
    pure (m, bitIndex)

/-- `embedDataBits(dataBits, maskPattern, matrix)` -/
def embedDataBits (K : Kernels) (dataBits : Bits) (maskPattern : Int) (m : ByteMatrix) : Res ByteMatrix := do
  let (m, bitIndex) ← zigzagLoop (embedCell K dataBits.toArray maskPattern) m.width m.height (m, 0)
  if bitIndex ≠ dataBits.length then .error .writer
  pure m

/-- `MatrixUtil_buildMatrix(dataBits, ecLevel, version, maskPattern, matrix)`: the matrix after the call -/
def buildMatrix (K : Kernels) (dataBits : Bits) (ec : EC) (versionNumber : Nat) (maskPattern : Int)
    (m : ByteMatrix) : Res ByteMatrix := do
  let m := m.clear (-1)
  let m ← embedBasicPatterns versionNumber m
  let m ← embedTypeInfo ec maskPattern m
  let m ← maybeEmbedVersionInfo versionNumber m
  embedDataBits K dataBits maskPattern m

end Gzx.QREnc
